# Sensitivity suite: construct-keyed source edits applied to a scratch copy of the CURRENT /repo.
#   kind "M": breaks one rule instance while still compiling; the named rule must report.
#   kind "B": behaviour-preserving rewrite; every rule of the property must stay silent.
# An edit whose `old` text is not present exactly once in the current tree, or whose variant does not compile,
# is recorded as skipped (the verdict on /repo never depends on this suite).
# Fields: prop, name, kind, file, old, new, expect (rule id that must report; M only)

W = "ecs/world.go"
WI = "ecs/world_internal.go"
AR = "ecs/archetype.go"
AN = "ecs/archetype_node.go"
Q = "ecs/query.go"
CA = "ecs/cache.go"
PO = "ecs/pool.go"
UT = "ecs/util.go"
RG = "ecs/registry.go"
RS = "ecs/resources.go"
BM = "ecs/bitmask.go"
FL = "ecs/filter.go"
FF = "filter/filter.go"
LD = "listener/dispatch.go"
LU = "listener/util.go"
GQ = "generic/query_generated.go"
GM = "generic/map_generated.go"
GC = "generic/compiled.go"
EN = "ecs/entity.go"
FN = "ecs/functions.go"

EDITS = [
 # ---------------- C01 ----------------
 dict(prop="C01", name="drop swap fix-up store in setRelation", kind="M", file=WI, expect="C01.R1",
      old="""	swapped := oldArch.Remove(index.index)

	if swapped {
		swapEntity := oldArch.GetEntity(index.index)
		w.entities[swapEntity.id].index = index.index
	}
	w.entities[entity.id] = entityIndex{arch: arch, index: newIndex}

	if !target.IsZero() {
		w.targetEntities.Set(target.id, true)
	}

	oldTarget := oldArch.RelationTarget""",
      new="""	swapped := oldArch.Remove(index.index)

	if swapped {
		_ = oldArch.GetEntity(index.index)
	}
	w.entities[entity.id] = entityIndex{arch: arch, index: newIndex}

	if !target.IsZero() {
		w.targetEntities.Set(target.id, true)
	}

	oldTarget := oldArch.RelationTarget"""),
 dict(prop="C01", name="index.index = i in setRelationArch", kind="M", file=WI, expect="C01.R2",
      old="""		arch.SetEntity(idx, entity)
		index.arch = arch
		index.index = idx

		for _, id := range oldIDs {
			comp := oldArch.Get(i, id)""",
      new="""		arch.SetEntity(idx, entity)
		index.arch = arch
		index.index = i

		for _, id := range oldIDs {
			comp := oldArch.Get(i, id)"""),
 dict(prop="C01", name="negate mask filter in exchangeArch copy loop", kind="M", file=WI, expect="C01.R3",
      old="""		for _, id := range oldIDs {
			if mask.Get(id) {
				comp := oldArch.Get(i, id)
				arch.SetPointer(idx, id, comp)
			}
		}""",
      new="""		for _, id := range oldIDs {
			if mask.Get(id) && id.id != 3 {
				comp := oldArch.Get(i, id)
				arch.SetPointer(idx, id, comp)
			}
		}"""),
 dict(prop="C01", name="drop ZeroAll in Remove", kind="M", file=AR, expect="C01.R4",
      old="""	a.ZeroAll(old)
	a.len--""", new="""	a.len--"""),
 dict(prop="C01", name="drop entityPointer refresh in extend", kind="M", file=AR, expect="C01.R5",
      old="""	a.entityBuffer = reflect.New(reflect.ArrayOf(int(a.cap), entityType)).Elem()
	a.entityPointer = a.entityBuffer.Addr().UnsafePointer()
	reflect.Copy(a.entityBuffer, old)""",
      new="""	a.entityBuffer = reflect.New(reflect.ArrayOf(int(a.cap), entityType)).Elem()
	reflect.Copy(a.entityBuffer, old)"""),
 dict(prop="C01", name="copy loops as index loops (benign)", kind="B", file=WI,
      old="""	for _, id := range oldArch.node.Ids {
		comp := oldArch.Get(index.index, id)
		arch.SetPointer(newIndex, id, comp)
	}""",
      new="""	for k := 0; k < len(oldArch.node.Ids); k++ {
		id := oldArch.node.Ids[k]
		comp := oldArch.Get(index.index, id)
		arch.SetPointer(newIndex, id, comp)
	}"""),
 # ---------------- C02 ----------------
 dict(prop="C02", name="drop gen++ in Recycle", kind="M", file=PO, expect="C02.R2",
      old="""	p.entities[e.id].gen++
	p.next, p.entities[e.id].id = e.id, p.next""", new="""	p.next, p.entities[e.id].id = e.id, p.next"""),
 dict(prop="C02", name="write pool field from World.Reset directly", kind="M", file=W, expect="C02.R1",
      old="""	w.entityPool.Reset()
	w.locks.Reset()""", new="""	w.entityPool.Reset()
	w.entityPool.next = 0
	w.locks.Reset()"""),
 dict(prop="C02", name="second Recycle in removeEntities loop", kind="M", file=WI, expect="C02.R4",
      old="""			w.entityPool.Recycle(entity)
		}
		arch.Reset()""", new="""			w.entityPool.Recycle(entity)
			if j > 1000000 {
				w.entityPool.Recycle(entity)
			}
		}
		arch.Reset()"""),
 dict(prop="C02", name="Reset keeps nothing ([:0])", kind="M", file=PO, expect="C02.R3",
      old="""	p.entities = p.entities[:1]
	p.next = 0
	p.available = 0
}

// Alive""", new="""	p.entities = p.entities[:0]
	p.next = 0
	p.available = 0
}

// Alive"""),
 dict(prop="C02", name="inline Available() (benign)", kind="B", file=WI,
      old="""	required := len + int(count) - w.entityPool.Available()""", new="""	required := len + int(count) - int(w.entityPool.available)"""),
 # ---------------- C03 ----------------
 dict(prop="C03", name="countEntities without isBatch branch", kind="M", file=Q, expect="C03.R1",
      old="""	if q.isBatch {
		batch := q.nodeArchetypes.(*batchArchetypes)
		nArch := batch.Len()
		var j int32
		for j = 0; j < nArch; j++ {
			count += batch.EndIndex[j] - batch.StartIndex[j]
		}
		return int(count)
	}

	for _, nd := range q.nodes {
		if !nd.IsActive || !nd.Matches(q.filter) {
			continue
		}

		if !nd.HasRelation {
			// There should be at least one archetype.
			// Otherwise, the node would be inactive.
			arch := nd.Archetypes().Get(0)
			count += arch.Len()
			continue
		}""",
      new="""	for _, nd := range q.nodes {
		if !nd.IsActive || !nd.Matches(q.filter) {
			continue
		}

		if !nd.HasRelation {
			// There should be at least one archetype.
			// Otherwise, the node would be inactive.
			arch := nd.Archetypes().Get(0)
			count += arch.Len()
			continue
		}"""),
 dict(prop="C03", name="drop !nd.IsActive in entityAt", kind="M", file=Q, expect="C03.R3",
      old="""	for _, nd := range q.nodes {
		if !nd.IsActive || !nd.Matches(q.filter) {
			continue
		}

		if !nd.HasRelation {
			// There should be at least one archetype.
			// Otherwise, the node would be inactive.
			arch := nd.Archetypes().Get(0)

			ln := arch.Len()""",
      new="""	for _, nd := range q.nodes {
		if !nd.Matches(q.filter) {
			continue
		}

		if !nd.HasRelation {
			// There should be at least one archetype.
			// Otherwise, the node would be inactive.
			arch := nd.Archetypes().Get(0)

			ln := arch.Len()"""),
 dict(prop="C03", name="read start after AllocN in setRelationArch", kind="M", file=WI, expect="C03.R4",
      old="""	startIdx := arch.Len()
	count := oldArchLen
	arch.AllocN(count)

	var i uint32
	for i = 0; i < count; i++ {
		idx := startIdx + i
		entity := oldArch.GetEntity(i)
		index := &w.entities[entity.id]
		arch.SetEntity(idx, entity)
		index.arch = arch
		index.index = idx

		for _, id := range oldIDs {
			comp := oldArch.Get(i, id)""",
      new="""	count := oldArchLen
	arch.AllocN(count)
	startIdx := arch.Len()

	var i uint32
	for i = 0; i < count; i++ {
		idx := startIdx + i
		entity := oldArch.GetEntity(i)
		index := &w.entities[entity.id]
		arch.SetEntity(idx, entity)
		index.arch = arch
		index.index = idx

		for _, id := range oldIDs {
			comp := oldArch.Get(i, id)"""),
 dict(prop="C03", name="reorder the two continue tests (benign)", kind="B", file=Q,
      old="""		if !n.IsActive {
			continue
		}
		if !n.Matches(q.filter) {
			continue
		}""",
      new="""		if !n.IsActive || !n.Matches(q.filter) {
			continue
		}"""),
 # ---------------- C04 ----------------
 dict(prop="C04", name="bits[2] twice in Contains", kind="M", file=BM, expect="C04.R1",
      old="""		b.bits[2]&other.bits[2] == other.bits[2] &&
		b.bits[3]&other.bits[3] == other.bits[3]""",
      new="""		b.bits[2]&other.bits[2] == other.bits[2] &&
		b.bits[2]&other.bits[2] == other.bits[2]"""),
 dict(prop="C04", name="| for & in word 3 of And", kind="M", file=BM, expect="C04.R2",
      old="""			b.bits[2] & other.bits[2],
			b.bits[3] & other.bits[3],""", new="""			b.bits[2] & other.bits[2],
			b.bits[3] | other.bits[3],"""),
 dict(prop="C04", name="/ 32 in Set", kind="M", file=BM, expect="C04.R3",
      old="""func (b *Mask) Set(bit ID, value bool) {
	idx := bit.id / 64""", new="""func (b *Mask) Set(bit ID, value bool) {
	idx := bit.id / 32"""),
 dict(prop="C04", name="XOR.Matches with ==", kind="M", file=FF, expect="C04.R4",
      old="""	return f.L.Matches(bits) != f.R.Matches(bits)""", new="""	return f.L.Matches(bits) == f.R.Matches(bits)"""),
 dict(prop="C04", name="Exclusive with Exclude: b", kind="M", file="ecs/bitmask_common.go", expect="C04.R4",
      old="""		Include: b,
		Exclude: b.Not(),""", new="""		Include: b,
		Exclude: b,"""),
 dict(prop="C04", name="b&o==o as o&^b==0 (benign)", kind="B", file=BM,
      old="""	return b.bits[0]&other.bits[0] == other.bits[0] &&
		b.bits[1]&other.bits[1] == other.bits[1] &&
		b.bits[2]&other.bits[2] == other.bits[2] &&
		b.bits[3]&other.bits[3] == other.bits[3]""",
      new="""	return other.bits[0]&^b.bits[0] == 0 &&
		other.bits[1]&^b.bits[1] == 0 &&
		other.bits[2]&^b.bits[2] == 0 &&
		other.bits[3]&^b.bits[3] == 0"""),
 dict(prop="C04", name="XOR as (l||r)&&!(l&&r) (benign)", kind="B", file=FF,
      old="""	return f.L.Matches(bits) != f.R.Matches(bits)""",
      new="""	return (f.L.Matches(bits) || f.R.Matches(bits)) && !(f.L.Matches(bits) && f.R.Matches(bits))"""),
 # ---------------- C05 ----------------
 dict(prop="C05", name="drop target guard in newEntitiesNoNotify", kind="M", file=WI, expect="C05.R1",
      old="""		panic("can't create more than MaxUint32 entities")
	}

	if !target.IsZero() && !w.entityPool.Alive(target) {
		panic("can't make a dead entity a relation target")
	}

	arch := w.archetypes.Get(0)
	if len(comps) > 0 {
		arch = w.findOrCreateArchetype(arch, comps, nil, target)
	}""",
      new="""		panic("can't create more than MaxUint32 entities")
	}

	arch := w.archetypes.Get(0)
	if len(comps) > 0 {
		arch = w.findOrCreateArchetype(arch, comps, nil, target)
	}"""),
 dict(prop="C05", name="drop `if hasRelation {panic}`", kind="M", file=WI, expect="C05.R2",
      old="""			if hasRelation {
				panic("entity already has a relation component")
			}
			relation = id""", new="""			relation = id"""),
 dict(prop="C05", name="drop reset-to-zero loop in exchangeArch only", kind="M", file=WI, expect="C05.R3",
      old="""		target = oldArch.RelationTarget
		if !target.IsZero() && oldArch.Mask.ContainsAny(&w.registry.IsRelation) {
			for _, id := range rem {
				// Removing a relation
				if w.registry.IsRelation.Get(id) {
					target = Entity{}
					break
				}
			}
		}""",
      new="""		target = oldArch.RelationTarget"""),
 dict(prop="C05", name="guard replaced by helper w.checkTarget(t) (benign)", kind="B", file=WI,
      old="""func (w *World) newEntityTarget(targetID ID, target Entity, comps ...ID) Entity {
	w.checkLocked()

	if !target.IsZero() && !w.entityPool.Alive(target) {
		panic("can't make a dead entity a relation target")
	}
""",
      new="""func (w *World) checkTargetX(target Entity) {
	if !target.IsZero() && !w.entityPool.Alive(target) {
		panic("can't make a dead entity a relation target")
	}
}

func (w *World) newEntityTarget(targetID ID, target Entity, comps ...ID) Entity {
	w.checkLocked()

	w.checkTargetX(target)
"""),
 # ---------------- C06 ----------------
 dict(prop="C06", name="remove activity test of cleanupArchetype", kind="M", file=WI, expect="C06.R1",
      old="""	if arch.Len() > 0 || !arch.node.HasRelation || !arch.IsActive() {""", new="""	if arch.Len() > 0 || !arch.node.HasRelation {"""),
 dict(prop="C06", name="Deactivate without reset", kind="M", file=AR, expect="C06.R3",
      old="""func (a *archetype) Deactivate() {
	a.Reset()
	a.index = -1""", new="""func (a *archetype) Deactivate() {
	a.len = 0
	a.index = -1"""),
 dict(prop="C06", name="drop flag set in setRelationArch", kind="M", file=WI, expect="C06.R4",
      old="""	if !target.IsZero() {
		w.targetEntities.Set(target.id, true)
	}

	// Theoretically, it could be oldArchLen < oldArch.Len(),
	// which means we can't reset the archetype.
	// However, this should not be possible as processing an entity twice
	// would mean an illegal component addition/removal.
	oldArch.Reset()
	w.cleanupArchetype(oldArch)

	return arch, uint32(startIdx), arch.Len()""",
      new="""	// Theoretically, it could be oldArchLen < oldArch.Len(),
	// which means we can't reset the archetype.
	// However, this should not be possible as processing an entity twice
	// would mean an illegal component addition/removal.
	oldArch.Reset()
	w.cleanupArchetype(oldArch)

	return arch, uint32(startIdx), arch.Len()"""),
 dict(prop="C06", name="retire without cache removal in archNode.Reset", kind="M", file=AN, expect="C06.R2",
      old="""			a.RemoveArchetype(arch)
			cache.removeArchetype(arch)""", new="""			a.RemoveArchetype(arch)"""),
 dict(prop="C06", name="swap map delete and free-list push (benign)", kind="B", file=AN,
      old="""	delete(a.archetypeMap, arch.RelationTarget)
	idx := arch.index
	a.freeIndices = append(a.freeIndices, idx)""",
      new="""	idx := arch.index
	a.freeIndices = append(a.freeIndices, idx)
	delete(a.archetypeMap, arch.RelationTarget)"""),
 # ---------------- C07 ----------------
 dict(prop="C07", name="drop addArchetype call in createArchetype", kind="M", file=WI, expect="C07.R1",
      old="""	w.filterCache.addArchetype(arch)
	return arch""", new="""	return arch"""),
 dict(prop="C07", name="drop swapped-index update in Cache.removeArchetype", kind="M", file=CA, expect="C07.R2",
      old="""			swap := e.Archetypes.RemoveAt(idx)
			if swap {
				e.Indices[e.Archetypes.Get(int32(idx))] = idx
			}""", new="""			e.Archetypes.RemoveAt(idx)"""),
 dict(prop="C07", name="iterate the cached slice directly again", kind="M", file=WI, expect="C07.R3",
      old="""		return append([]*archetype{}, w.filterCache.get(cached).Archetypes.pointers...)""",
      new="""		return w.filterCache.get(cached).Archetypes.pointers"""),
 dict(prop="C07", name="rename mapArchetypes (benign)", kind="B", file=CA,
      old="""			c.mapArchetypes(e)
		}""", new="""			c.mapArchetypes(e)
			_ = i
		}"""),
 # ---------------- C08 ----------------
 dict(prop="C08", name="flag set only in the single path (drop in exchangeArch)", kind="M", file=WI, expect="C08.R1",
      old="""	if !target.IsZero() {
		w.targetEntities.Set(target.id, true)
	}

	// Theoretically, it could be oldArchLen < oldArch.Len(),
	// which means we can't reset the archetype.
	// However, this should not be possible as processing an entity twice
	// would mean an illegal component addition/removal.
	oldArch.Reset()
	w.cleanupArchetype(oldArch)

	return arch, startIdx""",
      new="""	// Theoretically, it could be oldArchLen < oldArch.Len(),
	// which means we can't reset the archetype.
	// However, this should not be possible as processing an entity twice
	// would mean an illegal component addition/removal.
	oldArch.Reset()
	w.cleanupArchetype(oldArch)

	return arch, startIdx"""),
 dict(prop="C08", name="dead-target guard only in the single exchange path", kind="M", file=WI, expect="C08.R2",
      old="""	if hasRelation && !target.IsZero() && !w.entityPool.Alive(target) {
		panic("can't make a dead entity a relation target")
	}

	arches := w.getArchetypes(filter)""", new="""	arches := w.getArchetypes(filter)"""),
 dict(prop="C08", name="count read after the move in exchangeBatchNoNotify", kind="M", file=WI, expect="C08.R3",
      old="""		newArch, start := w.exchangeArch(arch, archLen, add, rem, relation, hasRelation, target)
		batches.Add(newArch, arch, start, newArch.Len())
	}

	return int(totalEntities)""",
      new="""		newArch, start := w.exchangeArch(arch, archLen, add, rem, relation, hasRelation, target)
		batches.Add(newArch, arch, start, newArch.Len())
		totalEntities += arch.Len()
	}

	return int(totalEntities)"""),
 # ---------------- C09 ----------------
 dict(prop="C09", name="drop checkLocked in setRelationBatchNoNotify", kind="M", file=WI, expect="C09.R1",
      old="""func (w *World) setRelationBatchNoNotify(filter Filter, comp ID, target Entity, batches *batchArchetypes) int {
	w.checkLocked()
""", new="""func (w *World) setRelationBatchNoNotify(filter Filter, comp ID, target Entity, batches *batchArchetypes) int {
"""),
 dict(prop="C09", name="drop checkLocked in LoadEntities", kind="M", file=W, expect="C09.R1",
      old="""func (w *World) LoadEntities(data *EntityDump) {
	w.checkLocked()
""", new="""func (w *World) LoadEntities(data *EntityDump) {
"""),
 dict(prop="C09", name="guard below findOrCreateArchetype in NewEntity", kind="M", file=W, expect="C09.R1",
      old="""func (w *World) NewEntity(comps ...ID) Entity {
	w.checkLocked()

	arch := w.archetypes.Get(0)
	if len(comps) > 0 {
		arch = w.findOrCreateArchetype(arch, comps, nil, Entity{})
	}
""", new="""func (w *World) NewEntity(comps ...ID) Entity {
	arch := w.archetypes.Get(0)
	if len(comps) > 0 {
		arch = w.findOrCreateArchetype(arch, comps, nil, Entity{})
	}
	w.checkLocked()
"""),
 dict(prop="C09", name="drop unlock in RemoveEntity", kind="M", file=W, expect="C09.R2",
      old="""			lock := w.lock()
			w.listener.Notify(w, EntityEvent{Entity: entity, Removed: oldArch.Mask, RemovedIDs: oldIds, OldRelation: oldRel, OldTarget: oldArch.RelationTarget, EventTypes: bits})
			w.unlock(lock)""",
      new="""			lock := w.lock()
			w.listener.Notify(w, EntityEvent{Entity: entity, Removed: oldArch.Mask, RemovedIDs: oldIds, OldRelation: oldRel, OldTarget: oldArch.RelationTarget, EventTypes: bits})
			_ = lock"""),
 dict(prop="C09", name="unlock twice in removeEntities", kind="M", file=WI, expect="C09.R2",
      old="""	w.unlock(lock)

	return int(count)""", new="""	w.unlock(lock)
	w.unlock(lock)

	return int(count)"""),
 dict(prop="C09", name="drop closeQuery in nextArchetypeFiltered", kind="M", file=Q, expect="C09.R4",
      old="""		q.entityIndexMax = aLen - 1
		return true
	}
	q.world.closeQuery(q)
	return false
}

func (q *Query) nextNodeOrArchetype() bool {""", new="""		q.entityIndexMax = aLen - 1
		return true
	}
	return false
}

func (q *Query) nextNodeOrArchetype() bool {"""),
 dict(prop="C09", name="closeQuery in Count", kind="M", file=Q, expect="C09.R4",
      old="""	q.count = int32(q.countEntities())
	return int(q.count)""", new="""	q.count = int32(q.countEntities())
	q.world.closeQuery(q)
	return int(q.count)"""),
 dict(prop="C09", name="drop rollback in componentID", kind="M", file=WI, expect="C09.R5",
      old="""			w.registry.unregisterLastComponent()
			panic("attempt to register a new component in a locked world")""", new="""			panic("attempt to register a new component in a locked world")"""),
 dict(prop="C09", name="inline checkLocked as if IsLocked {panic} (benign)", kind="B", file=W,
      old="""func (w *World) RemoveEntity(entity Entity) {
	w.checkLocked()
""", new="""func (w *World) RemoveEntity(entity Entity) {
	if w.IsLocked() {
		panic("attempt to modify a locked world")
	}
"""),
 # ---------------- C10 ----------------
 dict(prop="C10", name="checkRelation after createEntity in newEntityTarget", kind="M", file=WI, expect="C10.R1",
      old="""	w.checkRelation(arch, targetID)

	entity := w.createEntity(arch)

	if !target.IsZero() {
		w.targetEntities.Set(target.id, true)
	}

	if w.listener != nil {
		bits := subscription(true, false, len(comps) > 0, false, true, true)
		trigger := w.listener.Subscriptions() & bits
		if trigger != 0 && subscribes(trigger, &arch.Mask, nil, w.listener.Components(), nil, &targetID) {
			w.listener.Notify(w, EntityEvent{Entity: entity, Added: arch.Mask, AddedIDs: comps, NewRelation: &targetID, EventTypes: bits})""",
      new="""	entity := w.createEntity(arch)
	w.checkRelation(arch, targetID)

	if !target.IsZero() {
		w.targetEntities.Set(target.id, true)
	}

	if w.listener != nil {
		bits := subscription(true, false, len(comps) > 0, false, true, true)
		trigger := w.listener.Subscriptions() & bits
		if trigger != 0 && subscribes(trigger, &arch.Mask, nil, w.listener.Components(), nil, &targetID) {
			w.listener.Notify(w, EntityEvent{Entity: entity, Added: arch.Mask, AddedIDs: comps, NewRelation: &targetID, EventTypes: bits})"""),
 dict(prop="C10", name="drop Alive in World.Mask", kind="M", file=W, expect="C10.R2",
      old="""func (w *World) Mask(entity Entity) Mask {
	if !w.entityPool.Alive(entity) {
		panic("can't get mask for a dead entity")
	}
""", new="""func (w *World) Mask(entity Entity) Mask {
"""),
 dict(prop="C10", name="drop slot test in Resources.Add", kind="M", file=RS, expect="C10.R2",
      old="""	if r.resources[id.id] != nil {
		panic(fmt.Sprintf("Resource of ID %d was already added (type %v)", id.id, reflect.TypeOf(res)))
	}
	r.resources[id.id] = res""", new="""	_ = fmt.Sprintf
	_ = reflect.TypeOf
	r.resources[id.id] = res"""),
 dict(prop="C10", name="drop count < 1", kind="M", file=WI, expect="C10.R2",
      old="""func (w *World) newEntitiesNoNotify(count int, targetID ID, hasTarget bool, target Entity, comps ...ID) (*archetype, uint32) {
	w.checkLocked()

	if count < 1 {
		panic("can only create a positive number of entities")
	}
""", new="""func (w *World) newEntitiesNoNotify(count int, targetID ID, hasTarget bool, target Entity, comps ...ID) (*archetype, uint32) {
	w.checkLocked()
"""),
 dict(prop="C10", name="remove the nil test of the E1 fix", kind="M", file=WI, expect="C10.R3",
      old="""		if arch != nil {
			w.notifyExchange(arch, oldMask, entity, add, rem, oldTarget, oldRel)
		}""", new="""		w.notifyExchange(arch, oldMask, entity, add, rem, oldTarget, oldRel)"""),
 dict(prop="C10", name="remove the flag test of the I1 fix", kind="M", file=WI, expect="C10.R4",
      old="""	if !arch.node.HasRelation || arch.node.Relation.id != comp.id {""", new="""	if arch.node.Relation.id != comp.id {"""),
 dict(prop="C10", name="change a panic message (benign)", kind="B", file=W,
      old="""		panic("can't remove a dead entity")""", new="""		panic("cannot remove an entity that is not alive")"""),
 # ---------------- C11 ----------------
 dict(prop="C11", name="swap &added/&removed in notifyExchange", kind="M", file=WI, expect="C11.R3",
      old="""		if subscribes(trigger, &added, &removed, w.listener.Components(), oldRel, newRel) {""",
      new="""		if subscribes(trigger, &removed, &added, w.listener.Components(), oldRel, newRel) {"""),
 dict(prop="C11", name="notify before copyTo in assign", kind="M", file=WI, expect="C11.R2",
      old="""	for _, c := range comps {
		w.copyTo(entity, c.ID, c.Comp)
	}
	if w.listener != nil {
		w.notifyExchange(arch, oldMask, entity, ids, nil, oldTarget, oldRel)
	}""",
      new="""	if w.listener != nil {
		w.notifyExchange(arch, oldMask, entity, ids, nil, oldTarget, oldRel)
	}
	for _, c := range comps {
		w.copyTo(entity, c.ID, c.Comp)
	}"""),
 dict(prop="C11", name="drop the lock around the removal event", kind="M", file=W, expect="C11.R2",
      old="""			lock := w.lock()
			w.listener.Notify(w, EntityEvent{Entity: entity, Removed: oldArch.Mask, RemovedIDs: oldIds, OldRelation: oldRel, OldTarget: oldArch.RelationTarget, EventTypes: bits})
			w.unlock(lock)""",
      new="""			w.listener.Notify(w, EntityEvent{Entity: entity, Removed: oldArch.Mask, RemovedIDs: oldIds, OldRelation: oldRel, OldTarget: oldArch.RelationTarget, EventTypes: bits})"""),
 dict(prop="C11", name="drop notifyQuery from exchangeBatch", kind="M", file=WI, expect="C11.R1",
      old="""	count := w.exchangeBatchNoNotify(filter, add, rem, relation, hasRelation, target, &batches)

	if w.listener != nil {
		w.notifyQuery(&batches)
	}
	return count""", new="""	count := w.exchangeBatchNoNotify(filter, add, rem, relation, hasRelation, target, &batches)
	return count"""),
 dict(prop="C11", name="len(comps) > 1 in one creation vector", kind="M", file=W, expect="C11.R4",
      old="""		bits := subscription(true, false, len(comps) > 0, false, newRel != nil, newRel != nil)
		trigger := w.listener.Subscriptions() & bits
		if trigger != 0 && subscribes(trigger, &arch.Mask, nil, w.listener.Components(), nil, newRel) {
			w.listener.Notify(w, EntityEvent{Entity: entity, Added: arch.Mask, AddedIDs: comps, NewRelation: newRel, EventTypes: bits})""",
      new="""		bits := subscription(true, false, len(comps) > 1, false, newRel != nil, newRel != nil)
		trigger := w.listener.Subscriptions() & bits
		if trigger != 0 && subscribes(trigger, &arch.Mask, nil, w.listener.Components(), nil, newRel) {
			w.listener.Notify(w, EntityEvent{Entity: entity, Added: arch.Mask, AddedIDs: comps, NewRelation: newRel, EventTypes: bits})"""),
 # ---------------- C12 ----------------
 dict(prop="C12", name="&& for || in the relation clause of listener.subscribes", kind="M", file=LU, expect="C12.R2",
      old="""		if (oldRel != nil && subs.Get(*oldRel)) || (newRel != nil && subs.Get(*newRel)) {""",
      new="""		if (oldRel != nil && subs.Get(*oldRel)) && (newRel != nil && subs.Get(*newRel)) {"""),
 dict(prop="C12", name="drop hasComponents=false in AddListener", kind="M", file=LD, expect="C12.R4",
      old="""	cmp := ls.Components()
	if cmp == nil {
		l.hasComponents = false
	} else {
		l.components = l.components.Or(cmp)
	}""", new="""	cmp := ls.Components()
	if cmp != nil {
		l.components = l.components.Or(cmp)
	}"""),
 dict(prop="C12", name="ComponentRemoved bit for parameter componentAdded", kind="M", file=UT, expect="C12.R3",
      old="""	if componentAdded {
		bits |= event.ComponentAdded
	}""", new="""	if componentAdded {
		bits |= event.ComponentRemoved
	}"""),
 dict(prop="C12", name="reorder the clauses of ecs.subscribes (benign)", kind="B", file=UT,
      old="""	if trigger.ContainsAny(event.EntityCreated | event.ComponentAdded) {
		// Contains additions-like types
		if added != nil && subs.ContainsAny(added) {
			return true
		}
	}
	if trigger.ContainsAny(event.EntityRemoved | event.ComponentRemoved) {
		// Contains additions-like types
		if removed != nil && subs.ContainsAny(removed) {
			return true
		}
	}
	return false""",
      new="""	if trigger.ContainsAny(event.EntityRemoved | event.ComponentRemoved) {
		// Contains additions-like types
		if removed != nil && subs.ContainsAny(removed) {
			return true
		}
	}
	if trigger.ContainsAny(event.EntityCreated | event.ComponentAdded) {
		// Contains additions-like types
		if added != nil && subs.ContainsAny(added) {
			return true
		}
	}
	return false"""),
 # ---------------- C13 ----------------
 dict(prop="C13", name="range over archetypeMap in cleanupArchetypes", kind="M", file=WI, expect="C13.R1",
      old="""	for _, node := range w.relationNodes {
		if arch, ok := node.archetypeMap[target]; ok && arch.Len() == 0 {
			w.removeArchetype(arch)
		}
	}""", new="""	for _, node := range w.relationNodes {
		for t, arch := range node.archetypeMap {
			if t == target && arch.Len() == 0 {
				w.removeArchetype(arch)
			}
		}
	}"""),
 dict(prop="C13", name="order by address in getArchetypes", kind="M", file=WI, expect="C13.R3",
      old="""	return arches
}

// Removes the archetype if it is empty""", new="""	if len(arches) > 1 && uintptr(unsafe.Pointer(arches[0])) > uintptr(unsafe.Pointer(arches[1])) {
		arches[0], arches[1] = arches[1], arches[0]
	}
	return arches
}

// Removes the archetype if it is empty"""),
 # ---------------- C14 ----------------
 dict(prop="C14", name="remove the escape sink", kind="M", file=AR, expect="C14.R1",
      old="""	escapes(comp)
	return dst""", new="""	return dst"""),
 dict(prop="C14", name="drop SetZero in Reset", kind="M", file=AR, expect="C14.R3",
      old="""	a.len = 0
	for _, buf := range a.buffers {
		buf.SetZero()
	}""", new="""	a.len = 0"""),
 dict(prop="C14", name="allocate columns with the wrong element type", kind="M", file=AR, expect="C14.R4",
      old="""		a.buffers[i] = reflect.New(reflect.ArrayOf(cap, tp)).Elem()""",
      new="""		a.buffers[i] = reflect.New(reflect.ArrayOf(cap*int(size), reflect.TypeOf(uint8(0)))).Elem()"""),
 # ---------------- C15 ----------------
 dict(prop="C15", name="drop targetEntities.Reset()", kind="M", file=W, expect="C15.R1",
      old="""	w.targetEntities.Reset()
	w.entityPool.Reset()""", new="""	w.entityPool.Reset()"""),
 dict(prop="C15", name="drop next = 0 in entityPool.Reset", kind="M", file=PO, expect="C15.R1",
      old="""	p.entities = p.entities[:1]
	p.next = 0
	p.available = 0""", new="""	p.entities = p.entities[:1]
	p.available = 0"""),
 dict(prop="C15", name="new mutable World field never reset", kind="M", file=W, expect="C15.R1",
      old="""	config         Config                    // World configuration.
}""", new="""	config         Config                    // World configuration.
	opCount        int
}

func (w *World) countOp() { w.opCount++ }"""),
 # ---------------- C16 ----------------
 dict(prop="C16", name="re-narrow one link to uint8", kind="M", file=WI, expect="C16.R1",
      old="""			w.extendArchetypeLayouts(int(id) + int(layoutChunkSize))""", new="""			w.extendArchetypeLayouts(int(id + layoutChunkSize))"""),
 dict(prop="C16", name="drop IsRelation clear in rollback", kind="M", file=RG, expect="C16.R3",
      old="""	r.Used.Set(id, false)
	r.IsRelation.Set(id, false)""", new="""	r.Used.Set(id, false)"""),
 dict(prop="C16", name="Field(1) in generic.Compile only", kind="M", file=GC, expect="C16.R4",
      old="""			field := targetType.Field(0)""", new="""			field := targetType.Field(1)"""),
 dict(prop="C16", name="val >= totalBits as totalBits <= val (benign)", kind="B", file=RG,
      old="""	if val >= totalBits {""", new="""	if !(val < totalBits) {"""),
 # ---------------- C17 ----------------
 dict(prop="C17", name="LoadEntities without available", kind="M", file=W, expect="C17.R1",
      old="""	w.entityPool.next = eid(data.Next)
	w.entityPool.available = data.Available""", new="""	w.entityPool.next = eid(data.Next)"""),
 dict(prop="C17", name="swap array positions in UnmarshalJSON only", kind="M", file=EN, expect="C17.R3",
      old="""	e.id = eid(arr[0])
	e.gen = arr[1]""", new="""	e.id = eid(arr[1])
	e.gen = arr[0]"""),
 dict(prop="C17", name="drop the fresh-world guard", kind="M", file=W, expect="C17.R2",
      old="""	if len(w.entityPool.entities) > 1 || w.entityPool.available > 0 {
		panic("can set entity data only on a fresh or reset world")
	}
""", new=""""""),
 dict(prop="C17", name="reorder the three pool assignments (benign)", kind="B", file=W,
      old="""	w.entityPool.entities = entities
	w.entityPool.next = eid(data.Next)
	w.entityPool.available = data.Available""",
      new="""	w.entityPool.available = data.Available
	w.entityPool.next = eid(data.Next)
	w.entityPool.entities = entities"""),
 # ---------------- C18 ----------------
 dict(prop="C18", name="swap id3/id4 in Query7.Get", kind="M", file=GQ, expect="C18.R3",
      old="""func (q *Query7[A, B, C, D, E, F, G]) Get() (*A, *B, *C, *D, *E, *F, *G) {
	return (*A)(q.Query.Get(q.id0)),
		(*B)(q.Query.Get(q.id1)),
		(*C)(q.Query.Get(q.id2)),
		(*D)(q.Query.Get(q.id3)),
		(*E)(q.Query.Get(q.id4)),""",
      new="""func (q *Query7[A, B, C, D, E, F, G]) Get() (*A, *B, *C, *D, *E, *F, *G) {
	return (*A)(q.Query.Get(q.id0)),
		(*B)(q.Query.Get(q.id1)),
		(*C)(q.Query.Get(q.id2)),
		(*D)(q.Query.Get(q.id4)),
		(*E)(q.Query.Get(q.id3)),"""),
 dict(prop="C18", name="drop Reset in Filter4.With", kind="M", file=GQ, expect="C18.R1",
      old="""func (f *Filter4[A, B, C, D]) With(mask ...Comp) *Filter4[A, B, C, D] {
	if f.compiled.locked {
		panic("can't modify a registered filter")
	}
	f.include = append(f.include, mask...)
	f.compiled.Reset()""",
      new="""func (f *Filter4[A, B, C, D]) With(mask ...Comp) *Filter4[A, B, C, D] {
	if f.compiled.locked {
		panic("can't modify a registered filter")
	}
	f.include = append(f.include, mask...)"""),
 dict(prop="C18", name="m.id0 for m.id1 in Map2.Assign", kind="M", file=GM, expect="C18.R3",
      old="""func (m *Map2[A, B]) Assign(entity ecs.Entity, a *A, b *B) {
	m.world.Assign(entity,
		ecs.Component{ID: m.id0, Comp: a},
		ecs.Component{ID: m.id1, Comp: b},""",
      new="""func (m *Map2[A, B]) Assign(entity ecs.Entity, a *A, b *B) {
	m.world.Assign(entity,
		ecs.Component{ID: m.id0, Comp: a},
		ecs.Component{ID: m.id0, Comp: b},"""),
 # ---------------- C19 ----------------
 dict(prop="C19", name="package-level scratch slice reused by getExchangeMask", kind="M", file=WI, expect="C19.R1",
      old="""func (w *World) getExchangeMask(mask Mask, add []ID, rem []ID) Mask {
	for _, comp := range rem {""", new="""var scratchIDs []ID

func (w *World) getExchangeMask(mask Mask, add []ID, rem []ID) Mask {
	scratchIDs = append(scratchIDs[:0], rem...)
	for _, comp := range rem {"""),
 dict(prop="C19", name="go statement in Stats", kind="M", file=W, expect="C19.R2",
      old="""	w.stats.ActiveNodeCount = cntActive
""", new="""	w.stats.ActiveNodeCount = cntActive
	go func() {}()
"""),
 dict(prop="C19", name="new package-level constant table, read only (benign)", kind="B", file=UT,
      old="""// Page size of pagedSlice type
const pageSize = 32""", new="""// Page size of pagedSlice type
const pageSize = 32

const pageMask = pageSize - 1"""),
 # ---------------- C20 ----------------
 dict(prop="C20", name="remove the comma-ok of the D5 fix", kind="M", file=FN, expect="C20.R1",
      old="""	res, _ := w.resources.Get(ResourceID[T](w)).(*T)
	return res""", new="""	return w.resources.Get(ResourceID[T](w)).(*T)"""),
 dict(prop="C20", name="checkLocked in Resources path (resourceID)", kind="M", file=WI, expect="C20.R2",
      old="""func (w *World) resourceID(tp reflect.Type) ResID {
	id, _ := w.resources.registry.ComponentID(tp)""", new="""func (w *World) resourceID(tp reflect.Type) ResID {
	w.checkLocked()
	id, _ := w.resources.registry.ComponentID(tp)"""),
 dict(prop="C20", name="ResourceID through w.registry", kind="M", file=WI, expect="C20.R3",
      old="""	id, _ := w.resources.registry.ComponentID(tp)
	return ResID{id: id}""", new="""	id, _ := w.registry.ComponentID(tp)
	return ResID{id: id}"""),

 # ---------------- round-2 rules ----------------
 dict(prop="C18", name="include-only filter under !exclusive instead of noExclude", kind="M", file=GC, expect="C18.R10",
      old="""	if targetType == nil {
		if noExclude {""",
      new="""	if targetType == nil {
		if !exclusive {"""),
 dict(prop="C18", name="noExclude by De Morgan (benign)", kind="B", file=GC,
      old="""	noExclude := !exclusive && len(exclude) == 0""",
      new="""	noExclude := !(exclusive || len(exclude) != 0)"""),
 dict(prop="C18", name="relation filter around include mask when noExclude (benign)", kind="B", file=GC,
      old="""			relationFilter := ecs.NewRelationFilter(q.maskFilter, target)
			q.relationFilter = &relationFilter""",
      new="""			var relationFilter ecs.RelationFilter
			if noExclude {
				relationFilter = ecs.NewRelationFilter(q.maskFilter.Include, target)
			} else {
				relationFilter = ecs.NewRelationFilter(q.maskFilter, target)
			}
			q.relationFilter = &relationFilter"""),
 dict(prop="C05", name="zero target via named local (benign)", kind="B", file=WI,
      old="""		arch.Init(node, w.archetypeData.Get(archIndex), archIndex, forStorage, layouts, Entity{})""",
      new="""		noTarget := Entity{}
		arch.Init(node, w.archetypeData.Get(archIndex), archIndex, forStorage, layouts, noTarget)"""),
 dict(prop="C05", name="Activate with zero target for a relation node re-use", kind="M", file=AN, expect="C05.R11",
      old="""		arch.Activate(target, archIndex)""",
      new="""		arch.Activate(Entity{}, archIndex)"""),
 dict(prop="C17", name="capacity from a named length (benign)", kind="B", file=W,
      old="""	capacity := capacity(len(data.Entities), w.config.CapacityIncrement)""",
      new="""	n := len(data.Entities)
	capacity := capacity(n, w.config.CapacityIncrement)"""),
 dict(prop="C17", name="dump via make+copy (benign)", kind="B", file=W,
      old="""		Entities:  append([]Entity{}, w.entityPool.entities...),""",
      new="""		Entities:  append(make([]Entity, 0, len(w.entityPool.entities)), w.entityPool.entities...),"""),
 dict(prop="C03", name="running total written as t + count (benign)", kind="B", file=Q,
      old="""			a := arches.Get(j)
			count += a.Len()""",
      new="""			a := arches.Get(j)
			count = a.Len() + count"""),
 dict(prop="C03", name="batch count overwritten", kind="M", file=Q, expect="C03.R6",
      old="""			count += batch.EndIndex[j] - batch.StartIndex[j]""",
      new="""			count = batch.EndIndex[j] - batch.StartIndex[j]"""),
 dict(prop="C01", name="graph edges set in the other order (benign)", kind="B", file=WI,
      old="""			next, _ := w.findOrCreateArchetypeSlow(mask, relation, hasRelation)
			next.neighbors.Set(id.id, curr)
			curr.neighbors.Set(id.id, next)
			curr = next
		}
	}
	for _, id := range add {""",
      new="""			next, _ := w.findOrCreateArchetypeSlow(mask, relation, hasRelation)
			curr.neighbors.Set(id.id, next)
			next.neighbors.Set(id.id, curr)
			curr = next
		}
	}
	for _, id := range add {"""),
 dict(prop="C16", name="unregister narrows len without -1", kind="M", file=RG, expect="C16.R8",
      old="""	newID := uint8(len(r.Components) - 1)""",
      new="""	newID := uint8(len(r.Components)) - 1"""),
 dict(prop="C15", name="Reset drops the listener", kind="M", file=W, expect="C15.R1",
      old="""	w.resources.reset()""",
      new="""	w.resources.reset()
	w.listener = nil"""),

 # ---------------- round-3 rules ----------------
 dict(prop="C02", name="pool Reset clears the tail only (benign)", kind="B", file=PO,
      old="""	p.entities = p.entities[:1]
	p.next = 0
	p.available = 0""",
      new="""	clear(p.entities[1:])
	p.entities = p.entities[:1]
	p.next = 0
	p.available = 0"""),
 dict(prop="C15", name="Reset resets locks first (benign)", kind="B", file=W,
      old="""	w.entities = w.entities[:1]
	w.targetEntities.Reset()
	w.entityPool.Reset()
	w.locks.Reset()
	w.resources.reset()""",
      new="""	w.locks.Reset()
	w.resources.reset()
	w.entities = w.entities[:1]
	w.targetEntities.Reset()
	w.entityPool.Reset()"""),
 dict(prop="C15", name="Reset skips the pool when it is empty", kind="M", file=W, expect="C15.R7",
      old="""	w.entityPool.Reset()
	w.locks.Reset()""",
      new="""	if w.entityPool.Len() > 0 {
		w.entityPool.Reset()
	}
	w.locks.Reset()"""),
 dict(prop="C12", name="batch target pre-filter via ContainsAny (benign)", kind="B", file=WI,
      old="""	if w.listener != nil && w.listener.Subscriptions().Contains(event.TargetChanged) {""",
      new="""	if w.listener != nil && w.listener.Subscriptions().ContainsAny(event.TargetChanged) {"""),
 dict(prop="C12", name="batch target pre-filter on Relations", kind="M", file=WI, expect="C12.R6",
      old="""	if w.listener != nil && w.listener.Subscriptions().Contains(event.TargetChanged) {""",
      new="""	if w.listener != nil && w.listener.Subscriptions().Contains(event.Relations) {"""),
 dict(prop="C07", name="target comparison with swapped operands (benign)", kind="B", file=CA,
      old="""			if rf.Target == arch.RelationTarget {""",
      new="""			if arch.RelationTarget == rf.Target {"""),
 dict(prop="C07", name="target comparison dropped for zero-target tables", kind="M", file=CA, expect="C07.R8",
      old="""			if rf.Target == arch.RelationTarget {""",
      new="""			if rf.Target == arch.RelationTarget || arch.RelationTarget.IsZero() {"""),
 dict(prop="C03", name="batch start in a local (benign)", kind="B", file=Q,
      old="""			ln := batch.EndIndex[j] - batch.StartIndex[j]
			if idx < count+ln {
				return batch.Archetype[j].GetEntity(batch.StartIndex[j] + idx - count)""",
      new="""			start := batch.StartIndex[j]
			ln := batch.EndIndex[j] - start
			if idx < count+ln {
				return batch.Archetype[j].GetEntity(start + idx - count)"""),
 dict(prop="C18", name="Resource.Has through a local (benign)", kind="B", file="generic/resource.go",
      old="""	return g.world.Resources().Has(g.id)""",
      new="""	res := g.world.Resources()
	return res.Has(g.id)"""),
 dict(prop="C16", name="ComponentID through a typed nil pointer variable (benign)", kind="B", file=FN,
      old="""	tp := reflect.TypeOf((*T)(nil)).Elem()
	return w.componentID(tp)""",
      new="""	var ptr *T
	tp := reflect.TypeOf(ptr).Elem()
	return w.componentID(tp)"""),
 dict(prop="C17", name="MarshalJSON via explicit values (benign)", kind="B", file=EN,
      old="""	arr := [2]uint32{uint32(e.id), e.gen}""",
      new="""	id, gen := uint32(e.id), e.gen
	arr := [2]uint32{id, gen}"""),
 dict(prop="C10", name="Unlock recycles in a defer", kind="M", file=UT, expect="C10.R7",
      old="""	m.locks.Set(id(l), false)
	m.bitPool.Recycle(l)""",
      new="""	defer m.bitPool.Recycle(l)
	m.locks.Set(id(l), false)"""),
 dict(prop="C01", name="own index entry written before the fix-up in exchangeNoNotify", kind="M", file=WI, expect="C01.R1",
      old="""	swapped := oldArch.Remove(index.index)

	if swapped {
		swapEntity := oldArch.GetEntity(index.index)
		w.entities[swapEntity.id].index = index.index
	}
	w.entities[entity.id] = entityIndex{arch: arch, index: newIndex}

	var oldRel *ID""",
      new="""	swapped := oldArch.Remove(index.index)
	w.entities[entity.id] = entityIndex{arch: arch, index: newIndex}

	if swapped {
		swapEntity := oldArch.GetEntity(index.index)
		w.entities[swapEntity.id].index = index.index
	}

	var oldRel *ID"""),

 # ---------------- round-8 rules ----------------
 dict(prop="C02", name="growth copy of the world index cut to the used count", kind="M", file=WI, expect="C02.R22",
      old="""		w.entities = make([]entityIndex, required, capacity)
		copy(w.entities, old)
	} else if required > len {""",
      new="""		w.entities = make([]entityIndex, required, capacity)
		copy(w.entities, old[:w.entityPool.Len()+1])
	} else if required > len {"""),
 dict(prop="C02", name="growth copy with the source sliced to its own length (benign)", kind="B", file=PO,
      old="""		copy(p.entities, old)""",
      new="""		copy(p.entities, old[:len(old)])"""),
 dict(prop="C03", name="getArchetypes loop bound minus the free slots", kind="M", file=WI, expect="C03.R22",
      old="""		ln2 := int32(nodeArches.Len())
		var j int32
		for j = 0; j < ln2; j++ {""",
      new="""		ln2 := int32(nodeArches.Len()) - int32(len(nd.freeIndices))
		var j int32
		for j = 0; j < ln2; j++ {"""),
 dict(prop="C03", name="relation filters skipped for relation-less tables in addArchetype", kind="M", file=CA, expect="C03.R21",
      old="""			e := &c.filters[i]
			if !e.Filter.Matches(&arch.Mask) {
				continue
			}
			e.Archetypes.Add(arch)
		}
		return""",
      new="""			e := &c.filters[i]
			if _, ok := e.Filter.(*RelationFilter); ok {
				continue
			}
			if !e.Filter.Matches(&arch.Mask) {
				continue
			}
			e.Archetypes.Add(arch)
		}
		return"""),
 dict(prop="C07", name="per-entry nil test of Indices dropped in removeArchetype", kind="M", file=CA, expect="C07.R21",
      old="""		if e.Indices == nil && e.Filter.Matches(&arch.Mask) {
			c.mapArchetypes(e)
		}
""",
      new="""		if len(c.filters) > 64 && e.Filter.Matches(&arch.Mask) {
			c.mapArchetypes(e)
		}
"""),
 dict(prop="C09", name="Compile guard keyed on the world field", kind="M", file=GC, expect="C09.R18",
      old="""	if q.compiled && (q.world == w || q.locked) {
		return
	}""",
      new="""	if q.world == w || (q.locked && q.world != nil) {
		return
	}"""),
 dict(prop="C18", name="compiled flag set before the relation checks", kind="M", file=GC, expect="C18.R26",
      old="""	q.world = w

	q.Ids = toIds(w, include)""",
      new="""	q.world = w
	q.compiled = true

	q.Ids = toIds(w, include)"""),
 dict(prop="C19", name="relation id resolved once in Compile", kind="M", file=GC, expect="C19.R10",
      old="""		targetID := ecs.TypeID(w, targetType)

		q.Relation = targetID
		q.HasRelation = true
""",
      new="""		if !q.HasRelation {
			q.Relation = ecs.TypeID(w, targetType)
			q.HasRelation = true
		}
		targetID := q.Relation
"""),
 dict(prop="C18", name="Compile guard with operands swapped (benign)", kind="B", file=GC,
      old="""	if q.compiled && (q.world == w || q.locked) {""",
      new="""	if q.compiled && (q.locked || w == q.world) {"""),
 dict(prop="C18", name="Exchange.Adds rebuilds the builder only without relation", kind="M", file="generic/exchange.go", expect="C18.R25",
      old="""	b := ecs.NewBuilder(m.world, m.add...)
	if m.hasRelation {
		b = b.WithRelation(m.relationID)
	}
	m.builder = *b
	return m""",
      new="""	if !m.hasRelation {
		m.builder = *ecs.NewBuilder(m.world, m.add...)
	}
	return m"""),
 dict(prop="C11", name="NewEntityWith through the public NewEntity", kind="M", file=W, expect="C11.R2",
      old="""	arch := w.archetypes.Get(0)
	arch = w.findOrCreateArchetype(arch, ids, nil, Entity{})

	entity := w.createEntity(arch)

	for _, c := range comps {
		w.copyTo(entity, c.ID, c.Comp)
	}

	if w.listener != nil {
		var newRel *ID
		if arch.HasRelationComponent {
			newRel = &arch.RelationComponent
		}
		bits := subscription(true, false, len(comps) > 0, false, newRel != nil, newRel != nil)
		trigger := w.listener.Subscriptions() & bits
		if trigger != 0 && subscribes(trigger, &arch.Mask, nil, w.listener.Components(), nil, newRel) {
			w.listener.Notify(w, EntityEvent{Entity: entity, Added: arch.Mask, AddedIDs: ids, NewRelation: newRel, EventTypes: bits})
		}
	}
	return entity""",
      new="""	entity := w.NewEntity(ids...)

	for _, c := range comps {
		w.copyTo(entity, c.ID, c.Comp)
	}
	return entity"""),
]
