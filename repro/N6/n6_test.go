// place in: generic/
package generic_test

import (
	"testing"

	"github.com/mlange-42/arche/ecs"
	"github.com/mlange-42/arche/generic"
	"github.com/stretchr/testify/assert"
)

type f1Pos struct{ X, Y int }
type f1Vel struct{ X, Y int }
type f1ChildOf struct{ ecs.Relation }

func f1Collect(q *ecs.Query) []ecs.Entity {
	res := []ecs.Entity{}
	for q.Next() {
		res = append(res, q.Entity())
	}
	return res
}

// world with two parents p1, p2; children a1, a2 of p1 and c1, c2 of p2,
// spread over two archetype nodes ({Pos, ChildOf} and {Pos, Vel, ChildOf}).
func f1Setup() (w ecs.World, posID, relID ecs.ID, p1, p2, a1, a2, c1, c2 ecs.Entity) {
	w = ecs.NewWorld()
	posID = ecs.ComponentID[f1Pos](&w)
	velID := ecs.ComponentID[f1Vel](&w)
	relID = ecs.ComponentID[f1ChildOf](&w)

	p1 = w.NewEntity()
	p2 = w.NewEntity()

	b1 := ecs.NewBuilder(&w, posID, relID).WithRelation(relID)
	b2 := ecs.NewBuilder(&w, posID, velID, relID).WithRelation(relID)
	a1 = b1.New(p1)
	a2 = b2.New(p1)
	c1 = b1.New(p2)
	c2 = b2.New(p2)
	return
}

// Two queries are built from the same generic filter, each with its own relation target,
// before the first one is iterated. Each must select the children of the target it was built with,
// exactly like two core queries built from two ecs.RelationFilter.
func TestGenericQueryKeepsTargetItWasBuiltWith(t *testing.T) {
	w, posID, relID, p1, p2, a1, a2, c1, c2 := f1Setup()

	// ID-based reference: passes.
	mask := ecs.All(posID, relID)
	rf1 := ecs.NewRelationFilter(&mask, p1)
	rf2 := ecs.NewRelationFilter(&mask, p2)
	cq1 := w.Query(&rf1)
	cq2 := w.Query(&rf2)
	assert.ElementsMatch(t, []ecs.Entity{a1, a2}, f1Collect(&cq1), "core query, target p1")
	assert.ElementsMatch(t, []ecs.Entity{c1, c2}, f1Collect(&cq2), "core query, target p2")

	// Generic equivalent.
	filter := generic.NewFilter2[f1Pos, f1ChildOf]().WithRelation(generic.T[f1ChildOf]())
	q1 := filter.Query(&w, p1)
	q2 := filter.Query(&w, p2)
	assert.ElementsMatch(t, []ecs.Entity{a1, a2}, f1Collect(&q1.Query), "generic query built with target p1")
	assert.ElementsMatch(t, []ecs.Entity{c1, c2}, f1Collect(&q2.Query), "generic query built with target p2")
}

// Nested use: while iterating the children of p1, a second query for the children of p2 is built
// from the same filter (and closed again). The outer query must go on with the children of p1.
func TestGenericQueryNestedTargets(t *testing.T) {
	w, _, _, p1, p2, a1, a2, _, _ := f1Setup()

	filter := generic.NewFilter2[f1Pos, f1ChildOf]().WithRelation(generic.T[f1ChildOf]())

	outer := filter.Query(&w, p1)
	got := []ecs.Entity{}
	for outer.Next() {
		got = append(got, outer.Entity())
		assert.Equal(t, p1, outer.Relation())

		inner := filter.Query(&w, p2)
		inner.Close()
	}
	assert.ElementsMatch(t, []ecs.Entity{a1, a2}, got)
}

// Same with Filter2.Filter: the ecs.Filter built for target p1 must keep selecting p1's children
// after another ecs.Filter was built for target p2.
func TestGenericFilterKeepsTargetItWasBuiltWith(t *testing.T) {
	w, _, _, p1, p2, a1, a2, c1, c2 := f1Setup()

	filter := generic.NewFilter2[f1Pos, f1ChildOf]().WithRelation(generic.T[f1ChildOf]())
	flt1 := filter.Filter(&w, p1)
	_ = filter.Filter(&w, p2)

	assert.Equal(t, 2, w.Batch().RemoveEntities(flt1))
	assert.False(t, w.Alive(a1), "child of p1 must be removed")
	assert.False(t, w.Alive(a2), "child of p1 must be removed")
	assert.True(t, w.Alive(c1), "child of p2 must survive")
	assert.True(t, w.Alive(c2), "child of p2 must survive")
}
