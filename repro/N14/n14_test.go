// place in: ecs/
package ecs_test

import (
	"testing"

	"github.com/mlange-42/arche/ecs"
	"github.com/mlange-42/arche/ecs/event"
	"github.com/stretchr/testify/assert"
)

type c02f1Pos struct{ X, Y int }

// read-only listener for entity removal events.
type c02f1Listener struct {
	callback func(w *ecs.World, e ecs.EntityEvent)
}

func (l *c02f1Listener) Notify(w *ecs.World, e ecs.EntityEvent) { l.callback(w, e) }
func (l *c02f1Listener) Subscriptions() event.Subscription        { return event.EntityRemoved }
func (l *c02f1Listener) Components() *ecs.Mask                    { return nil }

// observation of the world from inside a removal event. Strictly read-only.
type c02f1Obs struct {
	entity      ecs.Entity   // the entity the event is about
	eventAlive  bool         // World.Alive(event entity)
	used        int          // Stats().Entities.Used
	queryCount  int          // Query(All()).Count()
	deadInQuery []ecs.Entity // entities yielded by Query(All()) for which World.Alive is false
}

func c02f1Observe(w *ecs.World, e ecs.EntityEvent) c02f1Obs {
	o := c02f1Obs{entity: e.Entity, eventAlive: w.Alive(e.Entity), used: w.Stats().Entities.Used}
	q := w.Query(ecs.All())
	o.queryCount = q.Count()
	for q.Next() {
		if !w.Alive(q.Entity()) {
			o.deadInQuery = append(o.deadInQuery, q.Entity())
		}
	}
	return o
}

// Removal events are documented to fire "right before removal of the entity, to allow for
// inspection" with the world locked. With one-by-one removal, the world seen from inside the
// event is consistent. With Batch.RemoveEntities, the entities of the same table that were
// already notified are already recycled (World.Alive == false, Stats().Entities.Used reduced),
// but are still yielded by queries and still counted by Query.Count.
func TestC02RemoveEntitiesListenerSeesRemovedEntitiesInQueries(t *testing.T) {
	const n = 4

	run := func(batch bool) []c02f1Obs {
		w := ecs.NewWorld()
		posID := ecs.ComponentID[c02f1Pos](&w)

		entities := []ecs.Entity{}
		q := ecs.NewBuilder(&w, posID).NewBatchQ(n)
		for q.Next() {
			entities = append(entities, q.Entity())
		}

		obs := []c02f1Obs{}
		ls := c02f1Listener{callback: func(w *ecs.World, e ecs.EntityEvent) {
			obs = append(obs, c02f1Observe(w, e))
		}}
		w.SetListener(&ls)

		if batch {
			assert.Equal(t, n, w.Batch().RemoveEntities(ecs.All(posID)))
		} else {
			for _, e := range entities {
				w.RemoveEntity(e)
			}
		}
		assert.False(t, w.IsLocked())
		return obs
	}

	for _, batch := range []bool{false, true} {
		obs := run(batch)
		assert.Equal(t, n, len(obs))
		for i, o := range obs {
			// The event's own entity is not yet removed. Whatever number of entities the world considers
			// removed at this moment, all public views must agree on it.
			assert.True(t, o.eventAlive, "batch=%v event %d: entity of the event must still be alive", batch, i)
			assert.Equal(t, o.used, o.queryCount,
				"batch=%v event %d: Query(All()).Count() must equal Stats().Entities.Used (creations minus removals)", batch, i)
			assert.Empty(t, o.deadInQuery,
				"batch=%v event %d: Query(All()) yields entities that World.Alive reports dead", batch, i)
		}
	}
}
