// place in: generic/
package generic_test

import (
	"testing"

	"github.com/mlange-42/arche/ecs"
	"github.com/mlange-42/arche/generic"
	"github.com/stretchr/testify/assert"
)

type c19Pos struct{ X, Y float64 }
type c19Name struct{ Name string }

// A generic filter takes the world as an argument of Query, so one filter value
// can be used to query several worlds (e.g. a system struct holding its filter
// and being run on many worlds, as in the "many simulations" pattern).
// The first world it is used on must not influence what it does on the second.
func TestC19GenericFilterSecondWorld(t *testing.T) {
	// World 1 registers c19Pos first.
	w1 := ecs.NewWorld()
	ecs.ComponentID[c19Pos](&w1)
	ecs.ComponentID[c19Name](&w1)

	// World 2 registers the same types in the opposite order.
	w2 := ecs.NewWorld()
	nameID2 := ecs.ComponentID[c19Name](&w2)
	posID2 := ecs.ComponentID[c19Pos](&w2)

	// World 2 holds one entity with only a c19Pos and one with only a c19Name.
	posEntity := w2.NewEntity(posID2)
	(*c19Pos)(w2.Get(posEntity, posID2)).X = 42
	nameEntity := w2.NewEntity(nameID2)
	(*c19Name)(w2.Get(nameEntity, nameID2)).Name = "abc"

	filter := generic.NewFilter1[c19Pos]()

	// Reference: what the query over world 2 yields with a fresh filter.
	ref := generic.NewFilter1[c19Pos]().Query(&w2)
	assert.Equal(t, 1, ref.Count())
	assert.True(t, ref.Next())
	assert.Equal(t, posEntity, ref.Entity())
	ref.Close()

	// An operation on world 1 ...
	q1 := filter.Query(&w1)
	assert.Equal(t, 0, q1.Count())
	q1.Close()

	// ... must not change anything observable in world 2.
	q2 := filter.Query(&w2)
	defer func() {
		if w2.IsLocked() {
			q2.Close()
		}
	}()
	assert.Equal(t, 1, q2.Count(), "the query on world 2 must yield exactly the entities with c19Pos")
	for q2.Next() {
		assert.Equal(t, posEntity, q2.Entity(),
			"the query on world 2 yields an entity that has no c19Pos (its component is a c19Name)")
		assert.True(t, w2.Has(q2.Entity(), posID2))
	}
}
