// place in: ecs/
package ecs_test

import (
	"testing"

	"github.com/mlange-42/arche/ecs"
	"github.com/stretchr/testify/assert"
)

type c09Pos struct{ X, Y float64 }

// tryC09 runs f and reports whether it panicked.
func tryC09(f func()) (panicked bool) {
	defer func() {
		if r := recover(); r != nil {
			panicked = true
		}
	}()
	f()
	return false
}

// A query that has already released its lock (here: by exhaustion) must not be able
// to release the lock of ANOTHER, still open query. The library normally rejects the
// redundant Close with "unbalanced unlock", but only as long as nobody else has been
// handed the same lock bit in the meantime.
func TestC09StaleCloseReleasesForeignLock(t *testing.T) {
	w := ecs.NewWorld()
	posID := ecs.ComponentID[c09Pos](&w)
	e := w.NewEntity(posID)

	// q1 is iterated to the end: its lock is released (exactly once).
	q1 := w.Query(ecs.All(posID))
	for q1.Next() {
	}
	assert.False(t, w.IsLocked(), "q1 exhausted, world unlocked")

	// Control: with no other query open, the redundant Close is rejected.
	assert.True(t, tryC09(func() { q1.Close() }), "redundant Close is rejected while the bit is free")
	assert.False(t, w.IsLocked())

	// q2 is opened and stays open. It is handed the lock bit q1 used before.
	q2 := w.Query(ecs.All(posID))
	assert.True(t, w.IsLocked(), "q2 open, world locked")

	// The same redundant Close of the finished q1, now while q2 is open.
	// Whether it panics or is ignored does not matter; it must not touch q2's lock.
	_ = tryC09(func() { q1.Close() })

	assert.True(t, w.IsLocked(), "q2 is still open, so the world must still be locked")
	assert.True(t, tryC09(func() { w.NewEntity(posID) }), "NewEntity must panic while q2 is open")
	assert.True(t, tryC09(func() { w.RemoveEntity(e) }), "RemoveEntity must panic while q2 is open")

	// q2 still holds its lock and must be able to release it exactly once.
	assert.False(t, tryC09(func() { q2.Close() }), "closing the open q2 must succeed")
	assert.False(t, w.IsLocked())
}
