// place in: ecs/
package ecs_test

import (
	"strconv"
	"testing"

	"github.com/mlange-42/arche/ecs"
)

type c08Pos struct{ X, Y float64 }

// Property C08: batch creation of `count` entities (for all batch sizes >= 1) leaves the world in the
// same state as creating `count` entities one by one, and the query of the Q variant iterates exactly
// the created entities.
//
// Builder.NewBatch / NewBatchQ take the batch size as an int, but convert it to uint32 without a check.
// On 64-bit platforms a size above MaxUint32 is silently truncated: NewBatch(1<<32 + 2) creates 2 entities
// and reports success, NewBatch(1<<32) creates none, and the query of NewBatchQ(1<<32) has Count() == 0
// but yields one phantom "entity" (a slot behind the end of the archetype) on iteration.
// A library that can't create that many entities (ids are 32 bit) must refuse the call, i.e. panic
// like it does for count < 1; it must not return normally having created a different number of entities.
func TestC08BatchCreationCountTruncated(t *testing.T) {
	if strconv.IntSize < 64 {
		t.Skip("needs a 64 bit int")
	}
	one := 1
	big := one << 32 // 4294967296, not a constant, so that the file compiles on 32 bit, too

	countAlive := func(w *ecs.World, id ecs.ID) int {
		q := w.Query(ecs.All(id))
		n := q.Count()
		q.Close()
		return n
	}

	t.Run("NewBatch", func(t *testing.T) {
		w := ecs.NewWorld()
		posID := ecs.ComponentID[c08Pos](&w)
		builder := ecs.NewBuilder(&w, posID)
		builder.NewBatch(3)

		count := big + 2
		panicked := func() (p bool) {
			defer func() { p = recover() != nil }()
			builder.NewBatch(count)
			return
		}()
		if panicked {
			// Refusing the impossible request is fine. The world must be unchanged and usable.
			if w.IsLocked() || countAlive(&w, posID) != 3 {
				t.Fatalf("world changed by a refused NewBatch: locked=%t, entities=%d", w.IsLocked(), countAlive(&w, posID))
			}
			return
		}
		// The call returned normally, i.e. claims to have created `count` entities, like `count` calls of Builder.New would.
		if got := countAlive(&w, posID); got != 3+count {
			t.Fatalf("NewBatch(%d) returned normally, but created %d entities", count, got-3)
		}
	})

	t.Run("NewBatchQ", func(t *testing.T) {
		w := ecs.NewWorld()
		posID := ecs.ComponentID[c08Pos](&w)
		builder := ecs.NewBuilder(&w, posID)
		builder.NewBatch(3)

		count := big
		var q ecs.Query
		panicked := func() (p bool) {
			defer func() { p = recover() != nil }()
			q = builder.NewBatchQ(count)
			return
		}()
		if panicked {
			if w.IsLocked() || countAlive(&w, posID) != 3 {
				t.Fatalf("world changed by a refused NewBatchQ: locked=%t, entities=%d", w.IsLocked(), countAlive(&w, posID))
			}
			return
		}
		// The query must iterate exactly the created entities.
		cnt := q.Count()
		iterated := 0
		for q.Next() {
			iterated++
			if e := q.Entity(); !w.Alive(e) {
				t.Errorf("query of NewBatchQ yields %v, which is not an alive entity (Count() = %d)", e, cnt)
			}
			if iterated > 10 {
				q.Close()
				break
			}
		}
		if cnt != count || iterated != cnt {
			t.Fatalf("NewBatchQ(%d) returned normally: Count() = %d, iterated %d, entities created %d",
				count, cnt, iterated, countAlive(&w, posID)-3)
		}
	})
}
