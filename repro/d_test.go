package repro

import (
	"fmt"
	"reflect"
	"testing"

	"github.com/mlange-42/arche/ecs"
	"github.com/mlange-42/arche/generic"
)

type Pos struct{ X, Y float64 }
type Vel struct{ X, Y float64 }
type ChildOf struct{ ecs.Relation }

func try(name string, f func()) (panicked bool) {
	defer func() {
		if r := recover(); r != nil {
			fmt.Printf("  [%s] PANIC: %v\n", name, r)
			panicked = true
		}
	}()
	f()
	fmt.Printf("  [%s] no panic\n", name)
	return false
}

// D1: high component IDs
func TestD1(t *testing.T) {
	w := ecs.NewWorld()
	ids := []ecs.ID{}
	for i := 0; i < 256; i++ {
		tp := reflect.ArrayOf(i+1, reflect.TypeOf(uint8(0)))
		var id ecs.ID
		if try(fmt.Sprintf("register %d", i), func() { id = ecs.TypeID(&w, tp) }) {
			break
		}
		ids = append(ids, id)
		if i >= 238 {
			try(fmt.Sprintf("NewEntity(id %d)", i), func() {
				e := w.NewEntity(id)
				if !w.Has(e, id) {
					fmt.Println("   !! Has false")
				}
			})
		}
	}
}

// D1b: entity created early, types registered later: Has on high IDs
func TestD1b(t *testing.T) {
	w := ecs.NewWorld()
	id0 := ecs.TypeID(&w, reflect.ArrayOf(1000, reflect.TypeOf(uint8(0))))
	e := w.NewEntity(id0)
	for i := 1; i < 256; i++ {
		tp := reflect.ArrayOf(i+1, reflect.TypeOf(uint8(0)))
		id := ecs.TypeID(&w, tp)
		if i >= 239 {
			try(fmt.Sprintf("Has(e, %d)", i), func() {
				fmt.Println("   has:", w.Has(e, id))
			})
		}
	}
}

// D2: dead target via Relations.Exchange
func TestD2(t *testing.T) {
	w := ecs.NewWorld()
	posID := ecs.ComponentID[Pos](&w)
	relID := ecs.ComponentID[ChildOf](&w)
	parent := w.NewEntity(posID)
	w.RemoveEntity(parent)
	e := w.NewEntity(posID)
	try("Relations.Exchange dead target", func() {
		w.Relations().Exchange(e, []ecs.ID{relID}, nil, relID, parent)
	})
	try("read back target", func() {
		fmt.Println("  target:", w.Relations().Get(e, relID), "alive:", w.Alive(w.Relations().Get(e, relID)))
	})
	e2 := w.NewEntity(posID)
	try("Builder.Add dead target", func() {
		ecs.NewBuilder(&w, relID).WithRelation(relID).Add(e2, parent)
	})
	try("Relations.Set dead target", func() {
		w.Relations().Set(e2, relID, parent)
	})
	try("ExchangeBatch dead target", func() {
		mf := ecs.All(posID).Exclusive()
		w.Relations().ExchangeBatch(&mf, []ecs.ID{relID}, nil, relID, parent)
	})
}

// D3: RemoveEntities with cached filter and dead-target archetype
func TestD3(t *testing.T) {
	w := ecs.NewWorld()
	posID := ecs.ComponentID[Pos](&w)
	relID := ecs.ComponentID[ChildOf](&w)
	p1 := w.NewEntity(posID)
	p2 := w.NewEntity(posID)
	b := ecs.NewBuilder(&w, relID).WithRelation(relID)
	b.New(p1)
	b.New(p2)
	f := ecs.All(relID)
	cf := w.Cache().Register(&f)
	w.RemoveEntity(p1)
	try("RemoveEntities cached", func() {
		n := w.Batch().RemoveEntities(&cf)
		fmt.Println("   removed", n)
	})
	fmt.Println("  locked after:", w.IsLocked())
}

// D4: registered relation filter stale after reset cycles
func TestD4(t *testing.T) {
	w := ecs.NewWorld()
	posID := ecs.ComponentID[Pos](&w)
	relID := ecs.ComponentID[ChildOf](&w)
	b := ecs.NewBuilder(&w, relID).WithRelation(relID)

	p1 := w.NewEntity(posID)
	rf := ecs.NewRelationFilter(ecs.All(relID), p1)
	cf := w.Cache().Register(&rf)
	b.New(p1)
	w.Reset()
	p1b := w.NewEntity(posID)
	fmt.Println("  same handle:", p1 == p1b)
	b.New(p1b)
	w.Reset()
	p1c := w.NewEntity(posID)
	p2 := w.NewEntity(posID)
	_ = p1c
	b.New(p2)
	q := w.Query(&cf)
	cnt := q.Count()
	q.Close()
	q2 := w.Query(&rf)
	cnt2 := q2.Count()
	q2.Close()
	fmt.Println("  cached count:", cnt, "uncached count:", cnt2)
}

// D5: absent resource
func TestD5(t *testing.T) {
	w := ecs.NewWorld()
	r := generic.NewResource[Pos](&w)
	try("generic.Resource.Get absent", func() { fmt.Println("   ", r.Get()) })
	try("ecs.GetResource absent", func() { fmt.Println("   ", ecs.GetResource[Pos](&w)) })
}

// D6: Exclusive stale
func TestD6(t *testing.T) {
	w := ecs.NewWorld()
	posID := ecs.ComponentID[Pos](&w)
	velID := ecs.ComponentID[Vel](&w)
	w.NewEntity(posID)
	w.NewEntity(posID, velID)
	f := generic.NewFilter1[Pos]()
	q := f.Query(&w)
	fmt.Println("  before exclusive:", q.Count())
	q.Close()
	f.Exclusive()
	q = f.Query(&w)
	fmt.Println("  after exclusive:", q.Count(), "(expected 1)")
	q.Close()
}
