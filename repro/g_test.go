package repro

import (
	"fmt"
	"testing"

	"github.com/mlange-42/arche/ecs"
)

func count(w *ecs.World, f ecs.Filter) int {
	q := w.Query(f)
	n := q.Count()
	q.Close()
	return n
}

// G1: relation filter with inner filter not requiring the relation comp: cached vs uncached; registration time
func TestG1(t *testing.T) {
	w := ecs.NewWorld()
	posID := ecs.ComponentID[Pos](&w)
	velID := ecs.ComponentID[Vel](&w)
	relID := ecs.ComponentID[ChildOf](&w)
	p := w.NewEntity()
	w.NewEntity(posID)
	ecs.NewBuilder(&w, posID, relID).WithRelation(relID).New(p)
	rf := ecs.NewRelationFilter(ecs.All(posID), p)
	cf := w.Cache().Register(&rf)
	fmt.Println("  uncached:", count(&w, &rf), "cached(after):", count(&w, &cf))
	w.NewEntity(posID, velID)
	fmt.Println("  uncached:", count(&w, &rf), "cached:", count(&w, &cf))
	fmt.Println("  batch remove uncached would remove:", len(func() []int { return nil }()))
	w2 := ecs.NewWorld()
	_ = w2
}
