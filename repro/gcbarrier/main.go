package main

import (
	"fmt"
	"os"
	"runtime"
	"runtime/debug"
	"time"

	"github.com/mlange-42/arche/ecs"
)

type Holder struct {
	P *Payload
}
type Payload struct {
	Magic [8]uint64
	Self  uint64
}
type Tag struct{ X int32 }
type Tag2 struct{ X int32 }

var sink [][]byte

func main() {
	debug.SetGCPercent(1)
	w := ecs.NewWorld(ecs.NewConfig().WithCapacityIncrement(64))
	hID := ecs.ComponentID[Holder](&w)
	tID := ecs.ComponentID[Tag](&w)
	t2ID := ecs.ComponentID[Tag2](&w)
	n := 20000
	ents := make([]ecs.Entity, n)
	for i := range ents {
		ents[i] = w.NewEntity(hID)
		h := (*Holder)(w.Get(ents[i], hID))
		p := &Payload{Self: uint64(i)}
		for k := range p.Magic {
			p.Magic[k] = 0xABCDEF0000000000 | uint64(i)
		}
		h.P = p
	}
	// background garbage to keep GC cycling
	go func() {
		for {
			b := make([][]byte, 0, 64)
			for i := 0; i < 64; i++ {
				b = append(b, make([]byte, 1024))
			}
			sink = b
			runtime.Gosched()
		}
	}()
	deadline := time.Now().Add(60 * time.Second)
	round := 0
	for time.Now().Before(deadline) {
		round++
		for i, e := range ents {
			switch round % 4 {
			case 1:
				w.Add(e, tID)
			case 2:
				w.Exchange(e, []ecs.ID{t2ID}, []ecs.ID{tID})
			case 3:
				w.Remove(e, t2ID)
			case 0:
				// refresh payload so that old ones become garbage
				h := (*Holder)(w.Get(e, hID))
				p := &Payload{Self: uint64(i)}
				for k := range p.Magic {
					p.Magic[k] = 0xABCDEF0000000000 | uint64(i)
				}
				h.P = p
			}
		}
		for i, e := range ents {
			h := (*Holder)(w.Get(e, hID))
			if h.P == nil || h.P.Self != uint64(i) || h.P.Magic[3] != 0xABCDEF0000000000|uint64(i) {
				fmt.Printf("CORRUPTION round %d entity %d: %+v\n", round, i, h.P)
				os.Exit(3)
			}
		}
	}
	var ms runtime.MemStats
	runtime.ReadMemStats(&ms)
	fmt.Println("no corruption after rounds:", round, "GCs:", ms.NumGC)
}
