// place in: ecs/
package ecs_test

import (
	"testing"

	"github.com/mlange-42/arche/ecs"
	"github.com/stretchr/testify/assert"
)

type c08f1Pos struct{ X, Y float64 }
type c08f1Vel struct{ X, Y float64 }

// Batch.Add / Batch.Remove / Batch.Exchange with an empty component list are the batch counterpart
// of World.Add(e) / World.Remove(e) / World.Exchange(e, nil, nil), which are legal no-ops for every entity.
// The batch call must therefore leave the world unchanged (it does) and return the number of
// entities that match the filter (it returns 0 instead).
func TestC08BatchCountWithoutComponents(t *testing.T) {
	w := ecs.NewWorld()
	posID := ecs.ComponentID[c08f1Pos](&w)
	velID := ecs.ComponentID[c08f1Vel](&w)

	ecs.NewBuilder(&w, posID).NewBatch(7)
	ecs.NewBuilder(&w, posID, velID).NewBatch(5)
	ecs.NewBuilder(&w, velID).NewBatch(3)

	filter := ecs.All(posID)

	// Reference: the single-entity operations, applied to every matching entity, are accepted.
	matching := []ecs.Entity{}
	q := w.Query(filter)
	for q.Next() {
		matching = append(matching, q.Entity())
	}
	assert.Equal(t, 12, len(matching))
	for _, e := range matching {
		w.Add(e)
		w.Remove(e)
		w.Exchange(e, nil, nil)
	}

	// The count of every other batch operation is the number of matching entities,
	// also for entities that need no processing (SetRelation with an unchanged target).
	assert.Equal(t, len(matching), w.Batch().Add(filter), "Batch.Add without components")
	assert.Equal(t, len(matching), w.Batch().Remove(filter), "Batch.Remove without components")
	assert.Equal(t, len(matching), w.Batch().Exchange(filter, nil, nil), "Batch.Exchange without components")
	assert.Equal(t, len(matching), w.Batch().Exchange(filter, []ecs.ID{}, []ecs.ID{}), "Batch.Exchange with empty slices")
}
