// place in: generic/
package generic_test

import (
	"testing"

	"github.com/mlange-42/arche/ecs"
	"github.com/mlange-42/arche/generic"
	"github.com/stretchr/testify/assert"
)

type c19Pos struct{ X int }
type c19Vel struct{ X int }
type c19Tag struct{ X int }

// Two worlds that registered the same types in different orders, driven in lockstep with
// one generic filter (FilterN takes the world on every call).
// Opening a query on world 2 must not change what the already opened query on world 1 yields.
func TestC19QueryOnSecondWorldChangesOpenQueryOnFirstWorld(t *testing.T) {
	w1 := ecs.NewWorld()
	w2 := ecs.NewWorld()

	// world 1: Pos=0, Vel=1, Tag=2
	ecs.ComponentID[c19Pos](&w1)
	ecs.ComponentID[c19Vel](&w1)
	ecs.ComponentID[c19Tag](&w1)
	// world 2: Tag=0, Vel=1, Pos=2
	ecs.ComponentID[c19Tag](&w2)
	ecs.ComponentID[c19Vel](&w2)
	ecs.ComponentID[c19Pos](&w2)

	// world 1: one entity with Pos only (must match), one with Pos+Tag (must not match)
	m1 := generic.NewMap1[c19Pos](&w1)
	m1pt := generic.NewMap2[c19Pos, c19Tag](&w1)
	want := m1.New()
	notWanted := m1pt.New()

	// world 2: some entity
	m2 := generic.NewMap1[c19Pos](&w2)
	m2.New()

	filter := generic.NewFilter1[c19Pos]().Without(generic.T[c19Tag]())

	// Reference: what the query on world 1 yields when world 2 is left alone.
	ref := []ecs.Entity{}
	q := filter.Query(&w1)
	for q.Next() {
		ref = append(ref, q.Entity())
	}
	assert.Equal(t, []ecs.Entity{want}, ref)

	// Same query on world 1, but a query on world 2 is opened (and closed) before it is iterated.
	q1 := filter.Query(&w1)
	q2 := filter.Query(&w2) // an operation on world 2 only
	q2.Close()

	got := []ecs.Entity{}
	for q1.Next() {
		got = append(got, q1.Entity())
	}
	_ = notWanted
	assert.Equal(t, ref, got, "a query on world 2 changed the result of an open query on world 1")
}

// Same with a plain ecs.Filter obtained from the generic filter for world 1.
func TestC19FilterForSecondWorldChangesFilterOfFirstWorld(t *testing.T) {
	w1 := ecs.NewWorld()
	w2 := ecs.NewWorld()

	ecs.ComponentID[c19Pos](&w1)
	ecs.ComponentID[c19Vel](&w1)
	ecs.ComponentID[c19Tag](&w1)
	ecs.ComponentID[c19Tag](&w2)
	ecs.ComponentID[c19Vel](&w2)
	ecs.ComponentID[c19Pos](&w2)

	m1 := generic.NewMap1[c19Pos](&w1)
	m1pt := generic.NewMap2[c19Pos, c19Tag](&w1)
	m1.New()
	m1pt.New()

	filter := generic.NewFilter1[c19Pos]().Without(generic.T[c19Tag]())

	f1 := filter.Filter(&w1)
	q := w1.Query(f1)
	before := q.Count()
	q.Close()
	assert.Equal(t, 1, before)

	_ = filter.Filter(&w2) // an operation on world 2 only

	q = w1.Query(f1)
	after := q.Count()
	q.Close()
	assert.Equal(t, before, after, "building the filter for world 2 changed the filter handed out for world 1")
}
