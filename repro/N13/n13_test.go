// place in: generic/
package generic_test

import (
	"testing"

	"github.com/mlange-42/arche/ecs"
	"github.com/mlange-42/arche/generic"
	"github.com/stretchr/testify/assert"
)

type f1A struct{ V int }
type f1B struct{ V int }
type f1C struct{ V int }
type f1Rel struct {
	ecs.Relation
}

func f1Count(q *ecs.Query) int {
	n := 0
	for q.Next() {
		n++
	}
	return n
}

// A query/filter built from a generic filter must select what the filter was configured to select
// at the time the query was built. For a filter WITHOUT exclusions this holds (the compiled ecs.Mask is
// handed out by value, see TestF1SiblingWithoutExclusionIsStable). For a filter WITH Without()/Exclusive()
// or a fixed relation target, the handed-out ecs.Filter is a pointer into the FilterN's own compiledQuery
// (&q.maskFilter / &q.relationFilter), which is overwritten in place by the next compilation.

// Same filter object used for two worlds (IDs registered in different order), queries interleaved.
func TestF1QueryOfFirstWorldSurvivesUseWithSecondWorld(t *testing.T) {
	w1 := ecs.NewWorld()
	w2 := ecs.NewWorld()

	a1 := ecs.ComponentID[f1A](&w1)
	b1 := ecs.ComponentID[f1B](&w1)
	_ = ecs.ComponentID[f1C](&w1)

	_ = ecs.ComponentID[f1C](&w2)
	_ = ecs.ComponentID[f1B](&w2)
	_ = ecs.ComponentID[f1A](&w2)

	w1.NewEntity(a1)
	w1.NewEntity(a1, b1)

	filter := generic.NewFilter1[f1A]().Without(generic.T[f1C]())

	// Reference: the equivalent core filter.
	core := ecs.All(a1).Without(ecs.ComponentID[f1C](&w1))
	cq := w1.Query(&core)
	assert.Equal(t, 2, cq.Count())
	cq.Close()

	q1 := filter.Query(&w1) // built for w1: "f1A without f1C" -> 2 entities
	q2 := filter.Query(&w2) // same filter, other world
	q2.Close()

	assert.Equal(t, 2, q1.Count(), "query built for w1 must still select 'f1A without f1C' in w1")
	assert.Equal(t, 2, f1Count(&q1.Query))
}

// Same world; a builder method is called between two queries.
func TestF1OpenQueryKeepsConfigurationAtBuildTime(t *testing.T) {
	w := ecs.NewWorld()
	a := ecs.ComponentID[f1A](&w)
	b := ecs.ComponentID[f1B](&w)
	_ = ecs.ComponentID[f1C](&w)

	w.NewEntity(a)
	w.NewEntity(a, b)

	filter := generic.NewFilter1[f1A]().Without(generic.T[f1C]())

	q1 := filter.Query(&w) // "f1A without f1C": 2 entities

	filter.With(generic.T[f1B]())
	q2 := filter.Query(&w) // "f1A, f1B without f1C": 1 entity
	assert.Equal(t, 1, q2.Count())
	q2.Close()

	assert.Equal(t, 2, q1.Count(), "q1 was built when the filter was 'f1A without f1C'")
	assert.Equal(t, 2, f1Count(&q1.Query))
}

// The ecs.Filter handed out by Filter() for a per-call relation target still refers to the shared mask filter.
func TestF1HandedOutRelationFilterKeepsConfiguration(t *testing.T) {
	w := ecs.NewWorld()
	rel := ecs.ComponentID[f1Rel](&w)
	c := ecs.ComponentID[f1C](&w)

	target := w.NewEntity()
	ecs.NewBuilder(&w, rel).WithRelation(rel).New(target)
	ecs.NewBuilder(&w, rel, c).WithRelation(rel).New(target)

	filter := generic.NewFilter1[f1Rel]().WithRelation(generic.T[f1Rel]())

	flt := filter.Filter(&w, target) // "f1Rel with target": 2 entities

	filter.Without(generic.T[f1C]())
	_ = filter.Filter(&w, target) // "f1Rel with target, without f1C": 1 entity

	q := w.Query(flt)
	assert.Equal(t, 2, q.Count(), "flt was built when the filter had no exclusion")
	q.Close()
}

// Control: the sibling path without exclusions is stable (passes on the unmodified library).
func TestF1SiblingWithoutExclusionIsStable(t *testing.T) {
	w := ecs.NewWorld()
	a := ecs.ComponentID[f1A](&w)
	b := ecs.ComponentID[f1B](&w)

	w.NewEntity(a)
	w.NewEntity(a, b)

	filter := generic.NewFilter1[f1A]()
	q1 := filter.Query(&w)

	filter.With(generic.T[f1B]())
	q2 := filter.Query(&w)
	assert.Equal(t, 1, q2.Count())
	q2.Close()

	assert.Equal(t, 2, q1.Count())
	q1.Close()
}
