package main

import (
	"fmt"
	"runtime"

	"github.com/mlange-42/arche/ecs"
)

type PtrComp struct {
	P *[8]int64
}

//go:noinline
func setIt(w *ecs.World, e ecs.Entity, id ecs.ID) {
	x := [8]int64{11, 22, 33, 44, 55, 66, 77, 88}
	w.Set(e, id, &PtrComp{P: &x})
}

//go:noinline
func clobber(depth int) int64 {
	var buf [64]int64
	for i := range buf {
		buf[i] = int64(-depth - i)
	}
	if depth == 0 {
		return buf[3]
	}
	return clobber(depth-1) + buf[5]
}

func main() {
	w := ecs.NewWorld()
	id := ecs.ComponentID[PtrComp](&w)
	e := w.NewEntity(id)
	setIt(&w, e, id)
	clobber(20)
	runtime.GC()
	c := (*PtrComp)(w.Get(e, id))
	fmt.Println("stored value read back:", *c.P)
}
