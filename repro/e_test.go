package repro

import (
	"fmt"
	"testing"

	"github.com/mlange-42/arche/ecs"
	"github.com/mlange-42/arche/ecs/event"
	"github.com/mlange-42/arche/listener"
)

type Rel2 struct{ ecs.Relation }

// E1: no-op exchange with listener
func TestE1(t *testing.T) {
	w := ecs.NewWorld()
	posID := ecs.ComponentID[Pos](&w)
	e := w.NewEntity(posID)
	try("Add() no comps, no listener", func() { w.Add(e) })
	ls := listener.NewCallback(func(w *ecs.World, e ecs.EntityEvent) { fmt.Println("   event", e.EventTypes) }, event.All)
	w.SetListener(&ls)
	try("Add() no comps, with listener", func() { w.Add(e) })
	try("Exchange(nil,nil) with listener", func() { w.Exchange(e, nil, nil) })
}

// E2: failed ops leave state? second relation component / checkRelation after createEntity?
func TestE2(t *testing.T) {
	w := ecs.NewWorld()
	posID := ecs.ComponentID[Pos](&w)
	velID := ecs.ComponentID[Vel](&w)
	relID := ecs.ComponentID[ChildOf](&w)
	rel2ID := ecs.ComponentID[Rel2](&w)
	p := w.NewEntity(posID)
	n0 := len(w.Stats().Nodes)
	try("NewEntity two relations", func() { w.NewEntity(velID, relID, rel2ID) })
	fmt.Println("  nodes before/after:", n0, len(w.Stats().Nodes), "entities", w.Stats().Entities.Used)
	n0 = len(w.Stats().Nodes)
	try("Builder.New target w/o relation comp", func() { ecs.NewBuilder(&w, velID).WithRelation(relID).New(p) })
	fmt.Println("  nodes before/after:", n0, len(w.Stats().Nodes), "entities", w.Stats().Entities.Used)
	try("Builder.NewBatch target w/o relation comp", func() { ecs.NewBuilder(&w, velID).WithRelation(relID).NewBatch(3, p) })
	fmt.Println("  entities", w.Stats().Entities.Used)
	e := w.NewEntity(posID)
	try("Exchange relation target but relation not in result", func() { w.Relations().Exchange(e, []ecs.ID{velID}, nil, relID, p) })
	fmt.Println("  has vel after failed exchange:", w.Has(e, velID))
	// Assign with present component
	try("Assign present comp", func() { w.Assign(e, ecs.Component{ID: posID, Comp: &Pos{1, 2}}) })
	// NewEntityWith duplicate
	used := w.Stats().Entities.Used
	try("NewEntityWith duplicate", func() { w.NewEntityWith(ecs.Component{ID: posID, Comp: &Pos{1, 2}}, ecs.Component{ID: posID, Comp: &Pos{1, 2}}) })
	fmt.Println("  entities before/after:", used, w.Stats().Entities.Used)
}
