package ecs_test

import (
	"testing"

	"github.com/mlange-42/arche/ecs"
)

// J1: 256 simultaneously open queries are allowed; after closing all of them the world must accept queries again.
func TestJ1LockBitsAfterFullNesting(t *testing.T) {
	w := ecs.NewWorld()
	w.NewEntity()
	qs := make([]ecs.Query, 0, ecs.MaskTotalBits)
	for i := 0; i < ecs.MaskTotalBits; i++ {
		qs = append(qs, w.Query(ecs.All()))
	}
	for i := range qs {
		qs[i].Close()
	}
	if w.IsLocked() {
		t.Fatal("world still locked")
	}
	defer func() {
		if r := recover(); r != nil {
			t.Fatalf("query after %d nested queries were closed panics: %v", ecs.MaskTotalBits, r)
		}
	}()
	q := w.Query(ecs.All())
	q.Close()
}
