// place in: ecs/
package ecs_test

import (
	"reflect"
	"testing"

	"github.com/mlange-42/arche/ecs"
	"github.com/stretchr/testify/assert"
)

// Property C16: "a type counts as a relation exactly when ecs.Relation is EMBEDDED as its first field".
// The registry does not look at reflect.StructField.Anonymous, but compares the field NAME with "Relation".

// c16NamedField has an ordinary (named, not embedded) first field that merely is called "Relation".
// ecs.Relation is NOT embedded, so this is not a relation component.
type c16NamedField struct {
	Relation ecs.Relation
	X        int
}

// c16Link is an alias, i.e. the very same type as ecs.Relation.
type c16Link = ecs.Relation

// c16AliasEmbedded embeds ecs.Relation as its first field (through the alias, so the implicit field name is "c16Link").
// This is a relation component.
type c16AliasEmbedded struct {
	c16Link
	X int
}

// c16Plain is an ordinary relation component.
type c16Plain struct {
	ecs.Relation
}

// A named first field of type ecs.Relation is not an embedding: the type must not count as a relation.
func TestC16NamedRelationFieldIsNotARelation(t *testing.T) {
	f := reflect.TypeOf(c16NamedField{}).Field(0)
	assert.False(t, f.Anonymous, "precondition: the field is not embedded")

	w := ecs.NewWorld()
	namedID := ecs.ComponentID[c16NamedField](&w)
	plainID := ecs.ComponentID[c16Plain](&w)

	info, ok := ecs.ComponentInfo(&w, namedID)
	assert.True(t, ok)
	assert.False(t, info.IsRelation, "ecs.Relation is not embedded in c16NamedField, but it is registered as relation")

	// Consequence: the non-relation component can't be combined with the entity's single relation component.
	assert.NotPanics(t, func() { w.NewEntity(namedID, plainID) },
		"entity with one relation component and one ordinary component")

	// Consequence: it is accepted as relation component with a target.
	target := w.NewEntity()
	assert.Panics(t, func() { ecs.NewBuilder(&w, namedID).WithRelation(namedID).New(target) },
		"c16NamedField is not a relation component, giving it a target must panic")
}

// ecs.Relation embedded as first field through an alias is an embedding of ecs.Relation: the type must count as a relation.
func TestC16AliasEmbeddedRelationIsARelation(t *testing.T) {
	f := reflect.TypeOf(c16AliasEmbedded{}).Field(0)
	assert.True(t, f.Anonymous, "precondition: the field is embedded")
	assert.Equal(t, reflect.TypeOf(ecs.Relation{}), f.Type, "precondition: the embedded type is ecs.Relation")

	w := ecs.NewWorld()
	id := ecs.ComponentID[c16AliasEmbedded](&w)

	info, ok := ecs.ComponentInfo(&w, id)
	assert.True(t, ok)
	assert.True(t, info.IsRelation, "ecs.Relation is embedded as first field of c16AliasEmbedded, but it is not registered as relation")

	target := w.NewEntity()
	var e ecs.Entity
	assert.NotPanics(t, func() { e = ecs.NewBuilder(&w, id).WithRelation(id).New(target) })
	if !e.IsZero() {
		assert.Equal(t, target, w.Relations().Get(e, id))
	}
}
