// M1: listener.NewDispatch(ls...) adopts the caller's slice as its list of sub-listeners, and AddListener appends to
// it. If the slice has spare capacity, the append writes into the caller's backing array: two Dispatch values built
// from the same slice (one per world) overwrite each other's later-added sub-listener.
// place in: listener/ (package listener_test); run: go test -run TestM1 ./listener
package listener_test

import (
	"testing"

	"github.com/mlange-42/arche/ecs"
	"github.com/mlange-42/arche/ecs/event"
	"github.com/mlange-42/arche/listener"
)

type m1Pos struct{ X, Y float64 }

func TestM1DispatchesBuiltFromOneSliceStayIndependent(t *testing.T) {
	countBase, countA, countB := 0, 0, 0
	base := listener.NewCallback(func(w *ecs.World, e ecs.EntityEvent) { countBase++ }, event.EntityCreated)
	a := listener.NewCallback(func(w *ecs.World, e ecs.EntityEvent) { countA++ }, event.EntityCreated)
	b := listener.NewCallback(func(w *ecs.World, e ecs.EntityEvent) { countB++ }, event.EntityCreated)

	common := make([]ecs.Listener, 1, 4) // a pre-allocated list of the listeners every world gets
	common[0] = &base

	d1 := listener.NewDispatch(common...)
	d2 := listener.NewDispatch(common...)
	d1.AddListener(&a) // world 1 additionally gets a
	d2.AddListener(&b) // world 2 additionally gets b

	w1 := ecs.NewWorld()
	w1.SetListener(&d1)
	w2 := ecs.NewWorld()
	w2.SetListener(&d2)

	pos1 := ecs.ComponentID[m1Pos](&w1)
	w1.NewEntity(pos1)

	if countA != 1 || countB != 0 {
		t.Fatalf("world 1's dispatch must deliver to the listener added to it (a) and not to world 2's (b): a=%d b=%d base=%d", countA, countB, countBase)
	}
}
