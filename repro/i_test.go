package repro

import (
	"fmt"
	"testing"

	"github.com/mlange-42/arche/ecs"
)

// I1: relation calls on component id 0 when it is NOT a relation and the table has no relation
func TestI1(t *testing.T) {
	w := ecs.NewWorld()
	posID := ecs.ComponentID[Pos](&w) // id 0, not a relation
	velID := ecs.ComponentID[Vel](&w) // id 1, not a relation
	p := w.NewEntity()
	e := w.NewEntity(posID, velID)
	e2 := w.NewEntity(posID, velID)
	try("Relations.Get(e, velID) (id 1, not a relation)", func() { fmt.Println("   ->", w.Relations().Get(e, velID)) })
	try("Relations.Get(e, posID) (id 0, not a relation)", func() { fmt.Println("   ->", w.Relations().Get(e, posID)) })
	n := count(&w, ecs.All(posID))
	try("Relations.Set(e, posID, p) (id 0, not a relation)", func() { w.Relations().Set(e, posID, p) })
	fmt.Println("  entities with Pos before/after:", n, count(&w, ecs.All(posID)))
	q := w.Query(ecs.All(posID))
	for q.Next() {
		fmt.Println("   row:", q.Entity())
	}
	_ = e2
	try("Builder(vel).WithRelation(posID).New(p)", func() { ecs.NewBuilder(&w, velID).WithRelation(posID).New(p) })
	try("Batch.SetRelation(All(pos), posID, p)", func() { fmt.Println("   ->", w.Batch().SetRelation(ecs.All(posID), posID, p)) })
	fmt.Println("  entities with Pos after batch:", count(&w, ecs.All(posID)), " stats entities:", w.Stats().Entities.Used)
}
