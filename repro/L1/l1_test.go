// L1: Query.EntityAt and Query.Step convert their int argument to uint32 without a range check. On 64-bit platforms
// an index of 2^32+i is out of range for every query (entity ids are 32 bits) and must panic, but is silently treated
// as i; a step of 2^32+k lands where k calls of Next would, instead of exhausting the query.
// place in: ecs/ (package ecs_test); run: go test -run TestL1 ./ecs
package ecs_test

import (
	"math"
	"testing"

	"github.com/mlange-42/arche/ecs"
)

type l1Pos struct{ X, Y float64 }

func TestL1EntityAtHugeIndexPanics(t *testing.T) {
	if math.MaxInt == math.MaxInt32 {
		t.Skip("needs a 64-bit int")
	}
	w := ecs.NewWorld()
	posID := ecs.ComponentID[l1Pos](&w)
	for i := 0; i < 5; i++ {
		w.NewEntity(posID)
	}
	huge := int(uint64(1)<<32) + 3
	q := w.Query(ecs.All(posID))
	defer q.Close()
	defer func() {
		if recover() == nil {
			t.Fatal("EntityAt with an index far beyond the query's length must panic")
		}
	}()
	e := q.EntityAt(huge)
	t.Logf("EntityAt(%d) silently returned %v", huge, e)
}

func TestL1StepHugeExhaustsQuery(t *testing.T) {
	if math.MaxInt == math.MaxInt32 {
		t.Skip("needs a 64-bit int")
	}
	w := ecs.NewWorld()
	posID := ecs.ComponentID[l1Pos](&w)
	for i := 0; i < 5; i++ {
		w.NewEntity(posID)
	}
	huge := int(uint64(1)<<32) + 2
	q := w.Query(ecs.All(posID))
	if q.Step(huge) {
		q.Close()
		t.Fatal("Step far beyond the query's length must exhaust the query, but it landed on an entity")
	}
	if w.IsLocked() {
		t.Fatal("the exhausted query must have released its lock")
	}
}
