// K1: a query (or a filter-based removal) through a registered-filter handle that was unregistered panics, as it
// should - but it takes the world's lock bit first, so a caller that recovers keeps a world that is locked with no
// query open: every later structural operation panics with "attempt to modify a locked world".
// place in: ecs/ (package ecs_test); run: go test -run TestK1 ./ecs
package ecs_test

import (
	"testing"

	"github.com/mlange-42/arche/ecs"
)

type k1Pos struct{ X, Y float64 }

func TestK1StaleHandleQueryLeavesWorldLocked(t *testing.T) {
	w := ecs.NewWorld()
	posID := ecs.ComponentID[k1Pos](&w)
	w.NewEntity(posID)
	f := ecs.All(posID)
	cf := w.Cache().Register(&f)
	w.Cache().Unregister(&cf)

	func() {
		defer func() {
			if recover() == nil {
				t.Fatal("query through an unregistered handle must panic")
			}
		}()
		w.Query(&cf)
	}()
	if w.IsLocked() {
		t.Fatal("world is locked after a failed Query, although no query is open")
	}
}

func TestK1StaleHandleRemoveEntitiesLeavesWorldLocked(t *testing.T) {
	w := ecs.NewWorld()
	posID := ecs.ComponentID[k1Pos](&w)
	w.NewEntity(posID)
	f := ecs.All(posID)
	cf := w.Cache().Register(&f)
	w.Cache().Unregister(&cf)

	func() {
		defer func() {
			if recover() == nil {
				t.Fatal("removal through an unregistered handle must panic")
			}
		}()
		w.Batch().RemoveEntities(&cf)
	}()
	if w.IsLocked() {
		t.Fatal("world is locked after a failed RemoveEntities, although no query is open")
	}
}
