// place in: ecs/
package ecs_test

import (
	"testing"

	"github.com/mlange-42/arche/ecs"
	"github.com/stretchr/testify/assert"
)

type c10f1Pos struct{ X, Y int }
type c10f1RelA struct{ ecs.Relation }
type c10f1RelB struct{ ecs.Relation }

// Batch.SetRelation / Batch.SetRelationQ / Relations.SetBatch / Relations.SetBatchQ are documented to panic
// "when called for a missing component" and "when called for a component that is not a relation".
// They fail silently instead, whenever the requested target equals the current target of the
// matched entities (for entities without any relation, that is the zero entity).
func TestC10BatchSetRelationIllegalComponentIsSilent(t *testing.T) {
	w := ecs.NewWorld()
	posID := ecs.ComponentID[c10f1Pos](&w)
	relA := ecs.ComponentID[c10f1RelA](&w)
	relB := ecs.ComponentID[c10f1RelB](&w)

	zero := ecs.Entity{}
	target := w.NewEntity()

	// e1 has only Position: no relation component at all.
	e1 := w.NewEntity(posID)
	// e2 has Position and relation A with a non-zero target.
	e2 := ecs.NewBuilder(&w, posID, relA).WithRelation(relA).New(target)

	// The single-entity operation panics in every one of these cases (reference behaviour).
	assert.Panics(t, func() { w.Relations().Set(e1, posID, zero) }, "single: not a relation")
	assert.Panics(t, func() { w.Relations().Set(e1, relA, zero) }, "single: missing component")
	assert.Panics(t, func() { w.Relations().Set(e2, relB, target) }, "single: missing (other relation)")
	assert.Panics(t, func() { w.Relations().Set(e2, posID, target) }, "single: not a relation")

	onlyPos := ecs.All(posID).Exclusive()
	withA := ecs.All(relA)

	// The batch versions are documented to panic as well. The filters match exactly one non-empty archetype.
	assert.Panics(t, func() { w.Batch().SetRelation(&onlyPos, posID, zero) },
		"Batch.SetRelation: component is not a relation")
	assert.Panics(t, func() { w.Batch().SetRelation(&onlyPos, relA, zero) },
		"Batch.SetRelation: entities do not have the component")
	assert.Panics(t, func() { w.Batch().SetRelation(withA, relB, target) },
		"Batch.SetRelation: entities have relation A, not relation B")
	assert.Panics(t, func() { w.Batch().SetRelation(withA, posID, target) },
		"Batch.SetRelation: Position is not a relation")
	assert.Panics(t, func() { w.Relations().SetBatch(withA, relB, target) },
		"Relations.SetBatch: entities have relation A, not relation B")
	assert.Panics(t, func() {
		q := w.Batch().SetRelationQ(withA, relB, target)
		q.Close()
	}, "Batch.SetRelationQ: entities have relation A, not relation B")
	assert.Panics(t, func() {
		q := w.Relations().SetBatchQ(&onlyPos, posID, zero)
		q.Close()
	}, "Relations.SetBatchQ: component is not a relation")

	assert.False(t, w.IsLocked())

	// Sanity: with a different target, the very same calls do panic.
	assert.Panics(t, func() { w.Batch().SetRelation(&onlyPos, posID, target) })
	assert.Panics(t, func() { w.Batch().SetRelation(withA, relB, zero) })
}
