// place in: ecs/
//
// Needs about 4 GiB of (mostly untouched, lazily committed) virtual memory and a 64-bit platform.
package ecs_test

import (
	"testing"

	"github.com/mlange-42/arche/ecs"
)

// bigComp is a 1 MiB component. 4097 of them make a column of slightly more than 4 GiB.
type bigComp [1 << 20]byte

func TestC01ColumnOffsetWrapsAt4GiB(t *testing.T) {
	const n = 4097 // n * sizeof(bigComp) = 2^32 + 2^20 bytes

	w := ecs.NewWorld(ecs.NewConfig().WithCapacityIncrement(n))
	id := ecs.ComponentID[bigComp](&w)

	entities := make([]ecs.Entity, 0, n)
	for i := 0; i < n; i++ {
		entities = append(entities, w.NewEntity(id))
	}
	first, last := entities[0], entities[n-1]

	pFirst := (*bigComp)(w.Get(first, id))
	pLast := (*bigComp)(w.Get(last, id))

	// Newly created components read as zero.
	if pFirst[0] != 0 || pLast[0] != 0 {
		t.Fatalf("new components are not zero: %d %d", pFirst[0], pLast[0])
	}

	// Write to the component of the LAST entity only...
	pLast[0] = 42

	// ...the component of the FIRST entity must be unaffected.
	if got := (*bigComp)(w.Get(first, id))[0]; got != 0 {
		t.Errorf("writing the component of entity %v changed the component of entity %v: got %d, want 0", last, first, got)
	}
	if pFirst == pLast {
		t.Errorf("World.Get returns the same address %p for two different alive entities %v and %v", pFirst, first, last)
	}
}
