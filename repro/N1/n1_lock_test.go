// place in: ecs/
//
// C09: a query that is exhausted by Step must be closed and must release its world lock.
// Query.stepArchetype adds the step to the uint32 entity index without an overflow check
// (q.entityIndex += step), so a very large step wraps around: Step reports success, the query
// stays open (at a wrong, earlier position) and the world stays locked.
package ecs_test

import (
	"math"
	"testing"

	"github.com/mlange-42/arche/ecs"
	"github.com/stretchr/testify/assert"
)

type c09f1Pos struct{ X, Y float64 }

// Plain query: advance twice with Next, then step by more than any query can hold.
func TestC09StepHugeExhaustsPlainQuery(t *testing.T) {
	w := ecs.NewWorld()
	posID := ecs.ComponentID[c09f1Pos](&w)
	ecs.NewBuilder(&w, posID).NewBatch(10)

	q := w.Query(ecs.All(posID))
	assert.Equal(t, 10, q.Count())
	assert.True(t, q.Next())
	assert.True(t, q.Next()) // at the 2nd of 10 entities
	assert.True(t, w.IsLocked())

	// 10 entities only: the step exceeds the query's entities -> false, query closed, world unlocked.
	ok := q.Step(math.MaxInt)
	assert.False(t, ok, "Step beyond the end of the query must return false")
	assert.False(t, w.IsLocked(), "a query exhausted by Step must release its lock")

	// ... and structural changes must work again.
	assert.NotPanics(t, func() { w.NewEntity(posID) })
}

// Batch-result query, not iterated at all before: the archetype already holds 5 older entities,
// so the batch starts at index 5; the remaining step wraps around from there.
func TestC09StepHugeExhaustsBatchQuery(t *testing.T) {
	w := ecs.NewWorld()
	posID := ecs.ComponentID[c09f1Pos](&w)
	builder := ecs.NewBuilder(&w, posID)
	builder.NewBatch(5)

	q := builder.NewBatchQ(3)
	assert.Equal(t, 3, q.Count())
	assert.True(t, w.IsLocked())

	ok := q.Step(math.MaxInt)
	assert.False(t, ok, "Step beyond the end of the batch query must return false")
	if ok {
		// The query claims to be at a valid position: it is at an entity that is not part of the batch.
		t.Logf("batch query over entities 6..8 is now at entity %v", q.Entity())
	}
	assert.False(t, w.IsLocked(), "a batch query exhausted by Step must release its lock")
	assert.NotPanics(t, func() { w.NewEntity(posID) })
}
