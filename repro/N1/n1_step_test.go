// place in: ecs/
package ecs

import (
	"math"
	"testing"

	"github.com/stretchr/testify/assert"
)

type huntC03Pos struct{ X, Y float64 }

// Step(k) must land where k calls of Next would. With 3 entities and the query
// positioned on the 2nd one, any k >= 2 must exhaust the query (return false and close it).
// Instead, for k = MaxUint32 the 32 bit addition in stepArchetype wraps around,
// Step returns true and the query is positioned on an entity it has already visited.
func TestHuntC03StepWrapsAround(t *testing.T) {
	if math.MaxInt <= math.MaxUint32 {
		t.Skip("needs a 64 bit int")
	}
	for _, registered := range []bool{false, true} {
		w := NewWorld()
		posID := ComponentID[huntC03Pos](&w)
		NewBuilder(&w, posID).NewBatch(3)

		var filter Filter
		mask := All(posID)
		filter = &mask
		if registered {
			cf := w.Cache().Register(&mask)
			filter = &cf
		}

		// Reference: k calls of Next.
		q := w.Query(filter)
		assert.Equal(t, 3, q.Count())
		assert.True(t, q.Next())
		first := q.Entity()
		assert.True(t, q.Next())
		second := q.Entity()
		assert.True(t, q.Next())
		assert.False(t, q.Next())
		assert.False(t, w.IsLocked())

		for _, step := range []int{math.MaxUint32, math.MaxUint32 + 5, math.MaxInt} {
			q = w.Query(filter)
			assert.True(t, q.Next())
			assert.True(t, q.Next())
			assert.Equal(t, second, q.Entity())

			ok := q.Step(step)
			if !assert.False(t, ok, "Step(%d) from the 2nd of 3 entities must exhaust the query (registered=%v)", step, registered) {
				assert.NotEqual(t, first, q.Entity(), "Step(%d) went BACK to the first entity", step)
				q.Close()
			}
			assert.False(t, w.IsLocked(), "query must be closed after a step beyond the end")
		}
	}
}
