package repro

import (
	"fmt"
	"testing"

	"github.com/mlange-42/arche/ecs"
)

// F1: self-target removal
func TestF1(t *testing.T) {
	w := ecs.NewWorld()
	relID := ecs.ComponentID[ChildOf](&w)
	e := w.NewEntity(relID)
	w.Relations().Set(e, relID, e)
	fmt.Println("  self target:", w.Relations().Get(e, relID) == e)
	try("RemoveEntity self-target", func() { w.RemoveEntity(e) })
	fmt.Println("  alive:", w.Alive(e), "locked:", w.IsLocked())
	try("create again", func() {
		p := w.NewEntity()
		c := ecs.NewBuilder(&w, relID).WithRelation(relID).New(p)
		fmt.Println("   target ok:", w.Relations().Get(c, relID) == p)
	})
	fmt.Println(w.Stats().Nodes[1].ArchetypeCount, w.Stats().Nodes[1].ActiveArchetypeCount)
}

// F2: batch removal self-target / parent and children same batch
func TestF2(t *testing.T) {
	w := ecs.NewWorld()
	relID := ecs.ComponentID[ChildOf](&w)
	e := w.NewEntity(relID)
	w.Relations().Set(e, relID, e)
	p := w.NewEntity(relID)
	b := ecs.NewBuilder(&w, relID).WithRelation(relID)
	b.NewBatch(3, p)
	try("RemoveEntities all", func() { fmt.Println("   removed", w.Batch().RemoveEntities(ecs.All())) })
	fmt.Println("  locked:", w.IsLocked())
}
