#!/usr/bin/env python3
# Writes the prompts given to the independent sub-agents (seeding round 6, refactoring batch 5).
# The prompts contain the property text and a scratch worktree path only - nothing from /verif.
# usage: mkprompts.py <mut-root> <ref-root>     e.g. /tmp/mut6 /tmp/ref5
import json, sys, os
MUT, REF = sys.argv[1], sys.argv[2]
USED = '''Six earlier rounds of seeding already used (do not repeat these): dropping or moving a guard, a forgotten reset/refresh, comparing only ids, ranging over a map, a swapped index in generated code, skipping inactive tables, off-by-one unsigned bounds, overwritten running totals, truncating conversions, sharing a slice instead of copying it, recreating a registry in Reset, losing a filter clause, asymmetric graph edges, statement reordering around the swap fix-up, clear() of the pool, reflect.TypeOf on a zero T, early returns from Reset/LoadEntities, deferring a recycle, recycling filter ids, merging batch ranges, pre-filtering notifications, caching a resource pointer, liveness tests on inherited targets, `return` for `continue`, Len() filters in getArchetypes, dropping StartIndex, a wrong modulus in idMap, returning the source pointer from Set, rebuilding dump entries, forgetting to store a lock bit, a slip in one word of a mask operation, a lock released only on one branch, a memoised table not cleared on retire, stale pointers to swapped slice elements, value/pointer receiver mix-ups, package-level shared state, uint8 counters that wrap, buffer positions used as component ids, the wrong one of two similar callees, a variadic target ignored, bulk copy() inside the filter list, lock-mask changes before validation, treating id 0 as "absent", accumulating setters, recycling before the removal event, dropping the CachedFilter case in getArchetypes, name-based relation detection, len(map) as a position, Count()-bounded query loops, zeroing the caller's filter handle, an old target set on one branch only, maps.DeleteFunc with side effects, rebuilding slot 0 on load, collecting alive ids in id order, creating before validating in generic New, sum-instead-of-or in IsZero, single-pass include/exclude matching, batch bounds from the table length, live lengths in count loops, Deactivate clearing the target, skipping zeroing of pointer-free columns, same-pointer resource re-add, dropping comma-ok in GetResource. This SEVENTH round must find something ELSE again. To get away from the much-seeded core files (world_internal.go, archetype.go, cache.go), at least ONE of your two mutants must be in one of these less-visited places, if the property can be broken there at all:
  ecs/relations.go, ecs/batch.go, ecs/builder.go, ecs/functions.go, ecs/entity.go, ecs/pool.go, ecs/bitset.go, ecs/id_map.go, ecs/util.go, ecs/registry.go, ecs/resources.go, ecs/filter.go, ecs/event.go, ecs/archetypes.go (pagedSlice, batchArchetypes, pointers), ecs/archetype_node.go (neighbours, graph), ecs/query.go (Get/Has/Mask/Ids/Relation/Close/Count), listener/*.go, filter/*.go, generic/*.go (including ONE arity of the *_generated.go families, edited by hand as a maintainer who forgot to re-run the generator would).
Ideas of a different kind than before:
  - *exact limits*: the last usable component id (255, or 63 with `-tags tiny`), the 256th / 64th lock bit, exactly 16 / 17 / 32 component types, page boundaries of the paged archetype list (32 per page), a capacity increment of exactly 1, id 0 vs the zero value, MaxUint32 generations;
  - *a condition that is right for one of two callers only* (a shared helper adjusted for the caller in front of the maintainer's eyes);
  - *graph and lookup structures*: the archetype graph's neighbour cache handing back a node for a different mask, the id map's page/offset split, the paged slice's Get/Add/Len after growth, the target map of a node after slot reuse;
  - *read paths*: Has/Get/Mask/Ids/Relation/Count/EntityAt answering from the wrong table or a stale cached pointer after a structural change, `HasUnchecked`/`GetUnchecked` variants diverging from the checked ones on valid input;
  - *Batch / Builder / Relations facades* calling the internal function with arguments in the wrong order or the wrong constant flag;
  - *events carrying the right bits but wrong payload* (AddedIDs/RemovedIDs order or aliasing, NewRelation/OldRelation pointers to a shared variable);
  - *listener.Dispatch / listener.Callback* bookkeeping (aggregated subscriptions and component masks after AddListener), *filter package* combinators under nesting.
The bug must need something specific to manifest - NOT something ordinary use exposes at once - and must be demonstrable by a deterministic test. The two mutants must use different mechanisms and touch different functions. Keep each mutant small (a few lines) and plausible as a maintainer's mistake.

'''
T = '''You are helping to test a verification framework for the Go library mlange-42/arche (an archetype-based Entity Component System). Your job: act as a "bug seeder", seventh round.

You have your own scratch git worktree of the library at {wt} (a detached checkout; work ONLY there and under {out}; never touch /repo or /verif, and do not read anything under /verif). Do NOT use `git stash` (the stash is shared between worktrees); to undo changes use `git checkout -- . && git clean -fdq` inside your worktree.

Here is a semantic property that the library is supposed to satisfy:

  ID: {id}
  Title: {title}
  Statement: {statement}
  Quantified over: {quant}
  Most relevant source files: {files}

TASK: produce TWO different, independent, realistic code changes ("mutants") to the library's non-test source, each of which BREAKS this property, while
  (a) the library still compiles (`go build ./...`),
  (b) the existing test suite still passes completely, unedited (`go test -vet=off -count=1 ./...` from the worktree root; also check `-tags tiny`),
  (c) you have a demonstration: a new Go test file that FAILS with your change applied and PASSES on the unmodified worktree.

''' + USED + '''Environment: no network. Before every go command: `export GOFLAGS=-mod=mod GOPROXY=off GOSUMDB=off GOTOOLCHAIN=local GOWORK=off`. Go is go1.23. testify is available for tests.

DELIVERABLES - for k in 1,2 write into {out}/m<k>/ :
  - patch.diff : output of `git diff` in the worktree for the mutant ONLY (library source change, no test file), must apply with `git apply` / `patch -p1` to a clean checkout;
  - demo_test.go : the demonstration test, with a first-line comment saying which directory of the repo it must be placed in (e.g. `// place in: ecs/`);
  - meta.txt : 5-10 lines: what was changed, why it breaks the property, what is needed for it to manifest, and the exact commands you ran with their outcome.
Verify all of (a),(b),(c) yourself by actually running the commands. When done, restore the worktree to a clean state. Keep your final answer to a few lines.
'''
os.makedirs(MUT + '/prompts', exist_ok=True)
for l in open('/verif/properties.jsonl'):
    p = json.loads(l)
    pid = p['id']
    s = T.format(wt=MUT + '/' + pid, out=MUT + '/out/' + pid, id=pid, title=p['title'], statement=p['statement'], quant=p['quantifier']['text'], files=', '.join(p['anchors']['files']))
    open(MUT + '/prompts/%s.txt' % pid, 'w').write(s)

R = '''You are helping to test a static-analysis framework for the Go library mlange-42/arche (an archetype-based Entity Component System). Your job this time is NOT to introduce bugs: it is to make BEHAVIOUR-PRESERVING refactorings, of the kind a maintainer makes during ordinary clean-up, so that we can check that the framework raises no false alarms on correct code.

You have your own scratch git worktree of the library at {wt} (a detached checkout; work ONLY there and under {out}; never touch /repo or /verif, and do not read anything under /verif). Do NOT use `git stash`; to undo changes use `git checkout -- . && git clean -fdq`.

Area to refactor: {area}

TASK: produce FOUR independent refactoring patches (each relative to the clean checkout, not stacked), each touching the area above, each strictly behaviour-preserving for every input, each of moderate size (5-40 changed lines). Use a DIFFERENT kind of refactoring for each.
Do not change exported API, do not change behaviour in any corner case (including panics and their order relative to state changes), do not delete checks.

Each patch must (a) compile (`go build ./...`), (b) pass the complete existing test suite unedited (`go test -vet=off -count=1 ./...`, also with `-tags tiny` and `-tags debug`).

Environment: no network. Before every go command: `export GOFLAGS=-mod=mod GOPROXY=off GOSUMDB=off GOTOOLCHAIN=local GOWORK=off`. Go is go1.23.

DELIVERABLES - for k in 1..4 write into {out}/r<k>/ :
  - patch.diff : `git diff` of that refactoring against the clean checkout (must apply with `patch -p1`);
  - meta.txt : 3-6 lines: what kind of refactoring, which functions, why it is behaviour-preserving, commands run and outcome.
When done, restore the worktree to a clean state. Keep your final answer to a few lines.
'''
areas = {
 1: "package generic, the *_generated.go files (map_generated.go, filter_generated.go, query_generated.go) - MECHANICAL edits applied CONSISTENTLY TO EVERY ARITY, as if the generator template had been changed and re-run: rename a local variable or receiver in every MapN/FilterN/QueryN method of one family, reorder two independent statements in every arity, replace `if x { return a }; return b` by the equivalent form in every arity, extract a repeated three-line sequence into an unexported helper in a hand-written file and call it from every arity, change how every arity builds its id list (explicit literal vs append) with identical contents and order. Each of the four patches must apply its edit to ALL arities of the family it touches.",
 2: "package ecs, files relations.go, batch.go, builder.go, functions.go, entity.go, event.go, filter.go - clean-up of the facade layer: forward through one unexported helper instead of repeating the call, reorder parameters of an unexported function (update all callers), rename receivers/locals, convert value receivers to pointer receivers or back where no caller can observe it, replace a chain of `if` by a `switch`, split a long function, merge two tiny ones.",
 3: "package ecs, files pool.go, bitset.go, id_map.go, util.go, registry.go, resources.go, archetypes.go (pagedSlice, pointers, batchArchetypes) - data-structure clean-up with identical behaviour: named constants for page sizes / word sizes, equivalent bit arithmetic (`/64` vs `>>6`, `%64` vs `&63`) on UNSIGNED operands only, helper methods for index splitting, range loops vs index loops, early returns, generic helpers for repeated slice code, field reordering (keep unsafe layouts valid).",
 4: "package ecs, files archetype_node.go, world.go (NewWorld/fromConfig/Reset/Stats/Cache/Resources/Batch/Relations accessors), query.go (Get/Has/Mask/Ids/Relation/Count/Close/EntityAt) - clean-up with identical behaviour: extract guards into `check…` helpers that panic with exactly the same message under the same condition and at the same point, inline one-line helpers, rename unexported methods, replace method values by closures or the reverse, reorder independent field initialisations.",
 5: "packages listener and filter, and ecs/event, ecs/stats - clean-up with identical behaviour: table-driven rewrites, De Morgan rewrites of conditions, swapping operands of commutative operators, renaming unexported identifiers, extracting helpers, replacing loops by equivalent `slices`/builtin calls ONLY where exactly equivalent, reordering declarations and methods.",
 6: "any non-test file of package ecs - LARGER structural refactorings (30-80 changed lines each, still strictly behaviour-preserving): (r1) split world_internal.go's entity-creation functions into a new file world_create.go, moving code verbatim; (r2) introduce an unexported struct type that groups three or four World fields that are always used together (e.g. the entity index with its target flags, or the listener with its cached subscription data) and update all uses; (r3) replace an unexported method's bool parameter by two separately named methods (or the reverse) updating all callers; (r4) make an unexported helper generic over the element type and use it from two places that had their own copy.",
}
os.makedirs(REF + '/prompts', exist_ok=True)
for k, a in areas.items():
    open(REF + '/prompts/R%d.txt' % k, 'w').write(R.format(wt=REF + '/R%d' % k, out=REF + '/out/R%d' % k, area=a))
print('ok')
