#!/bin/bash
# usage: verify_seed.sh <dir with patch.diff + demo_test.go> <name>
# Confirms on a scratch copy of /repo: patch applies, builds, existing suite passes (default + tiny),
# demo fails with the patch and passes without. Prints one summary line; exit 0 iff all confirmed.
set -u
src=$1; name=$2
export GOFLAGS=-mod=mod GOPROXY=off GOSUMDB=off GOTOOLCHAIN=local GOWORK=off
d=$(mktemp -d /tmp/seedverify-XXXXXX)
trap 'rm -rf "$d"' EXIT
rsync -a --exclude .git /repo/ "$d/"
place=$(head -1 "$src/demo_test.go" | sed -n 's,^// *place in: *\([^ ]*\).*,\1,p')
[ -z "$place" ] && place="ecs/"
demo="$d/$place/zz_seed_demo_test.go"
runs=$(grep -o '^func Test[A-Za-z0-9_]*' "$src/demo_test.go" | sed 's/func //' | paste -sd'|')
# without patch: demo passes
cp "$src/demo_test.go" "$demo"
clean=$(cd "$d" && go test -vet=off -count=1 -run "^($runs)\$" "./$place" 2>&1); crc=$?
# with patch
if ! (cd "$d" && patch -p1 -s < "$src/patch.diff"); then echo "$name PATCH-FAILS"; exit 1; fi
build=$(cd "$d" && go build ./... 2>&1); brc=$?
mut=$(cd "$d" && go test -vet=off -count=1 -run "^($runs)\$" "./$place" 2>&1); mrc=$?
rm -f "$demo"
suite=$(cd "$d" && go test -vet=off -count=1 ./... 2>&1); src1=$?
suitet=$(cd "$d" && go test -vet=off -count=1 -tags tiny ./... 2>&1); src2=$?
ok=1
[ $crc -eq 0 ] || ok=0; [ $brc -eq 0 ] || ok=0; [ $mrc -ne 0 ] || ok=0; [ $src1 -eq 0 ] || ok=0; [ $src2 -eq 0 ] || ok=0
echo "$name confirmed=$ok build=$brc suite=$src1 suite_tiny=$src2 demo_clean=$crc demo_mutant=$mrc tests=$runs"
[ $ok -eq 1 ]
