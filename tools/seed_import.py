#!/usr/bin/env python3
# Import confirmed seeded changes into /verif/seeded/<id>/ (patch.diff, demo_test.go, meta.json).
import json, os, shutil, re, sys, glob
# usage: seed_import.py [round-dir=/tmp/mut] [suffix='']  (round 2: /tmp/mut2 r2)
ROOT = sys.argv[1] if len(sys.argv) > 1 else '/tmp/mut'
SUF = sys.argv[2] if len(sys.argv) > 2 else ''
ver = {}
lines = []
for f in sorted(glob.glob(ROOT + '/verify/*.txt')):
    lines += open(f).read().splitlines()
for l in lines:
    p = l.split()
    if len(p) > 1 and p[1].startswith('confirmed='):
        ver[p[0]] = l.strip()
os.makedirs('/verif/seeded', exist_ok=True)
for prop in sorted(os.listdir(ROOT + '/out')):
    for m in ('m1', 'm2'):
        src = f'{ROOT}/out/{prop}/{m}'
        key = f'{prop}-{SUF}{m}'
        if not os.path.exists(src + '/patch.diff') or 'confirmed=1' not in ver.get(key, ''):
            print('skip', key, ver.get(key)); continue
        dst = f'/verif/seeded/{key}'
        os.makedirs(dst, exist_ok=True)
        shutil.copy(src + '/patch.diff', dst + '/patch.diff')
        shutil.copy(src + '/demo_test.go', dst + '/demo_test.go')
        meta_txt = open(src + '/meta.txt').read() if os.path.exists(src + '/meta.txt') else ''
        files = sorted(set(re.findall(r'^\+\+\+ b/(\S+)', open(src + '/patch.diff').read(), re.M)))
        meta = {
            "id": key, "breaks_property": prop, "origin": "independent sub-agent given only the property text and its own scratch worktree of /repo (fixed tree)",
            "files_changed": files,
            "description_and_what_it_needs_to_manifest": meta_txt.strip(),
            "confirmed_by_me": {"how": "tools/verify_seed.sh on a scratch copy of /repo: patch applies, go build ./..., unedited suite passes (default and -tags tiny), demo fails with the patch and passes without", "result": ver[key]},
            "caught_by": None,
        }
        json.dump(meta, open(dst + '/meta.json', 'w'), indent=1)
print('imported', len([d for d in os.listdir('/verif/seeded')]))
