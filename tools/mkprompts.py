#!/usr/bin/env python3
# Writes the prompts given to the independent sub-agents (seeding round 6, refactoring batch 5).
# The prompts contain the property text and a scratch worktree path only - nothing from /verif.
# usage: mkprompts.py <mut-root> <ref-root>     e.g. /tmp/mut6 /tmp/ref5
import json, sys, os
MUT, REF = sys.argv[1], sys.argv[2]
USED = '''Five earlier rounds of seeding already used: dropping or moving a guard, a forgotten reset/refresh, comparing only ids, ranging over a map, a swapped index in generated code, skipping inactive tables when extending layouts, an off-by-one unsigned bound, an overwritten running total, a truncating uint8 conversion, sharing a slice instead of copying it, recreating a registry in Reset, losing a filter clause when wrapping filters, asymmetric graph edges, statement reordering around the swap fix-up, clear() of the pool, reflect.TypeOf on a zero T, early returns from Reset/LoadEntities, a JSON fast path, deferring a recycle, recycling filter ids, merging batch ranges, pre-filtering notifications on a subscription mask, caching a resource pointer in a mapper, liveness tests on inherited targets, `return` for `continue` in a column loop, Len() filters in getArchetypes, dropping StartIndex in EntityAt, a wrong modulus in idMap, returning the source pointer from Set, rebuilding dump entries, copying an index entry instead of pointing to it, forgetting to store a lock bit, a slip in one word of a mask operation, mutating the receiver in Mask.Or, a lock released only on one branch, a memoised table not cleared on retire, a non-nil empty index map, a stale pointer to a swapped slice element, computing the has-relation flag from the target, value/pointer receiver mix-ups, a package-level shared helper, re-allocating the resource table, iterating World.archetypes, stripping a pointer type in ResourceTypeID, a uint8 counter that wraps, skipping zero-sized columns for the wrong reason, buffer positions used as component ids, the wrong one of two similar callees, a variadic target ignored, target flags not extended, bulk copy() inside the filter list, lock-mask changes before validation, treating id 0 as "absent", add/remove lists that differ between the with-target and without-target branch. This SIXTH round must find something ELSE again - be inventive:
  - *interplay of two features* that are each fine alone: listener + batch operation + relation; registered (cached) filter + removal of a relation target + World.Reset; nested queries + locks + Close/early termination; resources + Reset; Builder/generic wrappers + cached filters; DumpEntities/LoadEntities + relation targets + recycled entities;
  - *partial application*: a panic (invalid argument, locked world, dead entity, duplicate component) raised only AFTER some state was already changed, so that a caller that recovers sees an inconsistent world; a multi-entity operation that validates per element instead of up front;
  - *zero values and degenerate inputs*: the zero Entity, zero-sized components (struct{{}}), empty / nil id lists, an empty Mask, count 0 or 1 batches, components that contain pointers or slices, a world with exactly one table, a filter that matches nothing;
  - *aliasing with the caller*: a slice, mask or pointer that the library hands out or receives and keeps, so that a later modification by the caller (or by the library) is seen on the other side;
  - *repetition and idempotence*: the same call twice (Close, Unregister, Reset, RemoveEntity+NewEntity cycles, Add after Remove of the same component, re-registering a filter), the 2nd/3rd recycling of the same slot, wrap-around of generations;
  - *one arity or one sibling only* in the generic package's families (Map1..Map12, Filter0..Filter8, Query.Get/Relation/Entity, NewBatch vs NewBatchQ vs New) - including the hand-written code the generated files call;
  - *configuration*: unusual Config values (CapacityIncrement 1, RelationCapacityIncrement different from CapacityIncrement), the `tiny` build tag (64-bit masks), the `debug` build tag.
The bug must need something specific to manifest - NOT something ordinary use exposes at once - and must be demonstrable by a deterministic test. The two mutants must use different mechanisms and touch different functions; prefer functions and files the earlier rounds did not touch. Keep each mutant small (a few lines) and plausible as a maintainer's mistake.

'''
T = '''You are helping to test a verification framework for the Go library mlange-42/arche (an archetype-based Entity Component System). Your job: act as a "bug seeder", sixth round.

You have your own scratch git worktree of the library at {wt} (a detached checkout; work ONLY there and under {out}; never touch /repo or /verif, and do not read anything under /verif). Do NOT use `git stash` (the stash is shared between worktrees); to undo changes use `git checkout -- . && git clean -fdq` inside your worktree.

Here is a semantic property that the library is supposed to satisfy:

  ID: {id}
  Title: {title}
  Statement: {statement}
  Quantified over: {quant}
  Most relevant source files: {files}

TASK: produce TWO different, independent, realistic code changes ("mutants") to the library's non-test source, each of which BREAKS this property, while
  (a) the library still compiles (`go build ./...`),
  (b) the existing test suite still passes completely, unedited (`go test -vet=off -count=1 ./...` from the worktree root; also check `-tags tiny`),
  (c) you have a demonstration: a new Go test file that FAILS with your change applied and PASSES on the unmodified worktree.

''' + USED + '''Environment: no network. Before every go command: `export GOFLAGS=-mod=mod GOPROXY=off GOSUMDB=off GOTOOLCHAIN=local GOWORK=off`. Go is go1.23. testify is available for tests.

DELIVERABLES - for k in 1,2 write into {out}/m<k>/ :
  - patch.diff : output of `git diff` in the worktree for the mutant ONLY (library source change, no test file), must apply with `git apply` / `patch -p1` to a clean checkout;
  - demo_test.go : the demonstration test, with a first-line comment saying which directory of the repo it must be placed in (e.g. `// place in: ecs/`);
  - meta.txt : 5-10 lines: what was changed, why it breaks the property, what is needed for it to manifest, and the exact commands you ran with their outcome.
Verify all of (a),(b),(c) yourself by actually running the commands. When done, restore the worktree to a clean state. Keep your final answer to a few lines.
'''
os.makedirs(MUT + '/prompts', exist_ok=True)
for l in open('/verif/properties.jsonl'):
    p = json.loads(l)
    pid = p['id']
    s = T.format(wt=MUT + '/' + pid, out=MUT + '/out/' + pid, id=pid, title=p['title'], statement=p['statement'], quant=p['quantifier']['text'], files=', '.join(p['anchors']['files']))
    open(MUT + '/prompts/%s.txt' % pid, 'w').write(s)

R = '''You are helping to test a static-analysis framework for the Go library mlange-42/arche (an archetype-based Entity Component System). Your job this time is NOT to introduce bugs: it is to make BEHAVIOUR-PRESERVING refactorings, of the kind a maintainer makes during ordinary clean-up, so that we can check that the framework raises no false alarms on correct code.

You have your own scratch git worktree of the library at {wt} (a detached checkout; work ONLY there and under {out}; never touch /repo or /verif, and do not read anything under /verif). Do NOT use `git stash`; to undo changes use `git checkout -- . && git clean -fdq`.

Area to refactor: {area}

TASK: produce FOUR independent refactoring patches (each relative to the clean checkout, not stacked), each touching the area above, each strictly behaviour-preserving for every input, each of moderate size (5-40 changed lines). Use a DIFFERENT kind of refactoring for each.
Do not change exported API, do not change behaviour in any corner case (including panics and their order relative to state changes), do not delete checks.

Each patch must (a) compile (`go build ./...`), (b) pass the complete existing test suite unedited (`go test -vet=off -count=1 ./...`, also with `-tags tiny` and `-tags debug`).

Environment: no network. Before every go command: `export GOFLAGS=-mod=mod GOPROXY=off GOSUMDB=off GOTOOLCHAIN=local GOWORK=off`. Go is go1.23.

DELIVERABLES - for k in 1..4 write into {out}/r<k>/ :
  - patch.diff : `git diff` of that refactoring against the clean checkout (must apply with `patch -p1`);
  - meta.txt : 3-6 lines: what kind of refactoring, which functions, why it is behaviour-preserving, commands run and outcome.
When done, restore the worktree to a clean state. Keep your final answer to a few lines.
'''
areas = {
 1: "package ecs, files world.go and world_internal.go - PERFORMANCE-MOTIVATED rewrites that keep behaviour identical: hoist a repeated field load or len() out of a loop into a local, replace `for range` by an index loop or vice versa, inline a tiny helper manually at one call site, split a function into a fast path and a slow path (`if common { ...; return }` first) without changing what either path does, pass a struct by pointer instead of by value to an unexported helper, pre-size a slice with make(.., 0, n) where the contents end up identical, cache `&w.x` in a local pointer.",
 2: "package ecs, files archetype.go, archetype_node.go, archetypes.go, cache.go, pool.go, bitset.go, id_map.go - PERFORMANCE-MOTIVATED rewrites that keep behaviour identical: hoist loads out of loops, replace division/modulo by shifts/masks only where exactly equivalent, replace a method call in a loop by direct field access (same package), convert small value-receiver methods to pointer receivers or vice versa where no caller can observe it, merge two consecutive loops over the same range into one only if their bodies are independent, replace `append` growth by explicit make+copy with identical result.",
 3: "package ecs, files query.go, filter.go, bitmask*.go, relations.go, batch.go, builder.go, functions.go, resources.go, registry.go - DEFENSIVE and READABILITY clean-up: name magic numbers, add a redundant assertion that can never fire under the existing preconditions ONLY under the `debug` build tag (never in the default build), convert if-chains to switch, invert conditions with early returns, introduce intermediate booleans with descriptive names, extract `validate…` helpers that contain exactly the existing checks in the same order, reorder independent statements.",
 4: "packages generic (hand-written files only: compiled.go, exchange.go, map.go, util.go, resource.go, query.go, filter.go), listener, filter - READABILITY clean-up: convert methods to unexported free functions taking the receiver (or the reverse), unify near-duplicate code of sibling methods through one unexported helper with exactly the same effect, rename unexported fields/locals, replace `x == false` style by `!x`, turn a sequence of appends into one composite literal or the reverse, introduce a named type for a repeated func signature.",
 5: "any non-test file of package ecs - STRUCTURAL changes: (r1) move a method from one unexported type to another that it mostly operates on, forwarding from the old place (behaviour identical); (r2) convert an unexported struct's bool field pair into a small unexported enum/bit-flag type with accessor methods, updating all uses; (r3) wrap a repeated three-statement sequence that occurs in at least three functions into one unexported method and call it everywhere; (r4) replace an unexported function's multiple return values by a small result struct (or the reverse), updating all callers.",
 6: "any non-test file of packages ecs, generic, listener, filter - MIXED: (r1) introduce generics to merge two unexported helpers that differ only in an element type; (r2) replace a closure by a named unexported method or function, or a named function by a closure, where capture semantics are identical; (r3) change loop structure around a `continue`/`break` (e.g. invert the condition and nest the body, or use a labelled continue) with identical iteration behaviour; (r4) replace explicit `if cond { panic(msg) }` groups at the top of several functions by one unexported `must…`/`check…` helper that panics with exactly the same message under exactly the same condition and order.",
}
os.makedirs(REF + '/prompts', exist_ok=True)
for k, a in areas.items():
    open(REF + '/prompts/R%d.txt' % k, 'w').write(R.format(wt=REF + '/R%d' % k, out=REF + '/out/R%d' % k, area=a))
print('ok')
