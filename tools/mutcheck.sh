#!/bin/bash
# usage: mutcheck.sh <patch.diff> <property>...   — apply the patch to a scratch copy of /repo and run the checks on it.
# Prints one line per property: "<prop> exit=<rc> <n> violations" and the violated keys.
set -u
patch=$1; shift
export GOFLAGS=-mod=mod GOPROXY=off GOSUMDB=off GOTOOLCHAIN=local GOWORK=off
d=$(mktemp -d /tmp/archemut-XXXXXX)
trap 'rm -rf "$d"' EXIT
rsync -a --exclude .git /repo/ "$d/"
if ! (cd "$d" && git apply --unsafe-paths "$patch" 2>/dev/null || patch -p1 -s < "$patch"); then
  echo "PATCH DOES NOT APPLY: $patch"; exit 3
fi
for p in "$@"; do
  out=$(ARCHE_REPO="$d" ${ARCHECHECK:-/verif/bin/archecheck} -property "$p" -tier ${TIER:-quick} -no-evidence 2>&1); rc=$?
  n=$(echo "$out" | grep -c '^VIOLATION')
  echo "$p exit=$rc violations=$n"
  echo "$out" | grep -A2 'kind=' | grep -v '^--' | sed 's/^/    /' | head -${LINES_MAX:-12}
  echo "$out" | grep 'INFRASTRUCTURE' | head -3
done
