#!/usr/bin/env python3
# Writes the prompts given to the independent sub-agents (seeding round 8).
# The prompts contain the property text and a scratch worktree path only - nothing from /verif.
# usage: mkprompts.py <mut-root> <ref-root>     e.g. /tmp/mut6 /tmp/ref5
import json, sys, os
MUT = sys.argv[1]
USED = '''Seven earlier rounds of seeding already used (do not repeat these): dropping or moving a guard, a forgotten reset/refresh, comparing only ids, ranging over a map, a swapped index in generated code, skipping inactive tables, off-by-one unsigned bounds, overwritten running totals, truncating conversions, sharing a slice instead of copying it, recreating a registry in Reset, losing a filter clause, asymmetric graph edges, statement reordering around the swap fix-up, clear() of the pool, reflect.TypeOf on a zero T, early returns from Reset/LoadEntities, deferring a recycle, recycling filter ids, merging batch ranges, pre-filtering notifications, caching a resource pointer, liveness tests on inherited targets, `return` for `continue`, Len() filters in getArchetypes, dropping StartIndex, a wrong modulus in idMap, returning the source pointer from Set, rebuilding dump entries, forgetting to store a lock bit, a slip in one word of a mask operation, a lock released only on one branch, a memoised table not cleared on retire, stale pointers to swapped slice elements, value/pointer receiver mix-ups, package-level shared state, uint8 counters that wrap, buffer positions used as component ids, the wrong one of two similar callees, a variadic target ignored, bulk copy() inside the filter list, lock-mask changes before validation, treating id 0 as "absent", accumulating setters, recycling before the removal event, dropping the CachedFilter case in getArchetypes, name-based relation detection, len(map) as a position, Count()-bounded query loops, zeroing the caller's filter handle, an old target set on one branch only, maps.DeleteFunc with side effects, rebuilding slot 0 on load, collecting alive ids in id order, creating before validating in generic New, sum-instead-of-or in IsZero, single-pass include/exclude matching, batch bounds from the table length, live lengths in count loops, Deactivate clearing the target, skipping zeroing of pointer-free columns, same-pointer resource re-add, dropping comma-ok in GetResource. passing the wrong add/remove list from a generic facade, dropping one component in one arity of generated code, JSON fast paths for the zero entity, merging filter.Or operands, a has-relation flag computed from the target, growing an int pool with the wrong length, locking only when a listener subscribes, overwriting a parameter with a range variable, registering ids past the layout count, a bit position used as a type index, a node Reset skipping one table, a graph edge stored on the wrong node, iterating the wrong archetype list, stripping pointer types in the registry, the exclusive mask from the wrong list, zeroing resources on reset, sorting a caller's variadic slice. This EIGHTH round must find something ELSE again. Spread out: at least ONE of your two mutants must be outside world_internal.go, archetype.go and cache.go, if the property can be broken there at all (ecs/world.go, ecs/query.go, ecs/relations.go, ecs/batch.go, ecs/builder.go, ecs/pool.go, ecs/bitset.go, ecs/id_map.go, ecs/registry.go, ecs/resources.go, ecs/filter.go, ecs/mask*.go, ecs/event.go, ecs/archetypes.go, ecs/archetype_node.go, ecs/entity.go, listener/*.go, filter/*.go, generic/*.go).
Ideas of a different kind than before:
  - *two cooperating sites that each look fine alone*: a helper's contract is changed slightly (what it returns, whether it includes the end index, whether it expects a sorted / deduplicated / already validated argument, which of two counters it updates) and ONE of its callers is adapted while another is not; or a field acquires a second meaning that one reader does not know about;
  - *history-dependent state*: something that is only wrong the second time (a table recycled twice, a filter unregistered and registered again, a query closed and another opened with the same lock bit, a world Reset and then refilled beyond its previous capacity, an entity id recycled after LoadEntities, a listener replaced by another with a different subscription, a Batch/Builder/Map object reused after the world changed);
  - *the less common variant of a public call*: the `Unchecked` accessors, `NewBuilderWith`, `Relations.Set/GetUnchecked/SetBatch/SetBatchQ`, `Batch.*Q` query-returning variants, `World.Batch().RemoveEntities` with a relation filter, `Query.Step/Count/EntityAt` before the first `Next`, `Cache().Register` of a `RelationFilter`, `generic.FilterN.With/Without/Exclusive/WithRelation/Unregister`, `generic.QueryN.Relation`, `generic.ResourceN`, `listener.Dispatch` with nested dispatchers;
  - *capacity and paging arithmetic*: capacity increments that are not powers of two, zero-sized components mixed with sized ones, a table growing exactly when an element is moved into it from itself, pages of the paged slices filled exactly;
  - *conditions on masks evaluated at the wrong time* (before instead of after the change, or on the old table), *event payloads computed from the new state when the old state is required* or the reverse, *a notification issued inside instead of after a loop*;
  - *resource / registry / type identity corner cases*: pointer vs value types, identical struct shapes with different names, generic instantiations, re-adding after removal, ids assigned by `ResourceID` before any `Add`.
The bug must need something specific to manifest - NOT something ordinary use exposes at once - and must be demonstrable by a deterministic test. The two mutants must use different mechanisms and touch different functions. Keep each mutant small (a few lines) and plausible as a maintainer's mistake.

'''
T = '''You are helping to test a verification framework for the Go library mlange-42/arche (an archetype-based Entity Component System). Your job: act as a "bug seeder", eighth round.

You have your own scratch git worktree of the library at {wt} (a detached checkout; work ONLY there and under {out}; never touch /repo or /verif, and do not read anything under /verif). Do NOT use `git stash` (the stash is shared between worktrees); to undo changes use `git checkout -- . && git clean -fdq` inside your worktree.

Here is a semantic property that the library is supposed to satisfy:

  ID: {id}
  Title: {title}
  Statement: {statement}
  Quantified over: {quant}
  Most relevant source files: {files}

TASK: produce TWO different, independent, realistic code changes ("mutants") to the library's non-test source, each of which BREAKS this property, while
  (a) the library still compiles (`go build ./...`),
  (b) the existing test suite still passes completely, unedited (`go test -vet=off -count=1 ./...` from the worktree root; also check `-tags tiny`),
  (c) you have a demonstration: a new Go test file that FAILS with your change applied and PASSES on the unmodified worktree.

''' + USED + '''Environment: no network. Before every go command: `export GOFLAGS=-mod=mod GOPROXY=off GOSUMDB=off GOTOOLCHAIN=local GOWORK=off`. Go is go1.23. testify is available for tests.

DELIVERABLES - for k in 1,2 write into {out}/m<k>/ :
  - patch.diff : output of `git diff` in the worktree for the mutant ONLY (library source change, no test file), must apply with `git apply` / `patch -p1` to a clean checkout;
  - demo_test.go : the demonstration test, with a first-line comment saying which directory of the repo it must be placed in (e.g. `// place in: ecs/`);
  - meta.txt : 5-10 lines: what was changed, why it breaks the property, what is needed for it to manifest, and the exact commands you ran with their outcome.
Verify all of (a),(b),(c) yourself by actually running the commands. Budget: finish BOTH mutants within about 20 minutes of wall-clock time; if the second is not working out by then, deliver the first alone. When done, restore the worktree to a clean state. Keep your final answer to a few lines.
'''
os.makedirs(MUT + '/prompts', exist_ok=True)
for l in open('/verif/properties.jsonl'):
    p = json.loads(l)
    pid = p['id']
    s = T.format(wt=MUT + '/' + pid, out=MUT + '/out/' + pid, id=pid, title=p['title'], statement=p['statement'], quant=p['quantifier']['text'], files=', '.join(p['anchors']['files']))
    open(MUT + '/prompts/%s.txt' % pid, 'w').write(s)

