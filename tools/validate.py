#!/usr/bin/env python3
# validate MANIFEST.json and all evidence files against the schemas (uses the tooling venv)
import json, sys, glob, jsonschema
ok = True
m = json.load(open('/verif/MANIFEST.json'))
try:
    jsonschema.validate(m, json.load(open('/root/.vp/MANIFEST.schema.json')))
    print('MANIFEST ok: %d checks, %d not_applicable' % (len(m['checks']), len(m.get('not_applicable', []))))
except Exception as e:
    ok = False; print('MANIFEST INVALID', e)
props = [json.loads(l)['id'] for l in open('/verif/properties.jsonl')]
claimed = [c['property_id'] for c in m['checks']]
na = [c['property_id'] for c in m.get('not_applicable', [])]
for p in props:
    if (p in claimed) == (p in na):
        ok = False; print('property', p, 'must be in exactly one of checks / not_applicable')
es = json.load(open('/root/.vp/EVIDENCE.schema.json'))
for c in m['checks']:
    f = c['evidence_file']
    try:
        ev = json.load(open(f)); jsonschema.validate(ev, es)
        assert ev['property_id'] == c['property_id']
        assert ev['level'] == c['level_claimed']['category'], 'level mismatch'
    except Exception as e:
        ok = False; print('EVIDENCE INVALID', f, str(e)[:200])
print('all ok' if ok else 'PROBLEMS')
sys.exit(0 if ok else 1)
