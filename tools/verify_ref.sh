#!/bin/bash
# usage: verify_ref.sh <dir with patch.diff> <name> — confirm a refactoring patch applies, builds and passes the unedited suite (default, tiny, debug).
set -u
src=$1; name=$2
export GOFLAGS=-mod=mod GOPROXY=off GOSUMDB=off GOTOOLCHAIN=local GOWORK=off
d=$(mktemp -d /tmp/refverify-XXXXXX)
trap 'rm -rf "$d"' EXIT
rsync -a --exclude .git /repo/ "$d/"
if ! (cd "$d" && patch -p1 -s < "$src/patch.diff"); then echo "$name PATCH-FAILS"; exit 1; fi
(cd "$d" && go build ./... >/dev/null 2>&1); b=$?
(cd "$d" && go test -vet=off -count=1 ./... >/dev/null 2>&1); s1=$?
(cd "$d" && go test -vet=off -count=1 -tags tiny ./... >/dev/null 2>&1); s2=$?
(cd "$d" && go test -vet=off -count=1 -tags debug ./... >/dev/null 2>&1); s3=$?
ok=1; [ $b -eq 0 ] && [ $s1 -eq 0 ] && [ $s2 -eq 0 ] && [ $s3 -eq 0 ] || ok=0
echo "$name confirmed=$ok build=$b suite=$s1 tiny=$s2 debug=$s3"
[ $ok -eq 1 ]
