#!/usr/bin/env python3
"""Sensitivity suite (thorough tier): scripted edits of a scratch copy of the CURRENT /repo.

usage: sensitivity.py <property>|all [--selftest] [--jobs N]

For every edit of the property (sensitivity/edits.py) and every seeded change that the catch matrix says the property's
check reports (seeded/MATRIX.json):  copy /repo to /tmp/archesens-XXXX, apply, run the property's quick
check with ARCHE_REPO pointing at the copy, remove the copy.
  M edit / seeded change: the expected rule (resp. any rule) must report -> "fired", else "failed"
  B edit / behaviour-preserving refactoring patch (refactor/<name>/patch.diff, written by independent sub-agents):
          nothing may be reported -> "silent", else "failed"
Results go to evidence/sensitivity/<property>.json and are embedded in the evidence of a thorough run.
The suite never changes a check's exit code; --selftest exits 1 if anything failed (my own acceptance gate).
"""
import json, os, re, shutil, subprocess, sys, tempfile, concurrent.futures as cf

VERIF = os.path.dirname(os.path.dirname(os.path.abspath(__file__)))
REPO = os.environ.get("ARCHE_REPO", "/repo")
ENV = dict(os.environ, GOFLAGS="-mod=mod", GOPROXY="off", GOSUMDB="off", GOTOOLCHAIN="local", GOWORK="off")
sys.path.insert(0, os.path.join(VERIF, "sensitivity"))
from edits import EDITS  # noqa


def run_check(prop, repo):
    env = dict(ENV, ARCHE_REPO=repo)
    p = subprocess.run([os.path.join(VERIF, "bin", "archecheck"), "-property", prop, "-tier", "quick", "-no-evidence"],
                       capture_output=True, text=True, env=env)
    reports = re.findall(r"^  kind=(\S+)\s+(\S+?)\|(.*)$", p.stdout, re.M)
    rc = p.returncode
    # the checker type-checks the variant itself; a variant that does not compile is reported as a load error
    if rc == 2 and "load/type errors" in (p.stdout + p.stderr):
        rc = -1
    return rc, reports


def scratch():
    d = tempfile.mkdtemp(prefix="archesens-", dir="/tmp")
    subprocess.run(["rsync", "-a", "--exclude", ".git", REPO + "/", d + "/"], check=True)
    return d


def builds(d):
    p = subprocess.run(["go", "build", "./..."], cwd=d, env=ENV, capture_output=True, text=True)
    return p.returncode == 0, (p.stderr or p.stdout).strip()[:300]


def do_edit(e):
    name = "%s: %s" % (e["kind"], e["name"])
    path = os.path.join(REPO, e["file"])
    try:
        src = open(path).read()
    except OSError:
        return ("skipped", name, "file not present")
    if src.count(e["old"]) != 1:
        return ("skipped", name, "construct not present (exactly once) in the current tree")
    d = scratch()
    try:
        open(os.path.join(d, e["file"]), "w").write(src.replace(e["old"], e["new"]))
        rc, reports = run_check(e["prop"], d)
        if rc == -1:
            return ("skipped", name, "variant does not compile")
        if rc not in (0, 1):
            return ("failed", name, "checker failed on the variant (exit %d)" % rc)
        rules = sorted(set(r[1] for r in reports))
        if e["kind"] == "M":
            if any(r == e["expect"] for r in rules):
                return ("fired", name, "%s reported (%s)" % (e["expect"], ", ".join(rules)))
            return ("failed", name, "expected %s to report; reported: %s" % (e["expect"], ", ".join(rules) or "nothing"))
        if reports:
            return ("failed", name, "benign rewrite raised: " + "; ".join("%s|%s" % (r[1], r[2][:80]) for r in reports[:3]))
        return ("silent", name, "no report")
    finally:
        shutil.rmtree(d, ignore_errors=True)


def do_seed(prop, seed):
    name = "M: seeded/" + seed
    patch = os.path.join(VERIF, "seeded", seed, "patch.diff")
    d = scratch()
    try:
        p = subprocess.run(["patch", "-p1", "-s", "-i", patch], cwd=d, capture_output=True, text=True)
        if p.returncode != 0:
            return ("skipped", name, "patch no longer applies to the current tree")
        rc, reports = run_check(prop, d)
        if rc == -1:
            return ("skipped", name, "variant does not compile")
        if rc == 1 and reports:
            return ("fired", name, ", ".join(sorted(set(r[1] for r in reports))))
        return ("failed", name, "the catch matrix lists this change for %s, but nothing was reported (exit %d)" % (prop, rc))
    finally:
        shutil.rmtree(d, ignore_errors=True)


def do_refactor(prop, name):
    label = "B: refactor/" + name
    patch = os.path.join(VERIF, "refactor", name, "patch.diff")
    d = scratch()
    try:
        p = subprocess.run(["patch", "-p1", "-s", "-i", patch], cwd=d, capture_output=True, text=True)
        if p.returncode != 0:
            return ("skipped", label, "patch no longer applies to the current tree")
        rc, reports = run_check(prop, d)
        if rc == -1:
            return ("skipped", label, "variant does not compile")
        if rc != 0 or reports:
            return ("failed", label, "behaviour-preserving refactoring raised (exit %d): " % rc + "; ".join("%s|%s" % (r[1], r[2][:80]) for r in reports[:3]))
        return ("silent", label, "no report")
    finally:
        shutil.rmtree(d, ignore_errors=True)


def suite(prop, jobs):
    tasks = [("edit", e) for e in EDITS if e["prop"] == prop]
    rdir = os.path.join(VERIF, "refactor")
    if os.path.isdir(rdir):
        for name in sorted(os.listdir(rdir)):
            if os.path.exists(os.path.join(rdir, name, "patch.diff")):
                tasks.append(("refactor", name))
    mpath = os.path.join(VERIF, "seeded", "MATRIX.json")
    if os.path.exists(mpath):
        m = json.load(open(mpath))
        for seed, d in sorted(m.items()):
            if d.get("results", {}).get(prop, {}).get("exit") == 1:
                tasks.append(("seed", seed))
    # baseline: the unedited tree must be silent, otherwise "fired" would be meaningless
    rc0, rep0 = run_check(prop, REPO)
    base_rules = set(r[1] for r in rep0)
    res = {"fired": [], "silent": [], "skipped": [], "failed": []}
    with cf.ThreadPoolExecutor(max_workers=jobs) as ex:
        futs = [ex.submit(do_edit, t[1]) if t[0] == "edit" else ex.submit(do_refactor, prop, t[1]) if t[0] == "refactor" else ex.submit(do_seed, prop, t[1]) for t in tasks]
        for f in futs:
            kind, name, why = f.result()
            res[kind].append({"edit": name, "outcome": why})
    res["baseline_reports_on_unedited_tree"] = sorted(base_rules)
    res["counts"] = {k: len(v) for k, v in res.items() if isinstance(v, list) and k != "baseline_reports_on_unedited_tree"}
    os.makedirs(os.path.join(VERIF, "evidence", "sensitivity"), exist_ok=True)
    json.dump(res, open(os.path.join(VERIF, "evidence", "sensitivity", prop + ".json"), "w"), indent=1)
    print("sensitivity %s: fired=%d silent=%d skipped=%d failed=%d" % (prop, len(res["fired"]), len(res["silent"]), len(res["skipped"]), len(res["failed"])))
    for k in ("failed", "skipped"):
        for x in res[k]:
            print("   %s: %s -- %s" % (k, x["edit"], x["outcome"]))
    return res


def main():
    args = [a for a in sys.argv[1:] if not a.startswith("--")]
    selftest = "--selftest" in sys.argv
    jobs = 4
    if "--jobs" in sys.argv:
        jobs = int(sys.argv[sys.argv.index("--jobs") + 1])
        args = [a for a in args if a != str(jobs)]
    props = args or ["all"]
    if props == ["all"]:
        props = sorted(set(e["prop"] for e in EDITS))
    failed = 0
    for p in props:
        failed += len(suite(p, jobs)["failed"])
    if selftest and failed:
        sys.exit(1)


if __name__ == "__main__":
    main()
