#!/usr/bin/env python3
# Generates /verif/MANIFEST.json from the table below and the rules registered in bin/archecheck (-list).
import json, subprocess, collections

CLAIMS = {
 "C01": dict(
   text="Static protocol rules on go/ssa for the five duplicated move paths: swap fix-up after every row removal (same table, same row), every allocated row recorded in the world index with its table and row (single and bulk), column copy loops complete (range over the source's ids, filter only by destination membership, same column read and written, allocated row), shrink zeroes, cached raw pointers refreshed whenever a buffer or the layout table is replaced and growth copies old to new, layout capacity chain, per-column loops visit every column, growth copies whole slices. Each is a necessary condition of component integrity on every path; a deviant sibling is exactly what the existing tests miss.",
   note="Does NOT decide that values survive: byte counts, offsets (itemSize*index), capacity arithmetic and the graph walk are out of reach. Trusted: go/ssa, access-path equality of table/row operands inside one function.",
   technique="static analysis: protocol (pairing) rules, value identity and post-dominance on go/ssa; sibling movers",
   ref="§2 C01"),
 "C08": dict(
   text="Sibling analysis of each single-entity operation and its batch form: equal sets of storage primitives applied and equal classes of panic guards (modulo a short reasoned asymmetry table), the returned count summed from table lengths read before rows move, batch range provenance and consumption, bulk rows indexed at their allocated row, whole-handle comparison when skipping unchanged targets.",
   note="One genuine, unrepaired defect is a known finding (P2 in known_findings.json, reproducer repro/P2): a batch exchange with empty add and remove lists returns 0 instead of the number of matching entities; the unedited test suite pins that value, so it cannot be repaired. Does not decide equality of the resulting world states. The pair table and asymmetries are listed in checker/rules_c08.go.",
   technique="static analysis: sibling effect-set comparison (Engler-style deviance) and provenance rules on go/ssa",
   ref="§2 C08"),

 "C14": dict(
   text="Static rules joining go/ssa value flow with the compiler's own escape-analysis report: every parameter whose bytes reach the unsafe ingest into component storage must be reported as leaking (this is the check that found the dangling-stack-pointer defect); every call of the raw byte-copy primitive is classified by operand provenance, and a raw copy touching a component column needs a dominating pointer-freeness test (reports the missing write barrier, listed as a known finding); shrinking zeroes vacated rows; column storage is typed, retained reflect memory and the cached raw pointers are derived from it. GC schedules cannot be enumerated by tests; these are the code-shape conditions under which no schedule can go wrong.",
   note="The compiler's verdict (go build -gcflags=-m, no program is run) is trusted, for the toolchain used. The four raw copies of component columns without write barrier are a genuine, unrepaired defect: known finding H2 in known_findings.json (reproducer repro/gcbarrier). Does not explore GC schedules.",
   technique="static analysis: value-flow to ingest points joined with the compiler's escape report; provenance classification of raw copies; typed-buffer shape rules",
   ref="§2 C14"),

 "C18": dict(
   text="For every arity 0-12 and every position, on the typed AST and SSA of the generated code: type parameter j, field idj, compiled.Ids[j] and the j-th pointer argument are paired consistently at every cast, literal and Component pair (the unsafe casts hide any mix-up from the compiler), the method sets of the arities are identical modulo per-position lines, every configuration change of a filter invalidates its compilation and refuses registered filters, filters compile before use, Compile publishes only sub-filters rebuilt on that path, Exchange keeps builder and relation consistent. About 1300 obligations, all positions of all arities, not the sampled ones a test touches.",
   note="Decides pairing and invalidation structure, not equality of effects with the ID-based calls. Unknown uses of idk fields are reported as undecided rather than passed. Trusted: go/types, go/ssa; the generator template is covered through its output.",
   technique="static analysis: typed-AST positional rules over all arities, cross-arity normalisation and majority comparison, must-pass dataflow on go/ssa",
   ref="§2 C18"),

 "C04": dict(
   text="The one property that is almost entirely shape, decided exactly for its mask part in both builds: each Mask method's SSA form is abstractly interpreted over {small concrete integers, symbolic word expressions} (a loop over the words is unrolled by constant propagation of the index, a branch on a word comparison forks) to recover its per-word structure; every word must be covered exactly once by the same expression, a pure operation must not store into its operands, and the per-word expression, folded to a one-bit truth table (plus quantifier), must equal the set operation of the specification. Get/Set addressing is matched against the accepted forms for the word width; every filter's Matches (single expression or if-chain of returns) is evaluated as a truth table over its atoms against its definition. Because Go's bitwise operators act bit-parallel, the one-bit table decides all 2^256 masks, which no test can enumerate.",
   note="Trusted: go/types and go/ssa; the abstract interpreter accepts only bit-parallel operators and ==/!= of words (anything else is reported as undecided, not passed); Get/Set and the filter atoms are recognised on the typed AST. Nested logic filters follow compositionally from the per-node tables. No solver and no execution: the truth tables are enumerated by the checker.",
   technique="static analysis: abstract interpretation of SSA into per-word expressions, uniformity rules, truth-table folding against a specification table",
   ref="§2 C04"),
 "C12": dict(
   text="Both copies of the subscription predicate are converted from their if-chains (helpers inlined) into one boolean expression over 13 atoms and evaluated on all consistent assignments against the documented rule, with the event masks taken from the event constants; the mask builder (on SSA: the i-th bool parameter ORs exactly the i-th event constant), constant pre-filters only where one event type is possible, every notification site's argument correspondence (trigger, masks, component restriction, relation ids are the event's own), Dispatch's aggregation and accessors, and freshness of loop-carried notification inputs are checked structurally.",
   note="Does not decide equality of delivered and selected streams over histories. Dispatch soundness additionally rests on monotonicity of the predicate (argument in DESIGN.md).",
   technique="static analysis: exhaustive truth table of a parsed predicate vs specification; typed-AST correspondence rules; SSA phi analysis",
   ref="§2 C12"),
 "C11": dict(
   text="Static rules on go/ssa and the typed AST: every entry that can change entity state reaches a notification site or returns a batch query whose close function notifies; removal events lie inside a lock window before the removal primitives, all others outside lock windows, after the change and after component values are copied; each site feeds the subscription test with the event's own fields; sibling sites compute their type bits alike; the no-op path neither emits nor crashes; loop-carried notification inputs are fresh.",
   note="Does NOT decide truthfulness of event content w.r.t. the actual change, exactly-once delivery, or replayability — the core of the property. Claimed as structural necessary conditions only.",
   technique="static analysis: call-graph reachability, lock-window typestate, ordering (reachability) rules, sibling agreement",
   ref="§2 C11"),

 "C13": dict(
   text="Sound static argument by exclusion: a single-goroutine Go program is deterministic unless it observes map iteration order, scheduling, clocks/randomness/OS state, finalizers or address-derived values. Every function of the six library packages is scanned (resolved callees, SSA instructions) for each of these sources; map ranges are admitted only with an order-insensitive body. A fixture of known-bad and known-good functions is analysed on every run, so a blind rule fails the check.",
   note="Assumes memory safety of the unsafe accesses and determinism of reflect/fmt for the values passed; does not decide that the deterministic algorithms compute the documented results. GC timing cannot influence results because no finalizer, sync.Pool or address-derived value is used.",
   technique="static analysis: exclusion of nondeterminism sources over all functions (go/ssa scan with resolved callees) + fixture control",
   ref="§2 C13"),
 "C19": dict(
   text="Static who-may-write analysis: every package-level variable of the six packages has an immutable type or is a verified never-executed escape sink, and no function other than a package initialiser writes one (mod-sets rooted at globals); no goroutines, channels, sync/atomic; no standard-library callee with process-global mutable state; worlds never adopt caller-owned slices. With all state hanging off World and callers not sharing listeners/filters/component pointers, operations on distinct worlds touch disjoint memory. Fixture control on every run.",
   note="Does not explore schedules or detect races dynamically; assumes package reflect is safe for concurrent use and that callers do not share Listener/Filter/component pointers between worlds.",
   technique="static analysis: global-rooted mod-sets, type classification of package-level variables, instruction scan; fixture control",
   ref="§2 C19"),

 "C16": dict(
   text="Static rules: an interval evaluation of the integer def-use chain from the registry's type count / a fresh id to every allocation of a table's layout array shows that no conversion or narrow addition can wrap for MaskTotalBits of the build (this is the check that reports the uint8 overflow for ids >= 240); the undo of a registration writes every field the registration writes; both relation-type tests agree; accessors use their own registry; the rollback under lock is complete; layout extension reaches every table.",
   note="Axioms of the interval evaluation (count <= MaskTotalBits, fresh id < MaskTotalBits) rest on the limit guard checked by R2. Does not decide id density/stability over histories nor that high ids work beyond the capacity chain.",
   technique="static analysis: interval evaluation of one def-use chain (go/ssa), mod-set inclusion, sibling agreement",
   ref="§2 C16"),
 "C20": dict(
   text="Static rules: possibly-empty resource slots are only asserted nil-safely, the slots have exactly three writers, no resource operation reaches a world-lock test or writes entity/table/component-registry state (independence from locking and entity operations for every entry and path), registry separation, strict add/remove guards, Get/Has read the same slot, reset clears every slot.",
   note="Does not decide pointer identity over histories. Trusted: go/ssa, call graph, mod-set summaries.",
   technique="static analysis: who-may-write, call-graph reachability, mod-set summaries and dominance rules on go/ssa",
   ref="§2 C20"),

 "C02": dict(
   text="Static ownership and shape rules on go/ssa for the entity pool: who may write the pool and who may issue/recycle handles, the generation bump on every recycle path, the liveness comparison, the reserved slot 0 (seed, refusal, reset), exactly one pool call per row in the bulk loops, growth of the world index, whole-slice growth copies, whole-handle comparisons, and restoration of every pool field by the load path. Each is a necessary condition of 'never alive again, never shared' on every path.",
   note="Does NOT decide the implicit free list's threading, counts, or uniqueness of handles over histories. Trusted: go/ssa, mod-set summaries.",
   technique="static analysis: who-may-write/who-may-call rules, must-pass dataflow and shape rules on go/ssa",
   ref="§2 C02"),
 "C15": dict(
   text="Static reset-coverage analysis: the run state of World and of each nested state struct is derived from the mod-sets of all non-constructor, non-reset functions, and World.Reset's transitive mod-set must cover it except for a short reasoned keep-list; plus guard-first for Reset, retire co-updates and zeroing in the node reset, cache bookkeeping, and full-range element-wise resets. A new mutable field that Reset forgets is reported without anyone writing a test for it.",
   note="Does not decide behavioural equivalence with a fresh world. The keep-list (checker/rules_c15.go) is trusted and reasoned per field.",
   technique="static analysis: mod-set (effect) summaries over the call graph, derived run-state vs reset-set comparison",
   ref="§2 C15"),
 "C17": dict(
   text="Static field-coverage and provenance rules: every run-state field of the pool is read by the dump and written by the load, the load is guarded (lock, fresh-or-reset) before its first write, the JSON codec reads/writes every field with matching array positions on every success path, and the slices installed by load never alias the caller's dump.",
   note="Does not decide identical future handle sequences. Trusted: go/ssa; the derived run-state set (as C15.R1).",
   technique="static analysis: field coverage from mod-sets, dominance and slice-provenance rules on go/ssa",
   ref="§2 C17"),

 "C03": dict(
   text="Static structural rules on go/ssa for the query machinery: all three iteration strategies are handled by every operation that branches on them, the batch table list is asserted only under the batch flag, all five pieces of code that answer 'which tables does this filter select' use a relation filter's target only for nodes/tables known to carry a relation and only after the node's activity and match tests, and batch ranges are produced from and consumed as [Len before, Len after) of the destination. Sibling-agreement and provenance rules of this kind hold for every filter and history, not for sampled ones.",
   note="Does NOT decide the index arithmetic of Next/Step/Count/EntityAt (off-by-one, agreement of positions) nor exactly-once visiting; those are the bulk of the property and are out of reach of a sound static argument here. Trusted: go/ssa, idiom recognisers for flag tests and comma-ok assertions.",
   technique="static analysis: dominance (must-precede) rules and value-provenance on go/ssa; sibling agreement",
   ref="§2 C03"),
 "C06": dict(
   text="Static typestate and co-update rules on go/ssa: a table is retired only when known active, retire and reuse perform all their co-updates on every path, every shrinking write to a table's length zeroes the vacated rows on the same path (so recycled storage starts empty), and the target flag is set/tested/cleared at every site that needs it. Each is a necessary condition of the property on every path.",
   note="Does not decide orderings of the retire triggers over histories nor row arithmetic. Trusted: go/ssa, mod-set summaries, recognisers for IsActive/index tests, comma-ok map lookups and zeroing primitives (reflect SetZero, zero-copy).",
   technique="static analysis: typestate (must-precede) dataflow, co-update/post-dominance rules, mod-set summaries on go/ssa",
   ref="§2 C06"),
 "C07": dict(
   text="Static rules on go/ssa: the world tells the cache about every created/reused and every retired table, list and position map are updated together inside the cache, a slice that may alias the cache's list is never read after a call that can modify it, the three table selectors agree (C03.R3), and CachedFilter/Unregister have the documented shape. These are exactly the sites whose deviations make cached and uncached selections differ.",
   note="Does not decide equality of selections over histories. Trusted: go/ssa, VTA call graph (the cache's getArchetypes callback is resolved through it), mod-set summaries.",
   technique="static analysis: alias/invalidation dataflow, co-update rules, sibling agreement on go/ssa",
   ref="§2 C07"),

 "C05": dict(
   text="Static value-provenance analysis of Entity values (go/ssa, interprocedural, context-sensitive in the constant option flags): every API-supplied target crosses the zero-or-alive validation before it can become a table's target or be compared/looked up; plus shape rules for the single-relation guard, target retention/reset in both movers, the read side, who writes IsRelation, whole-handle comparison and that inherited targets are never subjected to the dead-target panic. Decided for all paths and all entries, which is what a test of sampled targets cannot give.",
   note="Decides necessary structural conditions: not that the reported target is the last assigned over histories, nor table placement. Trusted: go/ssa, recogniser of the validation idiom (`!t.IsZero() && !Alive(t)` → panic, in if or && form), sink table (target map key, RelationTarget store, target flag set).",
   technique="static analysis: interprocedural value-provenance (taint with validation kill) on go/ssa + dominance rules",
   ref="§2 C05"),
 "C10": dict(
   text="Static path rules on go/ssa over every exported single-entity entry: no tracked write is followed by an explicit panic (write-then-panic summaries), uses that need a check are dominated by it (liveness before indexing, resource slot tests, bulk count, filter registration, registry limit), sometimes-nil results are not dereferenced unchecked, option-pair values are only exposed under their flag, and dead targets panic on every path. These are for-all-paths statements a test cannot enumerate.",
   note="Scope decisions stated in DESIGN.md C10: creation of empty graph nodes/tables before a validation panic is not counted; type registration is not an entity operation; named infeasible pairs are listed in checker/rules_c10.go with reasons. Does not decide full before/after state equality, nor run-time panics of unchecked accessors.",
   technique="static analysis: write-then-panic path summaries, dominance (must-precede) dataflow, nil-contract and option-pair dataflow on go/ssa",
   ref="§2 C10"),

 "C09": dict(
   text="Static proof obligations over the SSA form of every exported entry point (both mask-width builds; thorough adds debug and 386): a world-lock test with a panicking locked edge precedes the first write to entity/table/graph/component-registry state on every path (interprocedural guard summaries over a VTA call graph), the registration rollback is complete, every acquired lock is released or handed to the returned query exactly once, and path summaries show Next/Step close exactly once iff they return false. This is the part of the property that is visible in the shape of the code on every path; it is decided for all paths rather than for sampled ones.",
   note="One genuine, unrepaired defect is a known finding (P1 in known_findings.json, reproducer repro/P1): a second Close of a finished query whose lock bit was re-issued releases the other query's lock; a test of the unedited suite passes only because of it, so it cannot be repaired. Decides structural necessary conditions only: not lock counts at run time, not that a panicking call leaves every observable unchanged beyond 'no structural write before the test', not listener re-entrancy. Trusted: go/types, go/ssa, VTA over-approximation, the guard-idiom recogniser (call or inline `if locked {panic}`), state-class table in checker/modset.go.",
   technique="static analysis: interprocedural must-precede dataflow on go/ssa + mod-set summaries + path summaries",
   ref="§2 C09"),
}

# clauses added after seeding round 8 (DESIGN §6)
EXTRA = {
 "C01": " Exchange's cached builder is rebuilt on every path after its configuration changed.",
 "C02": " A growth copy takes the whole old slice (no upper cut other than its own length).",
 "C03": " Counter loops over a paged table list are bounded by that list's Len(); tables without a relation are selected by Filter.Matches alone in every selector.",
 "C07": " The incremental cache update and the uncached selectors agree on tables without a relation; the lazily built position map is consulted only after a nil test of that same entry's map.",
 "C09": " A generic filter's early return in Compile is keyed on a flag set after the last fallible call, so a compilation that panicked in a locked world is repeated rather than half-used while the lock is taken.",
 "C10": " A failed generic compilation leaves no completion flag behind; a failed registration is rolled back including the relation flag.",
 "C11": " A call of a function that itself changes entity state and notifies is followed by no component-value copy.",
 "C13": " Component arguments escape (cross-listed compiler escape verdicts): values read back do not depend on stack reuse.",
 "C14": " The registry is keyed by the reflect.Type given, so two types never share a column laid out for one of them.",
 "C18": " Exchange rebuilds its builder after every configuration store; Compile's completion flag and recomputation of every world-derived field.",
 "C19": " Compile carries nothing over from a compilation for another world: a field it writes is read only after it was written in the same invocation.",
}

NA_DEFAULT = "no static rule for this property has been built yet in this session; see DESIGN.md §2 for the clauses planned"

def main():
    out = subprocess.run(["/verif/bin/archecheck", "-list"], capture_output=True, text=True).stdout
    rules = collections.defaultdict(list)
    for l in out.splitlines():
        parts = l.split()
        if len(parts) >= 2:
            rules[parts[0]].append(parts[1])
    props = [json.loads(l) for l in open('/verif/properties.jsonl')]
    checks, na = [], []
    for p in props:
        pid = p['id']
        if pid in CLAIMS and rules.get(pid):
            c = dict(CLAIMS[pid])
            c['text'] = c['text'] + EXTRA.get(pid, "")
            checks.append({
              "property_id": pid,
              "quick_cmd": "./run.sh %s quick" % pid,
              "thorough_cmd": "./run.sh %s thorough" % pid,
              "evidence_file": "/verif/evidence/%s.json" % pid,
              "replay_cmd_template": "./run.sh explain {path}",
              "engine": "archecheck",
              "level_claimed": {"category": "other", "text": c['text'] + " Rules: " + ", ".join(rules[pid]) + ".", "design_ref": "DESIGN.md " + c['ref']},
              "level_note": c['note'],
              "technique": c['technique'],
            })
        else:
            na.append({"property_id": pid, "reason": NA.get(pid, NA_DEFAULT)})
    m = {
      "version": 1,
      "setup_cmd": "./run.sh build",
      "hooks": {"guard": "verif", "enable": "no hooks are needed: the checks read /repo's source, nothing is built with instrumentation", "baseline_off_cmd": "cd /repo && GOFLAGS=-mod=mod GOPROXY=off GOSUMDB=off GOWORK=off go test -vet=off -count=1 ./...", "source_commits": [], "add_only": True},
      "engines": [{"name": "archecheck", "path": "/verif/checker", "serves_properties": [c['property_id'] for c in checks], "kind_free_text": "repository-specific static analyser: go/packages + go/types + go/ssa + VTA call graph; mod-set summaries, must-precede dataflow, value provenance, path summaries, truth tables, typed-AST rules"}],
      "checks": checks,
      "not_applicable": na,
      "notes": "All checks are static (technique family: static analysis). Exit 0 = every obligation discharged (known findings printed as KNOWN-FINDING); exit 1 + VIOLATION lines = an obligation is violated/undecided/unresolved; exit 2 = the program could not be loaded (nothing claimed). Known findings: /verif/known_findings.json. Seeded changes and what catches them: /verif/seeded, DESIGN.md §8.",
    }
    json.dump(m, open('/verif/MANIFEST.json', 'w'), indent=1)
    print("wrote MANIFEST.json:", len(checks), "checks,", len(na), "not_applicable")

NA = {}
main()
