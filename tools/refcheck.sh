#!/bin/bash
# usage: refcheck.sh <patch.diff> — apply a (supposedly behaviour-preserving) patch to a scratch copy and run ALL checks; print alarms.
set -u
patch=$1
export GOFLAGS=-mod=mod GOPROXY=off GOSUMDB=off GOTOOLCHAIN=local GOWORK=off
d=$(mktemp -d /tmp/archeref-XXXXXX); trap 'rm -rf "$d"' EXIT
rsync -a --exclude .git /repo/ "$d/"
(cd "$d" && patch -p1 -s < "$patch") || { echo "PATCH DOES NOT APPLY"; exit 3; }
props=${PROPS:-$(python3 -c "import json; print(' '.join(c['property_id'] for c in json.load(open('/verif/MANIFEST.json'))['checks']))")}
alarms=0
for p in $props; do
  o=$(ARCHE_REPO="$d" ${ARCHECHECK:-/verif/bin/archecheck} -property "$p" -tier quick -no-evidence 2>&1); rc=$?
  if [ $rc -ne 0 ]; then
    alarms=$((alarms+1))
    echo "ALARM $p exit=$rc"
    echo "$o" | grep -A2 -E '^  kind=|INFRA' | grep -v '^--' | head -9 | cut -c1-330
  fi
done
echo "== $(basename $(dirname $patch)): $alarms properties raised an alarm"
