#!/bin/bash
# run refcheck on all kept refactor patches; output dir $1
out=$1; mkdir -p $out
ls -d /verif/refactor/*/ | xargs -P 8 -I{} sh -c 'n=$(basename {}); /verif/tools/refcheck.sh {}patch.diff > '$out'/$n.txt 2>&1'
touch $out/done
