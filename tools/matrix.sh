#!/bin/bash
# Run every seeded change against every property check (on scratch copies of /repo) and write seeded/MATRIX.json.
# usage: tools/matrix.sh [jobs]
set -u
cd "$(dirname "$0")/.."
export GOFLAGS=-mod=mod GOPROXY=off GOSUMDB=off GOTOOLCHAIN=local GOWORK=off
jobs=${1:-6}
# PROPS="C05 C06" restricts the columns, SEEDS="C05-r8m1 ..." the rows; results are merged into the existing MATRIX.json
props=${PROPS:-$(python3 -c "import json; print(' '.join(c['property_id'] for c in json.load(open('MANIFEST.json'))['checks']))")}
out=$(mktemp -d /tmp/archematrix-XXXXXX)
one() {
  seed=$1; d=$(mktemp -d /tmp/archemut-XXXXXX)
  rsync -a --exclude .git /repo/ "$d/"
  if ! (cd "$d" && patch -p1 -s < "/verif/seeded/$seed/patch.diff"); then echo "{\"seed\":\"$seed\",\"error\":\"patch does not apply\"}" > "$out/$seed.json"; rm -rf "$d"; return; fi
  {
    echo "{\"seed\":\"$seed\",\"results\":{"
    first=1
    for p in $props; do
      o=$(ARCHE_REPO="$d" ${ARCHECHECK:-./bin/archecheck} -property "$p" -tier quick -no-evidence 2>&1); rc=$?
      keys=$(echo "$o" | grep -E '^  kind=' | sed -E 's/^  kind=([a-z-]+) +(.*)$/\1 \2/' | python3 -c "import sys,json; print(json.dumps([l.strip() for l in sys.stdin][:8]))")
      [ $first -eq 1 ] || echo ","
      first=0
      echo "\"$p\":{\"exit\":$rc,\"reports\":$keys}"
    done
    echo "}}"
  } > "$out/$seed.json"
  rm -rf "$d"
}
export -f one; export out props
{ if [ -n "${SEEDS:-}" ]; then printf '%s\n' $SEEDS; else ls -d seeded/*/ | xargs -n1 basename; fi; } | xargs -P "$jobs" -I{} bash -c 'one {}'
python3 - "$out" <<'PY'
import json, sys, os, glob
out = sys.argv[1]
m = {}
old = {}
if (os.environ.get('PROPS') or os.environ.get('SEEDS')) and os.path.exists('/verif/seeded/MATRIX.json'):
    old = json.load(open('/verif/seeded/MATRIX.json'))
for f in sorted(glob.glob(out + '/*.json')):
    try:
        d = json.load(open(f))
    except Exception as e:
        d = {"seed": os.path.basename(f)[:-5], "error": "unparsable result: %s" % e}
    m[d["seed"]] = d
fresh = set(m)
for s_, d in old.items():
    if s_ not in m:
        m[s_] = d
    elif "results" in d and "results" in m[s_]:
        r = dict(d["results"]); r.update(m[s_]["results"]); m[s_]["results"] = dict(sorted(r.items()))
m = dict(sorted(m.items()))
json.dump(m, open('/verif/seeded/MATRIX.json', 'w'), indent=1)
for s, d in m.items():
    if old and s not in fresh:
        continue
    if "results" not in d:
        print(s, d.get("error")); continue
    caught = [p for p, r in d["results"].items() if r["exit"] == 1]
    infra = [p for p, r in d["results"].items() if r["exit"] not in (0, 1)]
    print("%-14s caught by: %s %s" % (s, " ".join(caught) or "-", ("INFRA:" + " ".join(infra)) if infra else ""))
    mp = '/verif/seeded/%s/meta.json' % s
    if os.path.exists(mp):
        meta = json.load(open(mp))
        meta["caught_by"] = {p: d["results"][p]["reports"][:3] for p in sorted(caught)}
        json.dump(meta, open(mp, 'w'), indent=1)
PY
rm -rf "$out"
