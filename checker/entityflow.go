package main

import (
	"go/token"
	"go/types"
	"sort"
	"strings"

	"golang.org/x/tools/go/ssa"
)

// E-flow: provenance and validation of ecs.Entity values.
//
// Cells are SSA values of type Entity: parameters, locals (Alloc, because go/ssa does not lift
// address-taken variables), loads and phis. A cell is "dirty" when it may hold a value that comes
// from a tracked source (an API parameter) and has not crossed a validating edge since:
//
//	v.IsZero() true edge / v.id == 0 true edge
//	Alive(v) true edge (entityPool.Alive, or a wrapper returning it)
//	a call g(..., v, ...) returning normally where g validates that parameter on all its returns
//
// Forward may-analysis (dirty if dirty on any incoming path), strong updates on local stores.

type efEvent struct {
	Kind   string // "sink:map-key", "sink:RelationTarget", "sink:target-flag", "use:compare", "use:lookup", "use:index", "call"
	Instr  ssa.Instruction
	Callee *ssa.Function
	Arg    int
	Dirty  bool
	Env    map[int]bool // constant boolean arguments of the call (callee parameter index → value)
}

type efConfig struct {
	p          *Prog
	validators map[*ssa.Function]int // function → index of the Entity parameter it tests (bool result, true = valid/zero)
	useZero    bool                  // IsZero counts as validating (targets: zero is legal); false for "must be alive"
	// summaries
	validates   map[*ssa.Function]map[int]bool // (unused by the demand-driven analysis)
	validatesFn func(g *ssa.Function, i int, env map[int]bool) bool // g validates param i on every normal return
	// extra source: values considered dirty at creation (besides the tracked params)
	source func(v ssa.Value) bool
}

type efResult struct {
	events []efEvent
	// clean at all returns, per tracked param
	cleanAtReturn map[int]bool
}

func isEntityType(t types.Type) bool { return isNamed(t, "/ecs", "Entity") && !isPtr(t) }
func isPtr(t types.Type) bool        { _, ok := t.Underlying().(*types.Pointer); return ok }

func isEntitySlice(t types.Type) bool {
	s, ok := t.Underlying().(*types.Slice)
	return ok && isEntityType(s.Elem())
}

// entityParams lists indices of parameters of type Entity or []Entity.
func entityParams(fn *ssa.Function) []int {
	var out []int
	for i, pr := range fn.Params {
		if isEntityType(pr.Type()) || isEntitySlice(pr.Type()) {
			out = append(out, i)
		}
	}
	return out
}

type efState map[ssa.Value]bool

func (s efState) clone() efState {
	n := efState{}
	for k, v := range s {
		if v {
			n[k] = true
		}
	}
	return n
}

func (s efState) equal(o efState) bool {
	if len(s) != len(o) {
		return false
	}
	for k := range s {
		if !o[k] {
			return false
		}
	}
	return true
}

// originOf: the local cell a value was loaded from (or the value itself).
func originOf(v ssa.Value) ssa.Value {
	if u, ok := v.(*ssa.UnOp); ok && u.Op == token.MUL {
		if a, ok := u.X.(*ssa.Alloc); ok {
			return a
		}
	}
	return v
}

// idOf: if v is the .id of an entity cell, return that cell.
func idOf(v ssa.Value) ssa.Value {
	v = stripConv(v)
	switch x := v.(type) {
	case *ssa.Field:
		if isEntityType(x.X.Type()) && fieldName(x.X.Type(), x.Field) == "id" {
			return x.X
		}
	case *ssa.UnOp:
		if x.Op == token.MUL {
			if fa, ok := x.X.(*ssa.FieldAddr); ok && isNamed(fa.X.Type(), "/ecs", "Entity") && fieldName(fa.X.Type(), fa.Field) == "id" {
				return fa.X // the alloc (address of the entity variable)
			}
		}
	}
	return nil
}

func (c *efConfig) run(fn *ssa.Function, tracked map[int]bool, env map[int]bool) *efResult {
	res := &efResult{cleanAtReturn: map[int]bool{}}
	if fn.Blocks == nil {
		return res
	}
	dirtyVal := func(st efState, v ssa.Value) bool {
		switch x := v.(type) {
		case *ssa.Const:
			return false
		case *ssa.Parameter:
			return st[x]
		case *ssa.Alloc:
			return st[x]
		case *ssa.Phi:
			return st[x]
		case *ssa.UnOp:
			if x.Op == token.MUL {
				if a, ok := x.X.(*ssa.Alloc); ok {
					return st[a]
				}
				return st[x]
			}
		}
		return st[v]
	}
	initial := efState{}
	for i, pr := range fn.Params {
		if tracked[i] {
			initial[pr] = true
		}
	}
	in := map[*ssa.BasicBlock]efState{fn.Blocks[0]: initial}
	outs := map[*ssa.BasicBlock]efState{}
	// simpleClean: the values validated when the atomic condition `atom` evaluates to `holds`
	simpleClean := func(atom ssa.Value, holds bool) []ssa.Value {
		var cleaned []ssa.Value
		if call := callOf(atom); call != nil && holds {
			if sc := call.Common().StaticCallee(); sc != nil {
				if idx, isV := c.validators[sc]; isV && idx < len(call.Common().Args) {
					if cname(sc) != "IsZero" || c.useZero {
						cleaned = append(cleaned, call.Common().Args[idx])
					}
				}
			}
		}
		if bo, isB := atom.(*ssa.BinOp); isB && c.useZero {
			// v.id == 0 (true edge) / v.id != 0 (false edge)
			var idv ssa.Value
			if isConstInt(bo.Y, 0) {
				idv = idOf(bo.X)
			} else if isConstInt(bo.X, 0) {
				idv = idOf(bo.Y)
			}
			if idv != nil && ((bo.Op == token.EQL && holds) || (bo.Op == token.NEQ && !holds)) {
				cleaned = append(cleaned, idv)
			}
		}
		return cleaned
	}
	edgeOut := func(b *ssa.BasicBlock, k int, st efState) efState {
		// validation on the edge b → Succs[k]
		atom, holds, ok := edgeCond(b, k)
		if !ok {
			return st
		}
		cleaned := simpleClean(atom, holds)
		// a short-circuit conjunction used as a value (`case !t.IsZero() && !alive(t): panic`): where it is false, one of its
		// conjuncts is false; a value validated by the falsity of every conjunct is validated
		if ph, isPhi := atom.(*ssa.Phi); isPhi && !holds && len(cleaned) == 0 {
			var common map[ssa.Value]bool
			okAll := len(ph.Edges) > 0
			for i, e := range ph.Edges {
				var si []ssa.Value
				if cb, isC := constBool(e); isC {
					if cb || i >= len(ph.Block().Preds) {
						okAll = false
						break
					}
					pb := ph.Block().Preds[i]
					found, infeasible := false, false
					for kk, sx := range pb.Succs {
						if sx == ph.Block() {
							if !feasibleEdge(pb, kk, env) {
								infeasible = true // the option flag tested there is known in this calling context
								continue
							}
							if a2, h2, ok2 := edgeCond(pb, kk); ok2 {
								si = simpleClean(a2, h2)
								found = true
							}
						}
					}
					if infeasible && !found {
						continue
					}
					if !found {
						okAll = false
						break
					}
				} else {
					a2, neg := condAtom(e)
					si = simpleClean(a2, neg)
				}
				set := map[ssa.Value]bool{}
				for _, v := range si {
					set[originOf(v)] = true
				}
				if common == nil {
					common = set
				} else {
					for v := range common {
						if !set[v] {
							delete(common, v)
						}
					}
				}
			}
			if okAll {
				for v := range common {
					cleaned = append(cleaned, v)
				}
			}
		}
		if len(cleaned) == 0 {
			return st
		}
		ns := st.clone()
		for _, v := range cleaned {
			delete(ns, v)
			delete(ns, originOf(v))
		}
		return ns
	}
	transfer := func(b *ssa.BasicBlock, st efState, record bool) efState {
		st = st.clone()
		for _, ins := range b.Instrs {
			switch x := ins.(type) {
			case *ssa.Phi:
				// handled at block entry
			case *ssa.Store:
				if a, ok := x.Addr.(*ssa.Alloc); ok && isEntityType(x.Val.Type()) {
					if dirtyVal(st, x.Val) {
						st[a] = true
					} else {
						delete(st, a)
					}
					continue
				}
				if fa, ok := x.Addr.(*ssa.FieldAddr); ok && isEntityType(x.Val.Type()) && fieldName(fa.X.Type(), fa.Field) == "RelationTarget" {
					if record {
						res.events = append(res.events, efEvent{Kind: "sink:RelationTarget", Instr: ins, Dirty: dirtyVal(st, x.Val)})
					}
				}
			case *ssa.UnOp:
				if x.Op == token.MUL && isEntityType(x.Type()) {
					if a, ok := x.X.(*ssa.Alloc); ok {
						if st[a] {
							st[x] = true
						} else {
							delete(st, x)
						}
					} else if ia, ok := x.X.(*ssa.IndexAddr); ok {
						// element of a tracked []Entity parameter
						if pr, ok := ia.X.(*ssa.Parameter); ok && st[pr] {
							st[x] = true
						}
					}
					if c.source != nil && c.source(x) {
						st[x] = true
					}
				}
			case *ssa.MapUpdate:
				if isEntityType(x.Key.Type()) && record {
					res.events = append(res.events, efEvent{Kind: "sink:map-key", Instr: ins, Dirty: dirtyVal(st, x.Key)})
				}
			case *ssa.Lookup:
				if isEntityType(x.Index.Type()) && record {
					res.events = append(res.events, efEvent{Kind: "use:lookup", Instr: ins, Dirty: dirtyVal(st, x.Index)})
				}
			case *ssa.BinOp:
				if (x.Op == token.EQL || x.Op == token.NEQ) && isEntityType(x.X.Type()) && record {
					res.events = append(res.events, efEvent{Kind: "use:compare", Instr: ins, Dirty: dirtyVal(st, x.X) || dirtyVal(st, x.Y)})
				}
			case *ssa.IndexAddr:
				if idc := idOf(x.Index); idc != nil && record {
					if _, fld, _, ok := loadedField(x.X); ok && fld == "entities" && typeName(fieldOwner(x.X)) == "World" {
						res.events = append(res.events, efEvent{Kind: "use:index", Instr: ins, Dirty: dirtyVal(st, idc)})
					}
				}
			}
			if site, ok := ins.(ssa.CallInstruction); ok {
				com := site.Common()
				sc := com.StaticCallee()
				if sc != nil {
					if _, isV := c.validators[sc]; isV {
						continue
					}
				}
				args := com.Args
				// target flag: bitSet.Set(bs, v.id, true)
				if sc != nil && cname(sc) == "Set" && typeName(recvType(sc)) == "bitSet" && len(args) == 3 {
					if cb, ok := constBool(args[2]); ok && cb {
						if idc := idOf(args[1]); idc != nil && record {
							res.events = append(res.events, efEvent{Kind: "sink:target-flag", Instr: ins, Dirty: dirtyVal(st, idc)})
						}
					}
				}
				callees, boundary := c.p.Callees(site)
				if boundary {
					continue
				}
				off := 0
				if com.IsInvoke() {
					off = 1
				}
				for i, a := range args {
					if !isEntityType(a.Type()) && !isEntitySlice(a.Type()) {
						continue
					}
					d := dirtyVal(st, a)
					cenv := callEnv(site, env, off)
					if record {
						for _, cal := range callees {
							res.events = append(res.events, efEvent{Kind: "call", Instr: ins, Callee: cal, Arg: i + off, Dirty: d, Env: cenv})
						}
					}
					// callee validates the argument on every normal return
					allValidate := len(callees) > 0
					for _, cal := range callees {
						if c.validatesFn == nil || !c.validatesFn(cal, i+off, cenv) {
							allValidate = false
						}
					}
					if allValidate && d {
						delete(st, a)
						delete(st, originOf(a))
					}
				}
			}
		}
		return st
	}
	// fixpoint
	work := []*ssa.BasicBlock{fn.Blocks[0]}
	inWork := map[*ssa.BasicBlock]bool{fn.Blocks[0]: true}
	for len(work) > 0 {
		b := work[0]
		work = work[1:]
		inWork[b] = false
		st := in[b]
		if st == nil {
			st = efState{}
		}
		// phis
		st = st.clone()
		out := transfer(b, st, false)
		if prev, ok := outs[b]; ok && prev.equal(out) {
			continue
		}
		outs[b] = out
		if c.p.info(fn).cutAt[b] >= 0 {
			continue // ends in a call that never returns
		}
		for k, s := range b.Succs {
			if !feasibleEdge(b, k, env) {
				continue
			}
			eo := edgeOut(b, k, out)
			// phi handling in successor
			ns := in[s]
			if ns == nil {
				ns = efState{}
			}
			merged := ns.clone()
			for v := range eo {
				merged[v] = true
			}
			for _, ins := range s.Instrs {
				ph, ok := ins.(*ssa.Phi)
				if !ok {
					break
				}
				for pi, pred := range s.Preds {
					if pred == b && pi < len(ph.Edges) {
						ev := ph.Edges[pi]
						if eo[ev] || eo[originOf(ev)] {
							merged[ph] = true
						} else if pr, ok := ev.(*ssa.Parameter); ok && eo[pr] {
							merged[ph] = true
						}
					}
				}
			}
			if !merged.equal(ns) || in[s] == nil {
				in[s] = merged
				if !inWork[s] {
					work = append(work, s)
					inWork[s] = true
				}
			}
		}
	}
	// record events with final states
	for _, b := range fn.Blocks {
		st, ok := in[b]
		if !ok {
			continue // unreachable
		}
		transfer(b, st, true)
	}
	// cleanliness at returns
	for i := range tracked {
		clean := true
		n := 0
		for _, b := range fn.Blocks {
			if _, ok := in[b]; !ok {
				continue
			}
			if _, isRet := b.Instrs[len(b.Instrs)-1].(*ssa.Return); !isRet {
				continue
			}
			n++
			o := outs[b]
			pr := fn.Params[i]
			if o[pr] && !spilledOnly(pr) {
				clean = false
			}
			// spilled copy of the parameter
			for v := range o {
				if a, ok := v.(*ssa.Alloc); ok && spilledParam(a) == pr {
					clean = false
				}
			}
		}
		res.cleanAtReturn[i] = clean && n > 0
	}
	return res
}

// ---------- interprocedural summaries ----------

type efSummary struct {
	Sink  bool // parameter may reach a store-as-target while dirty
	Use   bool // parameter may be compared / looked up while dirty
	Index bool // parameter's id may index World.entities while dirty
	Chain string
	UseAt string
}

type efAnalysis struct {
	cfg   *efConfig
	sum   map[*ssa.Function]map[int]*efSummary
	memo  map[string]*efSummary
	vmemo map[string]bool
	busy  map[string]bool
}

func (p *Prog) entityValidators() map[*ssa.Function]int {
	out := map[*ssa.Function]int{}
	if f := p.Fn("ecs.(Entity).IsZero"); f != nil {
		out[f] = 0
	}
	if f := p.Fn("ecs.(*entityPool).Alive"); f != nil {
		out[f] = 1
	}
	// wrappers returning a validator's result on a parameter
	for changed := true; changed; {
		changed = false
		for _, fn := range p.Funcs {
			if _, ok := out[fn]; ok || len(fn.Blocks) != 1 {
				continue
			}
			ret, ok := fn.Blocks[0].Instrs[len(fn.Blocks[0].Instrs)-1].(*ssa.Return)
			if !ok || len(ret.Results) != 1 {
				continue
			}
			call := callOf(ret.Results[0])
			if call == nil || call.Common().StaticCallee() == nil {
				continue
			}
			idx, isV := out[call.Common().StaticCallee()]
			if !isV || idx >= len(call.Common().Args) {
				continue
			}
			if pr, ok := call.Common().Args[idx].(*ssa.Parameter); ok {
				out[fn] = paramIndex(pr)
				changed = true
			}
		}
	}
	return out
}

// feasibleEdge: with constant assumptions about boolean parameters, is the edge b → Succs[k] feasible?
func feasibleEdge(b *ssa.BasicBlock, k int, env map[int]bool) bool {
	if len(env) == 0 {
		return true
	}
	atom, holds, ok := edgeCond(b, k)
	if !ok {
		return true
	}
	pr, isP := atom.(*ssa.Parameter)
	if !isP {
		return true
	}
	v, known := env[paramIndex(pr)]
	if !known {
		return true
	}
	return v == holds
}

// callEnv: constant boolean arguments of a call, as assumptions for the callee.
func callEnv(site ssa.CallInstruction, env map[int]bool, off int) map[int]bool {
	var out map[int]bool
	for i, a := range site.Common().Args {
		var val, known bool
		if cb, ok := constBool(a); ok {
			val, known = cb, true
		} else if pr, ok := a.(*ssa.Parameter); ok {
			val, known = env[paramIndex(pr)]
		}
		if known {
			if out == nil {
				out = map[int]bool{}
			}
			out[i+off] = val
		}
	}
	return out
}

func envKey(env map[int]bool) string {
	if len(env) == 0 {
		return ""
	}
	var ks []int
	for k := range env {
		ks = append(ks, k)
	}
	sort.Ints(ks)
	var sb strings.Builder
	for _, k := range ks {
		if env[k] {
			sb.WriteString(itoa(k) + "T")
		} else {
			sb.WriteString(itoa(k) + "F")
		}
	}
	return sb.String()
}

// entityAnalysis computes summaries on demand, context-sensitive in constant boolean arguments
// (the option flags `hasRelation`/`hasTarget` that travel with a target through the internal API).
func (p *Prog) entityAnalysis(useZero bool, ignoreValidation bool) *efAnalysis {
	cfg := &efConfig{p: p, validators: p.entityValidators(), useZero: useZero, validates: map[*ssa.Function]map[int]bool{}}
	if ignoreValidation {
		cfg.validators = map[*ssa.Function]int{}
	}
	a := &efAnalysis{cfg: cfg, sum: map[*ssa.Function]map[int]*efSummary{}, memo: map[string]*efSummary{}, vmemo: map[string]bool{}, busy: map[string]bool{}}
	if !ignoreValidation {
		cfg.validatesFn = func(g *ssa.Function, i int, env map[int]bool) bool {
			a.summary(g, i, env)
			return a.vmemo[memoKey(g, i, env)]
		}
	}
	for _, fn := range p.Funcs {
		for _, i := range entityParams(fn) {
			if a.sum[fn] == nil {
				a.sum[fn] = map[int]*efSummary{}
			}
			a.sum[fn][i] = a.summary(fn, i, nil)
		}
	}
	return a
}

func memoKey(fn *ssa.Function, i int, env map[int]bool) string {
	return fn.String() + "#" + itoa(i) + "#" + envKey(env)
}

func (a *efAnalysis) summary(fn *ssa.Function, i int, env map[int]bool) *efSummary {
	key := memoKey(fn, i, env)
	if s, ok := a.memo[key]; ok {
		return s
	}
	if a.busy[key] || fn.Blocks == nil || i >= len(fn.Params) {
		return &efSummary{}
	}
	a.busy[key] = true
	p := a.cfg.p
	r := a.cfg.run(fn, map[int]bool{i: true}, env)
	s := &efSummary{}
	for _, ev := range r.events {
		if !ev.Dirty {
			continue
		}
		at := p.FuncName(fn) + " at " + p.Pos(posOf(ev.Instr))
		switch {
		case strings.HasPrefix(ev.Kind, "sink:"):
			if !s.Sink {
				s.Sink = true
				s.Chain = ev.Kind[5:] + " in " + at
			}
		case ev.Kind == "use:index":
			s.Index = true
			if s.UseAt == "" {
				s.UseAt = "index in " + at
			}
		case strings.HasPrefix(ev.Kind, "use:"):
			if !s.Use {
				s.Use = true
				s.UseAt = ev.Kind[4:] + " in " + at
			}
		case ev.Kind == "call":
			if !a.cfg.p.isArche(ev.Callee) {
				continue
			}
			cs := a.summary(ev.Callee, ev.Arg, ev.Env)
			if cs.Sink && !s.Sink {
				s.Sink = true
				s.Chain = p.FuncName(fn) + " → " + cs.Chain
			}
			if cs.Use && !s.Use {
				s.Use = true
				s.UseAt = p.FuncName(fn) + " → " + cs.UseAt
			}
			if cs.Index && !s.Index {
				s.Index = true
				if s.UseAt == "" {
					s.UseAt = p.FuncName(fn) + " → " + cs.UseAt
				}
			}
		}
	}
	a.busy[key] = false
	a.memo[key] = s
	a.vmemo[key] = r.cleanAtReturn[i]
	return s
}

func sortedFuncs(m map[*ssa.Function]map[int]*efSummary, p *Prog) []*ssa.Function {
	var fs []*ssa.Function
	for f := range m {
		fs = append(fs, f)
	}
	sort.Slice(fs, func(i, j int) bool { return p.FuncName(fs[i]) < p.FuncName(fs[j]) })
	return fs
}

// spilledOnly: the parameter is only copied into its local variable at entry (go/ssa spills address-taken parameters).
func spilledOnly(pr *ssa.Parameter) bool {
	refs := pr.Referrers()
	if refs == nil {
		return false
	}
	n := 0
	for _, r := range *refs {
		switch x := r.(type) {
		case *ssa.DebugRef:
		case *ssa.Store:
			if _, ok := x.Addr.(*ssa.Alloc); ok && x.Val == ssa.Value(pr) {
				n++
				continue
			}
			return false
		default:
			return false
		}
	}
	return n == 1
}
