package main

import (
	"fmt"
	"go/token"
	"go/types"
	"strings"

	"golang.org/x/tools/go/ssa"
)

func init() {
	register(&Property{
		ID: "C17",
		Decides: "every run-state field of the entity pool is read by the dump function and written by the load function, and load rebuilds the world's entity index and target flags and re-allocates each alive id in the base table with its index entry (R1); load tests the lock and the fresh-or-reset condition (panic otherwise) before its first write (R2); " +
			"Entity JSON: marshal reads and unmarshal writes every field, position k of the array ⇄ the same field on both sides, on every non-error path (R3); the pool and index slices installed by load are freshly allocated, never the caller's dump (R4).",
		NotDecided:  "identical future handle sequences after a load; content of the dump for arbitrary free-list shapes.",
		Assumptions: commonAssumptions,
		Rules: []Rule{
			{ID: "C17.R1", Floor: 6, Run: c17r1, Text: "field coverage: each run-state field of entityPool (derived as in C15.R1) is read by DumpEntities and written by LoadEntities; LoadEntities also writes World.entities and World.targetEntities and allocates a row per alive id, storing (table,row) into the index"},
			{ID: "C17.R2", Floor: 2, Run: c17r2, Text: "load guard: every write of LoadEntities is dominated by the lock test and by `len(pool) > 1 || available > 0 → panic`"},
			{ID: "C17.R3", Floor: 4, Run: c17r3, Text: "JSON: MarshalJSON builds the array from (id, gen) in this order; UnmarshalJSON stores arr[0] into id and arr[1] into gen on every path that returns a nil error, and writes the entity in no other way"},
			{ID: "C17.R5", Floor: 2, Run: c17r5, Text: "the dump is a copy: the slices DumpEntities puts into the EntityDump derive only from make/append-to-fresh, never from the pool's own storage"},
			{ID: "C17.R6", Floor: 3, Run: c17r6, Text: "capacity from the same length: every make([]T, n, c) of handle/index storage with a non-constant length has c = n + e, c = n, or c = capacity(n, ·) computed from the same n (structural equality): the pool and the index are sized from the full id count, in step"},
			{ID: "C17.R7", Floor: 4, Run: loadMustWrite, Text: "load on every path: every path of LoadEntities to a normal return writes the pool's run-state fields, World.entities and World.targetEntities"},
			{ID: "C17.R8", Floor: 1, Run: marshalAllPaths, Text: "every return of Entity.MarshalJSON carries bytes derived from both id and generation"},
			{ID: "C17.R9", Floor: 1, Run: dumpVerbatim, Text: "the dump copies the pool's entries verbatim (bulk append/copy/Clone of entityPool.entities): a dead entry's id field is the free-list link and must survive"},
			{ID: "C17.R10", Floor: 1, Run: rootTablesNotEnumerated, Text: "World.archetypes (tables of relation-free nodes only) is never iterated as if it were all tables: its Len() is used only as the index of the table just added"},
			{ID: "C17.R11", Floor: 2, Run: jsonReceiverKinds, Text: "Entity.MarshalJSON has a value receiver and UnmarshalJSON a pointer receiver (go/types): entities held by value must encode through it"},
			{ID: "C17.R12", Floor: 2, Run: poolRestoredVerbatim, Text: "LoadEntities restores entityPool.next and .available from the dump's Next and Available as recorded (not recomputed from lengths: slot 0 is reserved)"},
			{ID: "C17.R13", Floor: 2, Run: decodeBufferWidth, Text: "the JSON decode buffer of an Entity has unsigned elements of at least 32 bits: ids and generations use the full uint32 range"},
			{ID: "C17.R4", Floor: 2, Run: c17r4, Text: "no alias of the dump: the slices LoadEntities stores into the pool and the index derive only from make/append-to-fresh, never from a field of the parameter"},
			{ID: "C17.R14", Floor: 5, Run: c02r6, Text: "the load copies the dump's whole pool (= C02.R6): no append/copy from a non-zero lower bound; slot 0 holds the sentinel that keeps the zero entity dead"},
			{ID: "C17.R15", Floor: 1, Run: dumpAliveFromTables, Text: "the dump lists alive ids in table order: every element of the alive list is the id of an entity read from table storage (Query.Entity / GetEntity), not a position of the entity index"},
			{ID: "C17.R16", Floor: 1, Run: internalQueriesExhausted, Text: "queries opened inside the library are run to the end (= C09.R13): DumpEntities leaves the world unlocked"},
		},
	})
	register(&Property{
		ID: "C02",
		Decides: "pool ownership: the pool's fields are written only by its own methods and the load path; handles are issued only by the two creation primitives and recycled only by the two removal paths (R1); every non-panicking path of the recycle method bumps the slot's generation, and liveness compares the handle's generation with the slot's (R2); slot 0 is seeded with a generation no issued handle has, recycle refuses id 0, reset keeps slot 0 (R3); " +
			"bulk paths issue/recycle exactly one handle per row and store it in the row (R4); creation grows the world index and the target bit set (R5); growth copies whole slices (R6); handles are compared as whole values (R7 = C05.R7).",
		NotDecided:  "correctness of the implicit free list (threading, counts), uniqueness of issued handles over histories, alive = creations − removals.",
		Assumptions: commonAssumptions,
		Rules: []Rule{
			{ID: "C02.R1", Floor: 6, Run: c02r1, Text: "ownership: entityPool.{entities,next,available} are written only by entityPool methods and LoadEntities; entityPool.Get is called only from functions that also allocate a row for the handle; entityPool.Recycle only from functions that also remove/reset the row"},
			{ID: "C02.R2", Floor: 2, Run: c02r2, Text: "generation: every return path of Recycle passes `entities[e.id].gen++`; Alive returns `e.gen == entities[e.id].gen`"},
			{ID: "C02.R3", Floor: 3, Run: c02r3, Text: "slot 0: the constructor stores a maximal generation into slot 0; Recycle panics on id 0 before any write; Reset truncates to [:1]"},
			{ID: "C02.R4", Floor: 2, Run: c02r4, Text: "one per row: in loops, Get (resp. Recycle) is called exactly once per iteration and the issued handle is stored into the row (SetEntity) and the index"},
			{ID: "C02.R5", Floor: 2, Run: c02r5, Text: "index growth: functions that obtain a handle from the pool extend World.entities and call targetEntities.ExtendTo"},
			{ID: "C02.R6", Floor: 5, Run: c02r6, Text: "growth copies whole slices: no builtin copy has an argument sliced from a non-zero lower bound"},
			{ID: "C02.R8", Floor: 6, Run: c17r1, Text: "the load path restores every run-state field of the pool (= C17.R1), so that the free list survives a load"},
			{ID: "C02.R7", Floor: 3, Run: c05r7, Text: "handle identity (= C05.R7): handles are never compared by id alone"},
			{ID: "C02.R9", Floor: 2, Run: c17r5, Text: "the dump is a copy (= C17.R5): a dump that shares the pool's storage is rewritten by later removals, and loading it re-issues live handles"},
			{ID: "C02.R10", Floor: 3, Run: c17r6, Text: "index growth in step with the pool (= C17.R6): every make([]T, n, c) of handle/index storage with a non-constant length has c = n + e, c = n, or c = capacity(n, ·) computed from the same n (structural equality): the pool and the index are sized from the full id count, in step"},
			{ID: "C02.R11", Floor: 1, Run: c02r11, Text: "no bulk clear of handle storage: clear() is never applied to entityPool.entities or World.entities (slot 0 holds the sentinel that makes the zero entity dead); fixture-backed"},
			{ID: "C02.R12", Floor: 15, Run: c10r1, Text: "no creation before validation (= C10.R1): a creation call that panics has created nothing, so alive = creations − removals also for callers that recover"},
			{ID: "C02.R13", Floor: 1, Run: dumpVerbatim, Text: "the dump copies the pool's entries verbatim (= C17.R9): a rebuilt entry loses the free-list link and the loaded world issues one handle twice"},
			{ID: "C02.R14", Floor: 7, Run: c01r2, Text: "alloc ⇄ index (= C01.R2): a row allocated for an entity is recorded in World.entities itself, not in a copy of the entry; a stale entry makes a later removal recycle another entity's id"},
			{ID: "C02.R15", Floor: 2, Run: poolRestoredVerbatim, Text: "LoadEntities restores the pool's free-list head and count verbatim (= C17.R12): an off-by-one count issues the reserved zero id"},
			{ID: "C02.R16", Floor: 3, Run: targetFlagsCoverIndex, Text: "the target flags are resized in step with the entity index (= C06.R14)"},
			{ID: "C02.R17", Floor: 12, Run: c11r2, Text: "removal events precede the removal (= C11.R2): the handle is still alive while its EntityRemoved event is delivered; recycling first makes the entity dead inside its own removal event"},
			{ID: "C02.R18", Floor: 1, Run: deactivateOnlyOnRetire, Text: "a table is marked inactive only by the retiring method (= C03.R13): an inactive table that is still mapped hides its entities from filter-based removal and from Reset"},
			{ID: "C02.R19", Floor: 1, Run: marshalAllPaths, Text: "entity JSON encodes id and generation on every path (= C17.R8): a fast path for id 0 flattens the pool's sentinel generation"},
			{ID: "C02.R20", Floor: 4, Run: queryIntParamsRangeChecked, Text: "batch sizes are not truncated (= C10.R15): creations minus removals is the number of alive entities for every batch size"},
			{ID: "C02.R21", Floor: 1, Run: recycleAfterTableEvents, Text: "handles are recycled only after the removal events of their table were delivered: no notification can follow a Recycle before the table is emptied"},
			{ID: "C02.R22", Floor: 5, Run: growCopyWholeSource, Text: "growth copies the whole old slice: in a function that allocates a slice, the source of a builtin copy is cut to nothing but its own length; the world index is not a dense prefix of alive ids"},
		},
	})
}

func poolRunFields(p *Prog) []string {
	// derived: fields of entityPool written by non-constructor functions
	n := p.Named("ecs.entityPool")
	if n == nil {
		return nil
	}
	st := n.Underlying().(*types.Struct)
	run := map[string]bool{}
	for _, fn := range p.Funcs {
		if isConstructorName(cname(fn)) && fn.Signature.Recv() == nil {
			continue
		}
		for _, pa := range p.Mod(fn).Paths() {
			if strings.HasPrefix(pa, "entityPool.") {
				run[firstField(pa[len("entityPool."):])] = true
			}
		}
	}
	var out []string
	for i := 0; i < st.NumFields(); i++ {
		if f := fieldName(n, i); run[f] {
			out = append(out, f)
		}
	}
	return out
}

func readsField(fn *ssa.Function, owner, field string) bool {
	for _, b := range fn.Blocks {
		for _, ins := range b.Instrs {
			if u, ok := ins.(*ssa.UnOp); ok && u.Op == token.MUL {
				if o, f, _, ok := loadedField(u); ok && o == owner && f == field {
					return true
				}
			}
		}
	}
	return false
}

func c17r1(p *Prog, r *Reporter) {
	dump := p.Fn("ecs.(*World).DumpEntities")
	load := p.Fn("ecs.(*World).LoadEntities")
	if dump == nil || load == nil {
		r.Anchor("ecs.(*World).DumpEntities / LoadEntities")
		return
	}
	fields := poolRunFields(p)
	if len(fields) == 0 {
		r.Anchor("run-state fields of ecs.entityPool")
		return
	}
	loadMod := p.Mod(load).Paths()
	has := func(prefix string) bool {
		for _, pa := range loadMod {
			if pa == prefix || strings.HasPrefix(pa, prefix+".") || strings.HasPrefix(pa, prefix+"[") {
				return true
			}
		}
		return false
	}
	for _, f := range fields {
		r.Check(readsField(dump, "entityPool", f), p.FuncName(dump), "dump reads entityPool."+f, p.FnPos(dump), "run-state field of the pool is part of the dump")
		r.Check(has("World.entityPool."+f), p.FuncName(load), "load writes entityPool."+f, p.FnPos(load), "run-state field of the pool is restored from the dump")
	}
	r.Check(has("World.entities"), p.FuncName(load), "load rebuilds World.entities", p.FnPos(load), "the entity index is rebuilt")
	r.Check(has("World.targetEntities"), p.FuncName(load), "load rebuilds World.targetEntities", p.FnPos(load), "the target flags are rebuilt")
	// alive ids re-allocated with index entry: a loop that calls Alloc and stores into w.entities[entity.id]
	allocInLoop, idxInLoop := false, false
	for _, b := range load.Blocks {
		if !inLoop(b) {
			continue
		}
		for _, ins := range b.Instrs {
			if c, ok := ins.(*ssa.Call); ok && c.Common().StaticCallee() != nil && cname(c.Common().StaticCallee()) == "Alloc" {
				allocInLoop = true
			}
			if st, ok := ins.(*ssa.Store); ok {
				addr := st.Addr
				if fa, ok := addr.(*ssa.FieldAddr); ok { // field-wise store into the entry
					addr = fa.X
				}
				if ia, ok := addr.(*ssa.IndexAddr); ok {
					if _, f, _, ok := loadedField(ia.X); ok && f == "entities" && idOf(ia.Index) != nil {
						idxInLoop = true
					}
				}
			}
		}
	}
	r.Check(allocInLoop && idxInLoop, p.FuncName(load), "alive ids re-allocated", p.FnPos(load), "for each alive id a row is allocated in the base table and (table,row) stored into World.entities[id]")
}

func c17r2(p *Prog, r *Reporter) {
	load := p.Fn("ecs.(*World).LoadEntities")
	if load == nil {
		r.Anchor("ecs.(*World).LoadEntities")
		return
	}
	name := p.FuncName(load)
	g := p.guardAnalysis()
	lock := g.flow(load)
	isLenEntities := func(v ssa.Value) bool {
		c := callOf(v)
		if c == nil {
			return false
		}
		if bi, ok := c.Call.Value.(*ssa.Builtin); !ok || bi.Name() != "len" {
			return false
		}
		_, f, _, ok := loadedField(c.Call.Args[0])
		return ok && f == "entities" && typeName(fieldOwner(c.Call.Args[0])) == "entityPool"
	}
	isAvailable := func(v ssa.Value) bool {
		_, f, _, ok := loadedField(v)
		return ok && f == "available"
	}
	// two facts, each established on the non-panicking edge of its test: pool holds only slot 0; nothing is recycled
	onlyZero := &MustFlow{Fn: load, EdgeGen: func(b *ssa.BasicBlock, k int) bool {
		atom, holds, ok := edgeCond(b, k)
		if !ok {
			return false
		}
		rel, c, ok := boundOnEdge(atom, holds, isLenEntities)
		return ok && impliesAtMost(rel, c, 1) && leadsToPanic(p, b, 1-k)
	}}
	onlyZero.Run()
	noneFree := &MustFlow{Fn: load, EdgeGen: func(b *ssa.BasicBlock, k int) bool {
		atom, holds, ok := edgeCond(b, k)
		if !ok {
			return false
		}
		rel, c, ok := boundOnEdge(atom, holds, isAvailable)
		return ok && impliesAtMost(rel, c, 0) && leadsToPanic(p, b, 1-k)
	}}
	noneFree.Run()
	fresh := &bothFlows{onlyZero, noneFree}
	nW, badLock, badFresh := 0, "", ""
	for _, b := range load.Blocks {
		for _, ins := range b.Instrs {
			writes := directWrites(ins)
			if site, ok := ins.(ssa.CallInstruction); ok {
				for _, k := range sortedKeys(p.SiteMod(site).W) {
					writes = append(writes, p.SiteMod(site).W[k])
				}
			}
			for _, w := range writes {
				if !strings.HasPrefix(w.Path, "World.") && !isStructural(w.Path) {
					continue
				}
				if hasSeg(w.Path, "World.locks") {
					continue
				}
				nW++
				if !lock.Before(ins) && badLock == "" {
					badLock = w.Path + " at " + p.Pos(posOf(ins))
				}
				if !fresh.Before(ins) && badFresh == "" {
					badFresh = w.Path + " at " + p.Pos(posOf(ins))
				}
			}
		}
	}
	if nW == 0 {
		r.Bad(name, "load guard", p.FnPos(load), "LoadEntities writes nothing")
		return
	}
	if badLock == "" {
		r.OK(name, "lock test before first write", p.FnPos(load), "all writes are dominated by the lock test")
	} else {
		r.Bad(name, "lock test before first write", p.FnPos(load), "a write is not dominated by the lock test: "+badLock)
	}
	if badFresh == "" {
		r.OK(name, "fresh-or-reset test before first write", p.FnPos(load), "all writes are dominated by `len(pool) > 1 || available > 0 → panic`")
	} else {
		r.Bad(name, "fresh-or-reset test before first write", p.FnPos(load), "a write is not dominated by the fresh-or-reset test: "+badFresh)
	}
}

func c17r3(p *Prog, r *Reporter) {
	m := p.Fn("ecs.(Entity).MarshalJSON")
	u := p.Fn("ecs.(*Entity).UnmarshalJSON")
	if m == nil || u == nil {
		r.Anchor("ecs.(Entity).MarshalJSON / (*Entity).UnmarshalJSON")
		return
	}
	// Marshal: stores into a local [2]uint32: element k ← field
	pos := map[int64]string{}
	for _, b := range m.Blocks {
		for _, ins := range b.Instrs {
			st, ok := ins.(*ssa.Store)
			if !ok {
				continue
			}
			ia, ok := st.Addr.(*ssa.IndexAddr)
			if !ok {
				continue
			}
			c, ok := ia.Index.(*ssa.Const)
			if !ok {
				continue
			}
			if _, f, _, ok := loadedField(stripConvs(st.Val)); ok {
				pos[c.Int64()] = f
			}
		}
	}
	r.Check(pos[0] == "id" && pos[1] == "gen", p.FuncName(m), "array layout", p.FnPos(m), "position 0 ← "+pos[0]+", position 1 ← "+pos[1])
	// Unmarshal
	name := p.FuncName(u)
	srcOf := func(v ssa.Value) string {
		v = stripConvs(v)
		if un, ok := v.(*ssa.UnOp); ok && un.Op == token.MUL {
			if ia, ok := un.X.(*ssa.IndexAddr); ok {
				if c, ok := ia.Index.(*ssa.Const); ok {
					return "arr[" + c.Value.ExactString() + "]"
				}
			}
		}
		return apath(v)
	}
	var idStores, genStores []*ssa.Store
	bad := ""
	for _, b := range u.Blocks {
		for _, ins := range b.Instrs {
			st, ok := ins.(*ssa.Store)
			if !ok {
				continue
			}
			if pr, ok := st.Addr.(*ssa.Parameter); ok && pr == u.Params[0] {
				bad = "the whole entity is overwritten at " + p.Pos(st.Pos())
			}
			fa, ok := st.Addr.(*ssa.FieldAddr)
			if !ok || fa.X != ssa.Value(u.Params[0]) {
				continue
			}
			switch fieldName(fa.X.Type(), fa.Field) {
			case "id":
				idStores = append(idStores, st)
				if srcOf(st.Val) != "arr[0]" {
					bad = "id is stored from " + srcOf(st.Val)
				}
			case "gen":
				genStores = append(genStores, st)
				if srcOf(st.Val) != "arr[1]" {
					bad = "gen is stored from " + srcOf(st.Val)
				}
			}
		}
	}
	if bad != "" {
		r.Bad(name, "fields from array positions", p.FnPos(u), bad)
	} else {
		r.OK(name, "fields from array positions", p.FnPos(u), "id ← arr[0], gen ← arr[1], no other write to the entity")
	}
	// on every nil-error return both were stored
	mustBoth := &MustFlow{Fn: u, InstrGen: func(i ssa.Instruction) bool {
		for _, s := range genStores {
			if i == ssa.Instruction(s) {
				return true
			}
		}
		return false
	}}
	mustBoth.Run()
	mustID := &MustFlow{Fn: u, InstrGen: func(i ssa.Instruction) bool {
		for _, s := range idStores {
			if i == ssa.Instruction(s) {
				return true
			}
		}
		return false
	}}
	mustID.Run()
	okAll, n := true, 0
	for _, b := range u.Blocks {
		ret, ok := b.Instrs[len(b.Instrs)-1].(*ssa.Return)
		if !ok || !reachable(b) {
			continue
		}
		if !isNilConst(ret.Results[0]) {
			continue
		}
		n++
		if !mustBoth.Before(ret) || !mustID.Before(ret) {
			okAll = false
		}
	}
	r.Check(okAll && n > 0, name, "both fields written on success", p.FnPos(u), "every return with a nil error is preceded by the stores to id and gen")
	// marshal reads both fields
	r.Check(readsField(m, "Entity", "id") || len(pos) == 2, p.FuncName(m), "reads every field", p.FnPos(m), "id and gen are both serialised")
}

func c17r4(p *Prog, r *Reporter) {
	load := p.Fn("ecs.(*World).LoadEntities")
	if load == nil {
		r.Anchor("ecs.(*World).LoadEntities")
		return
	}
	name := p.FuncName(load)
	for _, b := range load.Blocks {
		for _, ins := range b.Instrs {
			st, ok := ins.(*ssa.Store)
			if !ok {
				continue
			}
			if _, isSl := st.Val.Type().Underlying().(*types.Slice); !isSl {
				continue
			}
			_, f, _, ok := loadedField(st.Addr)
			if !ok {
				continue
			}
			okf, why := freshSlice(st.Val, map[ssa.Value]bool{})
			construct := "slice stored into " + apath(st.Addr)
			_ = f
			if okf {
				r.OK(name, construct, p.Pos(st.Pos()), "derives only from make / append to a fresh slice")
			} else {
				r.Bad(name, construct, p.Pos(st.Pos()), "the installed slice may alias the caller's dump ("+why+"): later removals would rewrite the dump, and worlds loaded from one dump would share storage")
			}
		}
	}
}

// freshSlice: v derives only from make, or append/slice/phi of fresh slices.
func freshSlice(v ssa.Value, seen map[ssa.Value]bool) (bool, string) {
	if seen[v] {
		return true, ""
	}
	seen[v] = true
	switch x := v.(type) {
	case *ssa.MakeSlice:
		return true, ""
	case *ssa.Const:
		return true, ""
	case *ssa.Slice:
		if a, ok := x.X.(*ssa.Alloc); ok && a.Heap {
			return true, "" // new array
		}
		return freshSlice(x.X, seen)
	case *ssa.Alloc:
		return true, ""
	case *ssa.Call:
		if b, ok := x.Call.Value.(*ssa.Builtin); ok && b.Name() == "append" {
			return freshSlice(x.Call.Args[0], seen)
		}
		if sc := x.Call.StaticCallee(); sc != nil && sc.Pkg != nil && sc.Pkg.Pkg.Path() == "slices" && strings.HasPrefix(cname(sc), "Clone") {
			return true, ""
		}
		return false, "result of " + calleeShort(x)
	case *ssa.Phi:
		for _, e := range x.Edges {
			if ok, why := freshSlice(e, seen); !ok {
				return false, why
			}
		}
		return true, ""
	case *ssa.UnOp:
		if x.Op == token.MUL {
			if a, ok := x.X.(*ssa.Alloc); ok {
				// local variable: all stores must be fresh
				for _, ref := range *a.Referrers() {
					if st, ok := ref.(*ssa.Store); ok && st.Addr == ssa.Value(a) {
						if ok2, why := freshSlice(st.Val, seen); !ok2 {
							return false, why
						}
					}
				}
				return true, ""
			}
			return false, "load of " + apath(x)
		}
	}
	return false, apath(v)
}

// ================= C02 =================

func c02r1(p *Prog, r *Reporter) {
	get := p.Fn("ecs.(*entityPool).Get")
	rec := p.Fn("ecs.(*entityPool).Recycle")
	load := p.Fn("ecs.(*World).LoadEntities")
	if get == nil || rec == nil || load == nil {
		r.Anchor("ecs.(*entityPool).Get / Recycle, ecs.(*World).LoadEntities")
		return
	}
	for _, fn := range p.Funcs {
		for _, b := range fn.Blocks {
			for _, ins := range b.Instrs {
				for _, w := range directWrites(ins) {
					if !(strings.HasPrefix(w.Path, "entityPool.") || strings.HasPrefix(w.Path, "World.entityPool.")) {
						continue
					}
					name := p.FuncName(fn)
					okc := typeName(recvType(fn)) == "entityPool" || fn == load
					if isConstructorName(cname(fn)) {
						okc = true
					}
					if okc {
						r.OKt(name, "write "+w.Path, p.Pos(w.Pos), "pool field written by the pool's own method, its constructor or the load path")
					} else {
						r.Bad(name, "write "+w.Path, p.Pos(w.Pos), "a pool field is written outside the pool's methods and the load path")
					}
				}
			}
		}
	}
	grow := growFns(p)
	for _, fn := range p.Funcs {
		for _, site := range callsIn(fn) {
			name := p.FuncName(fn)
			if isCallTo(site, get) {
				// the function also allocates a row (calls a grow function) or writes the handle into a row
				okc := false
				for _, s2 := range callsIn(fn) {
					if sc := s2.Common().StaticCallee(); sc != nil && (grow[sc] || cname(sc) == "SetEntity") {
						okc = true
					}
				}
				r.Check(okc, name, "issues a handle", p.Pos(site.Pos()), "the function that takes a handle from the pool also allocates / fills the row for it")
			}
			if isCallTo(site, rec) {
				okc := false
				// the function itself, or - for an unexported helper with a single caller - that caller
				chain := []*ssa.Function{fn}
				for g, d := fn, 0; d < 2 && g.Object() != nil && !g.Object().Exported(); d++ {
					var caller *ssa.Function
					k := 0
					for _, h := range p.Funcs {
						if h.Synthetic != "" {
							continue
						}
						for _, s3 := range callsIn(h) {
							if isCallTo(s3, g) {
								k++
								caller = h
							}
						}
					}
					if k != 1 || caller == g {
						break
					}
					chain = append(chain, caller)
					g = caller
				}
				for _, g := range chain {
					for _, s2 := range callsIn(g) {
						if sc := s2.Common().StaticCallee(); sc != nil && typeName(recvType(sc)) == "archetype" && (cname(sc) == "Remove" || cname(sc) == "Reset") {
							okc = true
						}
					}
				}
				r.Check(okc, name, "recycles a handle", p.Pos(site.Pos()), "the function that recycles a handle also removes / resets its row")
			}
		}
	}
}

func c02r2(p *Prog, r *Reporter) {
	rec := p.Fn("ecs.(*entityPool).Recycle")
	alive := p.Fn("ecs.(*entityPool).Alive")
	if rec == nil || alive == nil {
		r.Anchor("ecs.(*entityPool).Recycle / Alive")
		return
	}
	var bump ssa.Instruction
	for _, b := range rec.Blocks {
		for _, ins := range b.Instrs {
			st, ok := ins.(*ssa.Store)
			if !ok {
				continue
			}
			if !strings.HasSuffix(apath(st.Addr), ".gen") || !strings.Contains(apath(st.Addr), "entities[") {
				continue
			}
			if bo, ok := st.Val.(*ssa.BinOp); ok && bo.Op == token.ADD && isConstInt(bo.Y, 1) && apath(bo.X) == apath(st.Addr) {
				bump = st
			}
		}
	}
	okb := bump != nil && mustPass(p, rec, bump)
	r.Check(okb, p.FuncName(rec), "generation bump", p.FnPos(rec), "every return path passes entities[e.id].gen++ of the recycled slot")
	// Alive
	oka := false
	for _, b := range alive.Blocks {
		if ret, ok := b.Instrs[len(b.Instrs)-1].(*ssa.Return); ok && len(ret.Results) == 1 {
			if bo, ok := ret.Results[0].(*ssa.BinOp); ok && bo.Op == token.EQL {
				x, y := apath(bo.X), apath(bo.Y)
				if (strings.HasSuffix(x, "e.gen") && strings.Contains(y, "entities[") && strings.HasSuffix(y, ".gen")) ||
					(strings.HasSuffix(y, "e.gen") && strings.Contains(x, "entities[") && strings.HasSuffix(x, ".gen")) {
					oka = true
				}
			}
		}
	}
	r.Check(oka, p.FuncName(alive), "liveness compares generations", p.FnPos(alive), "returns e.gen == entities[e.id].gen")
}

func c02r3(p *Prog, r *Reporter) {
	ctor := p.Fn("ecs.newEntityPool")
	rec := p.Fn("ecs.(*entityPool).Recycle")
	reset := p.Fn("ecs.(*entityPool).Reset")
	if ctor == nil || rec == nil || reset == nil {
		r.Anchor("ecs.newEntityPool / (*entityPool).Recycle / Reset")
		return
	}
	// constructor: entities[0] = Entity{0, MaxUint32}
	okc := false
	for _, b := range ctor.Blocks {
		for _, ins := range b.Instrs {
			st, ok := ins.(*ssa.Store)
			if !ok {
				continue
			}
			if ia, ok := st.Addr.(*ssa.IndexAddr); ok && isConstInt(ia.Index, 0) && isEntityType(st.Val.Type()) {
				// value is a struct built from consts: look for the gen store MaxUint32 on the local it is loaded from
				if u, ok := st.Val.(*ssa.UnOp); ok {
					if a, ok := u.X.(*ssa.Alloc); ok {
						for _, ref := range *a.Referrers() {
							if fa, ok := ref.(*ssa.FieldAddr); ok && fieldName(fa.X.Type(), fa.Field) == "gen" {
								for _, r2 := range *fa.Referrers() {
									if s2, ok := r2.(*ssa.Store); ok {
										if c, ok := s2.Val.(*ssa.Const); ok && c.Value != nil && c.Value.ExactString() == "4294967295" {
											okc = true
										}
									}
								}
							}
						}
					}
				}
			}
		}
	}
	r.Check(okc, p.FuncName(ctor), "slot 0 seeded", p.FnPos(ctor), "entities[0] gets generation MaxUint32, which no issued handle has (new ids start at generation 0)")
	// Recycle: e.id == 0 → panic before any write
	guard := &MustFlow{Fn: rec, EdgeGen: func(b *ssa.BasicBlock, k int) bool {
		atom, holds, ok := edgeCond(b, k)
		if !ok {
			return false
		}
		rel, c, ok := boundOnEdge(atom, holds, func(v ssa.Value) bool { return idOf(v) != nil })
		return ok && impliesNonZeroUnsigned(rel, c) && p.panicOnly(b.Succs[1-k])
	}}
	guard.Run()
	okr := true
	n := 0
	for _, b := range rec.Blocks {
		for _, ins := range b.Instrs {
			if len(directWrites(ins)) > 0 {
				n++
				if !guard.Before(ins) {
					okr = false
				}
			}
		}
	}
	r.Check(okr && n > 0, p.FuncName(rec), "refuses id 0", p.FnPos(rec), "every write is dominated by `e.id == 0 → panic`")
	// Reset: entities = entities[:1]
	oks := false
	for _, b := range reset.Blocks {
		for _, ins := range b.Instrs {
			if st, ok := ins.(*ssa.Store); ok {
				if _, f, _, ok := loadedField(st.Addr); ok && f == "entities" {
					if sl, ok := st.Val.(*ssa.Slice); ok && sl.Low == nil && isConstInt(sl.High, 1) {
						oks = true
					}
				}
			}
		}
	}
	r.Check(oks, p.FuncName(reset), "reset keeps slot 0", p.FnPos(reset), "entities = entities[:1]")
}

func c02r4(p *Prog, r *Reporter) {
	get := p.Fn("ecs.(*entityPool).Get")
	rec := p.Fn("ecs.(*entityPool).Recycle")
	if get == nil || rec == nil {
		r.Anchor("ecs.(*entityPool).Get / Recycle")
		return
	}
	for _, fn := range p.Funcs {
		for _, prim := range []*ssa.Function{get, rec} {
			var inLoopSites []ssa.CallInstruction
			for _, site := range callsIn(fn) {
				if isCallTo(site, prim) && inLoop(site.Block()) {
					inLoopSites = append(inLoopSites, site)
				}
			}
			if len(inLoopSites) == 0 {
				continue
			}
			name := p.FuncName(fn)
			what := "Get"
			if prim == rec {
				what = "Recycle"
			}
			if len(inLoopSites) != 1 {
				r.Bad(name, "one "+what+" per row", p.Pos(inLoopSites[0].Pos()), "the loop body calls the pool primitive more than once")
				continue
			}
			site := inLoopSites[0]
			// the call lies on every path of one loop iteration: its block dominates the loop's back-edge source
			okc := false
			b := site.Block()
			for _, x := range fn.Blocks {
				for _, s := range x.Succs {
					if dominatesBlock(s, x) && dominatesBlock(s, b) && dominatesBlock(b, x) {
						okc = true
					}
				}
			}
			stored := true
			if prim == get {
				stored = false
				if call, ok := site.(*ssa.Call); ok {
					for _, s2 := range callsIn(fn) {
						if sc := s2.Common().StaticCallee(); sc != nil && cname(sc) == "SetEntity" {
							for _, a := range s2.Common().Args {
								if a == ssa.Value(call) || originOf(a) != a && storedFrom(originOf(a), call) {
									stored = true
								}
							}
						}
					}
				}
			}
			r.Check(okc && stored, name, "one "+what+" per row", p.Pos(site.Pos()), "exactly one call per loop iteration, on every path of the iteration; an issued handle is written into its row")
		}
	}
}

func c02r5(p *Prog, r *Reporter) {
	get := p.Fn("ecs.(*entityPool).Get")
	if get == nil {
		r.Anchor("ecs.(*entityPool).Get")
		return
	}
	for _, fn := range p.Funcs {
		calls := false
		for _, site := range callsIn(fn) {
			if isCallTo(site, get) {
				calls = true
			}
		}
		if !calls {
			continue
		}
		name := p.FuncName(fn)
		growsIdx, ext := false, false
		for _, pa := range directPaths(fn) {
			if pa == "World.entities" {
				growsIdx = true
			}
		}
		for _, site := range callsIn(fn) {
			if sc := site.Common().StaticCallee(); sc != nil && cname(sc) == "ExtendTo" && typeName(recvType(sc)) == "bitSet" {
				ext = true
			}
		}
		r.Check(growsIdx && ext, name, "index growth", p.FnPos(fn), "the function assigns World.entities (growth) and calls targetEntities.ExtendTo")
	}
}

func c02r6(p *Prog, r *Reporter) {
	for _, fn := range p.Funcs {
		for _, site := range callsIn(fn) {
			bi, ok := site.Common().Value.(*ssa.Builtin)
			if !ok || (bi.Name() != "copy" && bi.Name() != "append") {
				continue
			}
			if bi.Name() == "append" {
				// only growth of pool/index storage: append(fresh, old[k:]...) in methods of the pools and of World
				rt := typeName(recvType(fn))
				if !(strings.HasSuffix(rt, "Pool") || strings.HasPrefix(rt, "intPool") || rt == "World") {
					continue
				}
				if len(site.Common().Args) != 2 {
					continue
				}
				sl, isSl := site.Common().Args[1].(*ssa.Slice)
				if !isSl {
					continue
				}
				// handle storage only: element type Entity / entityIndex, or any slice of a pool type
				if st, ok := sl.Type().Underlying().(*types.Slice); ok && rt == "World" {
					if en := typeName(st.Elem()); en != "Entity" && en != "entityIndex" {
						continue
					}
				}
			}
			name := p.FuncName(fn)
			bad := ""
			for _, a := range site.Common().Args {
				if sl, ok := a.(*ssa.Slice); ok && sl.Low != nil && !isConstInt(sl.Low, 0) {
					bad = apath(sl.X) + "[" + apath(sl.Low) + ":]"
				}
			}
			construct := bi.Name() + "(" + apath(site.Common().Args[0]) + ", " + apath(site.Common().Args[1]) + ")"
			if bad == "" {
				r.OKt(name, construct, p.Pos(site.Pos()), "both arguments start at element 0")
			} else {
				r.Bad(name, construct, p.Pos(site.Pos()), "a growth copy skips leading elements ("+bad+"): slot 0 / the first rows would be lost when storage is re-allocated")
			}
		}
	}
}

type bothFlows struct{ a, b *MustFlow }

func (f *bothFlows) Before(ins ssa.Instruction) bool { return f.a.Before(ins) && f.b.Before(ins) }

// leadsToPanic: the other edge of a test ends in panic, directly or through further tests of an `||` chain
// (in `a || b → panic` the true edge of a panics, its false edge goes on to test b).
func leadsToPanic(p *Prog, b *ssa.BasicBlock, k int) bool {
	s := b.Succs[k]
	if p.panicOnly(s) {
		return true
	}
	// the successor may be the shared panic block reached also from the second test: accept if some successor path panics only
	for _, s2 := range s.Succs {
		if p.panicOnly(s2) && len(s.Instrs) <= 4 {
			return true
		}
	}
	return false
}

func c17r5(p *Prog, r *Reporter) {
	dump := p.Fn("ecs.(*World).DumpEntities")
	if dump == nil {
		r.Anchor("ecs.(*World).DumpEntities")
		return
	}
	name := p.FuncName(dump)
	for _, b := range dump.Blocks {
		for _, ins := range b.Instrs {
			st, ok := ins.(*ssa.Store)
			if !ok {
				continue
			}
			fa, ok := st.Addr.(*ssa.FieldAddr)
			if !ok || typeName(fa.X.Type()) != "EntityDump" {
				continue
			}
			if _, isSl := st.Val.Type().Underlying().(*types.Slice); !isSl {
				continue
			}
			f := fieldName(fa.X.Type(), fa.Field)
			okf, why := freshSlice(st.Val, map[ssa.Value]bool{})
			if okf {
				r.OK(name, "EntityDump."+f+" is a copy", p.Pos(st.Pos()), "derives only from make / append to a fresh slice")
			} else {
				r.Bad(name, "EntityDump."+f+" is a copy", p.Pos(st.Pos()), "the dump shares storage with the world ("+why+"): later removals in the world rewrite the dump")
			}
		}
	}
}

// ---------- C17.R6 / C02.R10: capacity computed from the same length ----------

func c17r6(p *Prog, r *Reporter) {
	capFns := map[string]bool{"capacity": true, "capacityU32": true, "capacityNonZero": true}
	for _, fn := range p.Funcs {
		if fn.Pkg == nil || fn.Pkg.Pkg.Name() != "ecs" {
			continue
		}
		name := p.FuncName(fn)
		n := 0
		for _, b := range fn.Blocks {
			for _, ins := range b.Instrs {
				mk, ok := ins.(*ssa.MakeSlice)
				if !ok {
					continue
				}
				if _, isC := mk.Len.(*ssa.Const); isC {
					continue
				}
				if mk.Len == mk.Cap {
					continue // two-argument make
				}
				n++
				construct := fmt.Sprintf("make with capacity #%d", n)
				ln, cp := stripConvs(mk.Len), stripConvs(mk.Cap)
				okc, why := false, ""
				switch c := cp.(type) {
				case *ssa.BinOp:
					if c.Op == token.ADD && (structEq(stripConvs(c.X), ln, 0) || structEq(stripConvs(c.Y), ln, 0)) {
						okc, why = true, "capacity = length + increment"
					}
				case *ssa.Call:
					if sc := c.Common().StaticCallee(); sc != nil && capFns[cname(sc)] {
						if structEq(stripConvs(c.Common().Args[0]), ln, 0) {
							okc, why = true, "capacity = "+cname(sc)+"(length, ·), which rounds the same length up"
						} else {
							why = "the capacity is " + cname(sc) + "(" + exprString(c.Common().Args[0]) + ", ·) but the length is " + exprString(mk.Len) + ": the two are computed from different counts"
						}
					}
				}
				if !okc && structEq(cp, ln, 0) {
					okc, why = true, "capacity = length"
				}
				if okc {
					r.OK(name, construct, p.Pos(mk.Pos()), why)
				} else {
					if why == "" {
						why = "the capacity " + exprString(mk.Cap) + " is not derived from the length " + exprString(mk.Len)
					}
					r.Bad(name, construct, p.Pos(mk.Pos()), why+" (capacity below length panics; storage sized from a partial count loses ids)")
				}
			}
		}
	}
}

// exprString renders a small SSA expression for messages.
func exprString(v ssa.Value) string {
	switch x := v.(type) {
	case *ssa.Const:
		return x.Value.String()
	case *ssa.Convert:
		return exprString(x.X)
	case *ssa.BinOp:
		return exprString(x.X) + " " + x.Op.String() + " " + exprString(x.Y)
	case *ssa.Call:
		if bi, ok := x.Call.Value.(*ssa.Builtin); ok {
			return bi.Name() + "(" + apath(x.Call.Args[0]) + ")"
		}
	}
	return apath(v)
}
