package main

// SSA front end for the mask rules (C04.R1/R2): the per-word structure of a Mask method is recovered by abstract
// interpretation of its SSA form over the domain {small concrete integers and booleans, symbolic word expressions,
// arrays of them, addresses of words}. Integer values are constant-propagated, so a loop over the words of the mask
// is unrolled by its (constant) trip count; a branch on a symbolic word comparison forks the path. There is no solver:
// the result is the same maskMethod structure the rules consume (per-word expressions, or a chain of per-word
// comparisons joined by && / ||), and the rules then enumerate the one-bit truth table of each word expression.
//
// This replaces a syntax-tree front end that accepted only a single return expression / composite literal and so
// reported behaviour-preserving rewrites (element-wise assignment, named temporaries, a loop over the words) as
// undecided.

import (
	"fmt"
	"go/constant"
	"go/token"
	"go/types"
	"sort"
	"strings"

	"golang.org/x/tools/go/ssa"
)

type symKind int

const (
	skInt symKind = iota
	skBool
	skWord
	skArr
	skAddr
	skPred
	skSum
	skNone
)

type symPred struct {
	l, r *wexpr
	neq  bool
}

type symVal struct {
	kind symKind
	i    int64
	b    bool
	w    *wexpr
	arr  []*wexpr
	root interface{} // address: *ssa.Parameter name ("b"/"o") or *ssa.Alloc
	idx  int         // address: word index, -1 = whole
	pred *symPred
	sum  []sumTerm
}

type sumTerm struct {
	w  *wexpr
	fn string
}

type pathCond struct {
	pred *symPred
	hold bool
}

type symPath struct {
	conds []pathCond
	ret   *symVal // nil for no result
	cells map[string]*wexpr
}

type maskInterp struct {
	wroteParam map[string]bool
	c          *maskCtx
	fn         *ssa.Function
	who        map[*ssa.Parameter]string
	paths      []symPath
	steps      int
	failed     error
}

func cellKey(root interface{}, k int) string {
	switch r := root.(type) {
	case string:
		return fmt.Sprintf("%s#%d", r, k)
	case *ssa.Alloc:
		return fmt.Sprintf("%p#%d", r, k)
	}
	return fmt.Sprintf("?#%d", k)
}

type interpState struct {
	env   map[ssa.Value]*symVal
	cells map[string]*wexpr
	conds []pathCond
}

func (s *interpState) clone() *interpState {
	n := &interpState{env: map[ssa.Value]*symVal{}, cells: map[string]*wexpr{}}
	for k, v := range s.env {
		n.env[k] = v
	}
	for k, v := range s.cells {
		n.cells[k] = v
	}
	n.conds = append([]pathCond{}, s.conds...)
	return n
}

func (m *maskInterp) fail(format string, a ...interface{}) *symVal {
	if m.failed == nil {
		m.failed = fmt.Errorf(format, a...)
	}
	return &symVal{kind: skNone}
}

func (m *maskInterp) isMaskPtr(t types.Type) bool {
	pt, ok := t.Underlying().(*types.Pointer)
	return ok && typeName(pt.Elem()) == "Mask"
}

func (m *maskInterp) val(st *interpState, v ssa.Value) *symVal {
	if sv, ok := st.env[v]; ok {
		return sv
	}
	switch x := v.(type) {
	case *ssa.Const:
		if x.Value == nil {
			// zero value of an aggregate
			if _, ok := x.Type().Underlying().(*types.Array); ok || typeName(x.Type()) == "Mask" {
				arr := make([]*wexpr, m.c.words)
				for i := range arr {
					arr[i] = &wexpr{op: "zero"}
				}
				return &symVal{kind: skArr, arr: arr}
			}
			return m.fail("nil constant")
		}
		switch x.Value.Kind() {
		case constant.Bool:
			return &symVal{kind: skBool, b: constant.BoolVal(x.Value)}
		case constant.Int:
			n, _ := constant.Int64Val(x.Value)
			if bt, ok := x.Type().Underlying().(*types.Basic); ok && basicWidth(bt) == m.c.width && bt.Info()&types.IsUnsigned != 0 {
				if n == 0 {
					return &symVal{kind: skWord, w: &wexpr{op: "zero"}, i: 0}
				}
				return m.fail("word constant %d (only 0 is a bit-parallel constant)", n)
			}
			return &symVal{kind: skInt, i: n}
		}
	case *ssa.Parameter:
		if w, ok := m.who[x]; ok {
			if m.isMaskPtr(x.Type()) {
				return &symVal{kind: skAddr, root: w, idx: -1}
			}
			// value receiver / argument
			arr := make([]*wexpr, m.c.words)
			for i := range arr {
				arr[i] = m.leaf(w, i)
			}
			return &symVal{kind: skArr, arr: arr}
		}
	}
	return m.fail("value %s of kind %T is outside the word-parallel fragment", v.Name(), v)
}

func (m *maskInterp) leaf(who string, k int) *wexpr {
	if !m.c.array {
		return &wexpr{op: "leaf", who: who, index: -1}
	}
	return &wexpr{op: "leaf", who: who, index: k}
}

func (m *maskInterp) load(st *interpState, a *symVal) *symVal {
	if a.kind != skAddr {
		return m.fail("load through a non-address")
	}
	get := func(k int) *wexpr {
		if w, ok := st.cells[cellKey(a.root, k)]; ok {
			return w
		}
		if who, ok := a.root.(string); ok {
			return m.leaf(who, k)
		}
		return &wexpr{op: "zero"} // fresh local
	}
	if a.idx >= 0 {
		return &symVal{kind: skWord, w: get(a.idx)}
	}
	arr := make([]*wexpr, m.c.words)
	for k := range arr {
		arr[k] = get(k)
	}
	if !m.c.array {
		return &symVal{kind: skWord, w: arr[0], arr: arr}
	}
	return &symVal{kind: skArr, arr: arr}
}

func (m *maskInterp) store(st *interpState, a, v *symVal) {
	if a.kind != skAddr {
		m.fail("store through a non-address")
		return
	}
	if who, ok := a.root.(string); ok {
		m.wroteParam[who] = true
	}
	if a.idx >= 0 {
		if v.kind != skWord {
			m.fail("a non-word is stored into a word of the mask")
			return
		}
		st.cells[cellKey(a.root, a.idx)] = v.w
		return
	}
	switch {
	case v.kind == skArr:
		for k, w := range v.arr {
			st.cells[cellKey(a.root, k)] = w
		}
	case v.kind == skWord && !m.c.array:
		st.cells[cellKey(a.root, 0)] = v.w
	default:
		m.fail("unsupported whole-mask store")
	}
}

// run interprets from block b (entered from pred) until the function returns on every forked path.
func (m *maskInterp) run(st *interpState, b, pred *ssa.BasicBlock) {
	for m.failed == nil {
		m.steps++
		if m.steps > 20000 || len(m.paths) > 64 {
			m.fail("the method does not finish within the interpretation bound (steps %d, paths %d)", m.steps, len(m.paths))
			return
		}
		// phis first, simultaneously
		newv := map[ssa.Value]*symVal{}
		for _, ins := range b.Instrs {
			ph, ok := ins.(*ssa.Phi)
			if !ok {
				break
			}
			for i, p := range b.Preds {
				if p == pred {
					newv[ph] = m.val(st, ph.Edges[i])
				}
			}
		}
		for k, v := range newv {
			st.env[k] = v
		}
		for _, ins := range b.Instrs {
			switch x := ins.(type) {
			case *ssa.Phi, *ssa.DebugRef:
			case *ssa.Alloc:
				st.env[x] = &symVal{kind: skAddr, root: x, idx: -1}
				// a fresh local is zeroed
				for k := 0; k < m.c.words; k++ {
					delete(st.cells, cellKey(x, k))
				}
			case *ssa.FieldAddr:
				a := m.val(st, x.X)
				if a.kind != skAddr || fieldName(x.X.Type(), x.Field) != "bits" {
					m.fail("field %s of a non-mask", fieldName(x.X.Type(), x.Field))
					return
				}
				if m.c.array {
					st.env[x] = &symVal{kind: skAddr, root: a.root, idx: -1}
				} else {
					st.env[x] = &symVal{kind: skAddr, root: a.root, idx: 0}
				}
			case *ssa.IndexAddr:
				a, i := m.val(st, x.X), m.val(st, x.Index)
				if a.kind != skAddr || i.kind != skInt {
					m.fail("word index is not a constant")
					return
				}
				if i.i < 0 || int(i.i) >= m.c.words {
					m.fail("word index %d out of range", i.i)
					return
				}
				st.env[x] = &symVal{kind: skAddr, root: a.root, idx: int(i.i)}
			case *ssa.Field:
				a := m.val(st, x.X)
				if a.kind == skArr || a.kind == skWord {
					st.env[x] = a
				} else {
					m.fail("field of a non-mask value")
					return
				}
			case *ssa.Index:
				a, i := m.val(st, x.X), m.val(st, x.Index)
				if a.kind != skArr || i.kind != skInt || i.i < 0 || int(i.i) >= len(a.arr) {
					m.fail("unsupported array index")
					return
				}
				st.env[x] = &symVal{kind: skWord, w: a.arr[i.i]}
			case *ssa.UnOp:
				switch x.Op {
				case token.MUL:
					st.env[x] = m.load(st, m.val(st, x.X))
				case token.XOR:
					a := m.val(st, x.X)
					if a.kind != skWord {
						m.fail("^ of a non-word")
						return
					}
					st.env[x] = &symVal{kind: skWord, w: &wexpr{op: "~", l: a.w}}
				case token.NOT:
					a := m.val(st, x.X)
					switch a.kind {
					case skBool:
						st.env[x] = &symVal{kind: skBool, b: !a.b}
					case skPred:
						st.env[x] = &symVal{kind: skPred, pred: &symPred{l: a.pred.l, r: a.pred.r, neq: !a.pred.neq}}
					default:
						m.fail("! of a non-boolean")
						return
					}
				case token.SUB:
					a := m.val(st, x.X)
					if a.kind != skInt {
						m.fail("unary minus of a non-integer")
						return
					}
					st.env[x] = &symVal{kind: skInt, i: -a.i}
				default:
					m.fail("unsupported unary operator %s", x.Op)
					return
				}
			case *ssa.BinOp:
				l, r := m.val(st, x.X), m.val(st, x.Y)
				st.env[x] = m.binop(x.Op, l, r)
			case *ssa.Convert:
				a := m.val(st, x.X)
				st.env[x] = a
			case *ssa.ChangeType:
				st.env[x] = m.val(st, x.X)
			case *ssa.Store:
				m.store(st, m.val(st, x.Addr), m.val(st, x.Val))
			case *ssa.Call:
				if bi, ok := x.Call.Value.(*ssa.Builtin); ok && bi.Name() == "len" {
					a := m.val(st, x.Call.Args[0])
					if a.kind == skArr || a.kind == skAddr {
						st.env[x] = &symVal{kind: skInt, i: int64(m.c.words)}
						continue
					}
				}
				sc := x.Call.StaticCallee()
				if sc != nil && sc.Pkg != nil && sc.Pkg.Pkg.Path() == "math/bits" && len(x.Call.Args) == 1 {
					a := m.val(st, x.Call.Args[0])
					if a.kind != skWord {
						m.fail("population count of a non-word")
						return
					}
					st.env[x] = &symVal{kind: skSum, sum: []sumTerm{{a.w, "math/bits." + cname(sc)}}}
					continue
				}
				// a pure one-block helper over words (`func wordContains(w, sub uint64) bool { return w&sub == sub }`) is inlined
				if sc != nil && theProg != nil && theProg.isArche(sc) && len(sc.Blocks) == 1 && len(sc.Params) == len(x.Call.Args) {
					okInl := true
					for i, pr := range sc.Params {
						st.env[pr] = m.val(st, x.Call.Args[i])
					}
					var res *symVal
					for _, hi := range sc.Blocks[0].Instrs {
						switch h := hi.(type) {
						case *ssa.BinOp:
							st.env[h] = m.binop(h.Op, m.val(st, h.X), m.val(st, h.Y))
						case *ssa.Convert:
							st.env[h] = m.val(st, h.X)
						case *ssa.ChangeType:
							st.env[h] = m.val(st, h.X)
						case *ssa.DebugRef:
						case *ssa.Return:
							if len(h.Results) == 1 {
								res = m.val(st, h.Results[0])
							} else {
								okInl = false
							}
						default:
							okInl = false
						}
					}
					if okInl && res != nil {
						st.env[x] = res
						continue
					}
				}
				name := "?"
				if sc != nil {
					name = cname(sc)
				}
				m.fail("call of %s inside a mask operation", name)
				return
			case *ssa.Jump:
				pred, b = b, b.Succs[0]
				goto next
			case *ssa.If:
				cv := m.val(st, x.Cond)
				switch cv.kind {
				case skBool:
					if cv.b {
						pred, b = b, b.Succs[0]
					} else {
						pred, b = b, b.Succs[1]
					}
					goto next
				case skPred:
					other := st.clone()
					other.conds = append(other.conds, pathCond{cv.pred, false})
					m.run(other, b.Succs[1], b)
					st.conds = append(st.conds, pathCond{cv.pred, true})
					pred, b = b, b.Succs[0]
					goto next
				default:
					m.fail("branch on a value that is neither constant nor a word comparison")
					return
				}
			case *ssa.Return:
				p := symPath{conds: st.conds, cells: st.cells}
				if len(x.Results) == 1 {
					p.ret = m.val(st, x.Results[0])
				} else if len(x.Results) > 1 {
					m.fail("more than one result")
					return
				}
				m.paths = append(m.paths, p)
				return
			case *ssa.Panic:
				m.fail("panic inside a mask operation")
				return
			default:
				m.fail("instruction %T is outside the word-parallel fragment", ins)
				return
			}
		}
		return
	next:
	}
}

func (m *maskInterp) binop(op token.Token, l, r *symVal) *symVal {
	switch {
	case l.kind == skWord && r.kind == skWord:
		switch op {
		case token.AND:
			return &symVal{kind: skWord, w: &wexpr{op: "&", l: l.w, r: r.w}}
		case token.OR:
			return &symVal{kind: skWord, w: &wexpr{op: "|", l: l.w, r: r.w}}
		case token.XOR:
			return &symVal{kind: skWord, w: &wexpr{op: "^", l: l.w, r: r.w}}
		case token.AND_NOT:
			return &symVal{kind: skWord, w: &wexpr{op: "&^", l: l.w, r: r.w}}
		case token.EQL:
			return &symVal{kind: skPred, pred: &symPred{l: l.w, r: r.w}}
		case token.NEQ:
			return &symVal{kind: skPred, pred: &symPred{l: l.w, r: r.w, neq: true}}
		}
		return m.fail("operator %s on words is not bit-parallel", op)
	case l.kind == skInt && r.kind == skInt:
		switch op {
		case token.ADD:
			return &symVal{kind: skInt, i: l.i + r.i}
		case token.SUB:
			return &symVal{kind: skInt, i: l.i - r.i}
		case token.MUL:
			return &symVal{kind: skInt, i: l.i * r.i}
		case token.LSS:
			return &symVal{kind: skBool, b: l.i < r.i}
		case token.LEQ:
			return &symVal{kind: skBool, b: l.i <= r.i}
		case token.GTR:
			return &symVal{kind: skBool, b: l.i > r.i}
		case token.GEQ:
			return &symVal{kind: skBool, b: l.i >= r.i}
		case token.EQL:
			return &symVal{kind: skBool, b: l.i == r.i}
		case token.NEQ:
			return &symVal{kind: skBool, b: l.i != r.i}
		}
	case (l.kind == skSum || l.kind == skInt && l.i == 0) && (r.kind == skSum || r.kind == skInt && r.i == 0) && op == token.ADD:
		return &symVal{kind: skSum, sum: append(append([]sumTerm{}, l.sum...), r.sum...)}
	case l.kind == skBool && r.kind == skBool:
		switch op {
		case token.EQL:
			return &symVal{kind: skBool, b: l.b == r.b}
		case token.NEQ:
			return &symVal{kind: skBool, b: l.b != r.b}
		}
	}
	return m.fail("operator %s on these operands is outside the word-parallel fragment", op)
}

func (p *symPred) toWpred() *wpred {
	idx := map[int]bool{}
	p.l.indices(idx)
	p.r.indices(idx)
	l, r := p.l, p.r
	if p.neq {
		return &wpred{quant: "any", f: func(b, o int) bool { return l.eval(b, o) != r.eval(b, o) }, shape: l.shape() + "!=" + r.shape(), idx: idx}
	}
	return &wpred{quant: "all", f: func(b, o int) bool { return l.eval(b, o) == r.eval(b, o) }, shape: l.shape() + "==" + r.shape(), idx: idx}
}

// analyseSSA recovers the maskMethod structure of a Mask method from its SSA form.
func (c *maskCtx) analyseSSA(fn *ssa.Function) (*maskMethod, error) {
	m := &maskInterp{c: c, fn: fn, who: map[*ssa.Parameter]string{}, wroteParam: map[string]bool{}}
	for i, pr := range fn.Params {
		if i == 0 {
			m.who[pr] = "b"
		} else if typeName(pr.Type()) == "Mask" || m.isMaskPtr(pr.Type()) {
			m.who[pr] = "o"
		}
	}
	st := &interpState{env: map[ssa.Value]*symVal{}, cells: map[string]*wexpr{}}
	m.run(st, fn.Blocks[0], nil)
	if m.failed != nil {
		return nil, m.failed
	}
	if len(m.paths) == 0 {
		return nil, fmt.Errorf("no returning path")
	}
	mm := &maskMethod{pos: fn.Pos()}
	for who := range m.wroteParam {
		mm.writes = append(mm.writes, who)
	}
	sort.Strings(mm.writes)
	if len(m.paths) == 1 {
		p := m.paths[0]
		switch {
		case p.ret == nil:
			mm.kind = "reset"
			for k := 0; k < c.words; k++ {
				w, ok := p.cells[cellKey("b", k)]
				if !ok {
					return nil, fmt.Errorf("word %d of the receiver is not assigned", k)
				}
				mm.words = append(mm.words, w)
			}
			return mm, nil
		case p.ret.kind == skArr || p.ret.kind == skWord && p.ret.arr != nil:
			mm.kind = "value"
			mm.words = p.ret.arr
			return mm, nil
		case p.ret.kind == skWord && !c.array:
			mm.kind = "value"
			mm.words = []*wexpr{p.ret.w}
			return mm, nil
		case p.ret.kind == skSum:
			mm.kind = "sum"
			for _, t := range p.ret.sum {
				mm.words = append(mm.words, t.w)
				mm.sumFns = append(mm.sumFns, t.fn)
			}
			return mm, nil
		case p.ret.kind == skPred:
			mm.kind = "pred"
			mm.preds = []*wpred{p.ret.pred.toWpred()}
			mm.conn = token.LAND
			return mm, nil
		}
		return nil, fmt.Errorf("the single path returns a value of an unexpected kind")
	}
	// several paths: a chain of word comparisons. Normalise a symbolic final result into two paths.
	type npath struct {
		conds []pathCond
		ret   bool
	}
	var nps []npath
	for _, p := range m.paths {
		if p.ret == nil {
			return nil, fmt.Errorf("a branching method without a result")
		}
		switch p.ret.kind {
		case skBool:
			nps = append(nps, npath{p.conds, p.ret.b})
		case skPred:
			nps = append(nps, npath{append(append([]pathCond{}, p.conds...), pathCond{p.ret.pred, true}), true})
			nps = append(nps, npath{append(append([]pathCond{}, p.conds...), pathCond{p.ret.pred, false}), false})
		default:
			return nil, fmt.Errorf("a branching method returns a non-boolean")
		}
	}
	sort.SliceStable(nps, func(i, j int) bool { return len(nps[i].conds) > len(nps[j].conds) })
	n := len(nps[0].conds)
	if n == 0 {
		return nil, fmt.Errorf("no comparison on the longest path")
	}
	// among the longest paths, the one on which every comparison has the same outcome
	li := -1
	for i, np := range nps {
		if len(np.conds) != n {
			break
		}
		uniform := true
		for _, cd := range np.conds {
			if cd.hold != np.conds[0].hold {
				uniform = false
			}
		}
		if uniform {
			li = i
			break
		}
	}
	if li < 0 {
		return nil, fmt.Errorf("the comparisons are not a plain &&/|| chain (mixed polarity on every longest path)")
	}
	nps[0], nps[li] = nps[li], nps[0]
	long := nps[0]
	s := long.conds[0].hold
	// the other paths: prefixes of the long path with the last comparison flipped, returning the opposite
	seen := map[int]bool{}
	for _, np := range nps[1:] {
		k := len(np.conds)
		if k == 0 || k > n {
			return nil, fmt.Errorf("the comparisons are not a plain &&/|| chain")
		}
		for i, cd := range np.conds {
			want := s
			if i == k-1 {
				want = !s
			}
			if cd.pred != long.conds[i].pred && !(cd.pred.l == long.conds[i].pred.l && cd.pred.r == long.conds[i].pred.r && cd.pred.neq == long.conds[i].pred.neq) || cd.hold != want {
				return nil, fmt.Errorf("the comparisons are not a plain &&/|| chain")
			}
		}
		if np.ret == long.ret {
			return nil, fmt.Errorf("an early exit returns the same value as the full chain")
		}
		if seen[k] {
			return nil, fmt.Errorf("two exits after the same comparison")
		}
		seen[k] = true
	}
	if len(nps) != n+1 {
		return nil, fmt.Errorf("the comparisons are not a plain &&/|| chain (%d exits for %d comparisons)", len(nps), n)
	}
	mm.kind = "pred"
	for _, cd := range long.conds {
		pr := cd.pred
		// the chain as a formula over atoms that all hold (s) : if the long path is "all false → false", the formula is
		// OR of the atoms; if "all true → true", AND of the atoms; the two remaining combinations are the negations.
		mm.preds = append(mm.preds, pr.toWpred())
	}
	switch {
	case s && long.ret:
		mm.conn = token.LAND
	case !s && !long.ret:
		mm.conn = token.LOR
	case s && !long.ret:
		// all atoms true → false: NOT(AND atoms) = OR of negated atoms
		mm.conn = token.LOR
		mm.preds = nil
		for _, cd := range long.conds {
			mm.preds = append(mm.preds, (&symPred{l: cd.pred.l, r: cd.pred.r, neq: !cd.pred.neq}).toWpred())
		}
	default:
		// all atoms false → true: NOT(OR atoms) = AND of negated atoms
		mm.conn = token.LAND
		mm.preds = nil
		for _, cd := range long.conds {
			mm.preds = append(mm.preds, (&symPred{l: cd.pred.l, r: cd.pred.r, neq: !cd.pred.neq}).toWpred())
		}
	}
	return mm, nil
}

// maskMethodSSA finds the SSA function of a Mask method (pointer or value receiver).
func (p *Prog) maskMethodSSA(name string) *ssa.Function {
	if fn := p.Fn("ecs.(*Mask)." + name); fn != nil {
		return fn
	}
	return p.Fn("ecs.(Mask)." + name)
}

var _ = strings.Contains
