package main

import (
	"fmt"
	"go/constant"
	"go/token"
	"go/types"
	"sort"
	"strings"

	"golang.org/x/tools/go/ssa"
)

func init() {
	register(&Property{
		ID: "C03",
		Decides: "every function that branches on one of the query's strategy flags branches on both, in the same priority (R1); the batch table list is only asserted under the batch flag, and the constructor that sets the flag stores such a list (R2); " +
			"every piece of code that answers `which tables does this filter select` reads a relation filter's target only where the node/table is known to carry a relation, and selects tables of a node only after the node's activity and match tests (R3); " +
			"batch ranges recorded for a Q-variant start at the destination's length before and end at its length after the bulk allocation, and the batch iteration, count and index functions consume exactly these ranges (R4, R5).",
		NotDecided:  "index arithmetic of Next/Step/Count/EntityAt (off-by-one, agreement of positions, partially filled ranges) — the bulk of the property — and that each matching entity is visited once.",
		Assumptions: commonAssumptions,
		Rules: []Rule{
			{ID: "C03.R1", Floor: 3, Run: c03r1, Text: "strategy exhaustiveness: a function that tests Query.isFiltered or Query.isBatch tests both, isFiltered first"},
			{ID: "C03.R2", Floor: 4, Run: c03r2, Text: "batch typestate: every single-result assertion of the query's table list to *batchArchetypes is dominated by isBatch == true, in the function or in every caller; the constructor setting isBatch stores a *batchArchetypes"},
			{ID: "C03.R3", Floor: 8, Run: c03r3, Text: "selector siblings: a read of RelationFilter.Target used to select a table lies where a has-relation flag (node or table) is known true; in functions iterating nodes, table selection is dominated by the node's IsActive and Matches tests; tables collected from a node's list into a returned slice are known active"},
			{ID: "C03.R4", Floor: 4, Run: c03r4, Text: "batch range provenance: at every call recording a batch range, start is the destination's Len() read before its bulk allocation (or the start index returned by the creating primitive) and end a Len() of the same table read after"},
			{ID: "C03.R5", Floor: 3, Run: c03r5, Text: "batch range consumption: every function that asserts *batchArchetypes reads both StartIndex and EndIndex; the iteration function stores StartIndex[i] into entityIndex and EndIndex[i]-derived into entityIndexMax"},
			{ID: "C03.R6", Floor: 4, Run: c03r6, Text: "running totals: in Query methods, a loop-carried integer that starts at 0 and is advanced by additions (count in Count/EntityAt) is never overwritten with a value not derived from itself"},
			{ID: "C03.R7", Floor: 1, Run: c03r7, Text: "no wrapping bound: in Query methods no comparison operand is an unsigned subtraction `x - c` (c > 0) unless x ≥ c is known on the path; `idx <= end-1` with end == 0 wraps and accepts every index (fixture keeps the rule non-vacuous)"},
			{ID: "C03.R8", Floor: 4, Run: batchParallelAppends, Text: "parallel slices of a batch: the recording method appends to every per-range slice on every path (a range that is merged into its predecessor loses its source table)"},
			{ID: "C03.R9", Floor: 1, Run: batchRowFromStart, Text: "rows of a batch table are offset by the recorded StartIndex wherever a Query method reads an entity from batchArchetypes.Archetype[j]"},
			{ID: "C03.R10", Floor: 7, Run: c04r1, Text: "mask operations are word-uniform (= C04.R1): filter matching decides which tables a query visits"},
			{ID: "C03.R11", Floor: 9, Run: c04r2, Text: "mask operations have their set semantics (= C04.R2)"},
			{ID: "C03.R12", Floor: 6, Run: c09r2, Text: "lock typestate (= C09.R2): the lock bit a query constructor receives is the one the query releases"},
			{ID: "C03.R13", Floor: 1, Run: deactivateOnlyOnRetire, Text: "a table is marked inactive only by the retiring method (which also removes it from the target map and pushes its slot to the free list): an inactive table that still receives entities is skipped by every selector"},
			{ID: "C03.R14", Floor: 4, Run: c07r2, Text: "cache list ⇄ position bookkeeping (= C07.R2): the position recorded for a table is read after the table was appended"},
			{ID: "C03.R15", Floor: 1, Run: relationAssertUnwrapped, Text: "relation filters are looked at unwrapped: a function that tests its Filter parameter for *RelationFilter has handled the *CachedFilter wrapper first, on a branch that never reaches the relation test"},
			{ID: "C03.R16", Floor: 2, Run: queryIntParamsRangeChecked, Text: "int arguments of query methods are not truncated: in Query methods an int parameter reaches a conversion to a 32-bit type only under a known upper bound ≤ MaxUint32 (dominating comparison or clamp): Step(k) and EntityAt(i) do not act on k, i modulo 2^32"},
			{ID: "C03.R17", Floor: 4, Run: filterCtorsVerbatim, Text: "logic-filter constructors store their operands unchanged (= C04.R6)"},
			{ID: "C03.R18", Floor: 1, Run: noNarrowParamSums, Text: "sums with caller-supplied values are at least 64 bits wide in Query methods: a uint32 sum of the current row and the step wraps, so Step(k) lands on an entity where k calls of Next would have exhausted the query"},
			{ID: "C03.R19", Floor: 10, Run: freshRelationFilterPerCall, Text: "generic FilterN.Filter hands out a relation filter of its own for a per-call target (= C18.R22): an open query keeps the target it was built with"},
			{ID: "C03.R20", Floor: 1, Run: recycleAfterTableEvents, Text: "handles are recycled only after the removal events of their table were delivered (= C02.R21): a query opened inside a removal event yields no dead entity"},
			{ID: "C03.R21", Floor: 4, Run: noRelationRegionIgnoresRelationFilter, Text: "tables without a relation are selected by the component filter alone: where a table or node is known to have no relation and the filter is matched, no selector asks whether the filter is a *RelationFilter (all selectors agree)"},
			{ID: "C03.R22", Floor: 10, Run: pagedLoopsCoverList, Text: "counter loops over a paged list cover it: `for j = 0; j < B; j++ { L.Get(j) }` has B = L.Len(), not a value computed from it (inactive slots sit anywhere in the list)"},
		},
	})
}

func queryFlagLoads(fn *ssa.Function) map[string][]*ssa.If {
	out := map[string][]*ssa.If{}
	for _, b := range fn.Blocks {
		atom, _, ok := ifCond(b)
		if !ok {
			continue
		}
		if f := strategyFlag(atom); f != "" {
			out[f] = append(out[f], b.Instrs[len(b.Instrs)-1].(*ssa.If))
		}
	}
	return out
}

// strategyFlag: "isFiltered" / "isBatch" if v is a test of a query's iteration strategy: a load of the bool field of that
// name, or a call of a bit-test accessor (`return x&C != 0`) on an integer field of Query whose bit C is the one set by
// the constructor taking the pre-filtered table list (isFiltered) or the batch table list (isBatch).
func strategyFlag(v ssa.Value) string {
	if o, f, _, ok := loadedField(v); ok && o == "Query" && (f == "isFiltered" || f == "isBatch") {
		return f
	}
	c := callOf(v)
	if c == nil || len(c.Call.Args) != 1 {
		return ""
	}
	acc := c.Common().StaticCallee()
	bit, ok := bitTestAccessor(acc)
	if !ok {
		return ""
	}
	o, fld, _, ok := loadedField(c.Call.Args[0])
	if !ok || o != "Query" {
		return ""
	}
	batch, cached, ok := strategyBits(acc.Prog, fld)
	if !ok {
		return ""
	}
	switch {
	case bit&batch != 0 && bit&cached == 0:
		return "isBatch"
	case bit&cached != 0 && bit&batch == 0:
		return "isFiltered"
	}
	return ""
}

// bitTestAccessor: fn is `func (x T) name() bool { return x&C != 0 }` (or `== C`) for an integer type T; returns C.
func bitTestAccessor(fn *ssa.Function) (int64, bool) {
	if fn == nil || len(fn.Blocks) != 1 || len(fn.Params) != 1 {
		return 0, false
	}
	ret, ok := fn.Blocks[0].Instrs[len(fn.Blocks[0].Instrs)-1].(*ssa.Return)
	if !ok || len(ret.Results) != 1 {
		return 0, false
	}
	cmp, ok := ret.Results[0].(*ssa.BinOp)
	if !ok || (cmp.Op != token.NEQ && cmp.Op != token.EQL) {
		return 0, false
	}
	and, ok := cmp.X.(*ssa.BinOp)
	rhs, okc := cmp.Y.(*ssa.Const)
	if !ok || !okc || and.Op != token.AND || rhs.Value == nil {
		return 0, false
	}
	var cst *ssa.Const
	if and.X == fn.Params[0] {
		cst, _ = and.Y.(*ssa.Const)
	} else if and.Y == fn.Params[0] {
		cst, _ = and.X.(*ssa.Const)
	}
	if cst == nil || cst.Value == nil || cst.Value.Kind() != constant.Int || rhs.Value.Kind() != constant.Int {
		return 0, false
	}
	if cmp.Op == token.NEQ && rhs.Int64() == 0 || cmp.Op == token.EQL && rhs.Int64() == cst.Int64() {
		return cst.Int64(), true
	}
	return 0, false
}

// strategyBits: the constants stored into Query.<fld> by the constructor that takes a *batchArchetypes and by the one that
// takes a []*archetype.
func strategyBits(prog *ssa.Program, fld string) (batch, cached int64, ok bool) {
	if theProg == nil {
		return 0, 0, false
	}
	for _, fn := range theProg.Funcs {
		if fn.Signature.Results().Len() != 1 || typeName(fn.Signature.Results().At(0).Type()) != "Query" {
			continue
		}
		kind := ""
		for _, pr := range fn.Params {
			if typeName(pr.Type()) == "batchArchetypes" {
				kind = "batch"
			}
			if sl, isS := pr.Type().Underlying().(*types.Slice); isS && typeName(sl.Elem()) == "archetype" {
				kind = "cached"
			}
		}
		if kind == "" {
			continue
		}
		for _, b := range fn.Blocks {
			for _, ins := range b.Instrs {
				st, isSt := ins.(*ssa.Store)
				if !isSt {
					continue
				}
				if o, f, _, okf := loadedField(st.Addr); okf && o == "Query" && f == fld {
					if c, isC := st.Val.(*ssa.Const); isC && c.Value != nil && c.Value.Kind() == constant.Int {
						if kind == "batch" {
							batch = c.Int64()
						} else {
							cached = c.Int64()
						}
					}
				}
			}
		}
	}
	return batch, cached, batch != 0 && cached != 0 && batch&cached == 0
}

func c03r1(p *Prog, r *Reporter) {
	for _, fn := range p.Funcs {
		fl := queryFlagLoads(fn)
		if len(fl) == 0 {
			continue
		}
		name := p.FuncName(fn)
		if len(fl["isFiltered"]) == 0 || len(fl["isBatch"]) == 0 {
			r.Bad(name, "strategy branches", p.FnPos(fn), "the function branches on only one of the query's strategy flags: one iteration strategy is not handled")
			continue
		}
		// priority: the isBatch test is on the false side of the isFiltered test
		fb := fl["isFiltered"][0].Block()
		bb := fl["isBatch"][0].Block()
		_, trueSucc, _ := ifCond(fb)
		okp := dominatesBlock(fb.Succs[1-trueSucc], bb) || fb.Succs[1-trueSucc] == bb
		r.Check(okp, name, "strategy branches", p.FnPos(fn), "tests isFiltered, then (on its false edge) isBatch, then falls through to node iteration")
	}
}

func c03r2(p *Prog, r *Reporter) {
	// functions needing isBatch from callers
	type need struct{ fn *ssa.Function }
	needs := map[*ssa.Function]bool{}
	asserted := map[*ssa.Function][]*ssa.TypeAssert{}
	for _, fn := range p.Funcs {
		for _, b := range fn.Blocks {
			for _, ins := range b.Instrs {
				ta, ok := ins.(*ssa.TypeAssert)
				if !ok || ta.CommaOk || typeName(ta.AssertedType) != "batchArchetypes" {
					continue
				}
				asserted[fn] = append(asserted[fn], ta)
			}
		}
	}
	isBatchKnown := func(fn *ssa.Function) *MustFlow {
		mf := &MustFlow{Fn: fn, EdgeGen: func(b *ssa.BasicBlock, k int) bool {
			atom, holds, ok := edgeCond(b, k)
			if !ok || !holds {
				return false
			}
			return strategyFlag(atom) == "isBatch"
		}}
		mf.Run()
		return mf
	}
	for fn, tas := range asserted {
		mf := isBatchKnown(fn)
		for _, ta := range tas {
			if mf.Before(ta) {
				r.OK(p.FuncName(fn), "assert *batchArchetypes", p.Pos(ta.Pos()), "dominated by isBatch == true in the same function")
			} else {
				needs[fn] = true
			}
		}
	}
	// callers: every call of a needing function must be under isBatch (or the caller needs it too)
	for round := 0; round < 4; round++ {
		changed := false
		for fn := range needs {
			callers := 0
			allOK := true
			for _, cf := range p.Funcs {
				mf := isBatchKnown(cf)
				for _, site := range callsIn(cf) {
					if !isCallTo(site, fn) {
						continue
					}
					callers++
					if mf.Before(site.(ssa.Instruction)) {
						continue
					}
					if !needs[cf] {
						// does cf itself get called only under isBatch? defer by marking it needing
						needs[cf] = true
						changed = true
					}
				}
			}
			_ = callers
			_ = allOK
		}
		if !changed {
			break
		}
	}
	for fn := range needs {
		name := p.FuncName(fn)
		callers, bad := 0, 0
		for _, cf := range p.Funcs {
			mf := isBatchKnown(cf)
			for _, site := range callsIn(cf) {
				if !isCallTo(site, fn) {
					continue
				}
				callers++
				if !mf.Before(site.(ssa.Instruction)) && !needs[cf] {
					bad++
				}
			}
		}
		exported := fn.Object() != nil && fn.Object().Exported()
		if len(asserted[fn]) > 0 {
			if callers > 0 && bad == 0 && !exported {
				r.OK(name, "assert *batchArchetypes", p.FnPos(fn), "not dominated locally, but every caller chain reaches it under isBatch == true")
			} else {
				r.Bad(name, "assert *batchArchetypes", p.FnPos(fn), "a single-result assertion to *batchArchetypes can be reached without isBatch being known true")
			}
		} else if exported {
			r.Bad(name, "assert *batchArchetypes (via callee)", p.FnPos(fn), "an exported function reaches the assertion without testing isBatch")
		}
	}
	// constructor
	for _, fn := range p.Funcs {
		for _, b := range fn.Blocks {
			for _, ins := range b.Instrs {
				st, ok := ins.(*ssa.Store)
				if !ok {
					continue
				}
				o, f, _, ok := loadedField(st.Addr)
				if !ok || o != "Query" {
					continue
				}
				if f == "isBatch" {
					cb, isC := constBool(st.Val)
					if !isC || !cb {
						continue
					}
				} else {
					// the bit-flag form: a constant containing the batch bit stored into the strategy field
					bb, _, okb := strategyBits(fn.Prog, f)
					c, isC := st.Val.(*ssa.Const)
					if !okb || !isC || c.Value == nil || c.Value.Kind() != constant.Int || c.Int64()&bb == 0 {
						continue
					}
				}
				// the same function stores a *batchArchetypes into nodeArchetypes
				okc := false
				for _, b2 := range fn.Blocks {
					for _, i2 := range b2.Instrs {
						if s2, ok := i2.(*ssa.Store); ok {
							if o2, f2, _, ok := loadedField(s2.Addr); ok && o2 == "Query" && f2 == "nodeArchetypes" {
								if mi, ok := s2.Val.(*ssa.MakeInterface); ok && typeName(mi.X.Type()) == "batchArchetypes" {
									okc = true
								}
							}
						}
					}
				}
				r.Check(okc, p.FuncName(fn), "isBatch set with a batch table list", p.Pos(st.Pos()), "the constructor that sets isBatch stores a *batchArchetypes as the query's table list")
			}
		}
	}
}

// hasRelationKnown: a has-relation flag of a node or table is known true (field read or getter call).
func hasRelationKnown(p *Prog, fn *ssa.Function) *MustFlow {
	getters := map[*ssa.Function]bool{}
	for _, g := range p.Funcs {
		if len(g.Blocks) != 1 || g.Signature.Results().Len() != 1 {
			continue
		}
		if ret, ok := g.Blocks[0].Instrs[len(g.Blocks[0].Instrs)-1].(*ssa.Return); ok && len(ret.Results) == 1 {
			if _, f, _, ok := loadedField(ret.Results[0]); ok && (f == "HasRelationComponent" || f == "HasRelation") {
				getters[g] = true
			}
		}
	}
	mf := &MustFlow{Fn: fn, EdgeGen: func(b *ssa.BasicBlock, k int) bool {
		atom, holds, ok := edgeCond(b, k)
		if !ok || !holds {
			return false
		}
		if _, f, _, ok := loadedField(atom); ok && (f == "HasRelation" || f == "HasRelationComponent") {
			return true
		}
		if c := callOf(atom); c != nil && c.Common().StaticCallee() != nil && getters[c.Common().StaticCallee()] {
			return true
		}
		return false
	}}
	mf.Run()
	return mf
}

func c03r3(p *Prog, r *Reporter) {
	for _, fn := range p.Funcs {
		name := p.FuncName(fn)
		var hr *MustFlow
		for _, b := range fn.Blocks {
			for _, ins := range b.Instrs {
				// (a) reads of RelationFilter.Target
				if fa, ok := ins.(*ssa.FieldAddr); ok && typeName(fa.X.Type()) == "RelationFilter" && fieldName(fa.X.Type(), fa.Field) == "Target" {
					if _, isParam := fa.X.(*ssa.Parameter); isParam {
						continue // the filter's own methods
					}
					if onlyStored(fa) {
						continue // constructor writes
					}
					if hr == nil {
						hr = hasRelationKnown(p, fn)
					}
					if hr.Before(fa) {
						r.OK(name, "read RelationFilter.Target", p.Pos(fa.Pos()), "the target is used for table selection only where the node/table is known to carry a relation")
					} else {
						r.Bad(name, "read RelationFilter.Target", p.Pos(fa.Pos()), "a relation filter's target is used for table selection before it is known that the node/table has a relation: nodes without a relation are selected differently than by the sibling selectors")
					}
				}
			}
		}
		// (b) node iteration: table selection dominated by IsActive and Matches of the node
		if !iteratesNodes(fn) || !callsNodeMatches(fn) {
			continue
		}
		act := &MustFlow{Fn: fn, EdgeGen: func(b *ssa.BasicBlock, k int) bool {
			atom, holds, ok := edgeCond(b, k)
			if !ok || !holds {
				return false
			}
			o, f, _, ok := loadedField(atom)
			return ok && o == "archNode" && f == "IsActive"
		}, InstrKill: loopAdvance}
		act.Run()
		mat := &MustFlow{Fn: fn, EdgeGen: func(b *ssa.BasicBlock, k int) bool {
			atom, holds, ok := edgeCond(b, k)
			if !ok || !holds {
				return false
			}
			c := callOf(atom)
			return c != nil && c.Common().StaticCallee() != nil && cname(c.Common().StaticCallee()) == "Matches" && typeName(recvType(c.Common().StaticCallee())) == "archNode"
		}, InstrKill: loopAdvance}
		mat.Run()
		for _, b := range fn.Blocks {
			for _, ins := range b.Instrs {
				sel := ""
				switch x := ins.(type) {
				case *ssa.Call:
					if sc := x.Common().StaticCallee(); sc != nil && cname(sc) == "Archetypes" && typeName(recvType(sc)) == "archNode" {
						sel = "node.Archetypes()"
					}
				case *ssa.Lookup:
					if _, f, _, ok := loadedField(x.X); ok && f == "archetypeMap" {
						sel = "node.archetypeMap[target]"
					}
				}
				if sel == "" {
					continue
				}
				okb := act.Before(ins) && mat.Before(ins)
				why := "dominated by the node's IsActive and Matches tests"
				if !act.Before(ins) {
					why = "not dominated by the node's IsActive test"
				} else if !mat.Before(ins) {
					why = "not dominated by the node's Matches test"
				}
				r.Check(okb, name, "select tables via "+sel, p.Pos(ins.Pos()), why)
			}
		}
		// (c) tables appended to a returned slice are known active
		if fn.Signature.Results().Len() == 1 && strings.Contains(fn.Signature.Results().At(0).Type().String(), "[]*") && strings.HasSuffix(fn.Signature.Results().At(0).Type().String(), "archetype") {
			for _, site := range callsIn(fn) {
				bi, ok := site.Common().Value.(*ssa.Builtin)
				if !ok || bi.Name() != "append" {
					continue
				}
				call := site.(*ssa.Call)
				elems := appendedElems(call)
				for _, e := range elems {
					c := callOf(e)
					if c == nil {
						continue // from the target map (active by the map's invariant, C06.R2)
					}
					if c.Common().IsInvoke() || (c.Common().StaticCallee() != nil && cname(c.Common().StaticCallee()) != "") {
						base := apath(e)
						am := &MustFlow{Fn: fn, EdgeGen: func(b *ssa.BasicBlock, k int) bool {
							atom, holds, ok := edgeCond(b, k)
							if !ok || !holds {
								return false
							}
							cc := callOf(atom)
							return cc != nil && cc.Common().StaticCallee() != nil && cname(cc.Common().StaticCallee()) == "IsActive" && apath(cc.Common().Args[0]) == base
						}}
						am.Run()
						r.Check(am.Before(call), name, "collect table from a node's list", p.Pos(call.Pos()), "a table taken from a node's table list is added to the result only if IsActive()")
					}
				}
			}
		}
	}
}

func onlyStored(fa *ssa.FieldAddr) bool {
	for _, ref := range *fa.Referrers() {
		if st, ok := ref.(*ssa.Store); ok && st.Addr == ssa.Value(fa) {
			continue
		}
		if _, ok := ref.(*ssa.DebugRef); ok {
			continue
		}
		return false
	}
	return true
}

// loopAdvance: the instruction that moves on to the next node (store to nodeIndex, or the range-index increment feeding the node load).
func loopAdvance(ins ssa.Instruction) bool {
	if st, ok := ins.(*ssa.Store); ok {
		if o, f, _, ok := loadedField(st.Addr); ok && o == "Query" && f == "nodeIndex" {
			return true
		}
	}
	if ia, ok := ins.(*ssa.IndexAddr); ok {
		if isNodeSlice(ia.X) {
			return true
		}
	}
	return false
}

func isNodeSlice(v ssa.Value) bool {
	return strings.HasSuffix(v.Type().String(), "[]*github.com/mlange-42/arche/ecs.archNode")
}

func iteratesNodes(fn *ssa.Function) bool {
	for _, b := range fn.Blocks {
		for _, ins := range b.Instrs {
			if ia, ok := ins.(*ssa.IndexAddr); ok && isNodeSlice(ia.X) {
				return true
			}
		}
	}
	return false
}

// appendedElems: values appended by `append(s, e...)` written with explicit elements.
func appendedElems(call *ssa.Call) []ssa.Value {
	if len(call.Call.Args) < 2 {
		return nil
	}
	sl, ok := call.Call.Args[1].(*ssa.Slice)
	if !ok {
		return nil
	}
	alloc, ok := sl.X.(*ssa.Alloc)
	if !ok {
		return nil
	}
	var out []ssa.Value
	for _, ref := range *alloc.Referrers() {
		ia, ok := ref.(*ssa.IndexAddr)
		if !ok {
			continue
		}
		for _, r2 := range *ia.Referrers() {
			if st, ok := r2.(*ssa.Store); ok {
				out = append(out, st.Val)
			}
		}
	}
	return out
}

// ---------- R4 ----------

func c03r4(p *Prog, r *Reporter) {
	add := p.Fn("ecs.(*batchArchetypes).Add")
	if add == nil {
		r.Anchor("ecs.(*batchArchetypes).Add")
		return
	}
	for _, fn := range p.Funcs {
		for _, site := range callsIn(fn) {
			if !isCallTo(site, add) {
				continue
			}
			args := site.Common().Args // recv, arch, oldArch, start, end
			name := p.FuncName(fn)
			arch, start, end := args[1], args[3], args[4]
			okS, whyS := startProvenance(p, fn, arch, start)
			okE, whyE := endProvenance(p, fn, arch, end)
			// a helper that receives the table and its start index: judge the provenance at its call sites
			if pa, ok := arch.(*ssa.Parameter); ok && !okS {
				if ps, ok := start.(*ssa.Parameter); ok && pa.Parent() == fn && ps.Parent() == fn {
					nsites, allOK, why := 0, true, ""
					for _, g := range p.Funcs {
						for _, cs := range callsIn(g) {
							if !isCallTo(cs, fn) {
								continue
							}
							nsites++
							ok2, w2 := startProvenance(p, g, cs.Common().Args[paramIndex(pa)], cs.Common().Args[paramIndex(ps)])
							if !ok2 {
								allOK, why = false, "at the call in "+p.FuncName(g)+": "+w2
							}
						}
					}
					if nsites > 0 && allOK {
						okS, whyS = true, fmt.Sprintf("table and start are parameters; at all %d call sites they come from the creating primitive's returned pair", nsites)
						if lenCallOn(end, arch) != nil {
							okE, whyE = true, "end is Len() of the table parameter, read after the creating primitive has returned (call sites checked)"
						}
					} else if nsites > 0 {
						whyS = why
					}
				}
			}
			r.Check(okS, name, "batch range start", p.Pos(site.Pos()), whyS)
			r.Check(okE, name, "batch range end", p.Pos(site.Pos()), whyE)
		}
	}
}

// lenCallOn: v is arch.Len() on the table `arch` (same path).
func lenCallOn(v ssa.Value, arch ssa.Value) *ssa.Call {
	c := callOf(stripConvs(v))
	if c == nil || c.Common().StaticCallee() == nil || cname(c.Common().StaticCallee()) != "Len" || typeName(recvType(c.Common().StaticCallee())) != "archetype" {
		return nil
	}
	if apath(c.Common().Args[0]) != apath(arch) {
		return nil
	}
	return c
}

var growMemo map[*ssa.Function]bool

// growFns: functions that (transitively) increase a table's length (store to archetype.len of `len + x`).
func growFns(p *Prog) map[*ssa.Function]bool {
	if growMemo != nil {
		return growMemo
	}
	out := map[*ssa.Function]bool{}
	for _, fn := range p.Funcs {
		for _, b := range fn.Blocks {
			for _, ins := range b.Instrs {
				st, ok := ins.(*ssa.Store)
				if !ok {
					continue
				}
				fa, ok := st.Addr.(*ssa.FieldAddr)
				if !ok || typeName(fa.X.Type()) != "archetype" || fieldName(fa.X.Type(), fa.Field) != "len" {
					continue
				}
				if bo, ok := st.Val.(*ssa.BinOp); ok && bo.Op == token.ADD {
					out[fn] = true
				}
			}
		}
	}
	for changed := true; changed; {
		changed = false
		for _, fn := range p.Funcs {
			if out[fn] {
				continue
			}
			for _, site := range callsIn(fn) {
				if sc := site.Common().StaticCallee(); sc != nil && out[sc] {
					out[fn] = true
					changed = true
				}
			}
		}
	}
	growMemo = out
	return out
}

func isBulkAlloc(p *Prog, ins ssa.Instruction) bool {
	site, ok := ins.(ssa.CallInstruction)
	if !ok {
		return false
	}
	sc := site.Common().StaticCallee()
	return sc != nil && growFns(p)[sc]
}

func startProvenance(p *Prog, fn *ssa.Function, arch, start ssa.Value) (bool, string) {
	// (a) both arch and start are results of the same call (creating primitive returns (table, startIdx)) or of a callee we check recursively
	if ex, ok := start.(*ssa.Extract); ok {
		if ea, ok := arch.(*ssa.Extract); ok && ea.Tuple == ex.Tuple {
			c := callOf(ex.Tuple)
			if c != nil && c.Common().StaticCallee() != nil {
				g := c.Common().StaticCallee()
				// check in the callee: the returned start is Len() of the returned table before its bulk allocation
				okAll, why := true, ""
				for _, b := range g.Blocks {
					ret, ok := b.Instrs[len(b.Instrs)-1].(*ssa.Return)
					if !ok || len(ret.Results) <= ex.Index {
						continue
					}
					ra, rs := ret.Results[ea.Index], ret.Results[ex.Index]
					if c2 := callOf(ra); c2 != nil && callOf(rs) == nil {
						// forwarding another creating primitive's tuple
						if e2, ok := rs.(*ssa.Extract); ok {
							if _, ok2 := e2.Tuple.(*ssa.Call); ok2 {
								continue
							}
						}
					}
					if e1, ok := ra.(*ssa.Extract); ok {
						if e2, ok := rs.(*ssa.Extract); ok && e1.Tuple == e2.Tuple {
							continue // forwarded tuple of a callee (checked at that callee's own returns when it is reached from an Add site)
						}
					}
					ok2, w2 := lenBeforeAlloc(p, g, ra, rs)
					if !ok2 {
						okAll, why = false, p.FuncName(g)+": "+w2
					}
				}
				if okAll {
					return true, "start is the index returned by " + p.FuncName(g) + " together with the table; there it is the table's Len() read before the bulk allocation"
				}
				return false, why
			}
		}
	}
	return lenBeforeAlloc(p, fn, arch, start)
}

// lenBeforeAlloc: start is arch.Len() evaluated at a point before any bulk allocation on that path.
func lenBeforeAlloc(p *Prog, fn *ssa.Function, arch, start ssa.Value) (bool, string) {
	c := lenCallOn(start, arch)
	if c == nil {
		return false, "start is not Len() of the destination table: " + apath(start)
	}
	// no bulk allocation may precede the Len call: fact "allocated" (may) must be false before c
	alloc := &MustFlow{Fn: fn, Entry: true, InstrKill: func(i ssa.Instruction) bool { return isBulkAlloc(p, i) && i != ssa.Instruction(c) }}
	alloc.Run()
	if !alloc.Before(c) {
		return false, "the destination's Len() used as start is read after a bulk allocation on some path"
	}
	return true, "start is the destination's Len() read before the bulk allocation"
}

func endProvenance(p *Prog, fn *ssa.Function, arch, end ssa.Value) (bool, string) {
	if ex, ok := end.(*ssa.Extract); ok {
		if ea, ok := arch.(*ssa.Extract); ok && ea.Tuple == ex.Tuple {
			c := callOf(ex.Tuple)
			if c != nil && c.Common().StaticCallee() != nil {
				g := c.Common().StaticCallee()
				for _, b := range g.Blocks {
					ret, ok := b.Instrs[len(b.Instrs)-1].(*ssa.Return)
					if !ok {
						continue
					}
					if ok2, w := lenAfterAlloc(p, g, ret.Results[ea.Index], ret.Results[ex.Index]); !ok2 {
						return false, p.FuncName(g) + ": " + w
					}
				}
				return true, "end is returned by " + p.FuncName(g) + " together with the table; there it is the table's Len() after the bulk allocation"
			}
		}
	}
	return lenAfterAlloc(p, fn, arch, end)
}

func lenAfterAlloc(p *Prog, fn *ssa.Function, arch, end ssa.Value) (bool, string) {
	c := lenCallOn(end, arch)
	if c == nil {
		return false, "end is not Len() of the destination table: " + apath(end)
	}
	after := &MustFlow{Fn: fn, InstrGen: func(i ssa.Instruction) bool { return isBulkAlloc(p, i) }}
	after.Run()
	if !after.Before(c) {
		// the allocation may have happened in the callee that returned the table
		if ex, ok := arch.(*ssa.Extract); ok {
			if cc := callOf(ex.Tuple); cc != nil && isBulkAlloc(p, cc) {
				return true, "end is the destination's Len() read after the creating call"
			}
		}
		return false, "the destination's Len() used as end is read before the bulk allocation on some path"
	}
	return true, "end is the destination's Len() read after the bulk allocation"
}

// ---------- R5 ----------

func c03r5(p *Prog, r *Reporter) {
	for _, fn := range p.Funcs {
		asserts := false
		for _, b := range fn.Blocks {
			for _, ins := range b.Instrs {
				if ta, ok := ins.(*ssa.TypeAssert); ok && typeName(ta.AssertedType) == "batchArchetypes" && !ta.CommaOk {
					asserts = true
				}
			}
		}
		if !asserts {
			continue
		}
		name := p.FuncName(fn)
		var readsStart, readsEnd bool
		var idxFrom, maxFrom string
		for _, b := range fn.Blocks {
			for _, ins := range b.Instrs {
				if fa, ok := ins.(*ssa.FieldAddr); ok && typeName(fa.X.Type()) == "batchArchetypes" {
					switch fieldName(fa.X.Type(), fa.Field) {
					case "StartIndex":
						readsStart = true
					case "EndIndex":
						readsEnd = true
					}
				}
				if st, ok := ins.(*ssa.Store); ok {
					if o, f, _, ok := loadedField(st.Addr); ok && o == "Query" {
						if f == "entityIndex" {
							idxFrom = derivesFromField(st.Val)
						}
						if f == "entityIndexMax" {
							maxFrom = derivesFromField(st.Val)
						}
					}
				}
			}
		}
		r.Check(readsStart && readsEnd, name, "consumes batch ranges", p.FnPos(fn), "reads both StartIndex and EndIndex of the batch")
		if idxFrom != "" || maxFrom != "" {
			r.Check(idxFrom == "StartIndex", name, "entityIndex from StartIndex", p.FnPos(fn), "the iteration position is initialised from "+idxFrom)
			r.Check(maxFrom == "EndIndex", name, "entityIndexMax from EndIndex", p.FnPos(fn), "the iteration bound is derived from "+maxFrom)
		}
	}
}

// derivesFromField: name of the batchArchetypes field (or other source) a value is computed from (through -1, conversions).
func derivesFromField(v ssa.Value) string {
	for d := 0; d < 6; d++ {
		v = stripConvs(v)
		switch x := v.(type) {
		case *ssa.BinOp:
			if x.Op == token.SUB || x.Op == token.ADD {
				if _, isC := x.Y.(*ssa.Const); isC {
					v = x.X
					continue
				}
			}
			return "expression"
		case *ssa.UnOp:
			if x.Op == token.MUL {
				if ia, ok := x.X.(*ssa.IndexAddr); ok {
					if _, f, _, ok := loadedField(ia.X); ok {
						return f
					}
				}
				if _, f, _, ok := loadedField(x); ok {
					return f
				}
			}
			return "load"
		case *ssa.Call:
			return "call " + calleeShort(x)
		case *ssa.Const:
			return "constant"
		default:
			return v.Name()
		}
	}
	return "?"
}

func callsNodeMatches(fn *ssa.Function) bool {
	for _, site := range callsIn(fn) {
		if sc := site.Common().StaticCallee(); sc != nil && cname(sc) == "Matches" && typeName(recvType(sc)) == "archNode" {
			return true
		}
	}
	return false
}

// ---------- R6: running totals ----------

func c03r6(p *Prog, r *Reporter) {
	for _, fn := range p.Funcs {
		if typeName(recvType(fn)) != "Query" {
			continue
		}
		c03r6func(p, r, fn)
	}
}

func c03r6func(p *Prog, r *Reporter, fn *ssa.Function) {
	name := p.FuncName(fn)
	// web of phis connected through each other
	var phis []*ssa.Phi
	for _, b := range fn.Blocks {
		for _, ins := range b.Instrs {
			if ph, ok := ins.(*ssa.Phi); ok {
				if bt, ok := ph.Type().Underlying().(*types.Basic); ok && bt.Info()&types.IsInteger != 0 {
					phis = append(phis, ph)
				}
			}
		}
	}
	// union-find by phi-to-phi edges
	web := map[*ssa.Phi]*ssa.Phi{}
	var find func(x *ssa.Phi) *ssa.Phi
	find = func(x *ssa.Phi) *ssa.Phi {
		if web[x] == nil || web[x] == x {
			web[x] = x
			return x
		}
		web[x] = find(web[x])
		return web[x]
	}
	inWeb := func(v ssa.Value, root *ssa.Phi) bool {
		ph, ok := v.(*ssa.Phi)
		return ok && find(ph) == root
	}
	for _, ph := range phis {
		for _, e := range ph.Edges {
			if q, ok := e.(*ssa.Phi); ok && types.Identical(q.Type(), ph.Type()) {
				web[find(ph)] = find(q)
			}
		}
	}
	// ADD of a web member also joins webs: x = phi + t
	var derived func(v ssa.Value, root *ssa.Phi, d int) bool
	derived = func(v ssa.Value, root *ssa.Phi, d int) bool {
		if d > 4 {
			return false
		}
		if inWeb(v, root) {
			return true
		}
		if bo, ok := v.(*ssa.BinOp); ok && bo.Op == token.ADD {
			return derived(bo.X, root, d+1) || derived(bo.Y, root, d+1)
		}
		return false
	}
	groups := map[*ssa.Phi][]*ssa.Phi{}
	for _, ph := range phis {
		groups[find(ph)] = append(groups[find(ph)], ph)
	}
	n := 0
	var roots []*ssa.Phi
	for root := range groups {
		roots = append(roots, root)
	}
	sort.Slice(roots, func(i, j int) bool {
		return roots[i].Pos() < roots[j].Pos() || roots[i].Pos() == roots[j].Pos() && roots[i].Name() < roots[j].Name()
	})
	for _, root := range roots {
		// a running total: some edge is the constant 0, some edge is web + term with a non-constant term, no edge is web + 1 only
		hasZero, hasSum, counterOnly := false, false, true
		var foreign []ssa.Value
		for _, ph := range groups[root] {
			for _, e := range ph.Edges {
				switch {
				case isConstInt(e, 0):
					hasZero = true
				case inWeb(e, root):
				case derived(e, root, 0):
					hasSum = true
					if bo, ok := e.(*ssa.BinOp); ok {
						if _, isC := bo.Y.(*ssa.Const); !isC {
							counterOnly = false
						}
					}
				default:
					foreign = append(foreign, e)
				}
			}
		}
		// an initialised-to-zero loop variable that is only ever overwritten with unrelated values and is the function's
		// result: a running total whose additions were lost
		if hasZero && !hasSum && len(foreign) > 0 {
			overwrittenTotal := false
			for _, ph := range groups[root] {
				if inLoop(ph.Block()) && reachesReturnConv(ph) {
					overwrittenTotal = true
				}
			}
			if overwrittenTotal {
				n++
				what := root.Comment
				if what == "" {
					what = "total"
				}
				r.Bad(name, fmt.Sprintf("running total %s #%d", what, n), p.Pos(root.Pos()), "the value returned starts at 0 before a loop and is overwritten in it with "+exprString(foreign[0])+" instead of being added to: only the last table counts")
				continue
			}
		}
		if !hasZero || !hasSum || counterOnly {
			continue
		}
		n++
		what := root.Comment
		if what == "" {
			what = "total"
		}
		construct := fmt.Sprintf("running total %s #%d", what, n)
		if len(foreign) == 0 {
			r.OK(name, construct, p.Pos(root.Pos()), "starts at 0 and is only advanced by adding to itself")
		} else {
			r.Bad(name, construct, p.Pos(root.Pos()), "the running total is overwritten with "+exprString(foreign[0])+", which is not derived from its previous value: earlier tables are dropped from the count")
		}
	}
}

// ---------- R7: no wrapping bound ----------

func c03r7(p *Prog, r *Reporter) {
	n := 0
	for _, fn := range p.Funcs {
		if typeName(recvType(fn)) != "Query" {
			continue
		}
		n += c03r7func(p, r, fn)
	}
	// fixture: the rule must fire on the known-bad example and stay silent on the good one
	fp, err := loadFixture()
	if err != nil {
		r.Anchor("checker/testdata/fixture: " + err.Error())
		return
	}
	for _, fn := range fp.funcs {
		if cname(fn) != "wrapBad" && cname(fn) != "wrapGood" {
			continue
		}
		tmp := &Reporter{p: p, rule: r.rule}
		c03r7func(p, tmp, fn)
		fired := false
		for _, o := range tmp.obs {
			if o.Status == "violated" {
				fired = true
			}
		}
		if cname(fn) == "wrapBad" {
			r.Check(fired, "fixture.wrapBad", "rule fires on `idx <= end-1`", "checker/testdata/fixture/fixture.go", "the wrapping comparison in the fixture is reported")
		} else {
			r.Check(!fired, "fixture.wrapGood", "rule is silent on guarded `end-1`", "checker/testdata/fixture/fixture.go", "a subtraction under `end > 0` is accepted")
		}
	}
	_ = n
}

func c03r7func(p *Prog, r *Reporter, fn *ssa.Function) int {
	name := p.FuncName(fn)
	n := 0
	for _, b := range fn.Blocks {
		for _, ins := range b.Instrs {
			cmp, ok := ins.(*ssa.BinOp)
			if !ok {
				continue
			}
			switch cmp.Op {
			case token.LSS, token.LEQ, token.GTR, token.GEQ, token.EQL, token.NEQ:
			default:
				continue
			}
			for _, opnd := range []ssa.Value{cmp.X, cmp.Y} {
				sub, ok := opnd.(*ssa.BinOp)
				if !ok || sub.Op != token.SUB {
					continue
				}
				bt, ok := sub.Type().Underlying().(*types.Basic)
				if !ok || bt.Info()&types.IsUnsigned == 0 {
					continue
				}
				k, ok := constInt64(sub.Y)
				if !ok || k <= 0 {
					continue
				}
				n++
				construct := fmt.Sprintf("unsigned bound %s #%d", exprString(sub), n)
				// x ≥ k known: a dominating edge with x > k-1, x >= k, x != 0 (k == 1)
				x := sub.X
				mf := &MustFlow{Fn: fn, EdgeGen: func(bb *ssa.BasicBlock, kk int) bool {
					atom, holds, ok := edgeCond(bb, kk)
					if !ok {
						return false
					}
					rel, c, ok := boundOnEdge(atom, holds, func(v ssa.Value) bool { return v == x || structEq(v, x, 0) })
					if !ok {
						return false
					}
					return impliesAtLeast(rel, c, k) || k == 1 && impliesNonZeroUnsigned(rel, c)
				}}
				mf.Run()
				if mf.Before(cmp) {
					r.OK(name, construct, p.Pos(cmp.Pos()), fmt.Sprintf("the minuend is known to be at least %d here", k))
				} else {
					r.Bad(name, construct, p.Pos(cmp.Pos()), fmt.Sprintf("%s is unsigned and not known to be at least %d: for 0 the bound wraps to the maximum and the comparison accepts every index", exprString(sub.X), k))
				}
			}
		}
	}
	return n
}

// reachesReturnConv: the value reaches a Return through phis and conversions.
func reachesReturnConv(v ssa.Value) bool {
	seen := map[ssa.Value]bool{}
	var walk func(x ssa.Value) bool
	walk = func(x ssa.Value) bool {
		if seen[x] || x.Referrers() == nil {
			return false
		}
		seen[x] = true
		for _, ref := range *x.Referrers() {
			switch y := ref.(type) {
			case *ssa.Return:
				return true
			case *ssa.Phi:
				if walk(y) {
					return true
				}
			case *ssa.Convert:
				if walk(y) {
					return true
				}
			case *ssa.ChangeType:
				if walk(y) {
					return true
				}
			}
		}
		return false
	}
	return walk(v)
}
