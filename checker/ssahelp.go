package main

import (
	"fmt"
	"go/constant"
	"go/token"
	"go/types"
	"sort"
	"strings"

	"golang.org/x/tools/go/ssa"
)

// ---------- control flow helpers ----------

type fnInfo struct {
	neverReturns bool
	reachRet     map[*ssa.BasicBlock]bool // block can reach a Return (ignoring calls that never return)
	cutAt        map[*ssa.BasicBlock]int  // index of first instruction that never returns (call to no-return fn), -1 if none
}

var fnInfoMemo = map[*ssa.Function]*fnInfo{}

// info computes (memoised, fixpoint over no-return callees) the return-reachability of a function.
func (p *Prog) info(fn *ssa.Function) *fnInfo {
	if fi, ok := fnInfoMemo[fn]; ok {
		return fi
	}
	fi := &fnInfo{}
	fnInfoMemo[fn] = fi // provisional (recursion): assume returns
	fi.cutAt = map[*ssa.BasicBlock]int{}
	fi.reachRet = map[*ssa.BasicBlock]bool{}
	if fn.Blocks == nil {
		return fi
	}
	for _, b := range fn.Blocks {
		fi.cutAt[b] = -1
		for i, ins := range b.Instrs {
			if c, ok := ins.(*ssa.Call); ok {
				if sc := c.Common().StaticCallee(); sc != nil && sc != fn && sc.Blocks != nil && p.isArche(sc) {
					if p.info(sc).neverReturns {
						fi.cutAt[b] = i
						break
					}
				}
			}
		}
	}
	// backward reachability from Return blocks
	changed := true
	for changed {
		changed = false
		for _, b := range fn.Blocks {
			if fi.reachRet[b] {
				continue
			}
			if fi.cutAt[b] >= 0 {
				continue
			}
			last := b.Instrs[len(b.Instrs)-1]
			ok := false
			if _, isRet := last.(*ssa.Return); isRet {
				ok = true
			}
			for _, s := range b.Succs {
				if fi.reachRet[s] {
					ok = true
				}
			}
			if ok {
				fi.reachRet[b] = true
				changed = true
			}
		}
	}
	fi.neverReturns = !fi.reachRet[fn.Blocks[0]]
	return fi
}

// panicOnly reports whether no Return is reachable from block b (all paths end in panic).
func (p *Prog) panicOnly(b *ssa.BasicBlock) bool {
	return !p.info(b.Parent()).reachRet[b]
}

// ---------- condition decoding ----------

// condAtom strips negations: returns the atom and whether the original value is its negation.
func condAtom(v ssa.Value) (ssa.Value, bool) {
	neg := false
	for {
		if u, ok := v.(*ssa.UnOp); ok && u.Op == token.NOT {
			v = u.X
			neg = !neg
			continue
		}
		return v, neg
	}
}

// ifEdges yields, for a block ending in If, the condition atom and for each successor index whether the atom is true there.
func ifCond(b *ssa.BasicBlock) (atom ssa.Value, trueSucc int, ok bool) {
	if len(b.Instrs) == 0 {
		return nil, 0, false
	}
	iff, isIf := b.Instrs[len(b.Instrs)-1].(*ssa.If)
	if !isIf {
		return nil, 0, false
	}
	a, neg := condAtom(iff.Cond)
	if neg {
		return a, 1, true
	}
	return a, 0, true
}

// staticCallee of a value that is a *ssa.Call.
func callOf(v ssa.Value) *ssa.Call {
	c, _ := v.(*ssa.Call)
	return c
}

func isConstInt(v ssa.Value, n int64) bool {
	c, ok := v.(*ssa.Const)
	if !ok || c.Value == nil {
		return false
	}
	if c.Value.Kind() != constant.Int {
		return false
	}
	x, ok := constant.Int64Val(c.Value)
	return ok && x == n
}

func isNilConst(v ssa.Value) bool {
	c, ok := v.(*ssa.Const)
	return ok && c.Value == nil
}

func constBool(v ssa.Value) (bool, bool) {
	c, ok := v.(*ssa.Const)
	if !ok || c.Value == nil || c.Value.Kind() != constant.Bool {
		return false, false
	}
	return constant.BoolVal(c.Value), true
}

// ---------- access paths ----------

// apath renders a canonical access path of a value or address for equality tests
// (pointer dereferences are transparent; locals are named by their alloc).
func apath(v ssa.Value) string {
	return apathD(v, 0)
}

func apathD(v ssa.Value, d int) string {
	if d > 12 {
		return "…"
	}
	switch x := v.(type) {
	case *ssa.Parameter:
		return x.Name()
	case *ssa.FreeVar:
		return x.Name()
	case *ssa.Alloc:
		if x.Comment != "" {
			return x.Comment
		}
		return x.Name()
	case *ssa.FieldAddr:
		return apathD(x.X, d+1) + "." + fieldName(x.X.Type(), x.Field)
	case *ssa.Field:
		return apathD(x.X, d+1) + "." + fieldName(x.X.Type(), x.Field)
	case *ssa.UnOp:
		if x.Op == token.MUL {
			return apathD(x.X, d+1)
		}
		return x.Op.String() + apathD(x.X, d+1)
	case *ssa.IndexAddr:
		return apathD(x.X, d+1) + "[" + idxPath(x.Index, d+1) + "]"
	case *ssa.Index:
		return apathD(x.X, d+1) + "[" + idxPath(x.Index, d+1) + "]"
	case *ssa.Const:
		if x.Value == nil {
			return "nil"
		}
		return x.Value.ExactString()
	case *ssa.Global:
		return "global:" + x.Name()
	case *ssa.ChangeType:
		return apathD(x.X, d+1)
	case *ssa.Convert:
		return apathD(x.X, d+1)
	case *ssa.Call:
		return fmt.Sprintf("call(%s)", calleeShort(x))
	case *ssa.Extract:
		return fmt.Sprintf("%s#%d", apathD(x.Tuple, d+1), x.Index)
	case *ssa.Lookup:
		return apathD(x.X, d+1) + "{" + idxPath(x.Index, d+1) + "}"
	case *ssa.Slice:
		return apathD(x.X, d+1) + "[:]"
	case *ssa.Phi:
		if x.Comment != "" {
			return x.Comment
		}
		return "φ"
	case *ssa.BinOp:
		return "(" + apathD(x.X, d+1) + x.Op.String() + apathD(x.Y, d+1) + ")"
	case *ssa.MakeInterface:
		return apathD(x.X, d+1)
	case *ssa.TypeAssert:
		return apathD(x.X, d+1) + ".(" + types.TypeString(x.AssertedType, func(*types.Package) string { return "" }) + ")"
	}
	return v.Name()
}

// idxPath renders an index: parameters, constants and field paths by name, anything else (loop counters, temporaries) as "·".
func idxPath(v ssa.Value, d int) string {
	switch x := stripConvs(v).(type) {
	case *ssa.Parameter, *ssa.Const, *ssa.Field, *ssa.FieldAddr:
		return apathD(x, d)
	case *ssa.UnOp:
		if x.Op == token.MUL {
			if _, ok := x.X.(*ssa.FieldAddr); ok {
				return apathD(x, d)
			}
		}
	}
	return "·"
}

func stripConvs(v ssa.Value) ssa.Value {
	for {
		switch x := v.(type) {
		case *ssa.Convert:
			v = x.X
		case *ssa.ChangeType:
			v = x.X
		default:
			return v
		}
	}
}

func calleeShort(c *ssa.Call) string {
	if sc := c.Common().StaticCallee(); sc != nil {
		n := cname(sc)
		if i := strings.IndexByte(n, '['); i > 0 {
			n = n[:i]
		}
		return n
	}
	if c.Common().IsInvoke() {
		return c.Common().Method.Name()
	}
	return "?"
}

func fieldName(t types.Type, idx int) string {
	if p, ok := t.Underlying().(*types.Pointer); ok {
		t = p.Elem()
	}
	if st, ok := t.Underlying().(*types.Struct); ok && idx < st.NumFields() {
		n := st.Field(idx).Name()
		if theProg != nil && theProg.al != nil && len(theProg.al.fieldCurToRef) > 0 {
			if nt := namedOf(t); nt != nil && nt.Obj().Pkg() != nil {
				if r, ok := theProg.al.fieldCurToRef[nt.Obj().Pkg().Name()+"."+nt.Obj().Name()+"."+n]; ok {
					return r
				}
			}
		}
		return n
	}
	return fmt.Sprintf("#%d", idx)
}

func fieldVar(t types.Type, idx int) *types.Var {
	if p, ok := t.Underlying().(*types.Pointer); ok {
		t = p.Elem()
	}
	if st, ok := t.Underlying().(*types.Struct); ok && idx < st.NumFields() {
		return st.Field(idx)
	}
	return nil
}

// loadedField: if v is a load (or Field) of struct field F of some base, returns the field name, owner type name and base path.
func loadedField(v ssa.Value) (owner, field, base string, ok bool) {
	switch x := v.(type) {
	case *ssa.UnOp:
		if x.Op != token.MUL {
			return
		}
		if fa, isFA := x.X.(*ssa.FieldAddr); isFA {
			return typeName(fa.X.Type()), fieldName(fa.X.Type(), fa.Field), apath(fa.X), true
		}
	case *ssa.Field:
		return typeName(x.X.Type()), fieldName(x.X.Type(), x.Field), apath(x.X), true
	case *ssa.FieldAddr:
		return typeName(x.X.Type()), fieldName(x.X.Type(), x.Field), apath(x.X), true
	}
	return
}

// isCallToFn reports whether instruction is a static call to fn.
func isCallTo(ins ssa.Instruction, fn *ssa.Function) bool {
	c, ok := ins.(ssa.CallInstruction)
	if !ok || fn == nil {
		return false
	}
	sc := c.Common().StaticCallee()
	return sc != nil && (sc == fn || sc.Origin() == fn)
}

// callsIn lists call instructions (Call, Defer, Go) of a function in block order.
func callsIn(fn *ssa.Function) []ssa.CallInstruction {
	var out []ssa.CallInstruction
	for _, b := range fn.Blocks {
		for _, ins := range b.Instrs {
			if c, ok := ins.(ssa.CallInstruction); ok {
				out = append(out, c)
			}
		}
	}
	return out
}

// exported API entries of a package: exported functions and exported methods of exported types.
func (p *Prog) Entries(pkg string) []*ssa.Function {
	var out []*ssa.Function
	for _, fn := range p.Funcs {
		if fn.Parent() != nil || fn.Synthetic != "" && !strings.Contains(fn.Synthetic, "instance") {
			continue
		}
		pk := fn.Pkg
		if pk == nil && fn.Origin() != nil {
			pk = fn.Origin().Pkg
		}
		if pk == nil || pk.Pkg.Name() != pkg {
			continue
		}
		o := fn.Object()
		if o == nil && fn.Origin() != nil {
			o = fn.Origin().Object()
		}
		if o == nil || !o.Exported() {
			continue
		}
		if recv := fn.Signature.Recv(); recv != nil {
			n := namedOf(recv.Type())
			if n == nil || !n.Obj().Exported() {
				continue
			}
		}
		out = append(out, fn)
	}
	return out
}

func posOf(ins ssa.Instruction) token.Pos {
	if ins.Pos().IsValid() {
		return ins.Pos()
	}
	// fall back to a neighbouring instruction with a position
	b := ins.Block()
	if b == nil {
		return token.NoPos
	}
	for _, o := range b.Instrs {
		if o.Pos().IsValid() {
			return o.Pos()
		}
	}
	return token.NoPos
}

// ---------- comparison normal form ----------

// relOnEdge: for a comparison atom and the truth of the atom on an edge, returns the relation known to hold
// between X and Y on that edge, as one of "<", "<=", "==", "!=", ">", ">=".
func relOnEdge(atom ssa.Value, holds bool) (x ssa.Value, rel string, y ssa.Value, ok bool) {
	bo, isB := atom.(*ssa.BinOp)
	if !isB {
		return nil, "", nil, false
	}
	var r string
	switch bo.Op {
	case token.LSS:
		r = "<"
	case token.LEQ:
		r = "<="
	case token.GTR:
		r = ">"
	case token.GEQ:
		r = ">="
	case token.EQL:
		r = "=="
	case token.NEQ:
		r = "!="
	default:
		return nil, "", nil, false
	}
	if !holds {
		r = map[string]string{"<": ">=", "<=": ">", ">": "<=", ">=": "<", "==": "!=", "!=": "=="}[r]
	}
	return bo.X, r, bo.Y, true
}

func flipRel(r string) string {
	return map[string]string{"<": ">", "<=": ">=", ">": "<", ">=": "<=", "==": "==", "!=": "!="}[r]
}

func constInt64(v ssa.Value) (int64, bool) {
	c, ok := stripConvs(v).(*ssa.Const)
	if !ok || c.Value == nil || c.Value.Kind() != constant.Int {
		return 0, false
	}
	return constant.Int64Val(c.Value)
}

// boundOnEdge: on this edge, is `sel(v)` known to satisfy `v rel k` for some constant k? Returns the relation with v on the left.
func boundOnEdge(atom ssa.Value, holds bool, sel func(ssa.Value) bool) (rel string, k int64, ok bool) {
	x, r, y, ok := relOnEdge(atom, holds)
	if !ok {
		return "", 0, false
	}
	if sel(stripConvs(x)) {
		if c, isC := constInt64(y); isC {
			return r, c, true
		}
	}
	if sel(stripConvs(y)) {
		if c, isC := constInt64(x); isC {
			return flipRel(r), c, true
		}
	}
	return "", 0, false
}

// impliesAtMost: (v rel k) implies v <= m, for integers.
func impliesAtMost(rel string, k, m int64) bool {
	switch rel {
	case "<":
		return k-1 <= m
	case "<=", "==":
		return k <= m
	}
	return false
}

// impliesAtLeast: (v rel k) implies v >= m.
func impliesAtLeast(rel string, k, m int64) bool {
	switch rel {
	case ">":
		return k+1 >= m
	case ">=", "==":
		return k >= m
	}
	return false
}

// impliesNonZeroUnsigned: (v rel k) implies v != 0 for an unsigned v.
func impliesNonZeroUnsigned(rel string, k int64) bool {
	switch rel {
	case "!=":
		return k == 0
	case ">":
		return k >= 0
	case ">=":
		return k >= 1
	case "==":
		return k != 0
	}
	return false
}

// ---------- path-sensitive nil-ness (finite enumeration) ----------

// nilCond evaluates a branch condition that is a boolean combination of nil comparisons under an assignment of
// nil-ness to pointer values: 1 true, 0 false, -1 unknown.
func nilCond(c ssa.Value, asg map[ssa.Value]bool) int {
	switch x := c.(type) {
	case *ssa.UnOp:
		if x.Op == token.NOT {
			if r := nilCond(x.X, asg); r >= 0 {
				return 1 - r
			}
		}
	case *ssa.BinOp:
		if x.Op != token.EQL && x.Op != token.NEQ {
			return -1
		}
		var ptr ssa.Value
		if isNilConst(x.Y) {
			ptr = x.X
		} else if isNilConst(x.X) {
			ptr = x.Y
		}
		if ptr != nil {
			isNil, known := asg[ptr]
			if !known {
				return -1
			}
			if (x.Op == token.EQL) == isNil {
				return 1
			}
			return 0
		}
		if b, ok := x.X.Type().Underlying().(*types.Basic); ok && b.Kind() == types.Bool {
			l, r := nilCond(x.X, asg), nilCond(x.Y, asg)
			if l < 0 || r < 0 {
				return -1
			}
			if (x.Op == token.EQL) == (l == r) {
				return 1
			}
			return 0
		}
	case *ssa.Const:
		if x.Value != nil && x.Value.Kind() == constant.Bool {
			if constant.BoolVal(x.Value) {
				return 1
			}
			return 0
		}
	}
	return -1
}

func nilAtoms(c ssa.Value, out map[ssa.Value]bool) {
	switch x := c.(type) {
	case *ssa.UnOp:
		if x.Op == token.NOT {
			nilAtoms(x.X, out)
		}
	case *ssa.BinOp:
		if x.Op != token.EQL && x.Op != token.NEQ {
			return
		}
		if isNilConst(x.Y) {
			out[x.X] = true
		} else if isNilConst(x.X) {
			out[x.Y] = true
		} else {
			nilAtoms(x.X, out)
			nilAtoms(x.Y, out)
		}
	}
}

// nilPathFeasible: can `at` be reached from the definition of v while v (and everything in alsoNil) is nil, when branch
// conditions built from nil comparisons are evaluated under every assignment of nil-ness to the compared pointers?
// Paths that re-enter the block defining v are cut (a new instance of v). Conservative: unknown conditions take both edges.
func nilPathFeasible(fn *ssa.Function, v ssa.Value, alsoNil []ssa.Value, at ssa.Instruction) bool {
	def, ok := v.(ssa.Instruction)
	if !ok || def.Block() == nil {
		return true
	}
	atoms := map[ssa.Value]bool{}
	for _, b := range fn.Blocks {
		if iff, ok := b.Instrs[len(b.Instrs)-1].(*ssa.If); ok {
			nilAtoms(iff.Cond, atoms)
		}
	}
	delete(atoms, v)
	for _, a := range alsoNil {
		delete(atoms, a)
	}
	var free []ssa.Value
	for a := range atoms {
		// a pointer defined in a loop that does not contain v's definition may change between the definition and the use
		free = append(free, a)
	}
	if len(free) > 10 {
		return true
	}
	sort.Slice(free, func(i, j int) bool { return free[i].Name() < free[j].Name() })
	for m := 0; m < 1<<len(free); m++ {
		asg := map[ssa.Value]bool{v: true}
		for _, a := range alsoNil {
			asg[a] = true
		}
		for i, a := range free {
			// FieldAddr / Alloc results are never nil
			switch a.(type) {
			case *ssa.FieldAddr, *ssa.Alloc, *ssa.IndexAddr, *ssa.MakeInterface:
				asg[a] = false
				continue
			}
			asg[a] = m&(1<<i) != 0
		}
		seen := map[*ssa.BasicBlock]bool{}
		work := []*ssa.BasicBlock{}
		push := func(b *ssa.BasicBlock) {
			if b != def.Block() && !seen[b] {
				seen[b] = true
				work = append(work, b)
			}
		}
		succs := func(b *ssa.BasicBlock) {
			if theProg != nil && theProg.info(fn).cutAt[b] >= 0 {
				return
			}
			if iff, ok := b.Instrs[len(b.Instrs)-1].(*ssa.If); ok {
				switch nilCond(iff.Cond, asg) {
				case 1:
					push(b.Succs[0])
					return
				case 0:
					push(b.Succs[1])
					return
				}
			}
			for _, s := range b.Succs {
				push(s)
			}
		}
		if at.Block() == def.Block() {
			// same block: reached if `at` comes after the definition
			for _, ins := range def.Block().Instrs {
				if ins == def {
					return true
				}
				if ins == at {
					break
				}
			}
		}
		succs(def.Block())
		for len(work) > 0 {
			b := work[len(work)-1]
			work = work[:len(work)-1]
			if b == at.Block() {
				return true
			}
			succs(b)
		}
	}
	return false
}

// ---------- structural equality of SSA expressions (go/ssa has no CSE) ----------

// structEq: a and b are the same value, or pure expressions of the same shape over the same leaves
// (parameters, constants, loads of the same access path, len/cap of equal operands, conversions, arithmetic).
func structEq(a, b ssa.Value, d int) bool {
	if a == b {
		return true
	}
	if d > 6 || a == nil || b == nil {
		return false
	}
	switch x := a.(type) {
	case *ssa.Const:
		y, ok := b.(*ssa.Const)
		if !ok {
			return false
		}
		if x.Value == nil || y.Value == nil { // zero values (nil, zero structs)
			return x.Value == nil && y.Value == nil && types.Identical(x.Type(), y.Type())
		}
		return constant.Compare(x.Value, token.EQL, y.Value)
	case *ssa.Convert:
		y, ok := b.(*ssa.Convert)
		return ok && types.Identical(x.Type(), y.Type()) && structEq(x.X, y.X, d+1)
	case *ssa.ChangeType:
		y, ok := b.(*ssa.ChangeType)
		return ok && structEq(x.X, y.X, d+1)
	case *ssa.BinOp:
		y, ok := b.(*ssa.BinOp)
		if !ok || x.Op != y.Op {
			return false
		}
		if structEq(x.X, y.X, d+1) && structEq(x.Y, y.Y, d+1) {
			return true
		}
		if x.Op == token.ADD || x.Op == token.MUL {
			return structEq(x.X, y.Y, d+1) && structEq(x.Y, y.X, d+1)
		}
		return false
	case *ssa.UnOp:
		y, ok := b.(*ssa.UnOp)
		if !ok || x.Op != y.Op {
			return false
		}
		if x.Op == token.MUL { // load: same access path, in the same function
			pa, pb := apath(x.X), apath(y.X)
			return pa == pb && !strings.Contains(pa, "·")
		}
		return structEq(x.X, y.X, d+1)
	case *ssa.Call:
		y, ok := b.(*ssa.Call)
		if !ok {
			return false
		}
		bx, ok1 := x.Call.Value.(*ssa.Builtin)
		by, ok2 := y.Call.Value.(*ssa.Builtin)
		if ok1 && ok2 && bx.Name() == by.Name() && (bx.Name() == "len" || bx.Name() == "cap") {
			return structEq(x.Call.Args[0], y.Call.Args[0], d+1)
		}
		return false
	case *ssa.FieldAddr, *ssa.IndexAddr, *ssa.Field:
		pa, pb := apath(a), apath(b)
		return pa == pb && !strings.Contains(pa, "·")
	}
	return false
}

// ---------- facts implied by a boolean SSA value ----------

// boolFacts: atomic facts that must hold when v evaluates to `want`.
// Facts: "p=true"/"p=false" for a bool parameter p, "lenzero(<path>)" / "lenpos(<path>)" for len comparisons with 0/1.
// Phis of short-circuit operators are followed: an incoming edge contributes the facts of its value plus the facts of
// the branch that selects the edge; edges whose value is the opposite constant are impossible.
func boolFacts(v ssa.Value, want bool, d int) map[string]bool {
	out := map[string]bool{}
	if d > 6 {
		return out
	}
	switch x := v.(type) {
	case *ssa.Parameter:
		out[x.Name()+"="+fmt.Sprint(want)] = true
	case *ssa.Field:
		// a bool field of a struct parameter (an options struct)
		if pr, ok := x.X.(*ssa.Parameter); ok {
			out[pr.Name()+"."+fieldName(x.X.Type(), x.Field)+"="+fmt.Sprint(want)] = true
		}
	case *ssa.UnOp:
		if x.Op == token.NOT {
			return boolFacts(x.X, !want, d+1)
		}
		if x.Op == token.MUL {
			// load of a spilled bool parameter
			if al, ok := x.X.(*ssa.Alloc); ok {
				if pr := spilledParam(al); pr != nil {
					out[pr.Name()+"="+fmt.Sprint(want)] = true
				}
			}
			// load of a bool field of a spilled struct parameter
			if fa, ok := x.X.(*ssa.FieldAddr); ok {
				if al, ok := fa.X.(*ssa.Alloc); ok {
					if pr := spilledParam(al); pr != nil {
						out[pr.Name()+"."+fieldName(fa.X.Type(), fa.Field)+"="+fmt.Sprint(want)] = true
					}
				}
			}
		}
	case *ssa.BinOp:
		// len(X) REL c
		for _, side := range []int{0, 1} {
			l, c := x.X, x.Y
			op := x.Op
			if side == 1 {
				l, c = x.Y, x.X
				op = flipOp(op)
			}
			call := callOf(l)
			if call == nil {
				continue
			}
			bi, ok := call.Call.Value.(*ssa.Builtin)
			if !ok || bi.Name() != "len" {
				continue
			}
			k, ok := constInt64(c)
			if !ok {
				continue
			}
			pth := apath(call.Call.Args[0])
			if !want {
				op = negOp(op)
			}
			switch {
			case op == token.EQL && k == 0, op == token.LEQ && k == 0, op == token.LSS && k == 1:
				out["lenzero("+pth+")"] = true
			case op == token.NEQ && k == 0, op == token.GTR && k == 0, op == token.GEQ && k == 1:
				out["lenpos("+pth+")"] = true
			}
		}
	case *ssa.Phi:
		first := true
		for i, e := range x.Edges {
			if cb, isC := constBool(e); isC && cb != want {
				continue // this edge cannot produce `want`
			}
			f := map[string]bool{}
			if _, isC := constBool(e); !isC {
				f = boolFacts(e, want, d+1)
			}
			for k := range edgeChainFacts(x.Block().Preds[i], x.Block(), d+1) {
				f[k] = true
			}
			if first {
				out, first = f, false
			} else {
				for k := range out {
					if !f[k] {
						delete(out, k)
					}
				}
			}
		}
	}
	return out
}

// edgeChainFacts: facts known on the edge from→to: the branch of `from` (if it ends in an If) and, walking up while
// blocks have a single predecessor, the branches that lead to `from`.
func edgeChainFacts(from, to *ssa.BasicBlock, d int) map[string]bool {
	out := map[string]bool{}
	for steps := 0; from != nil && steps < 8; steps++ {
		if iff, ok := from.Instrs[len(from.Instrs)-1].(*ssa.If); ok && from.Succs[0] != from.Succs[1] {
			for k := range boolFacts(iff.Cond, from.Succs[0] == to, d+1) {
				out[k] = true
			}
		}
		if len(from.Preds) != 1 {
			break
		}
		from, to = from.Preds[0], from
	}
	return out
}

func spilledParam(al *ssa.Alloc) *ssa.Parameter {
	var pr *ssa.Parameter
	n := 0
	for _, ref := range *al.Referrers() {
		if st, ok := ref.(*ssa.Store); ok && st.Addr == al {
			n++
			pr, _ = st.Val.(*ssa.Parameter)
		}
	}
	if n == 1 {
		return pr
	}
	return nil
}

func flipOp(op token.Token) token.Token {
	switch op {
	case token.LSS:
		return token.GTR
	case token.GTR:
		return token.LSS
	case token.LEQ:
		return token.GEQ
	case token.GEQ:
		return token.LEQ
	}
	return op
}

func negOp(op token.Token) token.Token {
	switch op {
	case token.LSS:
		return token.GEQ
	case token.GTR:
		return token.LEQ
	case token.LEQ:
		return token.GTR
	case token.GEQ:
		return token.LSS
	case token.EQL:
		return token.NEQ
	case token.NEQ:
		return token.EQL
	}
	return op
}

// factBefore: the fact holds before ins on every path (established by branch edges).
func factBefore(fn *ssa.Function, ins ssa.Instruction, fact string) bool {
	mf := &MustFlow{Fn: fn, EdgeGen: func(b *ssa.BasicBlock, k int) bool {
		iff, ok := b.Instrs[len(b.Instrs)-1].(*ssa.If)
		if !ok {
			return false
		}
		return boolFacts(iff.Cond, k == 0, 0)[fact]
	}}
	mf.Run()
	return mf.Before(ins)
}

// ---------- feasibility of reaching an instruction without a fact (correlated branch conditions) ----------

// pathWithoutFact: is there a path from the function's entry to the block of target on which the fact is not
// established by a branch edge, when branch conditions over the same SSA value (and all conditions recognised by isFact,
// which are taken to be one and the same atom) are decided consistently along the path? Used where a must-flow fact is
// lost at a join although the branches are correlated (`if t && !flag { panic }; …; if t { use }`).
// Conservative: an exhausted step budget answers true.
func pathWithoutFact(fn *ssa.Function, target ssa.Instruction, isFact func(atom ssa.Value) bool) bool {
	type key = interface{}
	factKey := key("fact")
	budget := 20000
	type frame struct {
		b      *ssa.BasicBlock
		assign map[key]bool
	}
	sig := func(b *ssa.BasicBlock, a map[key]bool) string {
		s := fmt.Sprintf("%d|", b.Index)
		var parts []string
		for k, v := range a {
			if vv, ok := k.(ssa.Value); ok {
				parts = append(parts, fmt.Sprintf("%s=%v", vv.Name(), v))
			} else {
				parts = append(parts, fmt.Sprintf("%v=%v", k, v))
			}
		}
		sort.Strings(parts)
		return s + strings.Join(parts, ",")
	}
	seen := map[string]bool{}
	var walk func(pred, b *ssa.BasicBlock, a map[key]bool) bool
	walk = func(pred, b *ssa.BasicBlock, a map[key]bool) bool {
		budget--
		if budget < 0 {
			return true
		}
		// boolean phis (short-circuit operators used as values): the value on the edge just taken
		if pred != nil {
			var na map[key]bool
			for _, ins := range b.Instrs {
				ph, ok := ins.(*ssa.Phi)
				if !ok {
					break
				}
				if bt, ok := ph.Type().Underlying().(*types.Basic); !ok || bt.Kind() != types.Bool {
					continue
				}
				for i, pb := range b.Preds {
					if pb != pred || i >= len(ph.Edges) {
						continue
					}
					val, known := false, false
					if cb, isC := constBool(ph.Edges[i]); isC {
						val, known = cb, true
					} else {
						at, neg := condAtom(ph.Edges[i])
						var ek key = at
						if isFact(at) {
							ek = factKey
						}
						if v, assigned := a[ek]; assigned {
							val, known = v != neg, true
						}
					}
					if known {
						if na == nil {
							na = make(map[key]bool, len(a)+1)
							for x, y := range a {
								na[x] = y
							}
						}
						na[key(ssa.Value(ph))] = val
					}
				}
			}
			if na != nil {
				a = na
			}
		}
		if b == target.Block() {
			if v, ok := a[factKey]; !ok || !v {
				return true
			}
			return false
		}
		s := sig(b, a)
		if seen[s] {
			return false
		}
		seen[s] = true
		if _, isIf := b.Instrs[len(b.Instrs)-1].(*ssa.If); !isIf {
			for _, sx := range b.Succs {
				if walk(b, sx, a) {
					return true
				}
			}
			return false
		}
		for k, sx := range b.Succs {
			atom, holds, ok := edgeCond(b, k)
			if !ok {
				if walk(b, sx, a) {
					return true
				}
				continue
			}
			var kk key = atom
			if isFact(atom) {
				kk = factKey
			}
			if v, assigned := a[kk]; assigned {
				if v != holds {
					continue
				}
				if walk(b, sx, a) {
					return true
				}
				continue
			}
			na := make(map[key]bool, len(a)+1)
			for x, y := range a {
				na[x] = y
			}
			na[kk] = holds
			if walk(b, sx, na) {
				return true
			}
		}
		return false
	}
	if len(fn.Blocks) == 0 {
		return true
	}
	return walk(nil, fn.Blocks[0], map[key]bool{})
}
