package main

import (
	"fmt"
	"go/ast"
	"go/constant"
	"go/token"
	"go/types"
	"strconv"
	"strings"

	"golang.org/x/tools/go/ssa"
)

func init() {
	register(&Property{
		ID: "C04",
		Decides: "for the mask type of the build (4×64 bits, or 64 bits with tag tiny): every mask operation treats all words uniformly and covers each word exactly once (R1); its per-word expression, folded to a one-bit truth table with a quantifier, equals the set operation of the specification (R2); Get and Set address word id/W and bit id%W with W the word width, test/set/clear exactly 1<<bit of that word (R3); " +
			"MaskFilter, Mask.Matches, Without, Exclusive and the logic filters And/Or/XOr/Not/Any/NoneOf/AnyNot have the truth tables of their definitions, and RelationFilter/CachedFilter delegate (R4); MaskTotalBits equals words × word width (R5).",
		NotDecided:  "nothing material for masks (bit-parallel operations are decided exactly by the one-bit table); Mask.toTypes ordering; nesting of logic filters follows from compositionality of the per-node tables.",
		Assumptions: append([]string{"Go's bitwise operators act independently on each bit (so a one-bit truth table decides a word expression built only from &, |, ^, &^, unary ^)"}, commonAssumptions...),
		Rules: []Rule{
			{ID: "C04.R1", Floor: 7, Run: c04r1, Text: "word uniformity and completeness: in every method of Mask, the sub-expressions over bits[k] are identical up to k, every k in [0,len) occurs exactly once, joined by a single connective (or positionally in the array literal)"},
			{ID: "C04.R2", Floor: 9, Run: c04r2, Text: "bit-parallel semantics (E-tt): the per-word expression folded over (b,o) ∈ {0,1}² equals: And→∧, Or→∨, Xor→⊕, Not→¬, Contains→∀(o→b), ContainsAny→∃(b∧o), IsZero→∀¬b, Reset→0, TotalBitsSet→Σ popcount"},
			{ID: "C04.R3", Floor: 2, Run: c04r3, Text: "Get/Set bit addressing, decided per id (bit-level abstract interpretation of the SSA, id and value concrete, words symbolic bit by bit): Get(id) is exactly bit id%W of word id/W; Set(id, v) makes that bit v and leaves every other bit of every word unchanged - for every id of the build and any spelling of the addressing"},
			{ID: "C04.R4", Floor: 12, Run: c04r4, Text: "filters (E-tt): MaskFilter.Matches ≡ include ⊆ m ∧ exclude ∩ m = ∅; Mask.Matches ≡ b ⊆ m; Exclusive = (b, ¬b); Without = (b, All(ids)); AND/OR/XOR/NOT ≡ ∧/∨/⊕/¬ of the operands' Matches; ANY/NoneOF/AnyNOT ≡ ∃, ¬∃, ¬⊆; RelationFilter and CachedFilter delegate"},
			{ID: "C04.R5", Floor: 1, Run: c04r5, Text: "MaskTotalBits = number of words × word width; wordSize is the word width"},
			{ID: "C04.R6", Floor: 4, Run: filterCtorsVerbatim, Text: "logic-filter constructors store their operands unchanged: filter.And/Or/XOr/Not build the combinator from the operands given, not from a rewritten operand"},
		},
	})
}

// ---------- word expressions ----------

type wexpr struct {
	op    string // "leaf", "zero", "&", "|", "^", "&^", "~"
	who   string // leaf: "b" (receiver) or "o" (other operand)
	index int    // leaf: word index, -1 for scalar masks
	l, r  *wexpr
}

func (w *wexpr) eval(b, o int) int {
	switch w.op {
	case "leaf":
		if w.who == "b" {
			return b
		}
		return o
	case "zero":
		return 0
	case "&":
		return w.l.eval(b, o) & w.r.eval(b, o)
	case "|":
		return w.l.eval(b, o) | w.r.eval(b, o)
	case "^":
		return w.l.eval(b, o) ^ w.r.eval(b, o)
	case "&^":
		return w.l.eval(b, o) &^ w.r.eval(b, o) & 1
	case "~":
		return (^w.l.eval(b, o)) & 1
	}
	return 0
}

func (w *wexpr) shape() string {
	switch w.op {
	case "leaf":
		return w.who + "[#]"
	case "zero":
		return "0"
	case "~":
		return "~" + w.l.shape()
	}
	return "(" + w.l.shape() + w.op + w.r.shape() + ")"
}

func (w *wexpr) indices(out map[int]bool) {
	if w == nil {
		return
	}
	if w.op == "leaf" {
		out[w.index] = true
	}
	w.l.indices(out)
	w.r.indices(out)
}

type maskCtx struct {
	p     *Prog
	recv  string // receiver name
	words int    // number of words (1 for scalar)
	width int    // bits per word
	array bool
}

func (c *maskCtx) parseWord(e ast.Expr) (*wexpr, error) {
	e = unparen(e)
	switch x := e.(type) {
	case *ast.BasicLit:
		if x.Value == "0" {
			return &wexpr{op: "zero"}, nil
		}
	case *ast.SelectorExpr:
		if id, ok := x.X.(*ast.Ident); ok && x.Sel.Name == "bits" && !c.array {
			who := "o"
			if id.Name == c.recv {
				who = "b"
			}
			return &wexpr{op: "leaf", who: who, index: -1}, nil
		}
	case *ast.IndexExpr:
		if sel, ok := unparen(x.X).(*ast.SelectorExpr); ok && sel.Sel.Name == "bits" && c.array {
			if id, ok := sel.X.(*ast.Ident); ok {
				lit, ok := x.Index.(*ast.BasicLit)
				if !ok {
					return nil, fmt.Errorf("non-constant word index %s", c.p.src(x.Index))
				}
				k, _ := strconv.Atoi(lit.Value)
				who := "o"
				if id.Name == c.recv {
					who = "b"
				}
				return &wexpr{op: "leaf", who: who, index: k}, nil
			}
		}
	case *ast.UnaryExpr:
		if x.Op == token.XOR {
			in, err := c.parseWord(x.X)
			if err != nil {
				return nil, err
			}
			return &wexpr{op: "~", l: in}, nil
		}
	case *ast.BinaryExpr:
		switch x.Op {
		case token.AND, token.OR, token.XOR, token.AND_NOT:
			l, err := c.parseWord(x.X)
			if err != nil {
				return nil, err
			}
			r, err := c.parseWord(x.Y)
			if err != nil {
				return nil, err
			}
			return &wexpr{op: x.Op.String(), l: l, r: r}, nil
		}
	}
	return nil, fmt.Errorf("not a bitwise word expression: %s", c.p.src(e))
}

// predicate over one word: quantifier ∀/∃ and a 1-bit table
type wpred struct {
	quant string // "all" | "any"
	f     func(b, o int) bool
	shape string
	idx   map[int]bool
}

func (c *maskCtx) parsePred(e ast.Expr) (*wpred, error) {
	be, ok := unparen(e).(*ast.BinaryExpr)
	if !ok || (be.Op != token.EQL && be.Op != token.NEQ) {
		return nil, fmt.Errorf("not a word comparison: %s", c.p.src(e))
	}
	l, err := c.parseWord(be.X)
	if err != nil {
		return nil, err
	}
	r, err := c.parseWord(be.Y)
	if err != nil {
		return nil, err
	}
	idx := map[int]bool{}
	l.indices(idx)
	r.indices(idx)
	sh := l.shape() + be.Op.String() + r.shape()
	if be.Op == token.EQL {
		// E1 == E2 : for all bits e1 == e2
		return &wpred{quant: "all", f: func(b, o int) bool { return l.eval(b, o) == r.eval(b, o) }, shape: sh, idx: idx}, nil
	}
	// E1 != E2 : exists a bit where they differ
	return &wpred{quant: "any", f: func(b, o int) bool { return l.eval(b, o) != r.eval(b, o) }, shape: sh, idx: idx}, nil
}

func (p *Prog) maskContext(r *Reporter) (*maskCtx, bool) {
	f := p.Field("ecs.Mask.bits")
	if f == nil {
		r.Anchor("ecs.Mask.bits")
		return nil, false
	}
	c := &maskCtx{p: p, words: 1}
	switch t := f.Type().Underlying().(type) {
	case *types.Array:
		c.array = true
		c.words = int(t.Len())
		if b, ok := t.Elem().Underlying().(*types.Basic); ok {
			c.width = basicWidth(b)
		}
	case *types.Basic:
		c.width = basicWidth(t)
	}
	if c.width == 0 {
		r.Bad("ecs.Mask", "word type", p.Pos(f.Pos()), "the mask's storage is not an unsigned integer word or an array of them")
		return nil, false
	}
	return c, true
}

func basicWidth(b *types.Basic) int {
	switch b.Kind() {
	case types.Uint64:
		return 64
	case types.Uint32:
		return 32
	case types.Uint16:
		return 16
	case types.Uint8:
		return 8
	}
	return 0
}

func recvName(fd *ast.FuncDecl) string {
	if fd.Recv != nil && len(fd.Recv.List) > 0 && len(fd.Recv.List[0].Names) > 0 {
		return fd.Recv.List[0].Names[0].Name
	}
	return ""
}

// maskMethodWords extracts, for a Mask method, the per-word expressions (value methods) or predicates (bool methods).
type maskMethod struct {
	writes []string // parameters ("b" receiver, "o" other) whose words the method stores to
	kind   string   // "value" | "pred" | "reset" | "sum"
	words  []*wexpr
	preds  []*wpred
	conn   token.Token
	sumFns []string
	pos    token.Pos
}

func (c *maskCtx) analyse(fd *ast.FuncDecl) (*maskMethod, error) {
	c.recv = recvName(fd)
	mm := &maskMethod{pos: fd.Pos()}
	// reset: single assignment b.bits = ...
	if len(fd.Body.List) == 1 {
		if as, ok := fd.Body.List[0].(*ast.AssignStmt); ok && as.Tok == token.ASSIGN && len(as.Lhs) == 1 {
			if sel, ok := as.Lhs[0].(*ast.SelectorExpr); ok && sel.Sel.Name == "bits" {
				mm.kind = "reset"
				ws, err := c.literalWords(as.Rhs[0])
				if err != nil {
					return nil, err
				}
				mm.words = ws
				return mm, nil
			}
		}
	}
	ret, _, ok := inlineBody(fd)
	if !ok {
		return nil, fmt.Errorf("body is not a single return expression")
	}
	ret = unparen(ret)
	// value: Mask{bits: ...}
	if cl, ok := ret.(*ast.CompositeLit); ok {
		mm.kind = "value"
		if len(cl.Elts) != 1 {
			return nil, fmt.Errorf("unexpected Mask literal")
		}
		var inner ast.Expr = cl.Elts[0]
		if kv, ok := inner.(*ast.KeyValueExpr); ok {
			inner = kv.Value
		}
		ws, err := c.literalWords(inner)
		if err != nil {
			return nil, err
		}
		mm.words = ws
		return mm, nil
	}
	// sum: f(w0) + f(w1) ...
	if terms := splitTop(ret, token.ADD); len(terms) >= 1 {
		allCalls := true
		for _, t := range terms {
			ce, ok := unparen(t).(*ast.CallExpr)
			if !ok || len(ce.Args) != 1 {
				allCalls = false
				break
			}
			if id, isConv := ce.Fun.(*ast.Ident); isConv && id.Name == "int" {
				// int(...) wrapper around the whole sum
				allCalls = false
				break
			}
			w, err := c.parseWord(ce.Args[0])
			if err != nil {
				allCalls = false
				break
			}
			mm.words = append(mm.words, w)
			mm.sumFns = append(mm.sumFns, c.p.calleeOfExpr(ce))
		}
		if allCalls && len(mm.words) > 0 {
			mm.kind = "sum"
			return mm, nil
		}
		mm.words, mm.sumFns = nil, nil
	}
	// predicate chain
	for _, op := range []token.Token{token.LAND, token.LOR} {
		terms := splitTop(ret, op)
		if len(terms) < 1 {
			continue
		}
		var preds []*wpred
		okAll := true
		for _, t := range terms {
			pr, err := c.parsePred(t)
			if err != nil {
				okAll = false
				break
			}
			preds = append(preds, pr)
		}
		if okAll {
			mm.kind = "pred"
			mm.preds = preds
			mm.conn = op
			return mm, nil
		}
	}
	return nil, fmt.Errorf("unrecognised form: %s", c.p.src(ret))
}

func (p *Prog) calleeOfExpr(ce *ast.CallExpr) string {
	for _, pk := range p.Pkgs {
		if o := calleeObj(pk.TypesInfo, ce); o != nil {
			if o.Pkg() != nil {
				return o.Pkg().Path() + "." + o.Name()
			}
			return o.Name()
		}
	}
	return p.src(ce.Fun)
}

func calleeObj(info *types.Info, ce *ast.CallExpr) types.Object {
	switch f := unparen(ce.Fun).(type) {
	case *ast.Ident:
		return info.Uses[f]
	case *ast.SelectorExpr:
		return info.Uses[f.Sel]
	}
	return nil
}

func (c *maskCtx) literalWords(e ast.Expr) ([]*wexpr, error) {
	e = unparen(e)
	if !c.array {
		w, err := c.parseWord(e)
		if err != nil {
			return nil, err
		}
		return []*wexpr{w}, nil
	}
	cl, ok := e.(*ast.CompositeLit)
	if !ok {
		return nil, fmt.Errorf("expected an array literal, got %s", c.p.src(e))
	}
	var out []*wexpr
	for _, el := range cl.Elts {
		if _, isKV := el.(*ast.KeyValueExpr); isKV {
			return nil, fmt.Errorf("keyed array literal")
		}
		w, err := c.parseWord(el)
		if err != nil {
			return nil, err
		}
		out = append(out, w)
	}
	return out, nil
}

var maskSpecs = map[string]struct {
	kind  string
	quant string
	f     func(b, o int) int
}{
	"And":          {"value", "", func(b, o int) int { return b & o }},
	"Or":           {"value", "", func(b, o int) int { return b | o }},
	"Xor":          {"value", "", func(b, o int) int { return b ^ o }},
	"Not":          {"value", "", func(b, o int) int { return 1 - b }},
	"Reset":        {"reset", "", func(b, o int) int { return 0 }},
	"Contains":     {"pred", "all", func(b, o int) int { return btoi(o == 0 || b == 1) }},
	"ContainsAny":  {"pred", "any", func(b, o int) int { return btoi(b == 1 && o == 1) }},
	"IsZero":       {"pred", "all", func(b, o int) int { return btoi(b == 0) }},
	"TotalBitsSet": {"sum", "", func(b, o int) int { return b }},
}

func btoi(b bool) int {
	if b {
		return 1
	}
	return 0
}

func maskMethodNames() []string {
	return []string{"And", "Or", "Xor", "Not", "Reset", "Contains", "ContainsAny", "IsZero", "TotalBitsSet"}
}

func c04r1(p *Prog, r *Reporter) {
	c, ok := p.maskContext(r)
	if !ok {
		return
	}
	for _, n := range maskMethodNames() {
		fn := p.maskMethodSSA(n)
		name := "ecs.(*Mask)." + n
		if fn == nil {
			r.Anchor(name)
			continue
		}
		fd := fn // position source
		mm, err := c.analyseSSA(fn)
		if err != nil {
			r.Und(name, "word uniformity", p.Pos(fd.Pos()), "the method is not in a recognised word-parallel form: "+err.Error())
			continue
		}
		var shapes []string
		var idxs []map[int]bool
		switch mm.kind {
		case "pred":
			for _, pr := range mm.preds {
				shapes = append(shapes, pr.shape)
				idxs = append(idxs, pr.idx)
			}
		default:
			for _, w := range mm.words {
				shapes = append(shapes, w.shape())
				m := map[int]bool{}
				w.indices(m)
				idxs = append(idxs, m)
			}
		}
		bad := ""
		if len(shapes) != c.words {
			bad = fmt.Sprintf("%d word expressions for %d words", len(shapes), c.words)
		}
		seen := map[int]bool{}
		for i, sh := range shapes {
			if sh != shapes[0] {
				bad = fmt.Sprintf("word %d uses %s, word 0 uses %s", i, sh, shapes[0])
			}
			if !c.array {
				continue
			}
			if len(idxs[i]) > 1 {
				bad = fmt.Sprintf("term %d mixes several word indices", i)
			}
			for k := range idxs[i] {
				if mm.kind == "value" || mm.kind == "reset" {
					if k != i {
						bad = fmt.Sprintf("position %d of the result is computed from word %d", i, k)
					}
				}
				if seen[k] {
					bad = fmt.Sprintf("word %d occurs twice", k)
				}
				seen[k] = true
			}
		}
		if c.array && mm.kind != "reset" && bad == "" {
			for k := 0; k < c.words; k++ {
				if !seen[k] && len(idxs) > 0 && len(idxs[0]) > 0 {
					bad = fmt.Sprintf("word %d is not covered", k)
				}
			}
		}
		if bad != "" {
			r.Bad(name, "word uniformity", p.Pos(fd.Pos()), bad)
		} else {
			r.OK(name, "word uniformity", p.Pos(fd.Pos()), fmt.Sprintf("%d word(s), each covered once with the same expression %s", c.words, shapes[0]))
		}
	}
}

func c04r2(p *Prog, r *Reporter) {
	c, ok := p.maskContext(r)
	if !ok {
		return
	}
	for _, n := range maskMethodNames() {
		fn := p.maskMethodSSA(n)
		name := "ecs.(*Mask)." + n
		if fn == nil {
			r.Anchor(name)
			continue
		}
		fd := fn // position source
		spec := maskSpecs[n]
		mm, err := c.analyseSSA(fn)
		if err != nil {
			r.Und(name, "set semantics", p.Pos(fd.Pos()), "the method is not in a recognised word-parallel form: "+err.Error())
			continue
		}
		if mm.kind != spec.kind {
			r.Bad(name, "set semantics", p.Pos(fd.Pos()), "the method has the form "+mm.kind+", the specification needs "+spec.kind)
			continue
		}
		if spec.kind != "reset" && len(mm.writes) > 0 {
			who := map[string]string{"b": "its receiver", "o": "its argument"}[mm.writes[0]]
			r.Bad(name, "set semantics", p.Pos(fd.Pos()), "the operation is specified as pure (it returns its result) but stores into "+who+": the operand is changed behind the caller's back")
			continue
		}
		bad := ""
		switch mm.kind {
		case "value", "reset", "sum":
			for i, w := range mm.words {
				for b := 0; b < 2; b++ {
					for o := 0; o < 2; o++ {
						if w.eval(b, o) != spec.f(b, o) {
							bad = fmt.Sprintf("word %d: for bits (b=%d, other=%d) the code gives %d, the set operation %d", i, b, o, w.eval(b, o), spec.f(b, o))
						}
					}
				}
			}
			if mm.kind == "sum" {
				for _, f := range mm.sumFns {
					if !strings.HasPrefix(f, "math/bits.OnesCount") {
						bad = "summand is " + f + ", not a population count"
					}
				}
			}
		case "pred":
			wantConn := token.LAND
			if spec.quant == "any" {
				wantConn = token.LOR
			}
			if len(mm.preds) > 1 && mm.conn != wantConn {
				bad = "the per-word tests are joined by " + mm.conn.String() + ", the quantifier needs " + wantConn.String()
			}
			for i, pr := range mm.preds {
				if pr.quant != spec.quant {
					bad = fmt.Sprintf("word %d: the comparison is of the %s kind, the specification is a %s statement", i, pr.quant, spec.quant)
					continue
				}
				for b := 0; b < 2; b++ {
					for o := 0; o < 2; o++ {
						if btoi(pr.f(b, o)) != spec.f(b, o) {
							bad = fmt.Sprintf("word %d: for bits (b=%d, other=%d) the per-bit condition is %v, the specification %d", i, b, o, pr.f(b, o), spec.f(b, o))
						}
					}
				}
			}
		}
		if bad != "" {
			r.Bad(name, "set semantics", p.Pos(fd.Pos()), bad)
		} else {
			r.OK(name, "set semantics", p.Pos(fd.Pos()), "one-bit truth table over (b, other) equals the specified set operation (4 rows × "+fmt.Sprint(c.words)+" words)")
		}
	}
}

// ---------- R3 ----------

func c04r3(p *Prog, r *Reporter) {
	c, ok := p.maskContext(r)
	if !ok {
		return
	}
	for _, n := range []string{"Get", "Set"} {
		fn := p.maskMethodSSA(n)
		name := "ecs.(*Mask)." + n
		if fn == nil {
			r.Anchor(name)
			continue
		}
		bad, err := maskBitAddressing(p, c, fn, n == "Set")
		switch {
		case err != nil:
			r.Und(name, "bit addressing", p.FnPos(fn), "the method is outside the bit-level fragment: "+err.Error())
		case bad != "":
			r.Bad(name, "bit addressing", p.FnPos(fn), bad)
		default:
			what := "returns exactly bit id%W of word id/W"
			if n == "Set" {
				what = "changes exactly bit id%W of word id/W to the given value and leaves every other bit of every word as it was"
			}
			r.OK(name, "bit addressing", p.FnPos(fn), fmt.Sprintf("for each of the %d ids of this build: %s (W = %d)", c.words*c.width, what, c.width))
		}
	}
}

func log2(n int) int {
	k := 0
	for n > 1 {
		n >>= 1
		k++
	}
	return k
}

// ---------- R4 ----------

type filterSpec struct {
	pkg, recv, name string
	atoms           func(defs map[string]ast.Expr) func(ast.Expr) (string, bool)
	spec            func(map[string]bool) bool
	consistent      func(map[string]bool) bool
	want            []string
}

func (p *Prog) callAtom(e ast.Expr, defs map[string]ast.Expr) (string, bool) {
	ce, ok := unparen(e).(*ast.CallExpr)
	if !ok {
		return "", false
	}
	sel, ok := unparen(ce.Fun).(*ast.SelectorExpr)
	if !ok {
		return "", false
	}
	var args []string
	for _, a := range ce.Args {
		s := strings.ReplaceAll(p.subst(a, defs, 0), " ", "")
		s = strings.TrimPrefix(s, "&")
		for strings.HasPrefix(s, "(") && strings.HasSuffix(s, ")") {
			s = s[1 : len(s)-1]
		}
		s = strings.TrimPrefix(s, "&")
		s = strings.TrimPrefix(s, "ecs.Mask(")
		s = strings.TrimSuffix(s, ")")
		if strings.HasPrefix(s, "Mask(") {
			s = strings.TrimPrefix(s, "Mask(")
		}
		args = append(args, s)
	}
	recv := strings.ReplaceAll(p.subst(sel.X, defs, 0), " ", "")
	// x.M() and (&x).M() are the same call (automatic address-taking / dereference)
	for strings.HasPrefix(recv, "(") && strings.HasSuffix(recv, ")") {
		recv = recv[1 : len(recv)-1]
	}
	recv = strings.TrimPrefix(recv, "&")
	recv = strings.TrimPrefix(recv, "*")
	return sel.Sel.Name + "(" + recv + ";" + strings.Join(args, ",") + ")", true
}

func c04r4(p *Prog, r *Reporter) {
	type tt struct {
		pkg, recv, name string
		spec            func(a map[string]bool) bool
		atoms           []string
		consistent      func(a map[string]bool) bool
	}
	tables := []tt{
		{"ecs", "MaskFilter", "Matches", func(a map[string]bool) bool {
			return a["Contains(bits;f.Include)"] && !a["ContainsAny(bits;f.Exclude)"]
		}, []string{"Contains(bits;f.Include)", "ContainsAny(bits;f.Exclude)", "IsZero(f.Exclude;)"},
			func(a map[string]bool) bool { return !(a["IsZero(f.Exclude;)"] && a["ContainsAny(bits;f.Exclude)"]) }},
		{"ecs", "Mask", "Matches", func(a map[string]bool) bool { return a["Contains(bits;b)"] }, []string{"Contains(bits;b)"}, nil},
		{"ecs", "RelationFilter", "Matches", func(a map[string]bool) bool { return a["Matches(f.Filter;bits)"] }, []string{"Matches(f.Filter;bits)"}, nil},
		{"ecs", "CachedFilter", "Matches", func(a map[string]bool) bool { return a["Matches(f.filter;bits)"] }, []string{"Matches(f.filter;bits)"}, nil},
		{"filter", "AND", "Matches", func(a map[string]bool) bool { return a["Matches(f.L;bits)"] && a["Matches(f.R;bits)"] }, []string{"Matches(f.L;bits)", "Matches(f.R;bits)"}, nil},
		{"filter", "OR", "Matches", func(a map[string]bool) bool { return a["Matches(f.L;bits)"] || a["Matches(f.R;bits)"] }, []string{"Matches(f.L;bits)", "Matches(f.R;bits)"}, nil},
		{"filter", "XOR", "Matches", func(a map[string]bool) bool { return a["Matches(f.L;bits)"] != a["Matches(f.R;bits)"] }, []string{"Matches(f.L;bits)", "Matches(f.R;bits)"}, nil},
		{"filter", "NOT", "Matches", func(a map[string]bool) bool { return !a["Matches(f.F;bits)"] }, []string{"Matches(f.F;bits)"}, nil},
		{"filter", "ANY", "Matches", func(a map[string]bool) bool { return a["ContainsAny(bits;f)"] }, []string{"ContainsAny(bits;f)"}, nil},
		{"filter", "NoneOF", "Matches", func(a map[string]bool) bool { return !a["ContainsAny(bits;f)"] }, []string{"ContainsAny(bits;f)"}, nil},
		{"filter", "AnyNOT", "Matches", func(a map[string]bool) bool { return !a["Contains(bits;f)"] }, []string{"Contains(bits;f)"}, nil},
	}
	for _, t := range tables {
		fd := p.FuncDecl(t.pkg, t.recv, t.name)
		name := t.pkg + "." + t.recv + "." + t.name
		if fd == nil {
			r.Anchor(name)
			continue
		}
		ret, defs, ok := inlineBody(fd)
		// canonical parameter/receiver names: rename receiver → f (or b for Mask), mask parameter → bits
		ren := map[string]string{}
		if rn := recvName(fd); rn != "" {
			if t.recv == "Mask" {
				ren[rn] = "b"
			} else {
				ren[rn] = "f"
			}
		}
		if len(fd.Type.Params.List) == 1 && len(fd.Type.Params.List[0].Names) == 1 {
			ren[fd.Type.Params.List[0].Names[0].Name] = "bits"
		}
		atomOf := func(e ast.Expr) (string, bool) {
			a, ok := p.callAtom(e, defs)
			if !ok {
				return "", false
			}
			return renameAtom(a, ren), true
		}
		var be *boolExpr
		var err error
		if ok {
			be, err = p.parseBool(ret, defs, atomOf)
		} else {
			// several statements: an if-chain of returns (early returns, else branches, local definitions)
			bc := &boolConv{p: p, pkg: t.pkg, atomOf: atomOf}
			be, err = bc.stmts(fd.Body.List, map[string]ast.Expr{}, nil)
		}
		if err != nil {
			r.Und(name, "truth table", p.Pos(fd.Pos()), err.Error())
			continue
		}
		got := sortedAtomList(be)
		unknown := ""
		allowed := map[string]bool{}
		for _, a := range t.atoms {
			allowed[a] = true
		}
		for _, a := range got {
			if !allowed[a] {
				unknown = a
			}
		}
		if unknown != "" {
			r.Und(name, "truth table", p.Pos(fd.Pos()), "the expression uses an atom the specification does not know: "+unknown+" (known: "+strings.Join(t.atoms, ", ")+")")
			continue
		}
		diff, rows := truthTable(be, t.atoms, t.spec, t.consistent)
		if diff != "" {
			r.Bad(name, "truth table", p.Pos(fd.Pos()), "differs from the definition at "+diff)
		} else {
			r.OK(name, "truth table", p.Pos(fd.Pos()), fmt.Sprintf("equals the definition on all %d consistent rows over atoms %v", rows, t.atoms))
		}
	}
	// constructors of mask filters
	c04ctor(p, r, "Exclusive", func(inc, exc string) string {
		if inc != "b" {
			return "Include is " + inc
		}
		if exc != "b.Not()" {
			return "Exclude is " + exc + ", not b.Not()"
		}
		return ""
	})
	c04ctor(p, r, "Without", func(inc, exc string) string {
		if inc != "b" {
			return "Include is " + inc
		}
		if exc != "All(comps...)" {
			return "Exclude is " + exc + ", not All(comps...)"
		}
		return ""
	})
	// All(ids...) sets each id: a Mask.Set(elem of ids, true) on the returned mask inside a loop over the parameter
	if fn := p.Fn("ecs.All"); fn != nil && len(fn.Params) == 1 {
		okc, why := false, "no Set(ids[i], true) call on the returned mask"
		for _, site := range callsIn(fn) {
			sc := site.Common().StaticCallee()
			if sc == nil || cname(sc) != "Set" || typeName(recvType(sc)) != "Mask" || len(site.Common().Args) != 3 {
				continue
			}
			a := site.Common().Args
			k, isK := a[2].(*ssa.Const)
			if !isK || k.Value == nil || k.Value.Kind() != constant.Bool || !constant.BoolVal(k.Value) {
				why = "Set is not called with true"
				continue
			}
			ld, isLd := a[1].(*ssa.UnOp)
			if !isLd {
				continue
			}
			ia, isIA := ld.X.(*ssa.IndexAddr)
			if !isIA || ia.X != fn.Params[0] {
				why = "the id set is not an element of the parameter"
				continue
			}
			if full, w := fullRangeIndex(ia); !full {
				why = "the loop does not cover the whole parameter: " + w
				continue
			}
			// the receiver is the mask that is returned
			ret := false
			for _, b := range fn.Blocks {
				if rt, ok := b.Instrs[len(b.Instrs)-1].(*ssa.Return); ok && len(rt.Results) == 1 {
					if u, ok := rt.Results[0].(*ssa.UnOp); ok && u.X == a[0] {
						ret = true
					}
				}
			}
			if !ret {
				why = "the mask that is filled is not the one returned"
				continue
			}
			okc = true
		}
		if okc {
			r.OK("ecs.All", "builds the set of the given ids", p.FnPos(fn), "ranges over all ids and sets each bit to true in the returned mask")
		} else {
			r.Bad("ecs.All", "builds the set of the given ids", p.FnPos(fn), why)
		}
	} else {
		r.Anchor("ecs.All")
	}
}

func renameAtom(a string, ren map[string]string) string {
	// atoms look like Name(recv;arg,arg)
	i := strings.IndexByte(a, '(')
	head, rest := a[:i], a[i+1:len(a)-1]
	parts := strings.SplitN(rest, ";", 2)
	fix := func(s string) string {
		segs := strings.Split(s, ".")
		if n, ok := ren[segs[0]]; ok {
			segs[0] = n
		}
		return strings.Join(segs, ".")
	}
	recv := fix(parts[0])
	var args []string
	if len(parts) > 1 && parts[1] != "" {
		for _, x := range strings.Split(parts[1], ",") {
			args = append(args, fix(x))
		}
	}
	return head + "(" + recv + ";" + strings.Join(args, ",") + ")"
}

func c04ctor(p *Prog, r *Reporter, method string, check func(inc, exc string) string) {
	name := "ecs.Mask." + method
	fn := p.Fn("ecs.(Mask)." + method)
	if fn == nil {
		fn = p.Fn("ecs.(*Mask)." + method)
	}
	if fn == nil || len(fn.Params) == 0 {
		r.Anchor(name)
		return
	}
	recv := fn.Params[0]
	// describe a value in terms of the receiver b and the parameters
	var desc func(v ssa.Value, depth int) string
	isRecv := func(v ssa.Value) bool {
		if v == recv {
			return true
		}
		// spilled receiver: the Alloc that the receiver is stored into, or a load of it
		if u, ok := v.(*ssa.UnOp); ok && u.Op == token.MUL {
			v = u.X
		}
		if al, ok := v.(*ssa.Alloc); ok {
			stores := 0
			isR := false
			for _, ref := range *al.Referrers() {
				if st, ok := ref.(*ssa.Store); ok && st.Addr == al {
					stores++
					isR = st.Val == recv
				}
			}
			return stores == 1 && isR
		}
		return false
	}
	desc = func(v ssa.Value, depth int) string {
		if depth > 4 {
			return "?"
		}
		if isRecv(v) {
			return "b"
		}
		if pr, ok := v.(*ssa.Parameter); ok {
			return pr.Name()
		}
		if c := callOf(v); c != nil {
			sc := c.Common().StaticCallee()
			if sc == nil {
				return "?"
			}
			var args []string
			for _, a := range c.Common().Args {
				args = append(args, desc(a, depth+1))
			}
			if sc.Signature.Recv() != nil && len(args) > 0 {
				return args[0] + "." + cname(sc) + "(" + strings.Join(args[1:], ",") + ")"
			}
			if sc.Signature.Variadic() && len(args) > 0 {
				args[len(args)-1] += "..."
			}
			return cname(sc) + "(" + strings.Join(args, ",") + ")"
		}
		return "?" + apath(v)
	}
	// the returned MaskFilter: a local whose Include / Exclude fields are stored exactly once each
	inc, exc := "", ""
	nInc, nExc := 0, 0
	for _, b := range fn.Blocks {
		for _, ins := range b.Instrs {
			st, ok := ins.(*ssa.Store)
			if !ok {
				continue
			}
			fa, ok := st.Addr.(*ssa.FieldAddr)
			if !ok || typeName(fa.X.Type()) != "MaskFilter" {
				continue
			}
			switch fieldName(fa.X.Type(), fa.Field) {
			case "Include":
				inc = desc(st.Val, 0)
				nInc++
			case "Exclude":
				exc = desc(st.Val, 0)
				nExc++
			}
		}
	}
	if len(fn.Blocks) != 1 || nInc != 1 || nExc != 1 {
		r.Und(name, "filter construction", p.FnPos(fn), fmt.Sprintf("the constructor is not straight-line code that sets Include and Exclude once each (blocks %d, Include stores %d, Exclude stores %d)", len(fn.Blocks), nInc, nExc))
		return
	}
	if why := check(inc, exc); why != "" {
		r.Bad(name, "filter construction", p.FnPos(fn), why)
	} else {
		r.OK(name, "filter construction", p.FnPos(fn), "Include: "+inc+", Exclude: "+exc)
	}
}

// ---------- R5 ----------

func c04r5(p *Prog, r *Reporter) {
	c, ok := p.maskContext(r)
	if !ok {
		return
	}
	sc := p.Pkgs["ecs"].Types.Scope()
	mtb, _ := sc.Lookup("MaskTotalBits").(*types.Const)
	ws, _ := sc.Lookup("wordSize").(*types.Const)
	if mtb == nil || ws == nil {
		r.Anchor("ecs.MaskTotalBits / ecs.wordSize")
		return
	}
	m, _ := constant.Int64Val(mtb.Val())
	w, _ := constant.Int64Val(ws.Val())
	r.Check(int(m) == c.words*c.width && int(w) == c.width, "ecs.Mask", "capacity constants", p.Pos(mtb.Pos()),
		fmt.Sprintf("MaskTotalBits %d = %d words × %d bits; wordSize %d", m, c.words, c.width, w))
}
