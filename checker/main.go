// archecheck: repository-specific static checker for mlange-42/arche.
//
// Driver mode:  archecheck -property C09 -tier quick|thorough
// Worker mode:  archecheck -worker -property C09 -tags tiny -goarch amd64   (prints JSON)
// Explain:      archecheck -explain /verif/evidence/violations/<file>.json
package main

import (
	"bytes"
	"crypto/sha1"
	"encoding/json"
	"flag"
	"fmt"
	"os"
	"os/exec"
	"path/filepath"
	"runtime"
	"runtime/debug"
	"sort"
	"strconv"
	"strings"
	"sync"
	"time"
)

// Obligation is one instance of a rule on one construct.
type Obligation struct {
	Rule       string `json:"rule"`
	Key        string `json:"key"` // rule|function|construct — never a line number
	Func       string `json:"func"`
	Construct  string `json:"construct"`
	Pos        string `json:"pos"`
	Status     string `json:"status"` // discharged | violated | undecided | anchor-unresolved | rule-vacuous
	Detail     string `json:"detail,omitempty"`
	Nontrivial bool   `json:"nontrivial"` // needed a path / dataflow / table argument, not mere presence
	Config     string `json:"config,omitempty"`
}

// Rule is one rule of one property.
type Rule struct {
	ID    string
	Text  string
	Floor int // minimum number of instances (obligations) expected in each configuration
	Run   func(p *Prog, r *Reporter)
}

// Reporter collects obligations of one rule in one configuration.
type Reporter struct {
	p    *Prog
	rule *Rule
	obs  []Obligation
	seen map[string]int
}

func (r *Reporter) add(fn, construct, pos, status, detail string, nontrivial bool) {
	key := r.rule.ID + "|" + fn + "|" + construct
	if i, ok := r.seen[key]; ok {
		// same construct reached twice: keep the worst
		if rank(status) > rank(r.obs[i].Status) {
			r.obs[i].Status, r.obs[i].Detail, r.obs[i].Pos = status, detail, pos
		}
		return
	}
	if r.seen == nil {
		r.seen = map[string]int{}
	}
	r.seen[key] = len(r.obs)
	r.obs = append(r.obs, Obligation{Rule: r.rule.ID, Key: key, Func: fn, Construct: construct, Pos: pos,
		Status: status, Detail: detail, Nontrivial: nontrivial, Config: r.p.Cfg.String()})
}

func (r *Reporter) OK(fn, construct, pos, detail string)   { r.add(fn, construct, pos, "discharged", detail, true) }
func (r *Reporter) OKt(fn, construct, pos, detail string)  { r.add(fn, construct, pos, "discharged", detail, false) }
func (r *Reporter) Bad(fn, construct, pos, detail string)  { r.add(fn, construct, pos, "violated", detail, true) }
func (r *Reporter) Und(fn, construct, pos, detail string)  { r.add(fn, construct, pos, "undecided", detail, true) }
func (r *Reporter) Anchor(what string)                      { r.add("-", "anchor "+what, "-", "anchor-unresolved", "anchor not found in the loaded program: "+what, false) }
func (r *Reporter) Check(ok bool, fn, construct, pos, detail string) {
	if ok {
		r.OK(fn, construct, pos, detail)
	} else {
		r.Bad(fn, construct, pos, detail)
	}
}

func rank(s string) int {
	switch s {
	case "discharged":
		return 0
	case "rule-vacuous":
		return 1
	case "undecided":
		return 2
	case "anchor-unresolved":
		return 3
	case "violated":
		return 4
	}
	return 5
}

// WorkerResult is what a worker prints.
type WorkerResult struct {
	Config      string         `json:"config"`
	Packages    int            `json:"packages"`
	Functions   int            `json:"functions"`
	CGEdges     int            `json:"cg_edges"`
	Obligations []Obligation   `json:"obligations"`
	RuleCounts  map[string]int `json:"rule_counts"`
	Error       string         `json:"error,omitempty"`
	WallS       float64        `json:"wall_s"`
}

// KnownFinding is one entry of /verif/known_findings.json.
type KnownFinding struct {
	Status   string `json:"status"` // known | fixed
	Property string `json:"property"`
	Key      string `json:"key"`
	What     string `json:"what"`
	Repro    string `json:"repro,omitempty"`
	Commit   string `json:"commit,omitempty"`
	Defect   string `json:"defect,omitempty"`
}

func verifDir() string {
	if d := os.Getenv("VERIF_DIR"); d != "" {
		return d
	}
	return "/verif"
}

func main() {
	var (
		worker   = flag.Bool("worker", false, "worker mode: analyse one configuration, print JSON")
		property = flag.String("property", "", "property id, e.g. C09")
		tier     = flag.String("tier", "quick", "quick | thorough")
		tags     = flag.String("tags", "", "worker: build tags")
		goarch   = flag.String("goarch", "amd64", "worker: GOARCH")
		explain  = flag.String("explain", "", "print a violation replay file and re-check its obligation")
		onlyKey  = flag.String("key", "", "only report obligations whose key contains this string")
		noEvid   = flag.Bool("no-evidence", false, "do not write evidence files (used by the sensitivity suite)")
		list     = flag.Bool("list", false, "list properties and rules")
		dumpSch  = flag.String("dump-schema", "", "write the reference schema of the current /repo to this file and exit")
		showAl   = flag.Bool("alignment", false, "print how the current tree was aligned with the reference schema and exit")
		dump     = flag.Bool("dump", false, "driver: print all obligations, not only the non-discharged")
	)
	flag.Parse()
	if *list {
		ids := propIDs()
		for _, id := range ids {
			for _, ru := range properties[id].Rules {
				fmt.Printf("%s  %-8s floor=%-3d %s\n", id, ru.ID, ru.Floor, firstLine(ru.Text))
			}
		}
		return
	}
	if *dumpSch != "" || *showAl {
		p, err := Load(Config{Tags: *tags, GOARCH: *goarch})
		if err != nil {
			fmt.Fprintln(os.Stderr, "load:", err)
			os.Exit(2)
		}
		if *dumpSch != "" {
			if err := dumpSchema(p, *dumpSch); err != nil {
				fmt.Fprintln(os.Stderr, err)
				os.Exit(2)
			}
			fmt.Printf("wrote %s\n", *dumpSch)
			return
		}
		if p.al == nil || len(p.al.notes) == 0 {
			fmt.Println("the current tree uses the reference names everywhere")
		}
		for _, n := range p.al.notes {
			fmt.Println(n)
		}
		return
	}
	if *explain != "" {
		os.Exit(doExplain(*explain))
	}
	if t := os.Getenv("VERIF_TIER"); t != "" && !*worker && !flagSet("tier") {
		*tier = t
	}
	prop, ok := properties[*property]
	if !ok {
		fmt.Fprintf(os.Stderr, "unknown property %q\n", *property)
		os.Exit(2)
	}
	if *worker {
		res := runWorker(prop, Config{Tags: *tags, GOARCH: *goarch})
		enc := json.NewEncoder(os.Stdout)
		enc.Encode(res)
		if res.Error != "" {
			os.Exit(2)
		}
		return
	}
	os.Exit(runDriver(prop, *tier, *onlyKey, *noEvid, *dump))
}

func flagSet(name string) bool {
	f := false
	flag.Visit(func(fl *flag.Flag) {
		if fl.Name == name {
			f = true
		}
	})
	return f
}

func firstLine(s string) string {
	if i := strings.IndexByte(s, '\n'); i >= 0 {
		return s[:i]
	}
	return s
}

func runWorker(prop *Property, cfg Config) (res WorkerResult) {
	start := time.Now()
	res.Config = cfg.String()
	res.RuleCounts = map[string]int{}
	defer func() {
		if e := recover(); e != nil {
			res.Error = fmt.Sprintf("checker panic: %v\n%s", e, debug.Stack())
		}
		res.WallS = time.Since(start).Seconds()
	}()
	p, err := Load(cfg)
	if err != nil {
		res.Error = err.Error()
		return
	}
	res.Packages = len(p.Pkgs)
	res.Functions = len(p.Funcs)
	for _, n := range p.CG.Nodes {
		res.CGEdges += len(n.Out)
	}
	for i := range prop.Rules {
		ru := &prop.Rules[i]
		if ru.Run == nil {
			continue
		}
		rep := &Reporter{p: p, rule: ru}
		ru.Run(p, rep)
		n := 0
		for _, o := range rep.obs {
			if o.Status != "anchor-unresolved" {
				n++
			}
		}
		res.RuleCounts[ru.ID] = n
		// Floor is the instance count confirmed by reading; the alarm threshold is half of it (rounded up), so that a refactoring
		// which merges duplicated sites into a helper does not trip it, while a rule that loses sight of its code (0 or a stray instance) does.
		if n < (ru.Floor+1)/2 {
			rep.add("-", "instances", "-", "rule-vacuous",
				fmt.Sprintf("rule found %d instances, fewer than half of the %d confirmed by reading: the rule no longer sees the code it is about", n, ru.Floor), false)
		}
		res.Obligations = append(res.Obligations, rep.obs...)
	}
	return
}

func configsFor(prop *Property, tier string) []Config {
	if tier == "thorough" {
		var out []Config
		for _, arch := range []string{"amd64", "386"} {
			for _, t := range []string{"", "tiny", "debug", "tiny,debug"} {
				out = append(out, Config{Tags: t, GOARCH: arch})
			}
		}
		return out
	}
	return []Config{{Tags: "", GOARCH: "amd64"}, {Tags: "tiny", GOARCH: "amd64"}}
}

func runDriver(prop *Property, tier, onlyKey string, noEvid, dump bool) int {
	start := time.Now()
	seed := 0
	if s := os.Getenv("VERIF_SEED"); s != "" {
		if v, err := strconv.Atoi(s); err == nil {
			seed = v
		}
	}
	cfgs := configsFor(prop, tier)
	results := make([]WorkerResult, len(cfgs))
	par := runtime.NumCPU() / 4
	if par < 1 {
		par = 1
	}
	if par > 4 {
		par = 4
	}
	sem := make(chan struct{}, par)
	var wg sync.WaitGroup
	self, _ := os.Executable()
	for i, c := range cfgs {
		wg.Add(1)
		go func(i int, c Config) {
			defer wg.Done()
			sem <- struct{}{}
			defer func() { <-sem }()
			cmd := exec.Command(self, "-worker", "-property", prop.ID, "-tags", c.Tags, "-goarch", c.GOARCH)
			cmd.Env = append(os.Environ(), "ARCHECHECK_TIER="+tier)
			var out, errb bytes.Buffer
			cmd.Stdout, cmd.Stderr = &out, &errb
			err := cmd.Run()
			var r WorkerResult
			if jerr := json.Unmarshal(out.Bytes(), &r); jerr != nil {
				r.Config = c.String()
				r.Error = fmt.Sprintf("worker failed: %v; stderr: %s", err, strings.TrimSpace(errb.String()))
			}
			results[i] = r
		}(i, c)
	}
	wg.Wait()

	fmt.Printf("archecheck property=%s tier=%s repo=%s\n", prop.ID, tier, repoDir())
	infra := false
	for _, r := range results {
		if r.Error != "" {
			fmt.Printf("INFRASTRUCTURE FAILURE config[%s]: %s\n", r.Config, r.Error)
			infra = true
			continue
		}
		fmt.Printf("config[%s]: %d packages, %d functions with bodies, %d call-graph edges, %d obligations, %.1fs\n",
			r.Config, r.Packages, r.Functions, r.CGEdges, len(r.Obligations), r.WallS)
	}
	if infra {
		fmt.Println("nothing is claimed: the program could not be loaded or the checker failed (exit 2)")
		return 2
	}

	// merge by key: worst status wins; remember configs
	type merged struct {
		Obligation
		Configs    []string
		BadConfigs []string
	}
	byKey := map[string]*merged{}
	var order []string
	evaluations := 0
	perRule := map[string]map[string]int{}
	for _, r := range results {
		for _, o := range r.Obligations {
			evaluations++
			m, ok := byKey[o.Key]
			if !ok {
				m = &merged{Obligation: o}
				byKey[o.Key] = m
				order = append(order, o.Key)
			} else if rank(o.Status) > rank(m.Status) {
				cf, bc := m.Configs, m.BadConfigs
				*m = merged{Obligation: o, Configs: cf, BadConfigs: bc}
			}
			m.Configs = append(m.Configs, o.Config)
			if o.Status != "discharged" {
				m.BadConfigs = append(m.BadConfigs, o.Config)
			}
		}
	}
	sort.Strings(order)

	known := loadKnown()
	knownByKey := map[string]KnownFinding{}
	for _, k := range known {
		if k.Status == "known" && k.Property == prop.ID {
			knownByKey[k.Key] = k
		}
	}

	vdir := filepath.Join(verifDir(), "evidence", "violations")
	violations := 0
	discharged := 0
	nontrivial := 0
	var samples []map[string]any
	var knownLines []string
	for _, k := range order {
		m := byKey[k]
		if perRule[m.Rule] == nil {
			perRule[m.Rule] = map[string]int{}
		}
		perRule[m.Rule][m.Status]++
		if m.Nontrivial {
			nontrivial++
		}
		if onlyKey != "" && !strings.Contains(k, onlyKey) {
			continue
		}
		if m.Status == "discharged" {
			discharged++
			if dump {
				fmt.Printf("  ok        %s  [%s] %s\n", m.Key, m.Pos, m.Detail)
			}
			continue
		}
		if kf, ok := knownByKey[k]; ok && m.Status == "violated" {
			line := fmt.Sprintf("KNOWN-FINDING: property=%s %s — %s", prop.ID, k, kf.What)
			knownLines = append(knownLines, line)
			fmt.Println(line)
			continue
		}
		violations++
		fmt.Printf("  %-9s %s\n            at %s (configs: %s)\n            %s\n", "kind="+m.Status, m.Key, m.Pos, strings.Join(uniq(m.BadConfigs), " "), m.Detail)
		path := ""
		if !noEvid {
			os.MkdirAll(vdir, 0o755)
			h := sha1.Sum([]byte(k))
			path = filepath.Join(vdir, fmt.Sprintf("%s-%x.json", prop.ID, h[:6]))
			rec := map[string]any{"property": prop.ID, "key": k, "rule": m.Rule, "kind": m.Status, "func": m.Func,
				"construct": m.Construct, "pos": m.Pos, "detail": m.Detail, "configs": uniq(m.BadConfigs), "tier": tier,
				"rule_text": ruleText(prop, m.Rule)}
			b, _ := json.MarshalIndent(rec, "", " ")
			os.WriteFile(path, b, 0o644)
		} else {
			path = "(not written)"
		}
		fmt.Printf("VIOLATION property=%s replay=%s\n", prop.ID, path)
	}
	// samples: up to 3 per rule, preferring nontrivial ones
	cnt := map[string]int{}
	for _, k := range order {
		m := byKey[k]
		if cnt[m.Rule] >= 3 {
			continue
		}
		cnt[m.Rule]++
		samples = append(samples, map[string]any{"key": m.Key, "pos": m.Pos, "status": m.Status, "detail": m.Detail})
	}

	fmt.Printf("summary property=%s: %d obligations (%d distinct constructs, %d discharged, %d known findings, %d violations) over %d configurations\n",
		prop.ID, evaluations, len(order), discharged, len(knownLines), violations, len(cfgs))
	var ruleIDs []string
	for r := range perRule {
		ruleIDs = append(ruleIDs, r)
	}
	sort.Strings(ruleIDs)
	for _, r := range ruleIDs {
		fmt.Printf("  %-8s %v   %s\n", r, perRule[r], firstLine(ruleText(prop, r)))
	}

	if !noEvid && onlyKey == "" {
		var ruleTexts []string
		for _, ru := range prop.Rules {
			ruleTexts = append(ruleTexts, ru.ID+": "+ru.Text)
		}
		var cfgNames []string
		funcs := 0
		for _, r := range results {
			cfgNames = append(cfgNames, r.Config)
			if r.Functions > funcs {
				funcs = r.Functions
			}
		}
		ev := map[string]any{
			"property_id": prop.ID,
			"tier":        tier,
			"seed":        seed,
			"level":       "other",
			"coverage": map[string]any{
				"explanation": "Static analysis of /repo's current source (go/packages + go/types + go/ssa + VTA call graph; nothing is executed). " +
					"Decided: " + prop.Decides + " NOT decided: " + prop.NotDecided,
				"rule":                "every rule instantiates obligations keyed rule|function|construct on the loaded program of each build configuration; an obligation is non-trivial when discharging it needed a path, dataflow, summary or truth-table argument rather than the mere presence of a construct",
				"evaluations":         evaluations,
				"distinct_nontrivial": nontrivial,
				"obligations":         len(order),
				"discharged":          discharged,
				"known_findings":      knownLines,
				"per_rule":            perRule,
				"rules":               ruleTexts,
				"configurations":      cfgNames,
				"functions_analysed":  funcs,
				"samples":             samples,
				"checker_cmd":         fmt.Sprintf("bin/archecheck -property %s -tier %s", prop.ID, tier),
				"trusted_base":        []string{"go/types", "go/ssa (x/tools v0.29.0)", "VTA call graph", "the rule's idiom recognisers (DESIGN.md §1.8)"},
			},
			"assumptions": prop.Assumptions,
			"wall_s":      time.Since(start).Seconds(),
			"violations":  violations,
		}
		if tier == "thorough" {
			if sb, err := os.ReadFile(filepath.Join(verifDir(), "evidence", "sensitivity", prop.ID+".json")); err == nil {
				var sv any
				if json.Unmarshal(sb, &sv) == nil {
					ev["coverage"].(map[string]any)["sensitivity"] = sv
				}
			}
		}
		b, _ := json.MarshalIndent(ev, "", " ")
		os.MkdirAll(filepath.Join(verifDir(), "evidence"), 0o755)
		if err := os.WriteFile(filepath.Join(verifDir(), "evidence", prop.ID+".json"), b, 0o644); err != nil {
			fmt.Printf("INFRASTRUCTURE FAILURE: cannot write evidence: %v\n", err)
			return 2
		}
	}
	if violations > 0 {
		return 1
	}
	return 0
}

func ruleText(prop *Property, id string) string {
	for _, r := range prop.Rules {
		if r.ID == id {
			return r.Text
		}
	}
	return ""
}

func uniq(in []string) []string {
	m := map[string]bool{}
	var out []string
	for _, s := range in {
		if !m[s] {
			m[s] = true
			out = append(out, s)
		}
	}
	sort.Strings(out)
	return out
}

func loadKnown() []KnownFinding {
	b, err := os.ReadFile(filepath.Join(verifDir(), "known_findings.json"))
	if err != nil {
		return nil
	}
	var f struct {
		Findings []KnownFinding `json:"findings"`
	}
	if err := json.Unmarshal(b, &f); err != nil {
		fmt.Printf("warning: known_findings.json does not parse: %v\n", err)
		return nil
	}
	return f.Findings
}

func doExplain(path string) int {
	b, err := os.ReadFile(path)
	if err != nil {
		fmt.Fprintln(os.Stderr, err)
		return 2
	}
	var rec map[string]any
	if err := json.Unmarshal(b, &rec); err != nil {
		fmt.Fprintln(os.Stderr, err)
		return 2
	}
	fmt.Printf("violation record %s\n", path)
	for _, k := range []string{"property", "rule", "kind", "key", "pos", "detail", "rule_text"} {
		fmt.Printf("  %-10s %v\n", k, rec[k])
	}
	id, _ := rec["property"].(string)
	key, _ := rec["key"].(string)
	tier, _ := rec["tier"].(string)
	prop, ok := properties[id]
	if !ok {
		return 2
	}
	fmt.Println("re-checking that obligation on the current tree:")
	return runDriver(prop, tier, key, true, true)
}

func propIDs() []string {
	var ids []string
	for id := range properties {
		ids = append(ids, id)
	}
	sort.Strings(ids)
	return ids
}

func init() {
	if os.Getenv("ARCHECHECK_DUMPFUNCS") != "" {
		p, err := Load(Config{GOARCH: "amd64"})
		if err != nil {
			panic(err)
		}
		for _, fn := range p.Funcs {
			fmt.Println(p.FuncName(fn), "|", fn.Synthetic)
		}
		os.Exit(0)
	}
}
