package main

import (
	"fmt"
	"go/token"
	"strings"

	"golang.org/x/tools/go/ssa"
)

func init() {
	register(&Property{
		ID: "C05",
		Decides: "every Entity argument of an exported ecs function that can become a table's relation target (key of a node's target map, a table's RelationTarget, the target flag set to true) crosses the validation `is zero or alive` (panic otherwise) on every path before it is stored, compared or used as a lookup key (R1); " +
			"the has-relation flag of a destination node is set only after the previous flag was tested false with a panic otherwise (R2); both exchange movers retain the old target, reset it under a relation-removal loop and validate an explicit relation id (R3); " +
			"the read side returns the current table's target under the relation check (R4); the IsRelation mask is written only by registration and its undo (R5); handles are never compared by id alone (R7); " +
			"a target inherited from an existing table is never subjected to the dead-target panic (R8).",
		NotDecided:  "that the reported target is the last one assigned over histories; which table an entity ends up in; behaviour of relation filters over histories.",
		Assumptions: commonAssumptions,
		Rules: []Rule{
			{ID: "C05.R1", Floor: 8, Run: c05r1, Text: "target validation (E-flow): for every exported ecs entry and every Entity / ...Entity parameter that may flow into a store-as-target, every flow passes `IsZero(v)` or `Alive(v)` (panic on the other edge) first, and the value is not compared or used as a map key before that"},
			{ID: "C05.R2", Floor: 1, Run: c05r2, Text: "one relation: where the destination node's has-relation flag becomes true, the previous flag was tested and the true edge panics"},
			{ID: "C05.R3", Floor: 6, Run: c05r3, Text: "retention/reset siblings: every mover that computes a destination from add/remove lists initialises the target from the old table's target when no relation is given, resets it to zero only under a loop over the removed ids guarded by IsRelation, and, with an explicit relation, panics unless the result mask has it and it is a relation"},
			{ID: "C05.R4", Floor: 2, Run: c05r4, Text: "read side: functions returning a table's RelationTarget for a checked API are dominated by the relation check of that same table (flag and id)"},
			{ID: "C05.R5", Floor: 2, Run: c05r5, Text: "componentRegistry.IsRelation is written only by the register method (from isRelation(tp)) and by its undo"},
			{ID: "C05.R7", Floor: 3, Run: c05r7, Text: "handle identity: two Entity values are compared as whole values (id and generation); a comparison of the id fields of two entities is a violation (id == constant is the zero test and is fine)"},
			{ID: "C05.R8", Floor: 2, Run: c05r8, Text: "retention: the dead-target panic is applied only to API-supplied targets; a value that may have been loaded from an existing table's RelationTarget never reaches an Alive test whose failing edge panics"},
			{ID: "C05.R9", Floor: 3, Run: c05r9, Text: "targets only on relation tables: at every call of a function that stores its Entity parameter into a table's RelationTarget (Init, Activate), the argument is the zero entity, or the node's HasRelation flag is known true at the call, or at every call of the enclosing function (two levels)"},
			{ID: "C05.R10", Floor: 4, Run: c03r6, Text: "Count over a relation filter sums over all matching nodes (= C03.R6): the running total is never overwritten"},
			{ID: "C05.R11", Floor: 1, Run: c05r11, Text: "target map ⇄ table target: every insert archetypeMap[K] = T is preceded on every path by a call that sets T's RelationTarget to the same K (Init or Activate of that table); every delete from the map uses the removed table's own RelationTarget as key"},
			{ID: "C05.R12", Floor: 2, Run: moversKeepDeadTargets, Text: "the target is unchanged by adding or removing other components, alive or not (= C06.R8)"},
			{ID: "C05.R13", Floor: 20, Run: flagArgsNotComputed, Text: "option flags are not computed from values: at every call of an internal function with an (ID, bool) parameter pair the bool argument is a constant, a forwarded bool parameter, a stored flag or a presence test of a variadic argument - never derived from the value (the zero ID / zero entity are valid values)"},
			{ID: "C05.R14", Floor: 2, Run: relationGuardCallee, Text: "'the table has a relation component' is Mask.ContainsAny(IsRelation) wherever a mask is tested against the set of relation types"},
			{ID: "C05.R15", Floor: 4, Run: variadicTargetForwarded, Text: "a given target is forwarded: in a method with a variadic Entity parameter, nothing reachable from the `len(target) > 0` edge calls an internal creator with its has-target flag constant false"},
			{ID: "C05.R16", Floor: 10, Run: c16r4, Text: "relation test by type identity (= C16.R4): a component is a relation exactly when its first field is the embedded marker type; a name-only test makes foreign types relations and then legal operations panic"},
			{ID: "C05.R17", Floor: 4, Run: noTargetNoRelationFlag, Text: "without a target no relation is claimed: code that runs only when no target was given never passes an (ID, flag, Entity) relation triple with a flag other than the constant false"},
			{ID: "C05.R18", Floor: 2, Run: sameTargetSkipChecked, Text: "the same-target shortcut comes after the relation check (= C10.R16)"},
			{ID: "C05.R19", Floor: 10, Run: freshRelationFilterPerCall, Text: "generic FilterN.Filter hands out a relation filter of its own for a per-call target (= C18.R22): a relation filter with target T keeps selecting the entities whose target is T"},
			{ID: "C05.R20", Floor: 6, Run: c18r10, Text: "the compiled generic filter loses no clause (= C18.R10): a filter with a fixed target keeps it through Register and Unregister"},
		},
	})
}

func c05r1(p *Prog, r *Reporter) {
	if p.Fn("ecs.(*entityPool).Alive") == nil || p.Fn("ecs.(Entity).IsZero") == nil {
		r.Anchor("ecs.(*entityPool).Alive / ecs.(Entity).IsZero")
		return
	}
	may := p.entityAnalysis(true, true)  // ignoring validation: which parameters can become targets at all
	chk := p.entityAnalysis(true, false) // with validation
	for _, e := range p.Entries("ecs") {
		for _, i := range entityParams(e) {
			ms := may.sum[e][i]
			if ms == nil || !ms.Sink {
				continue
			}
			name := p.FuncName(e)
			pn := e.Params[i].Name()
			cs := chk.sum[e][i]
			switch {
			case cs != nil && cs.Sink:
				r.Bad(name, "target parameter "+pn, p.FnPos(e), "the argument can become a relation target without passing the zero-or-alive validation: "+cs.Chain)
			case cs != nil && cs.Use:
				r.Bad(name, "target parameter "+pn, p.FnPos(e), "the argument is compared or used as a lookup key before the zero-or-alive validation: "+cs.UseAt)
			default:
				r.OK(name, "target parameter "+pn, p.FnPos(e), "every flow into a store-as-target ("+ms.Chain+") is preceded by the zero-or-alive validation")
			}
		}
	}
}

// ---------- R2 ----------

func c05r2(p *Prog, r *Reporter) {
	// functions that pass a has-relation flag to the node constructor
	mk := p.Fn("ecs.(*World).createArchetypeNode")
	if mk == nil {
		r.Anchor("ecs.(*World).createArchetypeNode")
		return
	}
	// walk callers: any function with a bool Phi that has a constant-true incoming edge and flows into
	// the hasRelation argument (last bool param) of createArchetypeNode or of a function forwarding it.
	forwards := map[*ssa.Function]int{mk: 3}
	for changed := true; changed; {
		changed = false
		for _, fn := range p.Funcs {
			if _, ok := forwards[fn]; ok {
				continue
			}
			for _, site := range callsIn(fn) {
				sc := site.Common().StaticCallee()
				idx, ok := forwards[sc]
				if sc == nil || !ok || idx >= len(site.Common().Args) {
					continue
				}
				if pr, ok := site.Common().Args[idx].(*ssa.Parameter); ok {
					forwards[fn] = paramIndex(pr)
					changed = true
				}
			}
		}
	}
	for _, fn := range p.Funcs {
		for _, site := range callsIn(fn) {
			sc := site.Common().StaticCallee()
			idx, ok := forwards[sc]
			if sc == nil || !ok || idx >= len(site.Common().Args) {
				continue
			}
			arg := site.Common().Args[idx]
			// collect phi family
			seen := map[ssa.Value]bool{}
			var fam []*ssa.Phi
			var walk func(v ssa.Value)
			walk = func(v ssa.Value) {
				if seen[v] {
					return
				}
				seen[v] = true
				if ph, ok := v.(*ssa.Phi); ok {
					fam = append(fam, ph)
					for _, e := range ph.Edges {
						walk(e)
					}
				}
			}
			walk(arg)
			for _, ph := range fam {
				for ei, e := range ph.Edges {
					cb, isC := constBool(e)
					if !isC || !cb {
						continue
					}
					from := ph.Block().Preds[ei]
					// the block where the flag is set: the nearest dominator chain must contain If(flag-family) with panic on true
					ok := false
					for d := from; d != nil; d = d.Idom() {
						id := d.Idom()
						if id == nil {
							break
						}
						atom, trueSucc, isIf := ifCond(id)
						if !isIf || !seen[atom] {
							continue
						}
						// d must be on the false side, true side panics
						if p.panicOnly(id.Succs[trueSucc]) && dominatesBlock(id.Succs[1-trueSucc], from) {
							ok = true
							break
						}
					}
					name := p.FuncName(fn)
					pos := p.Pos(posOf(from.Instrs[len(from.Instrs)-1]))
					if ok {
						r.OK(name, "has-relation flag set", pos, "the flag becomes true only on the non-panicking edge of a test of the previous flag")
					} else {
						r.Bad(name, "has-relation flag set", pos, "the has-relation flag is set to true without a dominating `if flag { panic }`: a second relation component would be accepted")
					}
				}
			}
		}
	}
}

func dominatesBlock(a, b *ssa.BasicBlock) bool {
	for x := b; x != nil; x = x.Idom() {
		if x == a {
			return true
		}
	}
	return false
}

// ---------- R3 ----------

// A "mover with add/remove lists" is discovered by effect: it calls the exchange-mask function
// (the function that panics on present/absent components) and the destination finder.
func c05r3(p *Prog, r *Reporter) {
	gem := p.Fn("ecs.(*World).getExchangeMask")
	foc := p.Fn("ecs.(*World).findOrCreateArchetype")
	if gem == nil || foc == nil {
		r.Anchor("ecs.(*World).getExchangeMask / findOrCreateArchetype")
		return
	}
	for _, fn := range p.Funcs {
		callsGem, callsFoc := false, false
		for _, site := range callsIn(fn) {
			if isCallTo(site, gem) {
				callsGem = true
			}
			if isCallTo(site, foc) {
				callsFoc = true
			}
		}
		if !callsGem || !callsFoc {
			continue
		}
		name := p.FuncName(fn)
		// facts
		var initFromOld, resetUnderLoop, panicNoComp, panicNotRel bool
		// the target cell: the Entity-typed local whose value is passed to the destination finder;
		// the mask cell: the Mask-typed local passed to the exchange-mask function
		var targetCell, maskCell *ssa.Alloc
		for _, site := range callsIn(fn) {
			if isCallTo(site, foc) {
				for _, a := range site.Common().Args {
					if u, ok := a.(*ssa.UnOp); ok && u.Op == token.MUL {
						if al, ok := u.X.(*ssa.Alloc); ok && isEntityType(deref(al.Type())) {
							targetCell = al
						}
					}
				}
			}
			if isCallTo(site, gem) {
				// the result mask: the local the call's result is stored into
				if cv, ok := site.(ssa.Value); ok && cv.Referrers() != nil {
					for _, ref := range *cv.Referrers() {
						if st, ok := ref.(*ssa.Store); ok && st.Val == cv {
							if al, ok := st.Addr.(*ssa.Alloc); ok {
								maskCell = al
							}
						}
					}
				}
				for _, a := range site.Common().Args {
					if maskCell != nil {
						break
					}
					if al, ok := a.(*ssa.Alloc); ok && typeName(deref(al.Type())) == "Mask" {
						maskCell = al
					}
					if u, ok := a.(*ssa.UnOp); ok && u.Op == token.MUL {
						if al, ok := u.X.(*ssa.Alloc); ok && typeName(deref(al.Type())) == "Mask" {
							maskCell = al
						}
					}
				}
			}
		}
		for _, b := range fn.Blocks {
			for _, ins := range b.Instrs {
				st, ok := ins.(*ssa.Store)
				if !ok || targetCell == nil || st.Addr != ssa.Value(targetCell) {
					continue
				}
				if _, fld, _, ok := loadedField(st.Val); ok && fld == "RelationTarget" {
					initFromOld = true
				}
				if c, ok := st.Val.(*ssa.Const); ok && isEntityType(c.Type()) {
					// reset to zero: must be inside a loop, guarded by IsRelation.Get(id) true edge
					if inLoop(b) && guardedByIsRelation(p, b) {
						resetUnderLoop = true
					} else {
						r.Bad(name, "target reset", p.Pos(st.Pos()), "the target is reset to zero outside a loop over removed ids guarded by IsRelation")
					}
				}
			}
			// explicit relation panics
			atom, trueSucc, isIf := ifCond(b)
			if !isIf {
				continue
			}
			call := callOf(atom)
			if call == nil || call.Common().StaticCallee() == nil || cname(call.Common().StaticCallee()) != "Get" || len(call.Common().Args) != 2 {
				continue
			}
			falseSucc := b.Succs[1-trueSucc]
			if !p.panicOnly(falseSucc) {
				continue
			}
			recv := call.Common().Args[0]
			if _, fld, _, ok := loadedField(recv); ok && fld == "IsRelation" {
				panicNotRel = true
			} else if a, ok := recv.(*ssa.Alloc); ok && (a == maskCell || maskCell == nil && typeName(deref(a.Type())) == "Mask") {
				panicNoComp = true
			}
		}
		// the target as an SSA value web (no memory cell): the value passed to the destination finder is a phi whose
		// edges are the API-supplied target, the old table's target, and the zero entity from the guarded loop
		for _, site := range callsIn(fn) {
			if !isCallTo(site, foc) {
				continue
			}
			for _, a := range site.Common().Args {
				if !isEntityType(a.Type()) {
					continue
				}
				seenPhi := map[*ssa.Phi]bool{}
				var walk func(v ssa.Value)
				walk = func(v ssa.Value) {
					ph, ok := v.(*ssa.Phi)
					if !ok || seenPhi[ph] {
						if _, fld, _, ok := loadedField(v); ok && fld == "RelationTarget" {
							initFromOld = true
						}
						return
					}
					seenPhi[ph] = true
					for i, e := range ph.Edges {
						if c, ok := e.(*ssa.Const); ok && isEntityType(c.Type()) {
							pred := ph.Block().Preds[i]
							if inLoop(pred) && guardedByIsRelation(p, pred) {
								resetUnderLoop = true
							}
							continue
						}
						walk(e)
					}
				}
				walk(a)
			}
		}
		// the target may be computed by a helper the mover calls (a function returning an Entity that the mover stores into
		// the target cell / passes on): the same four facts, in the helper's terms
		for _, site := range callsIn(fn) {
			h := site.Common().StaticCallee()
			if h == nil || !p.isArche(h) || h == gem || h == foc || h.Blocks == nil {
				continue
			}
			if h.Signature.Results().Len() != 1 || !isEntityType(h.Signature.Results().At(0).Type()) {
				continue
			}
			// the helper must see the mover's mask: a *Mask argument
			for _, b := range h.Blocks {
				for _, ins := range b.Instrs {
					// a value loaded from RelationTarget reaches a return
					if u, ok := ins.(*ssa.UnOp); ok {
						if _, fld, _, ok := loadedField(u); ok && fld == "RelationTarget" && reachesReturn(u) {
							initFromOld = true
						}
					}
					// zero entity returned / stored to the result cell inside a loop guarded by IsRelation
					if ret, ok := ins.(*ssa.Return); ok && len(ret.Results) == 1 {
						if c, ok := ret.Results[0].(*ssa.Const); ok && isEntityType(c.Type()) && inLoop(b) && guardedByIsRelation(p, b) {
							resetUnderLoop = true
						}
					}
					if st, ok := ins.(*ssa.Store); ok {
						if c, ok := st.Val.(*ssa.Const); ok && isEntityType(c.Type()) && inLoop(b) && guardedByIsRelation(p, b) {
							resetUnderLoop = true
						}
					}
				}
				atom, trueSucc, isIf := ifCond(b)
				if !isIf {
					continue
				}
				call := callOf(atom)
				if call == nil || call.Common().StaticCallee() == nil || cname(call.Common().StaticCallee()) != "Get" || len(call.Common().Args) != 2 {
					continue
				}
				if !p.panicOnly(b.Succs[1-trueSucc]) {
					continue
				}
				recv := call.Common().Args[0]
				if _, fld, _, ok := loadedField(recv); ok && fld == "IsRelation" {
					panicNotRel = true
				} else if pr, ok := recv.(*ssa.Parameter); ok && typeName(deref(pr.Type())) == "Mask" {
					// the argument for that parameter is the mover's result mask
					arg := site.Common().Args[paramIndex(pr)]
					if al, ok := arg.(*ssa.Alloc); ok && (al == maskCell || maskCell == nil) {
						panicNoComp = true
					}
				}
			}
		}
		pos := p.FnPos(fn)
		r.Check(initFromOld, name, "retain old target", pos, "without an explicit relation the target is initialised from the old table's RelationTarget")
		r.Check(resetUnderLoop, name, "reset on relation removal", pos, "the target is reset to zero under a loop over removed ids guarded by IsRelation.Get(id)")
		r.Check(panicNoComp, name, "explicit relation must be in result mask", pos, "`!mask.Get(relation)` panics")
		r.Check(panicNotRel, name, "explicit relation must be a relation", pos, "`!IsRelation.Get(relation)` panics")
	}
}

func inLoop(b *ssa.BasicBlock) bool {
	// b is in a loop iff b can reach itself
	seen := map[*ssa.BasicBlock]bool{}
	var st []*ssa.BasicBlock
	st = append(st, b.Succs...)
	for len(st) > 0 {
		x := st[len(st)-1]
		st = st[:len(st)-1]
		if x == b {
			return true
		}
		if seen[x] {
			continue
		}
		seen[x] = true
		st = append(st, x.Succs...)
	}
	// a block that breaks out of the loop is not on a cycle; accept if its unique predecessor is
	for _, pr := range b.Preds {
		if pr != b && onCycle(pr) {
			return true
		}
	}
	return false
}

func onCycle(b *ssa.BasicBlock) bool {
	seen := map[*ssa.BasicBlock]bool{}
	st := append([]*ssa.BasicBlock{}, b.Succs...)
	for len(st) > 0 {
		x := st[len(st)-1]
		st = st[:len(st)-1]
		if x == b {
			return true
		}
		if seen[x] {
			continue
		}
		seen[x] = true
		st = append(st, x.Succs...)
	}
	return false
}

// guardedByIsRelation: block b is entered only through the true edge of `IsRelation.Get(x)`.
func guardedByIsRelation(p *Prog, b *ssa.BasicBlock) bool {
	if len(b.Preds) != 1 {
		return false
	}
	pr := b.Preds[0]
	atom, trueSucc, ok := ifCond(pr)
	if !ok || pr.Succs[trueSucc] != b {
		return false
	}
	call := callOf(atom)
	if call == nil || call.Common().StaticCallee() == nil || cname(call.Common().StaticCallee()) != "Get" {
		return false
	}
	_, fld, _, ok := loadedField(call.Common().Args[0])
	return ok && fld == "IsRelation"
}

// ---------- R4 ----------

func c05r4(p *Prog, r *Reporter) {
	// exported, checked read-side API: functions named in the property's statement
	for _, q := range []struct{ name, via string }{
		{"ecs.(*Relations).Get", "ecs.(*World).getRelation"},
		{"ecs.(*Query).Relation", ""},
	} {
		fn := p.Fn(q.name)
		if fn == nil {
			r.Anchor(q.name)
			continue
		}
		target := fn
		if q.via != "" {
			// follow the single forwarding call
			if v := p.Fn(q.via); v != nil {
				target = v
			}
		}
		name := p.FuncName(target)
		// every Return whose value is a load of RelationTarget of base B must be dominated by a relation check of B
		n := 0
		for _, b := range target.Blocks {
			ret, ok := b.Instrs[len(b.Instrs)-1].(*ssa.Return)
			if !ok || len(ret.Results) != 1 {
				continue
			}
			_, fld, base, ok := loadedField(ret.Results[0])
			if !ok || fld != "RelationTarget" {
				continue
			}
			n++
			okc, why := relationChecked(p, target, ret, base)
			if okc {
				r.OK(name, "return RelationTarget", p.Pos(ret.Pos()), "the returned target is that of "+base+" and is dominated by the relation check of the same table ("+why+")")
			} else {
				r.Bad(name, "return RelationTarget", p.Pos(ret.Pos()), "the returned target of "+base+" is not dominated by a relation check (flag and id) of the same table: "+why)
			}
		}
		if n == 0 {
			r.Bad(name, "return RelationTarget", p.FnPos(target), "the function does not return a table's RelationTarget")
		}
	}
}

// relationChecked: before `at`, either an inline test (flag ∧ id == comp, panic otherwise) or a call to a
// checker function (one that panics unless its archetype argument's relation flag/id match) on the same base.
func relationChecked(p *Prog, fn *ssa.Function, at ssa.Instruction, base string) (bool, string) {
	chk := relationCheckers(p)
	mf := &MustFlow{Fn: fn,
		InstrGen: func(ins ssa.Instruction) bool {
			site, ok := ins.(ssa.CallInstruction)
			if !ok {
				return false
			}
			sc := site.Common().StaticCallee()
			if sc == nil || len(chk[sc]) == 0 {
				return false
			}
			// the checked argument must be the same table as base: compare paths modulo the access struct
			for _, rc := range chk[sc] {
				if rc.param < len(site.Common().Args) && samePathBase(apath(site.Common().Args[rc.param])+rc.suffix, base) {
					return true
				}
			}
			return false
		},
		EdgeGen: func(b *ssa.BasicBlock, k int) bool {
			return relationTestEdge(p, b, k, base)
		},
	}
	mf.Run()
	if mf.Before(at) {
		return true, "checked"
	}
	return false, "no dominating check"
}

func samePathBase(a, b string) bool {
	trim := func(s string) string {
		s = strings.TrimSuffix(s, ".archetypeAccess")
		s = strings.TrimSuffix(s, ".node")
		return s
	}
	return trim(a) == trim(b)
}

// relationTestEdge: on this edge it is known that base's relation flag is set and its id equals a parameter.
// Recognised form: a chain `!flag || id != comp → panic`, lowered to two Ifs; we require both the flag test and the id test
// to have panicking other edges and this edge to be dominated by both. Implemented as: the edge is the non-panicking
// edge of the id comparison, and the comparison block is reached only through the flag's true edge.
func relationTestEdge(p *Prog, b *ssa.BasicBlock, k int, base string) bool {
	atom, holds, ok := edgeCond(b, k)
	if !ok {
		return false
	}
	bo, isB := atom.(*ssa.BinOp)
	if !isB || (bo.Op != token.NEQ && bo.Op != token.EQL) {
		return false
	}
	if !isRelationIDRead(bo.X, base) && !isRelationIDRead(bo.Y, base) {
		return false
	}
	equalEdge := (bo.Op == token.EQL && holds) || (bo.Op == token.NEQ && !holds)
	if !equalEdge {
		return false
	}
	// flag: every predecessor path into b comes through the true edge of the flag of the same base
	return flagKnownAt(p, b, base)
}

func isRelationIDRead(v ssa.Value, base string) bool {
	pth := apath(v)
	for _, f := range []string{".RelationComponent.id", ".Relation.id"} {
		if strings.HasSuffix(pth, f) && samePathBase(strings.TrimSuffix(pth, f), base) {
			return true
		}
	}
	return false
}

func isRelationFlagRead(v ssa.Value, base string) bool {
	pth := apath(v)
	for _, f := range []string{".HasRelationComponent", ".HasRelation"} {
		if strings.HasSuffix(pth, f) && samePathBase(strings.TrimSuffix(pth, f), base) {
			return true
		}
	}
	return false
}

// flagKnownAt: block b is dominated by the true edge of the relation flag of base.
func flagKnownAt(p *Prog, b *ssa.BasicBlock, base string) bool {
	mf := &MustFlow{Fn: b.Parent(),
		EdgeGen: func(x *ssa.BasicBlock, k int) bool {
			atom, holds, ok := edgeCond(x, k)
			return ok && holds && isRelationFlagRead(atom, base)
		},
	}
	mf.Run()
	return mf.In(b)
}

// relationCheckers: functions that return normally only if their *archetype argument has the relation flag set and
// its relation id equals their ID argument (discovered by shape: an id comparison whose failing edge never returns,
// under a known flag).
type relChecker struct {
	param  int
	suffix string
}

// relationCheckers: functions without results that return normally only if the relation test (flag and id) of one of
// their parameters holds: an *archetype parameter, or the current table of a *Query parameter (its `access` field).
func relationCheckers(p *Prog) map[*ssa.Function][]relChecker {
	out := map[*ssa.Function][]relChecker{}
	for _, fn := range p.Funcs {
		if len(fn.Params) < 2 || fn.Signature.Results().Len() != 0 || fn.Blocks == nil {
			continue
		}
		for i, pr := range fn.Params {
			suffix := ""
			switch typeName(pr.Type()) {
			case "archetype":
			case "Query":
				suffix = ".access"
			default:
				continue
			}
			base := pr.Name() + suffix
			mf := &MustFlow{Fn: fn, EdgeGen: func(b *ssa.BasicBlock, k int) bool { return relationTestEdge(p, b, k, base) }}
			mf.Run()
			if mf.AtAllReturns() {
				out[fn] = append(out[fn], relChecker{i, suffix})
			}
		}
	}
	return out
}

// ---------- R5 ----------

func c05r5(p *Prog, r *Reporter) {
	reg := p.Fn("ecs.(*componentRegistry).registerComponent")
	undo := p.Fn("ecs.(*componentRegistry).unregisterLastComponent")
	if reg == nil || undo == nil {
		r.Anchor("ecs.(*componentRegistry).registerComponent / unregisterLastComponent")
		return
	}
	for _, fn := range p.Funcs {
		for _, b := range fn.Blocks {
			for _, ins := range b.Instrs {
				for _, w := range directWritesAndMaskSets(p, ins) {
					if !strings.Contains(w, "IsRelation") {
						continue
					}
					name := p.FuncName(fn)
					if fn == reg || fn == undo {
						r.OKt(name, "write IsRelation", p.Pos(posOf(ins)), "written by the register method or its undo")
					} else {
						r.Bad(name, "write IsRelation", p.Pos(posOf(ins)), "the IsRelation mask is written outside registration")
					}
				}
			}
		}
	}
	// the register method sets the bit under isRelation(tp)
	isRel := p.Fn("ecs.(*componentRegistry).isRelation")
	okc := false
	if isRel != nil {
		for _, b := range reg.Blocks {
			atom, trueSucc, isIf := ifCond(b)
			if !isIf {
				continue
			}
			if c := callOf(atom); c != nil && c.Common().StaticCallee() == isRel {
				for _, ins := range b.Succs[trueSucc].Instrs {
					for _, w := range directWritesAndMaskSets(p, ins) {
						if strings.Contains(w, "IsRelation") {
							okc = true
						}
					}
				}
			}
		}
	}
	r.Check(okc, p.FuncName(reg), "IsRelation set under isRelation(tp)", p.FnPos(reg), "the bit is set on the true edge of the type test")
}

// directWritesAndMaskSets: write paths of an instruction, including `mask.Set(...)` calls on a field (one level).
func directWritesAndMaskSets(p *Prog, ins ssa.Instruction) []string {
	var out []string
	for _, w := range directWrites(ins) {
		out = append(out, w.Path)
	}
	if site, ok := ins.(ssa.CallInstruction); ok {
		if sc := site.Common().StaticCallee(); sc != nil && typeName(recvType(sc)) == "Mask" && (cname(sc) == "Set" || cname(sc) == "Reset") {
			if pa, _, fresh, ok := addrPath(site.Common().Args[0], 0); ok && !fresh {
				out = append(out, pa)
			}
		}
	}
	return out
}

// ---------- R7: handles compared by id only ----------

func c05r7(p *Prog, r *Reporter) {
	for _, fn := range p.Funcs {
		for _, b := range fn.Blocks {
			for _, ins := range b.Instrs {
				bo, ok := ins.(*ssa.BinOp)
				if !ok || (bo.Op != token.EQL && bo.Op != token.NEQ) {
					continue
				}
				name := p.FuncName(fn)
				if isEntityType(bo.X.Type()) && isEntityType(bo.Y.Type()) {
					r.OKt(name, "compare "+apath(bo.X)+" with "+apath(bo.Y), p.Pos(bo.Pos()), "whole handles (id and generation) are compared")
					continue
				}
				ix, iy := idOf(bo.X), idOf(bo.Y)
				if ix != nil && iy != nil {
					r.Bad(name, "compare "+apath(bo.X)+" with "+apath(bo.Y), p.Pos(bo.Pos()), "two entity handles are compared by id only; a recycled id with another generation compares equal")
				}
			}
		}
	}
}

// ---------- R8: inherited targets are not validated ----------

func c05r8(p *Prog, r *Reporter) {
	alive := p.entityValidators()
	cfg := &efConfig{p: p, validators: map[*ssa.Function]int{}, validates: map[*ssa.Function]map[int]bool{},
		source: func(v ssa.Value) bool {
			_, fld, _, ok := loadedField(v)
			return ok && fld == "RelationTarget"
		}}
	for _, fn := range p.Funcs {
		// validation sites: Alive(x) whose false edge panics
		for _, b := range fn.Blocks {
			atom, trueSucc, isIf := ifCond(b)
			if !isIf {
				continue
			}
			call := callOf(atom)
			if call == nil {
				continue
			}
			sc := call.Common().StaticCallee()
			idx, isV := alive[sc]
			if sc == nil || !isV || cname(sc) == "IsZero" || idx >= len(call.Common().Args) {
				continue
			}
			if !p.panicOnly(b.Succs[1-trueSucc]) {
				continue
			}
			arg := call.Common().Args[idx]
			// is the argument possibly an inherited target at this point?
			res := cfg.runStateAt(fn, call)
			name := p.FuncName(fn)
			if res[arg] || res[originOf(arg)] {
				r.Bad(name, "dead-target panic on "+apath(arg), p.Pos(call.Pos()), "the validated value may have been loaded from an existing table's RelationTarget: moving entities that keep a dead target would panic")
			} else {
				r.OK(name, "dead-target panic on "+apath(arg), p.Pos(call.Pos()), "the validated value is API-supplied on every path reaching the test")
			}
		}
	}
}

// isTargetRole: the validated cell is a variable named target (parameter or its local copy).
func isTargetRole(v ssa.Value) bool {
	o := originOf(v)
	switch x := o.(type) {
	case *ssa.Alloc:
		return strings.Contains(strings.ToLower(x.Comment), "target")
	case *ssa.Parameter:
		return strings.Contains(strings.ToLower(x.Name()), "target")
	}
	return false
}

// runStateAt returns the dirty set just before instruction `at` (sources only, no tracked params).
func (c *efConfig) runStateAt(fn *ssa.Function, at ssa.Instruction) efState {
	// reuse run() by recording the state through a probe: run with no tracked params, then recompute the block state.
	// (small functions; recomputation is cheap)
	in := c.blockStates(fn)
	st := in[at.Block()]
	if st == nil {
		return efState{}
	}
	st = st.clone()
	for _, ins := range at.Block().Instrs {
		if ins == at {
			break
		}
		c.stepSimple(st, ins)
	}
	return st
}

func (c *efConfig) stepSimple(st efState, ins ssa.Instruction) {
	switch x := ins.(type) {
	case *ssa.Store:
		if a, ok := x.Addr.(*ssa.Alloc); ok && isEntityType(x.Val.Type()) {
			d := st[x.Val] || st[originOf(x.Val)]
			if _, isConst := x.Val.(*ssa.Const); isConst {
				d = false
			}
			if _, isParam := x.Val.(*ssa.Parameter); isParam {
				d = st[x.Val]
			}
			if d {
				st[a] = true
			} else {
				delete(st, a)
			}
		}
	case *ssa.UnOp:
		if x.Op == token.MUL && isEntityType(x.Type()) {
			if a, ok := x.X.(*ssa.Alloc); ok {
				if st[a] {
					st[x] = true
				}
			} else if c.source != nil && c.source(x) {
				st[x] = true
			}
		}
	}
}

func (c *efConfig) blockStates(fn *ssa.Function) map[*ssa.BasicBlock]efState {
	in := map[*ssa.BasicBlock]efState{fn.Blocks[0]: {}}
	work := []*ssa.BasicBlock{fn.Blocks[0]}
	outs := map[*ssa.BasicBlock]efState{}
	for len(work) > 0 {
		b := work[0]
		work = work[1:]
		st := in[b].clone()
		for _, ins := range b.Instrs {
			c.stepSimple(st, ins)
		}
		if prev, ok := outs[b]; ok && prev.equal(st) {
			continue
		}
		outs[b] = st
		for _, s := range b.Succs {
			ns := in[s]
			merged := efState{}
			if ns != nil {
				merged = ns.clone()
			}
			for v := range st {
				merged[v] = true
			}
			if ns == nil || !merged.equal(ns) {
				in[s] = merged
				work = append(work, s)
			}
		}
	}
	return in
}

var _ = fmt.Sprint

// ---------- R9: targets only on relation tables ----------

// targetSetters: methods of archetype that store an Entity parameter into RelationTarget; value: parameter index.
func targetSetters(p *Prog) map[*ssa.Function]int {
	out := map[*ssa.Function]int{}
	for _, fn := range p.Funcs {
		if typeName(recvType(fn)) != "archetype" {
			continue
		}
		for _, b := range fn.Blocks {
			for _, ins := range b.Instrs {
				st, ok := ins.(*ssa.Store)
				if !ok {
					continue
				}
				fa, ok := st.Addr.(*ssa.FieldAddr)
				if !ok || fieldName(fa.X.Type(), fa.Field) != "RelationTarget" {
					continue
				}
				v := st.Val
				if u, ok := v.(*ssa.UnOp); ok && u.Op == token.MUL {
					if al, ok := u.X.(*ssa.Alloc); ok {
						if pr := spilledParam(al); pr != nil {
							v = pr
						}
					}
				}
				if pr, ok := v.(*ssa.Parameter); ok && typeName(pr.Type()) == "Entity" {
					out[fn] = paramIndex(pr)
				}
			}
		}
	}
	return out
}

func nodeHasRelationKnown(fn *ssa.Function, at ssa.Instruction) bool {
	mf := &MustFlow{Fn: fn, EdgeGen: func(b *ssa.BasicBlock, k int) bool {
		atom, holds, ok := edgeCond(b, k)
		if !ok || !holds {
			return false
		}
		_, f, _, okf := loadedField(atom)
		return okf && f == "HasRelation"
	}}
	mf.Run()
	return mf.Before(at)
}

func c05r9(p *Prog, r *Reporter) {
	setters := targetSetters(p)
	if len(setters) == 0 {
		r.Anchor("ecs.archetype: a method storing its Entity parameter into RelationTarget")
		return
	}
	var known func(fn *ssa.Function, at ssa.Instruction, depth int) (bool, string)
	known = func(fn *ssa.Function, at ssa.Instruction, depth int) (bool, string) {
		if nodeHasRelationKnown(fn, at) {
			return true, "HasRelation known true in " + p.FuncName(fn)
		}
		if depth >= 2 {
			return false, "HasRelation is not established in " + p.FuncName(fn) + " or its callers"
		}
		callers := 0
		for _, g := range p.Funcs {
			for _, site := range callsIn(g) {
				if !isCallTo(site, fn) {
					continue
				}
				callers++
				if ok, why := known(g, site, depth+1); !ok {
					return false, why
				}
			}
		}
		if callers == 0 {
			return false, p.FuncName(fn) + " has no callers that establish HasRelation"
		}
		return true, "HasRelation known true at every call of " + p.FuncName(fn)
	}
	for _, fn := range p.Funcs {
		n := 0
		for _, site := range callsIn(fn) {
			sc := site.Common().StaticCallee()
			idx, isSetter := setters[sc]
			if sc == nil || !isSetter {
				continue
			}
			n++
			arg := site.Common().Args[idx]
			name := p.FuncName(fn)
			construct := fmt.Sprintf("target passed to %s #%d", cname(sc), n)
			if isZeroEntity(arg) {
				r.OK(name, construct, p.Pos(site.Pos()), "the zero entity")
				continue
			}
			ok, why := known(fn, site, 0)
			if ok {
				r.OK(name, construct, p.Pos(site.Pos()), why)
			} else {
				r.Bad(name, construct, p.Pos(site.Pos()), "a possibly non-zero target ("+apath(arg)+") is stored on a table whose node is not known to have a relation: "+why+". Entities moved there later would report a target they were never given")
			}
		}
	}
}

func isZeroEntity(v ssa.Value) bool {
	if c, ok := v.(*ssa.Const); ok {
		return c.Value == nil // zero value of a struct type
	}
	// load of a fresh zero-initialised local that is never stored to
	if u, ok := v.(*ssa.UnOp); ok && u.Op == token.MUL {
		if al, ok := u.X.(*ssa.Alloc); ok {
			for _, ref := range *al.Referrers() {
				if ref != ssa.Instruction(u) {
					if _, isLoad := ref.(*ssa.UnOp); !isLoad {
						return false
					}
				}
			}
			return true
		}
	}
	return false
}

// ---------- R11: target map ⇄ table target ----------

func c05r11(p *Prog, r *Reporter) {
	setters := targetSetters(p)
	for _, fn := range p.Funcs {
		name := p.FuncName(fn)
		n, nd := 0, 0
		for _, b := range fn.Blocks {
			for _, ins := range b.Instrs {
				switch x := ins.(type) {
				case *ssa.MapUpdate:
					if !strings.HasSuffix(apath(x.Map), ".archetypeMap") {
						continue
					}
					n++
					// tables the value may be
					vals := map[ssa.Value]bool{x.Value: true}
					if ph, ok := x.Value.(*ssa.Phi); ok {
						for _, e := range ph.Edges {
							vals[e] = true
						}
					}
					mf := &MustFlow{Fn: fn, InstrGen: func(i2 ssa.Instruction) bool {
						site, ok := i2.(ssa.CallInstruction)
						if !ok {
							return false
						}
						idx, isSetter := setters[site.Common().StaticCallee()]
						if !isSetter || !vals[site.Common().Args[0]] {
							return false
						}
						a := site.Common().Args[idx]
						return a == x.Key || structEq(a, x.Key, 0)
					}}
					mf.Run()
					construct := fmt.Sprintf("insert into the target map #%d", n)
					if mf.Before(x) {
						r.OK(name, construct, p.Pos(x.Pos()), "the table was initialised or activated with the same target on every path")
					} else {
						r.Bad(name, construct, p.Pos(x.Pos()), "the table registered under key "+apath(x.Key)+" was not given that target on every path: lookups by target would find a table whose entities report a different target")
					}
				case *ssa.Call:
					bi, ok := x.Call.Value.(*ssa.Builtin)
					if !ok || bi.Name() != "delete" || !strings.HasSuffix(apath(x.Call.Args[0]), ".archetypeMap") {
						continue
					}
					nd++
					construct := fmt.Sprintf("delete from the target map #%d", nd)
					_, f, _, okf := loadedField(x.Call.Args[1])
					r.Check(okf && f == "RelationTarget", name, construct, p.Pos(x.Pos()), "the key is the removed table's RelationTarget ("+apath(x.Call.Args[1])+")")
				}
			}
		}
	}
}

// reachesReturn: the value flows (through phis, loads/stores of local cells) into a Return of its function.
func reachesReturn(v ssa.Value) bool {
	seen := map[ssa.Value]bool{}
	var walk func(x ssa.Value) bool
	walk = func(x ssa.Value) bool {
		if seen[x] || x.Referrers() == nil {
			return false
		}
		seen[x] = true
		for _, ref := range *x.Referrers() {
			switch y := ref.(type) {
			case *ssa.Return:
				return true
			case *ssa.Phi:
				if walk(y) {
					return true
				}
			case *ssa.Store:
				if al, ok := y.Addr.(*ssa.Alloc); ok && y.Val == x {
					for _, r2 := range *al.Referrers() {
						if ld, ok := r2.(*ssa.UnOp); ok && walk(ld) {
							return true
						}
					}
				}
			}
		}
		return false
	}
	return walk(v)
}
