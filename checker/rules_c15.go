package main

import (
	"fmt"
	"go/token"
	"go/types"
	"sort"
	"strings"

	"golang.org/x/tools/go/ssa"
)

func init() {
	register(&Property{
		ID: "C15",
		Decides: "Reset writes every piece of run state: for World and each nested state struct (entity pool, lock mask, lock-bit pool, resources, target bit set) every field that any non-constructor, non-reset function may write is also written by World.Reset (transitively), or is in the short keep-list with its reason (R1); Reset tests the lock before its first write (R2); node reset retires relation tables with all co-updates and zeroes what it empties (R3); the cache's list/position bookkeeping survives reset cycles (R4); element-wise resets range over the whole slice (R5).",
		NotDecided:  "behavioural equivalence of a reset world with a fresh one (handle sequences, query results, events).",
		Assumptions: append([]string{"the keep-list in checker/rules_c15.go is right: listener, registry, filter cache, graph containers and resource registry are kept by contract; stats are recomputed on read; bitPool.bits is dead while length = available = 0"}, commonAssumptions...),
		Rules: []Rule{
			{ID: "C15.R1", Floor: 10, Run: c15r1, Text: "reset coverage (E-mod): run state of T = fields of T that some function outside constructors and the reset chain may write; World.Reset's transitive mod-set must contain every run-state field of World, entityPool, lockMask, bitPool, Resources and bitSet, except the named keep-list"},
			{ID: "C15.R2", Floor: 2, Run: c15r2, Text: "guard first (= C09.R1 for Reset): every structural write of World.Reset is preceded by the lock test"},
			{ID: "C15.R3", Floor: 8, Run: c15r3, Text: "node reset: retire co-updates (= C06.R2) and shrink ⇒ zero (= C06.R3) hold for the functions Reset reaches"},
			{ID: "C15.R4", Floor: 4, Run: c07r2, Text: "cache list ⇄ position bookkeeping (= C07.R2): needed because Reset re-issues entity handles, so tables are added for a target after one was removed"},
			{ID: "C15.R5", Floor: 2, Run: c15r5, Text: "element-wise reset loops in the reset chain range over the whole slice they clear (index from 0, bound len of the same slice)"},
			{ID: "C15.R6", Floor: 8, Run: c03r3, Text: "table selection by activity, not by length (= C03.R3): after Reset tables exist but are empty; filters registered then must still receive them"},
			{ID: "C15.R7", Floor: 6, Run: resetMustWrite, Text: "reset on every path: each run-state field that Reset resets (R1) is written on every path of Reset to a normal return (must-flow over Reset; inside callees the write is may)"},
			{ID: "C15.R8", Floor: 1, Run: resourceTableSizedOnce, Text: "the resource table is sized once: Resources.resources is assigned only by the constructor; reset clears elements in place"},
			{ID: "C15.R9", Floor: 1, Run: deactivateOnlyOnRetire, Text: "a table is marked inactive only by the retiring method (which also removes it from the target map and pushes its slot to the free list) (Reset keeps zero-target tables active)"},
			{ID: "C15.R10", Floor: 1, Run: resetNoPreconditionPanics, Text: "Reset cannot fail on state: after its lock test World.Reset reaches no explicit panic other than container invariants (call graph)"},
			{ID: "C15.R11", Floor: 2, Run: c01r9, Text: "graph edges are installed in symmetric pairs on the node they start from (= C01.R9): the graph survives Reset"},
			{ID: "C15.R12", Floor: 1, Run: nodeResetCoversTables, Text: "node reset treats every active table: each iteration of the table loop in archNode.Reset resets or retires its table unless the table is known inactive"},
		},
	})
}

type stateType struct {
	name string // type name
	at   string // path prefix inside World ("" for World itself)
}

var resetTypes = []stateType{
	{"World", "World"},
	{"entityPool", "World.entityPool"},
	{"lockMask", "World.locks"},
	{"bitPool", "World.locks.bitPool"},
	{"Resources", "World.resources"},
	{"bitSet", "World.targetEntities"},
}

// keep-list: run-state fields Reset deliberately does not write.
var resetKeep = map[string]string{
	"World.listener":      "the installed listener is kept by contract",
	"World.registry":      "component ids stay valid across Reset",
	"World.filterCache":   "registered filters stay registered; their table lists are maintained through removeArchetype (C15.R3/R4)",
	"World.nodes":         "graph container: nodes are kept and reset one by one",
	"World.nodeData":      "graph container",
	"World.archetypes":    "graph container: tables are kept and emptied",
	"World.archetypeData": "graph container",
	"World.nodePointers":  "graph container",
	"World.relationNodes": "graph container",
	"World.stats":         "recomputed on every Stats() call",
	"World.config":        "configuration",
	"bitPool.bits":        "dead while length = available = 0: getNew rewrites bits[length] before it is read",
	"Resources.registry":  "resource ids stay valid across Reset",
	"World.resources":     "covered field-wise through type Resources",
	"World.entityPool":    "covered field-wise through type entityPool",
	"World.locks":         "covered field-wise through type lockMask",
	"lockMask.bitPool":    "covered field-wise through type bitPool",
	"World.targetEntities": "covered field-wise through type bitSet",
}

// fields that Reset must leave alone (ids, registrations and the listener stay valid across Reset)
var resetMustKeep = map[string]bool{"World.listener": true, "World.registry": true, "Resources.registry": true}

func isConstructorName(n string) bool {
	return strings.HasPrefix(n, "new") || strings.HasPrefix(n, "New") || n == "fromConfig" || n == "init"
}

func c15r1(p *Prog, r *Reporter) {
	reset := p.Fn("ecs.(*World).Reset")
	if reset == nil {
		r.Anchor("ecs.(*World).Reset")
		return
	}
	// reset chain: functions reachable from Reset by static calls
	chain := map[*ssa.Function]bool{reset: true}
	for changed := true; changed; {
		changed = false
		for fn := range chain {
			for _, site := range callsIn(fn) {
				callees, _ := p.Callees(site)
				for _, c := range callees {
					if p.isArche(c) && !chain[c] {
						chain[c] = true
						changed = true
					}
				}
			}
		}
	}
	resetPaths := p.Mod(reset).Paths()
	c15r1keep(p, r, resetPaths)
	for _, st := range resetTypes {
		n := p.Named("ecs." + st.name)
		if n == nil {
			r.Anchor("ecs." + st.name)
			continue
		}
		stt, _ := n.Underlying().(*types.Struct)
		// run state: field → example writer
		run := map[string]string{}
		for _, fn := range p.Funcs {
			if chain[fn] && fn != reset || fn == reset {
				continue
			}
			if isConstructorName(cname(fn)) && fn.Signature.Recv() == nil {
				continue
			}
			// only functions that work on a T they did not create: methods of T, or functions with a *T / *World parameter
			for _, pa := range p.Mod(fn).Paths() {
				if !strings.HasPrefix(pa, st.name+".") {
					continue
				}
				f := firstField(pa[len(st.name)+1:])
				if _, ok := run[f]; !ok {
					run[f] = p.FuncName(fn)
				}
			}
		}
		for i := 0; i < stt.NumFields(); i++ {
			f := fieldName(n, i)
			key := st.name + "." + f
			writer, isRun := run[f]
			if !isRun {
				continue // written only by constructors / reset: configuration
			}
			if why, ok := resetKeep[key]; ok {
				r.OKt("ecs.(*World).Reset", "keeps "+key, p.Pos(stt.Field(i).Pos()), "run state (written by "+writer+") deliberately kept: "+why)
				continue
			}
			want := st.at + "." + f
			found := ""
			for _, rp := range resetPaths {
				if rp == want || strings.HasPrefix(rp, want+".") || strings.HasPrefix(rp, want+"[") || strings.HasPrefix(rp, want+"{") {
					found = rp
					break
				}
			}
			// a struct that only groups fields which are kept when they sit in the owner directly
			groupsKept := false
			if gs, ok := stt.Field(i).Type().Underlying().(*types.Struct); ok && gs.NumFields() > 0 && found == "" {
				groupsKept = true
				for j := 0; j < gs.NumFields(); j++ {
					if _, kept := resetKeep[st.name+"."+fieldName(stt.Field(i).Type(), j)]; !kept {
						groupsKept = false
					}
				}
			}
			if groupsKept {
				r.OKt("ecs.(*World).Reset", "keeps "+key, p.Pos(stt.Field(i).Pos()), "run state (written by "+writer+") deliberately kept: a struct grouping fields of the keep-list")
			} else if found != "" {
				r.OK("ecs.(*World).Reset", "resets "+key, p.Pos(stt.Field(i).Pos()), "run state (written by "+writer+"); Reset's mod-set contains "+found)
			} else {
				r.Bad("ecs.(*World).Reset", "resets "+key, p.Pos(stt.Field(i).Pos()), "the field is run state (written by "+writer+") but World.Reset never writes it and it is not on the keep-list: a reset world would not behave like a fresh one")
			}
		}
	}
}

// must-keep: state that stays valid across Reset by contract must not be in Reset's mod-set at all
func c15r1keep(p *Prog, r *Reporter, resetPaths []string) {
	at := map[string]string{}
	for _, st := range resetTypes {
		at[st.name] = st.at
	}
	var keys []string
	for k := range resetMustKeep {
		keys = append(keys, k)
	}
	sort.Strings(keys)
	for _, key := range keys {
		i := strings.Index(key, ".")
		fv := p.Field("ecs." + key)
		if fv == nil {
			r.Anchor("ecs." + key)
			continue
		}
		want := at[key[:i]] + "." + key[i+1:]
		touched := ""
		for _, rp := range resetPaths {
			if rp == want || strings.HasPrefix(rp, want+".") || strings.HasPrefix(rp, want+"[") || strings.HasPrefix(rp, want+"{") {
				touched = rp
			}
		}
		pos := p.Pos(fv.Pos())
		if touched != "" {
			r.Bad("ecs.(*World).Reset", "leaves "+key+" alone", pos, "Reset writes "+touched+", but this state is kept by contract ("+resetKeep[key]+"): ids and registrations obtained before the reset would go stale")
		} else {
			r.OK("ecs.(*World).Reset", "leaves "+key+" alone", pos, "kept by contract and not in Reset's mod-set: "+resetKeep[key])
		}
	}
}

func firstField(s string) string {
	for i, c := range s {
		if c == '.' || c == '[' || c == '{' {
			return s[:i]
		}
	}
	return s
}

func c15r2(p *Prog, r *Reporter) {
	tmp := &Reporter{p: p, rule: r.rule}
	c09r1(p, tmp)
	for _, o := range tmp.obs {
		if o.Func == "ecs.(*World).Reset" {
			r.add(o.Func, o.Construct, o.Pos, o.Status, o.Detail, o.Nontrivial)
		}
	}
}

func c15r3(p *Prog, r *Reporter) {
	c06r2(p, r)
	c06r3(p, r)
}

// R5: in the reset chain, stores into slice elements inside a loop must belong to a full range loop over that slice.
func c15r5(p *Prog, r *Reporter) {
	reset := p.Fn("ecs.(*World).Reset")
	if reset == nil {
		r.Anchor("ecs.(*World).Reset")
		return
	}
	chain := map[*ssa.Function]bool{reset: true}
	for changed := true; changed; {
		changed = false
		for fn := range chain {
			for _, site := range callsIn(fn) {
				if sc := site.Common().StaticCallee(); sc != nil && p.isArche(sc) && !chain[sc] {
					chain[sc] = true
					changed = true
				}
			}
		}
	}
	var fns []*ssa.Function
	for fn := range chain {
		fns = append(fns, fn)
	}
	sort.Slice(fns, func(i, j int) bool { return p.FuncName(fns[i]) < p.FuncName(fns[j]) })
	for _, fn := range fns {
		// only resetters proper: functions named Reset/reset
		if !strings.EqualFold(cname(fn), "reset") {
			continue
		}
		for _, b := range fn.Blocks {
			for _, ins := range b.Instrs {
				// clear(s) of a whole slice is the same reset written with the builtin
				if c, ok := ins.(*ssa.Call); ok {
					if bi, ok := c.Call.Value.(*ssa.Builtin); ok && bi.Name() == "clear" && len(c.Call.Args) == 1 {
						if _, isSlice := c.Call.Args[0].Type().Underlying().(*types.Slice); isSlice {
							if _, resliced := c.Call.Args[0].(*ssa.Slice); !resliced {
								r.OK(p.FuncName(fn), "clears elements of "+apath(c.Call.Args[0]), p.Pos(c.Pos()), "clear() of the whole slice")
							} else {
								r.Bad(p.FuncName(fn), "clears elements of "+apath(c.Call.Args[0]), p.Pos(c.Pos()), "element-wise reset does not provably cover the whole slice: clear() of a re-sliced part")
							}
						}
					}
					continue
				}
				st, ok := ins.(*ssa.Store)
				if !ok {
					continue
				}
				ia, ok := st.Addr.(*ssa.IndexAddr)
				if !ok || !inLoop(b) {
					continue
				}
				if _, isSlice := ia.X.Type().Underlying().(*types.Slice); !isSlice {
					continue
				}
				okc, why := fullRangeIndex(ia)
				name := p.FuncName(fn)
				construct := "clears elements of " + apath(ia.X)
				if okc {
					r.OK(name, construct, p.Pos(st.Pos()), "the loop index runs from 0 to len of the same slice")
				} else {
					r.Bad(name, construct, p.Pos(st.Pos()), "element-wise reset does not provably cover the whole slice: "+why)
				}
			}
		}
	}
}

// fullRangeIndex: the index of ia is the induction variable of `for i := range s` / `for i := 0; i < len(s); i++` over the same slice.
func fullRangeIndex(ia *ssa.IndexAddr) (bool, string) {
	idx := ia.Index
	// range form: idx = phi + 1, phi = [-1, idx]; cond idx < len(s)
	var phi *ssa.Phi
	var inc ssa.Value
	switch x := idx.(type) {
	case *ssa.BinOp:
		if x.Op == token.ADD && isConstInt(x.Y, 1) {
			if ph, ok := x.X.(*ssa.Phi); ok {
				phi, inc = ph, x
			}
		}
	case *ssa.Phi:
		phi = x
	}
	if phi == nil {
		return false, "index is not a loop induction variable"
	}
	startOK := false
	for _, e := range phi.Edges {
		if inc != nil && isConstInt(e, -1) {
			startOK = true
		}
		if inc == nil && isConstInt(e, 0) {
			startOK = true
		}
	}
	if !startOK {
		return false, "the loop does not start at index 0"
	}
	// the loop condition
	var cmpVal ssa.Value = idx
	for _, ref := range *cmpVal.Referrers() {
		bo, ok := ref.(*ssa.BinOp)
		if !ok || bo.Op != token.LSS || bo.X != cmpVal {
			continue
		}
		c := callOf(bo.Y)
		if c == nil {
			return false, "the loop bound is " + apath(bo.Y) + ", not len of the slice"
		}
		if bi, ok := c.Call.Value.(*ssa.Builtin); !ok || bi.Name() != "len" {
			return false, "the loop bound is not len(...)"
		}
		if apath(c.Call.Args[0]) != apath(ia.X) {
			return false, "the loop bound is the length of a different slice"
		}
		return true, ""
	}
	return false, "no `index < len(slice)` loop condition found"
}

var _ = fmt.Sprint
