package main

import (
	"strings"

	"golang.org/x/tools/go/ssa"
)

func init() {
	register(&Property{
		ID: "C20",
		Decides: "a value that may be an empty resource slot is type-asserted only in comma-ok form or under a nil test (R1); the resource slots are written only by Add, Remove and the reset reached from World.Reset, and no resource function reaches a lock test or writes entity/table/component-registry state (R2); resource functions use the resource registry, component functions the component registry (R3 = C16.R5); slot writes are under their nil tests (R4 = C10.U2); Get and Has read the slot addressed by the same id (R5); reset clears every slot (R6 = C15.R5).",
		NotDecided:  "pointer identity over histories (follows from the single slot write in Add, but is not decided); behaviour with 256 resource types beyond the limit guard.",
		Assumptions: commonAssumptions,
		Rules: []Rule{
			{ID: "C20.R1", Floor: 2, Run: c20r1, Text: "nil-safe access: every type assertion on a value returned by Resources.Get is in comma-ok form or dominated by a nil test of that value"},
			{ID: "C20.R2", Floor: 8, Run: c20r2, Text: "who-writes / independence: Resources.resources is written only by Add, Remove, reset; reset is called only from World.Reset; no exported resource function (Resources.*, ResourceID, ResourceTypeID, ResourceIDs, ResourceType, AddResource, GetResource, generic Resource.*) reaches a lock test or a write to entity, table or component-registry state"},
			{ID: "C20.R3", Floor: 4, Run: c16r5, Text: "registry separation (= C16.R5)"},
			{ID: "C20.R4", Floor: 2, Run: c10u2, Text: "strict add/remove (= C10.U2): slot writes are dominated by the slot's nil test with panic on the other edge"},
			{ID: "C20.R5", Floor: 2, Run: c20r5, Text: "Get returns and Has tests the slot resources[id.id] of the same id parameter"},
			{ID: "C20.R6", Floor: 1, Run: c20r6, Text: "reset clears every slot (= C15.R5 for Resources)"},
			{ID: "C20.R7", Floor: 1, Run: c20r7, Text: "resource ids survive Reset (= C15.R1 keep rule): World.Reset's mod-set does not contain Resources.registry"},
			{ID: "C20.R8", Floor: 2, Run: typeParamReflection, Text: "reflection of type parameters: reflect.TypeOf is never applied to a value of bare type-parameter type (nil for interface type arguments, so distinct types collapse into one registry key); the idiom reflect.TypeOf((*T)(nil)).Elem() is followed by Elem()"},
			{ID: "C20.R9", Floor: 10, Run: mapperStateless, Text: "the resource mapper holds no copy of the resource pointer (= C18.R12): Get returns the world's current pointer after removal or replacement through any route"},
			{ID: "C20.R10", Floor: 4, Run: mapperDelegates, Text: "delegation (= C18.R13)"},
			{ID: "C20.R11", Floor: 1, Run: resourceTableSizedOnce, Text: "the resource table is sized once (= C15.R8): resource ids registered after a Reset stay inside it"},
			{ID: "C20.R12", Floor: 2, Run: typeArgPassedThrough, Text: "TypeID / ResourceTypeID hand the reflect.Type they were given to the registry unchanged (T and *T are different types)"},
			{ID: "C20.R13", Floor: 1, Run: resetNoPreconditionPanics, Text: "Reset cannot fail on state (= C15.R10): resetting resources does not depend on which resources are present"},
			{ID: "C20.R14", Floor: 1, Run: resourceTableSize, Text: "the resource table has exactly MaskTotalBits slots"},
			{ID: "C20.R15", Floor: 3, Run: noWritesThroughResources, Text: "resource objects are only stored and handed out (= C19.R6): Get returns the exact pointer with its contents untouched"},
		},
	})
}

func c20r1(p *Prog, r *Reporter) {
	get := p.Fn("ecs.(*Resources).Get")
	if get == nil {
		r.Anchor("ecs.(*Resources).Get")
		return
	}
	for _, fn := range p.Funcs {
		for _, b := range fn.Blocks {
			for _, ins := range b.Instrs {
				ta, ok := ins.(*ssa.TypeAssert)
				if !ok {
					continue
				}
				c := callOf(ta.X)
				if c == nil || !isCallTo(c, get) {
					continue
				}
				name := p.FuncName(fn)
				if ta.CommaOk {
					r.OK(name, "assert resource value", p.Pos(ta.Pos()), "comma-ok form: an absent resource yields nil")
					continue
				}
				nn := &MustFlow{Fn: fn, EdgeGen: func(x *ssa.BasicBlock, k int) bool { return nonNilEdge(x, k, ta.X) }}
				nn.Run()
				if nn.Before(ta) {
					r.OK(name, "assert resource value", p.Pos(ta.Pos()), "dominated by a nil test of the slot value")
				} else {
					r.Bad(name, "assert resource value", p.Pos(ta.Pos()), "single-result type assertion on a possibly empty resource slot: Get of an absent resource panics instead of returning nil")
				}
			}
		}
	}
}

func isResourceEntry(p *Prog, fn *ssa.Function) bool {
	n := p.FuncName(fn)
	if typeName(recvType(fn)) == "Resources" || typeName(recvType(fn)) == "Resource" {
		return true
	}
	for _, s := range []string{"ecs.ResourceID", "ecs.ResourceTypeID", "ecs.ResourceIDs", "ecs.ResourceType", "ecs.AddResource", "ecs.GetResource", "generic.NewResource"} {
		if n == s {
			return true
		}
	}
	return false
}

func c20r2(p *Prog, r *Reporter) {
	reset := p.Fn("ecs.(*Resources).reset")
	wreset := p.Fn("ecs.(*World).Reset")
	if reset == nil || wreset == nil {
		r.Anchor("ecs.(*Resources).reset / ecs.(*World).Reset")
		return
	}
	// writers of the slots
	for _, fn := range p.Funcs {
		for _, b := range fn.Blocks {
			for _, ins := range b.Instrs {
				for _, w := range directWrites(ins) {
					if !strings.HasPrefix(w.Path, "Resources.resources") && !strings.HasPrefix(w.Path, "World.resources.resources") {
						continue
					}
					name := p.FuncName(fn)
					okc := typeName(recvType(fn)) == "Resources" && (cname(fn) == "Add" || cname(fn) == "Remove" || cname(fn) == "reset") || cname(fn) == "newResources"
					r.Check(okc, name, "write "+w.Path, p.Pos(w.Pos), "resource slots are written only by Add, Remove, reset and the constructor")
				}
			}
		}
	}
	for _, cf := range p.Funcs {
		for _, site := range callsIn(cf) {
			if isCallTo(site, reset) {
				r.Check(cf == wreset, p.FuncName(cf), "calls Resources.reset", p.Pos(site.Pos()), "only World.Reset clears the resources")
			}
		}
	}
	// independence
	lockTests := p.lockTestFns()
	reachesLockTest := map[*ssa.Function]bool{}
	for f := range lockTests {
		reachesLockTest[f] = true
	}
	for changed := true; changed; {
		changed = false
		for _, fn := range p.Funcs {
			if reachesLockTest[fn] {
				continue
			}
			for _, site := range callsIn(fn) {
				callees, boundary := p.Callees(site)
				if boundary {
					continue
				}
				for _, c := range callees {
					if reachesLockTest[c] {
						reachesLockTest[fn] = true
						changed = true
					}
				}
			}
		}
	}
	for _, pkg := range []string{"ecs", "generic"} {
		for _, e := range p.Entries(pkg) {
			if !isResourceEntry(p, e) {
				continue
			}
			name := p.FuncName(e)
			bad := ""
			if reachesLockTest[e] {
				bad = "reaches a world-lock test"
			}
			for _, pa := range p.Mod(e).Paths() {
				if isStructural(pa) {
					bad = "may write " + pa
				}
			}
			if bad == "" {
				r.OK(name, "independent of lock and entity state", p.FnPos(e), "reaches no lock test and writes no entity, table or component-registry state")
			} else {
				r.Bad(name, "independent of lock and entity state", p.FnPos(e), "a resource operation "+bad+": resources must work independently of entity operations and world locking")
			}
		}
	}
}

func c20r5(p *Prog, r *Reporter) {
	for _, n := range []string{"ecs.(*Resources).Get", "ecs.(*Resources).Has"} {
		fn := p.Fn(n)
		if fn == nil {
			r.Anchor(n)
			continue
		}
		okc := false
		for _, b := range fn.Blocks {
			for _, ins := range b.Instrs {
				if ia, ok := ins.(*ssa.IndexAddr); ok {
					if _, f, _, ok := loadedField(ia.X); ok && f == "resources" {
						if strings.HasSuffix(apath(ia.Index), "id.id") || apath(stripConvs(ia.Index)) == "id.id" {
							okc = true
						}
					}
				}
			}
		}
		r.Check(okc, n, "reads slot resources[id.id]", p.FnPos(fn), "the slot is addressed by the id parameter")
	}
}

func c20r6(p *Prog, r *Reporter) {
	tmp := &Reporter{p: p, rule: r.rule}
	c15r5(p, tmp)
	for _, o := range tmp.obs {
		if strings.Contains(o.Func, "Resources") {
			r.add(o.Func, o.Construct, o.Pos, o.Status, o.Detail, o.Nontrivial)
		}
	}
}

func c20r7(p *Prog, r *Reporter) {
	reset := p.Fn("ecs.(*World).Reset")
	if reset == nil {
		r.Anchor("ecs.(*World).Reset")
		return
	}
	tmp := &Reporter{p: p, rule: r.rule}
	c15r1keep(p, tmp, p.Mod(reset).Paths())
	for _, o := range tmp.obs {
		if strings.Contains(o.Construct, "Resources.registry") || o.Status == "anchor-unresolved" {
			r.add(o.Func, o.Construct, o.Pos, o.Status, o.Detail, o.Nontrivial)
		}
	}
}
