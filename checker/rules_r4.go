package main

// Rules added after the fourth round of seeded changes.

import (
	"fmt"
	"go/constant"
	"go/token"
	"go/types"
	"sort"
	"strings"

	"golang.org/x/tools/go/ssa"
)

// ---------- quotient / remainder pairs ----------

// divModPairs: where one value is both divided by a constant and reduced modulo a constant in the same function
// (two-level addressing: chunk / slot, word / bit, page / offset), the two constants are the same; for the
// shift/mask spelling the mask is 2^k-1.
func divModPairs(p *Prog, r *Reporter) {
	for _, fn := range p.Funcs {
		if fn.Pkg == nil && fn.Origin() == nil {
			continue
		}
		if len(fn.TypeArgs()) > 0 {
			continue // instantiations repeat their origin
		}
		type use struct {
			x   ssa.Value
			c   int64
			pos token.Pos
		}
		var quos, rems []use
		for _, b := range fn.Blocks {
			for _, ins := range b.Instrs {
				bo, ok := ins.(*ssa.BinOp)
				if !ok {
					continue
				}
				c, isC := constInt64(bo.Y)
				if !isC {
					continue
				}
				switch bo.Op {
				case token.QUO:
					quos = append(quos, use{bo.X, c, bo.Pos()})
				case token.SHR:
					quos = append(quos, use{bo.X, 1 << uint(c), bo.Pos()})
				case token.REM:
					rems = append(rems, use{bo.X, c, bo.Pos()})
				case token.AND:
					// x & (2^k - 1)
					if c > 0 && (c+1)&c == 0 {
						rems = append(rems, use{bo.X, c + 1, bo.Pos()})
					}
				}
			}
		}
		n := 0
		seen := map[string]bool{}
		for _, q := range quos {
			for _, m := range rems {
				if !(q.x == m.x || structEq(stripConvs(q.x), stripConvs(m.x), 0)) {
					continue
				}
				k := fmt.Sprintf("%d/%d", q.c, m.c)
				if seen[k] {
					continue
				}
				seen[k] = true
				n++
				construct := fmt.Sprintf("quotient/remainder pair #%d of %s", n, exprString(q.x))
				if q.c == m.c {
					r.OK(p.FuncName(fn), construct, p.Pos(m.pos), fmt.Sprintf("both by %d", q.c))
				} else {
					r.Bad(p.FuncName(fn), construct, p.Pos(m.pos), fmt.Sprintf("the value is divided by %d but reduced modulo %d: the two levels of the address do not tile the index space (some slots are shared, others never used)", q.c, m.c))
				}
			}
		}
	}
}

// ---------- storage pointer returned ----------

// setReturnsStorage: archetype methods that write a component and return an unsafe.Pointer return the pointer into
// the column storage, never the caller's source pointer.
func setReturnsStorage(p *Prog, r *Reporter) {
	for _, fn := range p.Funcs {
		if typeName(recvType(fn)) != "archetype" || fn.Signature.Results().Len() != 1 {
			continue
		}
		if relType(fn.Signature.Results().At(0).Type()) != "unsafe.Pointer" {
			continue
		}
		writes := false
		for _, site := range callsIn(fn) {
			if sc := site.Common().StaticCallee(); sc != nil && p.rawCopyPrimitives()[sc] {
				writes = true
			}
		}
		if !writes {
			continue
		}
		n := 0
		for _, b := range fn.Blocks {
			ret, ok := b.Instrs[len(b.Instrs)-1].(*ssa.Return)
			if !ok || !reachable(b) {
				continue
			}
			n++
			kind, desc := classifyPointer(ret.Results[0])
			okc := kind == "storage" || strings.Contains(desc, "result of Get") || strings.Contains(desc, "layout.pointer")
			r.Check(okc, p.FuncName(fn), fmt.Sprintf("return #%d is the assigned memory", n), p.Pos(ret.Pos()), "the returned pointer is "+desc+"; the documented result is the pointer to the assigned memory in the table")
		}
	}
}

// ---------- dump copies pool entries verbatim ----------

func dumpVerbatim(p *Prog, r *Reporter) {
	dump := p.Fn("ecs.(*World).DumpEntities")
	if dump == nil {
		r.Anchor("ecs.(*World).DumpEntities")
		return
	}
	name := p.FuncName(dump)
	isPoolEntities := func(v ssa.Value) bool {
		if sl, ok := v.(*ssa.Slice); ok {
			v = sl.X
		}
		o, f, _, ok := loadedField(v)
		return ok && o == "entityPool" && f == "entities"
	}
	n := 0
	for _, b := range dump.Blocks {
		for _, ins := range b.Instrs {
			st, ok := ins.(*ssa.Store)
			if !ok {
				continue
			}
			fa, ok := st.Addr.(*ssa.FieldAddr)
			if !ok || typeName(fa.X.Type()) != "EntityDump" || fieldName(fa.X.Type(), fa.Field) != "Entities" {
				continue
			}
			n++
			// the stored slice: append(fresh, pool.entities...) / make + copy(dst, pool.entities) / slices.Clone(pool.entities)
			okc, why := false, "the entity list of the dump is not a bulk copy of the pool's entries"
			v := st.Val
			if u, ok := v.(*ssa.UnOp); ok && u.Op == token.MUL {
				if al, ok := u.X.(*ssa.Alloc); ok {
					for _, ref := range *al.Referrers() {
						if s2, ok := ref.(*ssa.Store); ok && s2.Addr == ssa.Value(al) {
							v = s2.Val
						}
					}
				}
			}
			if c := callOf(v); c != nil {
				if bi, ok := c.Call.Value.(*ssa.Builtin); ok && bi.Name() == "append" && len(c.Call.Args) == 2 && isPoolEntities(c.Call.Args[1]) {
					okc = true
				}
				if sc := c.Call.StaticCallee(); sc != nil && sc.Pkg != nil && sc.Pkg.Pkg.Path() == "slices" && strings.HasPrefix(sc.Name(), "Clone") && isPoolEntities(c.Call.Args[0]) {
					okc = true
				}
			}
			if _, isMk := v.(*ssa.MakeSlice); isMk {
				// filled by copy(dst, pool.entities) with dst this slice; element-wise stores must store the loaded element itself
				for _, site := range callsIn(dump) {
					if bi, ok := site.Common().Value.(*ssa.Builtin); ok && bi.Name() == "copy" && isPoolEntities(site.Common().Args[1]) {
						okc = true
					}
				}
				if !okc {
					why = "the dump's entries are rebuilt element by element instead of copied: a dead entry's id field holds the free-list link, which a rebuilt entry loses"
				}
			}
			if okc {
				r.OK(name, "dump copies the pool's entries verbatim", p.Pos(st.Pos()), "bulk copy of entityPool.entities (ids of dead entries carry the free list)")
			} else {
				r.Bad(name, "dump copies the pool's entries verbatim", p.Pos(st.Pos()), why)
			}
		}
	}
	if n == 0 {
		r.Bad(name, "dump copies the pool's entries verbatim", p.FnPos(dump), "no store to EntityDump.Entities found")
	}
}

// ---------- references to a table are dropped when it is retired ----------

var retireRefExceptions = map[string]string{
	"archetype": "the single table of a node without relation; such tables are never retired",
}

func retireDropsReferences(p *Prog, r *Reporter) {
	nd := p.Named("ecs.nodeData")
	if nd == nil {
		r.Anchor("ecs.nodeData")
		return
	}
	st, _ := nd.Underlying().(*types.Struct)
	// the retire function: the archNode method that pushes to freeIndices
	var retire *ssa.Function
	for _, fn := range p.Funcs {
		if typeName(recvType(fn)) != "archNode" {
			continue
		}
		for _, pa := range directPaths(fn) {
			if strings.HasPrefix(pa, "nodeData.freeIndices") {
				if push, _ := p.retirePrimitives(); push[fn] {
					retire = fn
				}
			}
		}
	}
	if retire == nil {
		r.Anchor("the archNode method that retires a table (push to nodeData.freeIndices)")
		return
	}
	mods := p.Mod(retire).Paths()
	for i := 0; i < st.NumFields(); i++ {
		f := fieldName(nd, i)
		ts := relType(st.Field(i).Type())
		// reference fields: pointer to archetype, or map/slice of pointers to archetype (not the owning paged storage)
		if !(ts == "*ecs.archetype" || strings.HasPrefix(ts, "map[") && strings.HasSuffix(ts, "*ecs.archetype") || ts == "[]*ecs.archetype") {
			continue
		}
		// written by some non-constructor function?
		written := false
		for _, fn := range p.Funcs {
			if isConstructorName(cname(fn)) {
				continue
			}
			for _, pa := range directPaths(fn) {
				if pa == "nodeData."+f || strings.HasPrefix(pa, "nodeData."+f+"[") || strings.HasPrefix(pa, "nodeData."+f+"{") {
					written = true
				}
			}
		}
		if !written {
			continue
		}
		construct := "retire drops nodeData." + f
		if why, ok := retireRefExceptions[f]; ok {
			r.OKt(p.FuncName(retire), construct, p.Pos(st.Field(i).Pos()), "exception: "+why)
			continue
		}
		okc := false
		for _, pa := range mods {
			if pa == "nodeData."+f || strings.HasPrefix(pa, "nodeData."+f+"[") || strings.HasPrefix(pa, "nodeData."+f+"{") {
				okc = true
			}
		}
		if okc {
			r.OK(p.FuncName(retire), construct, p.Pos(st.Field(i).Pos()), "the field can refer to a table and is updated when a table is retired")
		} else {
			r.Bad(p.FuncName(retire), construct, p.Pos(st.Field(i).Pos()), "the node keeps a reference to tables in this field, but retiring a table does not touch it: a retired (and later re-used) table stays reachable under its old target")
		}
	}
}

// ---------- the lazily built index map is nil or complete ----------

func indicesNilOrComplete(p *Prog, r *Reporter) {
	n := 0
	for _, fn := range p.Funcs {
		for _, b := range fn.Blocks {
			for _, ins := range b.Instrs {
				st, ok := ins.(*ssa.Store)
				if !ok {
					continue
				}
				o, f, _, okf := loadedField(st.Addr)
				if !okf || o != "cacheEntry" || f != "Indices" {
					continue
				}
				n++
				name := p.FuncName(fn)
				construct := fmt.Sprintf("store to cacheEntry.Indices #%d", n)
				if isNilConst(st.Val) {
					r.OK(name, construct, p.Pos(st.Pos()), "nil: the index is built on first use")
					continue
				}
				if _, isMk := st.Val.(*ssa.MakeMap); !isMk {
					r.OKt(name, construct, p.Pos(st.Pos()), "not a fresh map")
					continue
				}
				// the same function fills the map for every table of the entry's list: a MapUpdate in a loop
				filled := false
				for _, b2 := range fn.Blocks {
					for _, i2 := range b2.Instrs {
						if mu, ok := i2.(*ssa.MapUpdate); ok && inLoop(b2) {
							if _, f2, _, ok := loadedField(mu.Map); ok && f2 == "Indices" {
								filled = true
							}
							if mu.Map == st.Val {
								filled = true
							}
						}
					}
				}
				if filled {
					r.OK(name, construct, p.Pos(st.Pos()), "a fresh map that the same function fills for every table of the list")
				} else {
					r.Bad(name, construct, p.Pos(st.Pos()), "a fresh, empty map is installed without being filled: `Indices == nil` is what triggers building the index, so tables already in the list would never be found for removal")
				}
			}
		}
	}
	if n == 0 {
		r.Anchor("stores to cacheEntry.Indices")
	}
}

// ---------- stale element pointer ----------

// staleElementPointer: p := &S[i]; ... S[i] = other ...; p.f = v — after the element was replaced as a whole, a write
// through the old pointer hits the replacement.
func staleElementPointer(p *Prog, r *Reporter, fns []*ssa.Function) int {
	bad := 0
	for _, fn := range fns {
		var ptrs []*ssa.IndexAddr
		for _, b := range fn.Blocks {
			for _, ins := range b.Instrs {
				if ia, ok := ins.(*ssa.IndexAddr); ok {
					if _, isSl := ia.X.Type().Underlying().(*types.Slice); isSl {
						ptrs = append(ptrs, ia)
					}
				}
			}
		}
		for _, a1 := range ptrs {
			// field stores through a1
			var fieldStores []*ssa.Store
			for _, ref := range *a1.Referrers() {
				if fa, ok := ref.(*ssa.FieldAddr); ok {
					for _, r2 := range *fa.Referrers() {
						if st, ok := r2.(*ssa.Store); ok && st.Addr == ssa.Value(fa) {
							fieldStores = append(fieldStores, st)
						}
					}
				}
			}
			if len(fieldStores) == 0 {
				continue
			}
			for _, a2 := range ptrs {
				if a2 == a1 || apath(a2.X) != apath(a1.X) || !(a2.Index == a1.Index || structEq(a2.Index, a1.Index, 0)) {
					continue
				}
				for _, ref := range *a2.Referrers() {
					whole, ok := ref.(*ssa.Store)
					if !ok || whole.Addr != ssa.Value(a2) {
						continue
					}
					for _, fs := range fieldStores {
						if instrBefore(a1, whole) && instrBefore(whole, fs) || reachesAfter(a1, whole, fs) {
							bad++
							r.Bad(p.FuncName(fn), "write through a pointer to a replaced element", p.Pos(fs.Pos()), "the pointer was taken to "+apath(a1.X)+"["+apath(a1.Index)+"] before that element was overwritten as a whole at "+p.Pos(whole.Pos())+"; this write changes the element that was moved in")
						}
					}
				}
			}
		}
	}
	return bad
}

// reachesAfter: a is before mid, and some path leads from mid to last.
func reachesAfter(a, mid, last ssa.Instruction) bool {
	if !instrBefore(a, mid) {
		return false
	}
	return reachableFrom(mid.Parent(), mid, func(i ssa.Instruction) bool { return i == last })
}

func c07r11(p *Prog, r *Reporter) {
	var fns []*ssa.Function
	for _, fn := range p.Funcs {
		if fn.Pkg != nil && fn.Pkg.Pkg.Name() == "ecs" {
			fns = append(fns, fn)
		}
	}
	staleElementPointer(p, r, fns)
	r.OK("(ecs)", "no write through a pointer to a replaced element", "-", fmt.Sprintf("%d functions scanned", len(fns)))
	fp, err := loadFixture()
	if err != nil {
		r.Anchor("checker/testdata/fixture: " + err.Error())
		return
	}
	tmp := &Reporter{p: p, rule: r.rule}
	var fx []*ssa.Function
	for _, f := range fp.funcs {
		if f.Name() == "badStaleElement" {
			fx = append(fx, f)
		}
	}
	k := staleElementPointer(p, tmp, fx)
	r.Check(k >= 1, "fixture.badStaleElement", "rule fires on the fixture", "checker/testdata/fixture/fixture.go", "the stale element pointer in the fixture is reported")
}

// ---------- option flags at call sites ----------

// flagArgsNotComputed: an internal function with an (ID, bool) parameter pair takes the bool as "an ID was given".
// At every call the bool argument is a constant, a forwarded bool parameter, or a stored flag field — never computed
// from another value (the zero ID and the zero entity are valid values).
func flagArgsNotComputed(p *Prog, r *Reporter) {
	isID := func(t types.Type) bool { return typeName(t) == "ID" }
	isBool := func(t types.Type) bool {
		bt, ok := t.Underlying().(*types.Basic)
		return ok && bt.Kind() == types.Bool
	}
	for _, fn := range p.Funcs {
		if fn.Pkg == nil || fn.Pkg.Pkg.Name() != "ecs" {
			continue
		}
		n := 0
		for _, site := range callsIn(fn) {
			sc := site.Common().StaticCallee()
			if sc == nil || !p.isArche(sc) || sc.Blocks == nil {
				continue
			}
			params := sc.Params
			off := len(site.Common().Args) - len(params)
			if off != 0 {
				continue
			}
			for i := 0; i+1 < len(params); i++ {
				if !isID(params[i].Type()) || !isBool(params[i+1].Type()) {
					continue
				}
				arg := site.Common().Args[i+1]
				n++
				construct := fmt.Sprintf("flag argument #%d for %s", n, cname(sc))
				okc, desc := flagSource(arg, map[ssa.Value]bool{})
				if okc {
					r.OK(p.FuncName(fn), construct, p.Pos(site.Pos()), "the flag is "+desc)
				} else {
					r.Bad(p.FuncName(fn), construct, p.Pos(site.Pos()), "the has-relation flag is computed ("+desc+") instead of being a constant, a forwarded flag or a stored flag: for the zero value the operation silently takes the no-relation path (no validation, target kept)")
				}
			}
		}
	}
}

func flagSource(v ssa.Value, seen map[ssa.Value]bool) (bool, string) {
	if seen[v] {
		return true, "loop"
	}
	seen[v] = true
	switch x := v.(type) {
	case *ssa.Const:
		return true, "the constant " + x.Value.ExactString()
	case *ssa.Parameter:
		return true, "the forwarded parameter " + x.Name()
	case *ssa.Phi:
		for _, e := range x.Edges {
			if ok, d := flagSource(e, seen); !ok {
				return false, d
			}
		}
		return true, "a choice between constants / flags"
	case *ssa.UnOp:
		if x.Op == token.MUL {
			if _, f, _, ok := loadedField(x); ok {
				return true, "the stored flag " + f
			}
			if al, ok := x.X.(*ssa.Alloc); ok {
				if pr := spilledParam(al); pr != nil {
					return true, "the forwarded parameter " + pr.Name()
				}
			}
		}
	case *ssa.BinOp:
		// len(x) > 0 style flags for variadic targets are positional presence tests, not value tests
		if c := callOf(x.X); c != nil {
			if bi, ok := c.Call.Value.(*ssa.Builtin); ok && bi.Name() == "len" {
				return true, "a presence test (len of a variadic argument)"
			}
		}
	}
	return false, exprString(v)
}

// ---------- pointer-asserted filter types ----------

// pointerAssertedFilters: where the library recognises a filter by asserting the Filter interface to *T, the value
// type T must not implement Filter itself; otherwise a T passed by value slips past the assertion.
func pointerAssertedFilters(p *Prog, r *Reporter) {
	fi := p.Named("ecs.Filter")
	if fi == nil {
		r.Anchor("ecs.Filter")
		return
	}
	iface, _ := fi.Underlying().(*types.Interface)
	seen := map[string]bool{}
	for _, fn := range p.Funcs {
		for _, b := range fn.Blocks {
			for _, ins := range b.Instrs {
				ta, ok := ins.(*ssa.TypeAssert)
				if !ok || !types.Identical(ta.X.Type(), fi) {
					continue
				}
				pt, ok := ta.AssertedType.(*types.Pointer)
				if !ok {
					continue
				}
				tn := typeName(pt.Elem())
				if seen[tn] {
					continue
				}
				seen[tn] = true
				impl := types.Implements(pt.Elem(), iface)
				construct := "filters recognised as *" + tn
				if impl {
					r.Bad("ecs."+tn, construct, p.Pos(ta.Pos()), "the library recognises this filter by asserting *"+tn+", but "+tn+" values implement Filter too (value receiver): a "+tn+" passed by value is treated as an ordinary filter (e.g. registered twice, or its target ignored)")
				} else {
					r.OK("ecs."+tn, construct, p.Pos(ta.Pos()), "only *"+tn+" implements Filter, so the assertion sees every "+tn)
				}
			}
		}
	}
}

// ---------- who may write the resource table ----------

func resourceTableSizedOnce(p *Prog, r *Reporter) {
	n := 0
	for _, fn := range p.Funcs {
		for _, b := range fn.Blocks {
			for _, ins := range b.Instrs {
				st, ok := ins.(*ssa.Store)
				if !ok {
					continue
				}
				o, f, _, okf := loadedField(st.Addr)
				if !okf || o != "Resources" || f != "resources" {
					continue
				}
				n++
				if isConstructorName(cname(fn)) {
					r.OK(p.FuncName(fn), "allocates the resource table", p.Pos(st.Pos()), "the constructor sizes the table for every possible id")
				} else {
					r.Bad(p.FuncName(fn), "replaces the resource table", p.Pos(st.Pos()), "the table is sized once for every possible resource id; replacing it (e.g. with one sized by the ids registered so far) makes later ids fall outside it")
				}
			}
		}
	}
	// whole-struct literal in the constructor: no field store
	if n == 0 {
		if c := p.Fn("ecs.newResources"); c != nil {
			r.OK(p.FuncName(c), "allocates the resource table", p.FnPos(c), "only the constructor's literal sets Resources.resources")
		} else {
			r.Anchor("ecs.newResources")
		}
	}
}

// ---------- World.archetypes is not an enumeration of all tables ----------

func rootTablesNotEnumerated(p *Prog, r *Reporter) {
	n := 0
	for _, fn := range p.Funcs {
		for _, site := range callsIn(fn) {
			sc := site.Common().StaticCallee()
			if sc == nil || cname(sc) != "Len" || !strings.HasPrefix(typeName(recvType(sc)), "pagedSlice") {
				continue
			}
			o, f, _, ok := loadedField(site.Common().Args[0])
			if !ok || o != "World" || f != "archetypes" {
				continue
			}
			n++
			// allowed: the index of the table just added (Len() - 1)
			cv, _ := site.(ssa.Value)
			onlyIndex := cv != nil && cv.Referrers() != nil
			if onlyIndex {
				for _, ref := range *cv.Referrers() {
					bo, ok := ref.(*ssa.BinOp)
					if !ok || bo.Op != token.SUB || !isConstInt(bo.Y, 1) {
						onlyIndex = false
					}
				}
			}
			construct := fmt.Sprintf("World.archetypes.Len() #%d", n)
			if onlyIndex {
				r.OK(p.FuncName(fn), construct, p.Pos(site.Pos()), "used only as the index of the table just added")
			} else {
				r.Bad(p.FuncName(fn), construct, p.Pos(site.Pos()), "World.archetypes holds only the tables of nodes without a relation; iterating it as if it were all tables skips every entity that has a relation component")
			}
		}
	}
	if n == 0 {
		r.Anchor("a call of World.archetypes.Len()")
	}
}

// ---------- receiver kinds of the JSON methods ----------

func jsonReceiverKinds(p *Prog, r *Reporter) {
	ent := p.Named("ecs.Entity")
	if ent == nil {
		r.Anchor("ecs.Entity")
		return
	}
	for _, want := range []struct {
		name string
		ptr  bool
		why  string
	}{
		{"MarshalJSON", false, "a value receiver, so that entities held by value (struct fields, map values, array elements) are encoded by it"},
		{"UnmarshalJSON", true, "a pointer receiver, so that decoding can store into the entity"},
	} {
		found := false
		for i := 0; i < ent.NumMethods(); i++ {
			m := ent.Method(i)
			if m.Name() != want.name {
				continue
			}
			found = true
			_, isPtr := m.Type().(*types.Signature).Recv().Type().(*types.Pointer)
			r.Check(isPtr == want.ptr, "ecs.Entity."+want.name, "receiver kind", p.Pos(m.Pos()), want.name+" has "+want.why)
		}
		if !found {
			r.Anchor("ecs.Entity." + want.name)
		}
	}
}

// ---------- reflect.Type passed through unchanged ----------

func typeArgPassedThrough(p *Prog, r *Reporter) {
	for _, q := range []struct{ fn, callee string }{
		{"ecs.TypeID", "componentID"},
		{"ecs.ResourceTypeID", "resourceID"},
	} {
		fn := p.Fn(q.fn)
		if fn == nil {
			r.Anchor(q.fn)
			continue
		}
		var tp *ssa.Parameter
		for _, pr := range fn.Params {
			if relType(pr.Type()) == "reflect.Type" {
				tp = pr
			}
		}
		okc, n := true, 0
		for _, site := range callsIn(fn) {
			sc := site.Common().StaticCallee()
			if sc == nil || cname(sc) != q.callee {
				continue
			}
			n++
			for i, a := range site.Common().Args {
				if i < len(sc.Params) && relType(sc.Params[i].Type()) == "reflect.Type" && a != ssa.Value(tp) {
					okc = false
				}
			}
		}
		r.Check(okc && n > 0 && tp != nil, p.FuncName(fn), "the type is looked up as given", p.FnPos(fn), "the reflect.Type argument reaches the registry unchanged (T and *T are different types with different ids)")
	}
}

var _ = constant.MakeBool
var _ = sort.Strings
