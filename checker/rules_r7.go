package main

// Rules added after the seventh round of seeded changes (DESIGN §6): each was missed by the rules that existed.

import (
	"fmt"
	"go/token"
	"go/types"
	"strings"

	"golang.org/x/tools/go/ssa"
)

// ---------- without a target no relation is claimed ----------

// noTargetNoRelationFlag: in a method with a variadic Entity parameter, the code that runs only when no target was given
// (reachable from the `len(target) == 0` edge and not from the `len(target) > 0` edge) never calls a function with an
// (ID, bool, Entity) relation triple whose flag is anything but the constant false: an explicit zero target with the
// flag set is "reset the target", not "leave the relation alone".
func noTargetNoRelationFlag(p *Prog, r *Reporter) {
	n := 0
	for _, fn := range p.Funcs {
		if !p.isArche(fn) || !fn.Signature.Variadic() || len(fn.Params) == 0 {
			continue
		}
		last := fn.Params[len(fn.Params)-1]
		sl, ok := last.Type().Underlying().(*types.Slice)
		if !ok || !isEntityType(sl.Elem()) {
			continue
		}
		pos := "lenpos(" + last.Name() + ")"
		zero := "lenzero(" + last.Name() + ")"
		for _, b := range fn.Blocks {
			iff, ok := b.Instrs[len(b.Instrs)-1].(*ssa.If)
			if !ok {
				continue
			}
			for k := 0; k < 2; k++ {
				if !boolFacts(iff.Cond, k == 0, 0)[zero] || !boolFacts(iff.Cond, k != 0, 0)[pos] {
					continue
				}
				n++
				reach := func(start *ssa.BasicBlock) map[*ssa.BasicBlock]bool {
					seen := map[*ssa.BasicBlock]bool{}
					work := []*ssa.BasicBlock{start}
					for len(work) > 0 {
						x := work[len(work)-1]
						work = work[:len(work)-1]
						if seen[x] {
							continue
						}
						seen[x] = true
						work = append(work, x.Succs...)
					}
					return seen
				}
				zr, pr := reach(b.Succs[k]), reach(b.Succs[1-k])
				bad := ""
				for x := range zr {
					if pr[x] {
						continue
					}
					for _, ins := range x.Instrs {
						site, ok := ins.(ssa.CallInstruction)
						if !ok {
							continue
						}
						sc := site.Common().StaticCallee()
						if sc == nil || !p.isArche(sc) || len(site.Common().Args) != len(sc.Params) {
							continue
						}
						for i := 0; i+1 < len(sc.Params); i++ {
							if typeName(sc.Params[i].Type()) != "ID" {
								continue
							}
							bt, ok := sc.Params[i+1].Type().Underlying().(*types.Basic)
							if !ok || bt.Kind() != types.Bool {
								continue
							}
							if cb, isC := constBool(site.Common().Args[i+1]); !isC || cb {
								bad = p.Pos(site.Pos())
							}
						}
					}
				}
				construct := fmt.Sprintf("no target given (%s) #%d", last.Name(), n)
				if bad == "" {
					r.OK(p.FuncName(fn), construct, p.Pos(iff.Pos()), "without a target nothing is called with the has-relation flag set")
				} else {
					r.Bad(p.FuncName(fn), construct, p.Pos(iff.Pos()), "with no target given, the call at "+bad+" still passes a has-relation flag that is not the constant false: the entity's current target is replaced (by the zero entity) instead of being kept")
				}
			}
		}
	}
	if n == 0 {
		r.Anchor("a method branching on len(target) == 0")
	}
}

// ---------- logic-filter constructors store their operands ----------

// filterCtorsVerbatim: in package filter, a constructor function (not a method) that stores into a field of interface type
// ecs.Filter of the filter it returns stores one of its own parameters, unchanged.
func filterCtorsVerbatim(p *Prog, r *Reporter) {
	n := 0
	for _, fn := range p.Funcs {
		if fn.Pkg == nil || fn.Pkg.Pkg.Name() != "filter" || fn.Signature.Recv() != nil || fn.Blocks == nil || fn.Parent() != nil {
			continue
		}
		for _, b := range fn.Blocks {
			for _, ins := range b.Instrs {
				st, ok := ins.(*ssa.Store)
				if !ok {
					continue
				}
				fa, ok := st.Addr.(*ssa.FieldAddr)
				if !ok || typeName(st.Val.Type()) != "Filter" {
					continue
				}
				if _, isI := st.Val.Type().Underlying().(*types.Interface); !isI {
					continue
				}
				n++
				_, isPar := st.Val.(*ssa.Parameter)
				construct := fmt.Sprintf("operand %s.%s", typeName(fa.X.Type()), fieldName(fa.X.Type(), fa.Field))
				r.Check(isPar, p.FuncName(fn), construct, p.Pos(st.Pos()), "the constructor stores the operand it was given ("+exprString(st.Val)+"); a rewritten operand changes what the combinator matches (Or of two masks is not Any of their union)")
			}
		}
	}
	if n == 0 {
		r.Anchor("package filter: a constructor storing a Filter operand")
	}
}

// ---------- growth keeps the length ----------

// growKeepsLength: in the grow-by-increment idiom `new := make(T, L, len(old)+inc); copy(new, old)` the new slice has the
// old one's length: L is len(old). A shorter L truncates the contents on the second growth.
func growKeepsLength(p *Prog, r *Reporter) {
	n := 0
	for _, fn := range p.Funcs {
		if !p.isArche(fn) {
			continue
		}
		for _, site := range callsIn(fn) {
			bi, ok := site.Common().Value.(*ssa.Builtin)
			if !ok || bi.Name() != "copy" {
				continue
			}
			dst, src := site.Common().Args[0], site.Common().Args[1]
			// dst: a fresh make in this function (directly or through the field it was stored into)
			var mk *ssa.MakeSlice
			if m, ok := dst.(*ssa.MakeSlice); ok {
				mk = m
			} else if u, ok := dst.(*ssa.UnOp); ok && u.Op == token.MUL {
				// load of a field that was just stored from a make
				for _, b := range fn.Blocks {
					for _, ins := range b.Instrs {
						if st, ok := ins.(*ssa.Store); ok {
							if m, ok := st.Val.(*ssa.MakeSlice); ok && sameFieldAddr(st.Addr, u.X) {
								mk = m
							}
						}
					}
				}
			}
			if mk == nil {
				continue
			}
			// only the grow-by-increment idiom: the capacity is len(old) + something
			isLenOfSrc := func(v ssa.Value) bool {
				lc := callOf(stripConvs(v))
				if lc == nil {
					return false
				}
				b2, ok := lc.Call.Value.(*ssa.Builtin)
				if !ok || b2.Name() != "len" {
					return false
				}
				a := lc.Call.Args[0]
				if a == src || structEq(a, src, 0) {
					return true
				}
				if u, ok := a.(*ssa.UnOp); ok && u.Op == token.MUL {
					if su, ok := src.(*ssa.UnOp); ok && su.Op == token.MUL && sameFieldAddr(u.X, su.X) {
						return true
					}
				}
				return false
			}
			capAdd, ok := stripConvs(mk.Cap).(*ssa.BinOp)
			if !ok || capAdd.Op != token.ADD || !(isLenOfSrc(capAdd.X) || isLenOfSrc(capAdd.Y)) {
				continue
			}
			n++
			okc := isLenOfSrc(mk.Len)
			if false {
				if lc := callOf(stripConvs(mk.Len)); lc != nil {
					if b2, ok := lc.Call.Value.(*ssa.Builtin); ok && b2.Name() == "len" {
						a := lc.Call.Args[0]
						if a == src || structEq(a, src, 0) {
							okc = true
						}
						// `old := p.pool` taken before the field was overwritten: len(p.pool) at the make is len(old)
						if u, ok := a.(*ssa.UnOp); ok && u.Op == token.MUL {
							if su, ok := src.(*ssa.UnOp); ok && su.Op == token.MUL && sameFieldAddr(u.X, su.X) {
								okc = true
							}
						}
					}
				}
			}
			construct := fmt.Sprintf("grow-and-copy #%d", n)
			if okc {
				r.OK(p.FuncName(fn), construct, p.Pos(site.Pos()), "the new slice is made with the old slice's length")
			} else {
				r.Bad(p.FuncName(fn), construct, p.Pos(site.Pos()), "the slice that receives the copy is made with length "+exprString(mk.Len)+", not with the length of the slice copied from ("+exprString(src)+"): copy() stops at the shorter one, so entries are lost when the slice grows")
			}
		}
	}
	if n == 0 {
		r.Anchor("a grow-and-copy idiom (make + copy)")
	}
}

// ---------- a column's type is the registry's type for its id ----------

func typeListedForItsID(p *Prog, r *Reporter) {
	n := 0
	for _, fn := range p.Funcs {
		if fn.Pkg == nil || fn.Pkg.Pkg.Name() != "ecs" {
			continue
		}
		for _, b := range fn.Blocks {
			for _, ins := range b.Instrs {
				st, ok := ins.(*ssa.Store)
				if !ok {
					continue
				}
				fa, ok := st.Addr.(*ssa.FieldAddr)
				if !ok || typeName(fa.X.Type()) != "componentType" || fieldName(fa.X.Type(), fa.Field) != "Type" {
					continue
				}
				// value: Types[idx]
				u, ok := st.Val.(*ssa.UnOp)
				if !ok || u.Op != token.MUL {
					continue
				}
				ia, ok := u.X.(*ssa.IndexAddr)
				if !ok {
					continue
				}
				if _, f, _, ok := loadedField(ia.X); !ok || f != "Types" {
					if fa2, ok := ia.X.(*ssa.FieldAddr); !ok || fieldName(fa2.X.Type(), fa2.Field) != "Types" {
						continue
					}
				}
				n++
				// the sibling store of the ID field of the same element
				var idVal ssa.Value
				for _, ref := range *fa.X.Referrers() {
					f2, ok := ref.(*ssa.FieldAddr)
					if !ok || fieldName(f2.X.Type(), f2.Field) != "ID" {
						continue
					}
					for _, r2 := range *f2.Referrers() {
						if s2, ok := r2.(*ssa.Store); ok && s2.Addr == f2 {
							idVal = s2.Val
						}
					}
				}
				okc := false
				idx := stripConvs(ia.Index)
				if idVal != nil {
					// idx must be `.id` of the value stored as ID
					switch x := idx.(type) {
					case *ssa.Field:
						okc = x.X == idVal || structEq(x.X, idVal, 0)
					case *ssa.UnOp:
						if x.Op == token.MUL {
							if f3, ok := x.X.(*ssa.FieldAddr); ok {
								// load of &local.id where idVal is a load of the same local
								if lu, ok := idVal.(*ssa.UnOp); ok && lu.Op == token.MUL && lu.X == f3.X {
									okc = true
								}
							}
						}
					}
				}
				r.Check(okc, p.FuncName(fn), fmt.Sprintf("componentType{ID, Type} #%d", n), p.Pos(st.Pos()), "the type listed with a component id is registry.Types[that id] (index: "+exprString(ia.Index)+"): a column allocated with another component's type hides pointers from the garbage collector or has the wrong size")
			}
		}
	}
	if n == 0 {
		r.Anchor("a componentType literal whose Type comes from the registry")
	}
}

// ---------- node reset treats every active table ----------

// nodeResetCoversTables: in the node's reset method, the loop over the node's tables resets or retires the table in every
// iteration, unless the table is known to be inactive.
func nodeResetCoversTables(p *Prog, r *Reporter) {
	fn := p.Fn("ecs.(*archNode).Reset")
	if fn == nil {
		r.Anchor("ecs.(*archNode).Reset")
		return
	}
	effect := func(i ssa.Instruction) bool {
		c, ok := i.(ssa.CallInstruction)
		if !ok {
			return false
		}
		sc := c.Common().StaticCallee()
		if sc == nil {
			return false
		}
		rt := typeName(recvType(sc))
		switch cname(sc) {
		case "Reset", "Deactivate":
			return rt == "archetype"
		case "RemoveArchetype":
			return rt == "archNode"
		}
		return false
	}
	inactive := func(b *ssa.BasicBlock, k int) bool {
		atom, holds, ok := edgeCond(b, k)
		if !ok {
			return false
		}
		if c := callOf(atom); c != nil {
			if sc := c.Common().StaticCallee(); sc != nil && cname(sc) == "IsActive" {
				return !holds
			}
		}
		rel, c, ok := boundOnEdge(atom, holds, func(v ssa.Value) bool {
			_, f, _, okf := loadedField(v)
			return okf && f == "index"
		})
		return ok && rel == "<" && c == 0
	}
	n := 0
	for _, h := range fn.Blocks {
		if !isLoopHeader(h) {
			continue
		}
		var body []*ssa.BasicBlock
		has := false
		for _, x := range fn.Blocks {
			if x != h && dominatesBlock(h, x) && reaches(x, h) {
				body = append(body, x)
				for _, ins := range x.Instrs {
					if effect(ins) {
						has = true
					}
				}
			}
		}
		if !has {
			continue
		}
		n++
		mf := &MustFlow{Fn: fn, InstrGen: effect, EdgeGen: inactive,
			InstrKill: func(i ssa.Instruction) bool { return i.Block() == h && i == h.Instrs[0] }}
		mf.Run()
		bad := ""
		for _, x := range body {
			for k, s := range x.Succs {
				if s != h {
					continue
				}
				if !mf.Before(x.Instrs[len(x.Instrs)-1]) && !inactive(x, k) {
					bad = p.Pos(posOf(x.Instrs[len(x.Instrs)-1]))
				}
			}
		}
		construct := fmt.Sprintf("table loop #%d", n)
		if bad == "" {
			r.OK(p.FuncName(fn), construct, p.Pos(posOf(h.Instrs[len(h.Instrs)-1])), "every iteration resets or retires its table, or the table is known inactive")
		} else {
			r.Bad(p.FuncName(fn), construct, p.Pos(posOf(h.Instrs[len(h.Instrs)-1])), "an iteration can reach the next one (back edge at "+bad+") without resetting or retiring its table although the table may be active: its entities survive World.Reset as rows without a live handle")
		}
	}
	// the same loop body written as a per-table visitor: a closure of Reset that takes the table and contains the effect
	for _, cl := range fn.AnonFuncs {
		takesTable := false
		for _, pr := range cl.Params {
			if typeName(pr.Type()) == "archetype" {
				takesTable = true
			}
		}
		has := false
		for _, b := range cl.Blocks {
			for _, ins := range b.Instrs {
				if effect(ins) {
					has = true
				}
			}
		}
		if !takesTable || !has {
			continue
		}
		n++
		mf := &MustFlow{Fn: cl, InstrGen: effect, EdgeGen: inactive}
		mf.Run()
		if mf.AtAllReturns() {
			r.OK(p.FuncName(cl), "per-table visitor", p.Pos(cl.Pos()), "every call resets or retires its table, or the table is known inactive")
		} else {
			r.Bad(p.FuncName(cl), "per-table visitor", p.Pos(cl.Pos()), "the per-table callback can return without resetting or retiring its table although the table may be active: its entities survive World.Reset as rows without a live handle")
		}
	}
	if n == 0 {
		r.Anchor("archNode.Reset: a loop that resets or retires tables")
	}
}

// ---------- the registry is keyed by the type as given ----------

// registryKeyIsParam: in package ecs, a function with a reflect.Type parameter that looks the type up in (or adds it to)
// the type → id map, or forwards it to such a function, uses the parameter itself — not its element type or any other
// derived type (T and *T are different types with different ids).
func registryKeyIsParam(p *Prog, r *Reporter) {
	n := 0
	for _, fn := range p.Funcs {
		if fn.Pkg == nil || fn.Pkg.Pkg.Name() != "ecs" || fn.Blocks == nil {
			continue
		}
		var tp *ssa.Parameter
		for _, pr := range fn.Params {
			if relType(pr.Type()) == "reflect.Type" {
				tp = pr
			}
		}
		if tp == nil {
			continue
		}
		derived := func(v ssa.Value) bool {
			// v is not the parameter but is computed from it (phi with it, or a method call on it)
			if v == ssa.Value(tp) {
				return false
			}
			seen := map[ssa.Value]bool{}
			var rec func(x ssa.Value, d int) bool
			rec = func(x ssa.Value, d int) bool {
				if d > 5 || seen[x] {
					return false
				}
				seen[x] = true
				if x == ssa.Value(tp) {
					return true
				}
				switch y := x.(type) {
				case *ssa.Phi:
					for _, e := range y.Edges {
						if rec(e, d+1) {
							return true
						}
					}
				case *ssa.Call:
					if y.Common().IsInvoke() {
						return rec(y.Common().Value, d+1)
					}
					for _, a := range y.Common().Args {
						if rec(a, d+1) {
							return true
						}
					}
				}
				return false
			}
			return rec(v, 0)
		}
		for _, b := range fn.Blocks {
			for _, ins := range b.Instrs {
				var key ssa.Value
				what := ""
				switch x := ins.(type) {
				case *ssa.Lookup:
					if _, f, _, ok := loadedField(x.X); ok && f == "Components" {
						key, what = x.Index, "lookup in the type → id map"
					}
				case *ssa.MapUpdate:
					if _, f, _, ok := loadedField(x.Map); ok && f == "Components" {
						key, what = x.Key, "insertion into the type → id map"
					}
				case ssa.CallInstruction:
					sc := x.Common().StaticCallee()
					if sc == nil || sc.Pkg == nil || sc.Pkg.Pkg.Name() != "ecs" {
						continue
					}
					for i, a := range x.Common().Args {
						if i < len(sc.Params) && relType(sc.Params[i].Type()) == "reflect.Type" && relType(a.Type()) == "reflect.Type" {
							n++
							r.Check(!derived(a), p.FuncName(fn), fmt.Sprintf("type forwarded to %s", cname(sc)), p.Pos(x.Pos()), "the reflect.Type parameter is forwarded unchanged (T and *T are different types with different ids)")
						}
					}
					continue
				}
				if key == nil {
					continue
				}
				n++
				r.Check(!derived(key), p.FuncName(fn), what, p.Pos(ins.Pos()), "the key is the reflect.Type parameter itself, not a type derived from it (T and *T are different types with different ids)")
			}
		}
	}
	if n == 0 {
		r.Anchor("package ecs: a registry lookup keyed by a reflect.Type parameter")
	}
}

// ---------- Exclusive excludes the complement of what is included ----------

// exclusiveFromInclude: in the generic filter's Compile, the mask whose complement becomes the exclusion of an exclusive
// filter is the very mask that is stored as the filter's inclusion.
func exclusiveFromInclude(p *Prog, r *Reporter) {
	top := p.Fn("generic.(*compiledQuery).Compile")
	if top == nil {
		r.Anchor("generic.(*compiledQuery).Compile")
		return
	}
	// the function (Compile or a helper it calls) that stores MaskFilter.Include
	fn := top
	for _, g := range withHelpers(p, top, 2) {
		for _, b := range g.Blocks {
			for _, ins := range b.Instrs {
				if st, ok := ins.(*ssa.Store); ok {
					if fa, ok := st.Addr.(*ssa.FieldAddr); ok && typeName(fa.X.Type()) == "MaskFilter" && fieldName(fa.X.Type(), fa.Field) == "Include" {
						fn = g
					}
				}
			}
		}
	}
	// the value stored as MaskFilter.Include
	var incl ssa.Value
	for _, b := range fn.Blocks {
		for _, ins := range b.Instrs {
			if st, ok := ins.(*ssa.Store); ok {
				if fa, ok := st.Addr.(*ssa.FieldAddr); ok && typeName(fa.X.Type()) == "MaskFilter" && fieldName(fa.X.Type(), fa.Field) == "Include" {
					incl = st.Val
				}
			}
		}
	}
	if incl == nil {
		r.Anchor("Compile: a store into MaskFilter.Include")
		return
	}
	root := func(v ssa.Value) ssa.Value {
		// the local a mask value is loaded from, or the value itself
		if u, ok := v.(*ssa.UnOp); ok && u.Op == token.MUL {
			return u.X
		}
		return v
	}
	n := 0
	for _, site := range callsIn(fn) {
		sc := site.Common().StaticCallee()
		if sc == nil || cname(sc) != "Not" || typeName(recvType(sc)) != "Mask" {
			continue
		}
		n++
		recv := site.Common().Args[0]
		same := recv == incl || root(recv) == root(incl) || recv == root(incl) || root(recv) == incl
		r.Check(same, p.FuncName(fn), fmt.Sprintf("complement for Exclusive #%d", n), p.Pos(site.Pos()), "the mask that is complemented ("+exprString(recv)+") is the mask stored as the filter's inclusion ("+exprString(incl)+"): the complement of anything larger lets optional components through, of anything smaller excludes included ones")
	}
	if n == 0 {
		r.Anchor("Compile: Mask.Not() for the exclusive filter")
	}
}

// ---------- the library does not write through resource pointers or into caller-owned slices ----------

func noWritesThroughResources(p *Prog, r *Reporter) {
	n := 0
	mutators := map[string]bool{"Set": true, "SetZero": true, "SetInt": true, "SetUint": true, "SetFloat": true, "SetBool": true, "SetString": true, "SetPointer": true, "SetLen": true, "SetBytes": true, "SetMapIndex": true, "SetComplex": true, "SetCap": true, "SetIterKey": true, "SetIterValue": true}
	for _, fn := range p.Funcs {
		if fn.Pkg == nil || fn.Pkg.Pkg.Name() != "ecs" || typeName(recvType(fn)) != "Resources" {
			continue
		}
		n++
		bad := token.NoPos
		for _, site := range callsIn(fn) {
			sc := site.Common().StaticCallee()
			if sc == nil || pkgPathOf(sc) != "reflect" {
				continue
			}
			if relType(recvType(sc)) == "reflect.Value" && mutators[sc.Name()] {
				bad = site.Pos()
			}
			if sc.Name() == "Copy" && sc.Signature.Recv() == nil {
				bad = site.Pos()
			}
		}
		// stores through a pointer obtained by asserting a stored resource
		for _, b := range fn.Blocks {
			for _, ins := range b.Instrs {
				if st, ok := ins.(*ssa.Store); ok {
					if ta, ok := st.Addr.(*ssa.TypeAssert); ok {
						_ = ta
						bad = st.Pos()
					}
				}
			}
		}
		if bad == token.NoPos {
			r.OK(p.FuncName(fn), "resource objects are only stored and handed out", p.FnPos(fn), "no reflect mutator and no store through a resource pointer")
		} else {
			r.Bad(p.FuncName(fn), "resource objects are only stored and handed out", p.Pos(bad), "a method of Resources modifies the object behind a resource pointer: the object belongs to the caller and may be shared with other worlds")
		}
	}
	if n == 0 {
		r.Anchor("methods of ecs.Resources")
	}
}

// callerSlicesNotMutated: an exported function never modifies a slice it received as a parameter: no element store, no
// sorting/reversing/compacting standard-library call, no copy() into it. (Storing it is the subject of another rule.)
func callerSlicesNotMutated(p *Prog, r *Reporter) {
	n := 0
	mutating := func(sc *ssa.Function) bool {
		path := pkgPathOf(sc)
		name := sc.Name()
		if o := sc.Origin(); o != nil {
			name = o.Name()
		}
		switch path {
		case "sort":
			return name == "Slice" || name == "SliceStable" || name == "Sort" || name == "Stable" || name == "Ints" || name == "Strings" || name == "Float64s"
		case "slices":
			return strings.HasPrefix(name, "Sort") || name == "Reverse" || name == "Compact" || name == "CompactFunc" || name == "Delete" || name == "DeleteFunc" || name == "Insert" || name == "Replace"
		}
		return false
	}
	for _, fn := range p.Funcs {
		if !p.isArche(fn) || fn.Parent() != nil || fn.Object() == nil || !fn.Object().Exported() || fn.Blocks == nil {
			continue
		}
		for _, par := range fn.Params {
			if _, ok := par.Type().Underlying().(*types.Slice); !ok {
				continue
			}
			n++
			bad := token.NoPos
			what := ""
			seen := map[ssa.Value]bool{}
			var visit func(v ssa.Value, d int)
			visit = func(v ssa.Value, d int) {
				if d > 4 || seen[v] || v.Referrers() == nil {
					return
				}
				seen[v] = true
				for _, ref := range *v.Referrers() {
					switch x := ref.(type) {
					case *ssa.Slice:
						visit(x, d+1)
					case *ssa.Phi:
						visit(x, d+1)
					case *ssa.ChangeType:
						visit(x, d+1)
					case *ssa.MakeInterface:
						visit(x, d+1)
					case *ssa.Store:
						// the parameter spilled into a cell (captured by a closure): follow the loads of the cell
						if al, ok := x.Addr.(*ssa.Alloc); ok && x.Val == v {
							for _, r2 := range *al.Referrers() {
								if ld, ok := r2.(*ssa.UnOp); ok && ld.Op == token.MUL {
									visit(ld, d+1)
								}
							}
						}
					case *ssa.IndexAddr:
						for _, r2 := range *x.Referrers() {
							if st, ok := r2.(*ssa.Store); ok && st.Addr == x {
								bad, what = st.Pos(), "assigns an element of it"
							}
						}
					case ssa.CallInstruction:
						if bi, ok := x.Common().Value.(*ssa.Builtin); ok {
							if bi.Name() == "copy" && len(x.Common().Args) == 2 && x.Common().Args[0] == v {
								bad, what = x.Pos(), "copies into it"
							}
							continue
						}
						if sc := x.Common().StaticCallee(); sc != nil && mutating(sc) {
							bad, what = x.Pos(), "passes it to "+pkgPathOf(sc)+"."+sc.Name()
						}
					}
				}
			}
			visit(par, 0)
			construct := "slice parameter " + par.Name()
			if bad == token.NoPos {
				r.OK(p.FuncName(fn), construct, p.FnPos(fn), "the caller's slice is only read")
			} else {
				r.Bad(p.FuncName(fn), construct, p.Pos(bad), "the exported function "+what+": the slice belongs to the caller, who may use the same list (in its original order) with another world")
			}
		}
	}
	if n == 0 {
		r.Anchor("an exported function with a slice parameter")
	}
}

// ---------- component lists of MapN are complete ----------

// mapListsComplete: in a method of generic.MapN, every list of components or ids built in place and handed to an ecs call
// has exactly N elements.
func mapListsComplete(p *Prog, r *Reporter) {
	n := 0
	for _, fn := range p.Funcs {
		if fn.Pkg == nil || fn.Pkg.Pkg.Name() != "generic" || fn.Blocks == nil {
			continue
		}
		rt := recvType(fn)
		if pt, ok := rt.(*types.Pointer); ok {
			rt = pt.Elem()
		}
		nt, ok := rt.(*types.Named)
		if !ok || !strings.HasPrefix(nt.Obj().Name(), "Map") || nt.Obj().Name() == "Map" {
			continue
		}
		arity := nt.TypeArgs().Len()
		if arity == 0 && nt.TypeParams() != nil {
			arity = nt.TypeParams().Len()
		}
		if arity == 0 {
			continue
		}
		for _, site := range callsIn(fn) {
			sc := site.Common().StaticCallee()
			if sc == nil || sc.Pkg == nil || sc.Pkg.Pkg.Name() != "ecs" || !sc.Signature.Variadic() {
				continue
			}
			args := site.Common().Args
			if len(args) == 0 {
				continue
			}
			lastArg := args[len(args)-1]
			sl, ok := lastArg.(*ssa.Slice)
			if !ok {
				continue
			}
			al, ok := sl.X.(*ssa.Alloc)
			if !ok {
				continue
			}
			at, ok := al.Type().Underlying().(*types.Pointer).Elem().Underlying().(*types.Array)
			if !ok {
				continue
			}
			en := typeName(at.Elem())
			if en != "Component" && en != "ID" {
				continue
			}
			n++
			r.Check(int(at.Len()) == arity, p.FuncName(fn), fmt.Sprintf("%d %ss passed to %s", at.Len(), en, cname(sc)), p.Pos(site.Pos()), fmt.Sprintf("a method of %s hands exactly %d %ss to the core", nt.Obj().Name(), arity, en))
		}
	}
	if n == 0 {
		r.Anchor("generic.MapN: a component list built in place")
	}
}

// ====================== rules for the defects found by the bug-hunting round (DESIGN §3: N1–N7) ======================

// noNarrowParamSums: in methods of Query, a sum that involves a parameter is computed in at least 64 bits: a uint32 sum
// of the current row and a caller-supplied step wraps around, so a step beyond the end lands on an entity again.
func noNarrowParamSums(p *Prog, r *Reporter) {
	n := 0
	for _, fn := range p.Funcs {
		if fn.Pkg == nil || fn.Pkg.Pkg.Name() != "ecs" || typeName(recvType(fn)) != "Query" || fn.Blocks == nil {
			continue
		}
		for _, b := range fn.Blocks {
			for _, ins := range b.Instrs {
				bo, ok := ins.(*ssa.BinOp)
				if !ok || bo.Op != token.ADD {
					continue
				}
				var par *ssa.Parameter
				for _, op := range []ssa.Value{bo.X, bo.Y} {
					// a widening conversion of a parameter is the parameter; a narrowing one is the subject of C03.R16
					v := op
					if cv, ok := v.(*ssa.Convert); ok {
						if ft, ok1 := cv.X.Type().Underlying().(*types.Basic); ok1 {
							if tt, ok2 := cv.Type().Underlying().(*types.Basic); ok2 && intWidth(tt) >= intWidth(ft) {
								v = cv.X
							}
						}
					}
					if pr, ok := v.(*ssa.Parameter); ok {
						if bt, ok := pr.Type().Underlying().(*types.Basic); ok && bt.Info()&types.IsInteger != 0 {
							par = pr
						}
					}
				}
				if par == nil {
					continue
				}
				n++
				bt, _ := bo.Type().Underlying().(*types.Basic)
				wide := bt != nil && (bt.Kind() == types.Uint64 || bt.Kind() == types.Int64 || bt.Kind() == types.Int || bt.Kind() == types.Uint || bt.Kind() == types.Uintptr)
				r.Check(wide, p.FuncName(fn), fmt.Sprintf("sum with parameter %s", par.Name()), p.Pos(bo.Pos()), "a sum involving a caller-supplied value is computed in at least 64 bits (here: "+bo.Type().String()+"); a 32-bit sum wraps around and a step beyond the end lands on an entity again instead of exhausting the query")
			}
		}
	}
	if n == 0 {
		r.Anchor("a Query method adding a parameter to a position")
	}
}

// sameTargetSkipChecked: a function that skips work because a table's relation target already equals the requested target
// has applied the relation check (flag and id) to that table before: otherwise a missing or non-relation component is
// accepted silently whenever the targets happen to agree (the zero target for tables without any relation).
func sameTargetSkipChecked(p *Prog, r *Reporter) {
	n := 0
	for _, fn := range p.Funcs {
		if fn.Pkg == nil || fn.Pkg.Pkg.Name() != "ecs" || fn.Blocks == nil {
			continue
		}
		hasComp := false
		var target *ssa.Parameter
		for _, pr := range fn.Params {
			if typeName(pr.Type()) == "ID" {
				hasComp = true
			}
			if isEntityType(pr.Type()) && pr.Name() != "entity" {
				target = pr
			}
		}
		if !hasComp || target == nil {
			continue
		}
		for _, b := range fn.Blocks {
			iff, ok := b.Instrs[len(b.Instrs)-1].(*ssa.If)
			if !ok {
				continue
			}
			atom, _ := condAtom(iff.Cond)
			bo, ok := atom.(*ssa.BinOp)
			if !ok || (bo.Op != token.EQL && bo.Op != token.NEQ) {
				continue
			}
			var tv ssa.Value
			switch {
			case bo.X == ssa.Value(target):
				tv = bo.Y
			case bo.Y == ssa.Value(target):
				tv = bo.X
			default:
				continue
			}
			_, fld, base, ok := loadedField(tv)
			if !ok || fld != "RelationTarget" {
				continue
			}
			n++
			okc, _ := relationChecked(p, fn, iff, base)
			construct := fmt.Sprintf("same-target shortcut #%d on %s", n, base)
			if okc {
				r.OK(p.FuncName(fn), construct, p.Pos(iff.Pos()), "the relation check of the same table dominates the comparison")
			} else {
				r.Bad(p.FuncName(fn), construct, p.Pos(iff.Pos()), "the table's target is compared with the requested target, and the work skipped if they agree, before the relation check (flag and id) of that table: a missing or non-relation component is accepted silently whenever the targets agree")
			}
		}
	}
	if n == 0 {
		r.Anchor("a same-target shortcut (table.RelationTarget == target)")
	}
}

// offsetsInPointerWidth: the offset handed to unsafe.Add is never a 32-bit product: itemSize*index wraps at 4 GiB per
// column and distinct rows then share storage.
func offsetsInPointerWidth(p *Prog, r *Reporter) {
	n := 0
	for _, fn := range p.Funcs {
		if fn.Pkg == nil || fn.Pkg.Pkg.Name() != "ecs" || fn.Blocks == nil {
			continue
		}
		for _, site := range callsIn(fn) {
			bi, ok := site.Common().Value.(*ssa.Builtin)
			if !ok || bi.Name() != "Add" || len(site.Common().Args) != 2 {
				continue
			}
			// the offset: look through conversions for a product
			v := site.Common().Args[1]
			var mul *ssa.BinOp
			for d := 0; d < 4 && mul == nil; d++ {
				switch x := v.(type) {
				case *ssa.BinOp:
					if x.Op == token.MUL {
						mul = x
					}
					d = 4
				case *ssa.Convert:
					v = x.X
				case *ssa.ChangeType:
					v = x.X
				default:
					d = 4
				}
			}
			if mul == nil {
				continue
			}
			// a product of a constant (or a small fixed size) and an 8-bit id cannot reach 2^32
			small := func(v ssa.Value) bool {
				if bt, ok := stripConvs(v).Type().Underlying().(*types.Basic); ok && (bt.Kind() == types.Uint8 || bt.Kind() == types.Int8) {
					return true
				}
				return false
			}
			if small(mul.X) || small(mul.Y) {
				continue
			}
			if _, isC := mul.X.(*ssa.Const); isC {
				if _, isC2 := mul.Y.(*ssa.Const); isC2 {
					continue
				}
			}
			n++
			bt, _ := mul.Type().Underlying().(*types.Basic)
			wide := bt != nil && (bt.Kind() == types.Uintptr || bt.Kind() == types.Int || bt.Kind() == types.Uint || bt.Kind() == types.Int64 || bt.Kind() == types.Uint64)
			r.Check(wide, p.FuncName(fn), fmt.Sprintf("offset product #%d", n), p.Pos(mul.Pos()), "the product handed to unsafe.Add is computed in pointer width (here: "+mul.Type().String()+"); a 32-bit product wraps at 4 GiB and distinct rows share storage")
		}
	}
	if n == 0 {
		r.Anchor("an unsafe.Add with a size*index offset")
	}
}

// freshRelationFilterPerCall: generic FilterN.Filter hands out, for a per-call target, a relation filter that belongs to that
// call: it never stores the parameter-supplied target into a struct reachable from the receiver and returns that struct.
func freshRelationFilterPerCall(p *Prog, r *Reporter) {
	n := 0
	for _, fn := range p.Funcs {
		if fn.Pkg == nil || fn.Pkg.Pkg.Name() != "generic" || fn.Blocks == nil || cname(fn) != "Filter" || fn.Signature.Recv() == nil || !fn.Signature.Variadic() {
			continue
		}
		last := fn.Params[len(fn.Params)-1]
		sl, ok := last.Type().Underlying().(*types.Slice)
		if !ok || !isEntityType(sl.Elem()) {
			continue
		}
		n++
		bad := token.NoPos
		for _, b := range fn.Blocks {
			for _, ins := range b.Instrs {
				st, ok := ins.(*ssa.Store)
				if !ok || !isEntityType(st.Val.Type()) {
					continue
				}
				// value: target[0]
				u, ok := st.Val.(*ssa.UnOp)
				if !ok || u.Op != token.MUL {
					continue
				}
				ia, ok := u.X.(*ssa.IndexAddr)
				if !ok || ia.X != ssa.Value(last) {
					continue
				}
				// address: rooted in the receiver (a field chain over fn.Params[0]) rather than in a fresh allocation
				a := st.Addr
				for {
					if fa, ok := a.(*ssa.FieldAddr); ok {
						a = fa.X
						continue
					}
					break
				}
				if a == ssa.Value(fn.Params[0]) {
					bad = st.Pos()
				}
				if ul, ok := a.(*ssa.UnOp); ok && ul.Op == token.MUL {
					bad = st.Pos() // through a pointer loaded from somewhere: shared as well
				}
			}
		}
		if bad == token.NoPos {
			r.OK(p.FuncName(fn), "per-call target", p.FnPos(fn), "the target given to this call is stored only in a filter allocated by this call")
		} else {
			r.Bad(p.FuncName(fn), "per-call target", p.Pos(bad), "the target given to this call is written into a struct owned by the generic filter, which is handed out by every call: a later call re-targets the filters and open queries handed out earlier")
		}
	}
	if n == 0 {
		r.Anchor("generic FilterN.Filter with a variadic target")
	}
}

// compileKeyedByWorld: the generic filter's compilation is valid for one world only (component ids are per world): every
// return of Compile that comes before the compilation (the "already compiled" early exit) is taken only where the world
// argument was compared equal to the world recorded at the last compilation, or the filter is registered (locked).
func compileKeyedByWorld(p *Prog, r *Reporter) {
	fn := p.Fn("generic.(*compiledQuery).Compile")
	if fn == nil {
		r.Anchor("generic.(*compiledQuery).Compile")
		return
	}
	var w *ssa.Parameter
	for _, pr := range fn.Params {
		if typeName(pr.Type()) == "World" {
			w = pr
		}
	}
	if w == nil {
		r.Anchor("Compile: a *World parameter")
		return
	}
	mf := &MustFlow{Fn: fn, EdgeGen: func(b *ssa.BasicBlock, k int) bool {
		atom, holds, ok := edgeCond(b, k)
		if !ok {
			return false
		}
		if bo, ok := atom.(*ssa.BinOp); ok && (bo.Op == token.EQL && holds || bo.Op == token.NEQ && !holds) {
			if bo.X == ssa.Value(w) || bo.Y == ssa.Value(w) {
				return true
			}
		}
		if _, f, _, ok := loadedField(atom); ok && f == "locked" && holds {
			return true
		}
		return false
	}}
	mf.Run()
	// early returns: returns not preceded (dominated) by a store to the compiled flag
	var flagStores []*ssa.BasicBlock
	for _, b := range fn.Blocks {
		for _, ins := range b.Instrs {
			if st, ok := ins.(*ssa.Store); ok {
				if _, f, _, ok := loadedField(st.Addr); ok && f == "compiled" {
					flagStores = append(flagStores, b)
				}
			}
		}
	}
	n := 0
	for _, b := range fn.Blocks {
		ret, ok := b.Instrs[len(b.Instrs)-1].(*ssa.Return)
		if !ok {
			continue
		}
		late := false
		for _, sb := range flagStores {
			if sb == b || dominatesBlock(sb, b) {
				late = true
			}
		}
		if late {
			continue
		}
		n++
		r.Check(mf.Before(ret), p.FuncName(fn), fmt.Sprintf("early return #%d", n), p.Pos(ret.Pos()), "the compilation is re-used only for the world it was made for (or for a registered filter): component ids differ between worlds that registered their types in a different order")
	}
	if n == 0 {
		r.Anchor("Compile: an early return for an already compiled filter")
	}
}

func intWidth(bt *types.Basic) int {
	switch bt.Kind() {
	case types.Int8, types.Uint8:
		return 8
	case types.Int16, types.Uint16:
		return 16
	case types.Int32, types.Uint32:
		return 32
	}
	return 64
}

// ====================== second hunting round (DESIGN §3: N13, N14, P1, P2) ======================

// compiledFiltersFresh: the filters a generic filter hands out do not point into state that a later compilation
// overwrites: no value stored as compiledQuery.filter, and no Filter field of a RelationFilter built by FilterN.Filter, is
// the address of a field of the receiver (a struct embedded in the generic filter); pointers are loaded from pointer fields,
// which Compile re-allocates.
func compiledFiltersFresh(p *Prog, r *Reporter) {
	n := 0
	embedded := func(v ssa.Value) (string, bool) {
		// the address of a (possibly nested) field of a parameter, reached without loading a pointer
		a := v
		name := ""
		for {
			fa, ok := a.(*ssa.FieldAddr)
			if !ok {
				break
			}
			if name == "" {
				name = fieldName(fa.X.Type(), fa.Field)
			}
			a = fa.X
		}
		_, isP := a.(*ssa.Parameter)
		return name, isP && name != ""
	}
	for _, fn := range p.Funcs {
		if fn.Pkg == nil || fn.Pkg.Pkg.Name() != "generic" || fn.Blocks == nil {
			continue
		}
		isCompile := typeName(recvType(fn)) == "compiledQuery" && cname(fn) != "Register" && cname(fn) != "Unregister"
		isFilter := cname(fn) == "Filter" && fn.Signature.Recv() != nil
		if !isCompile && !isFilter {
			continue
		}
		for _, b := range fn.Blocks {
			for _, ins := range b.Instrs {
				st, ok := ins.(*ssa.Store)
				if !ok {
					continue
				}
				fa, ok := st.Addr.(*ssa.FieldAddr)
				if !ok {
					continue
				}
				owner, fld := typeName(fa.X.Type()), fieldName(fa.X.Type(), fa.Field)
				if !(owner == "compiledQuery" && fld == "filter") && !(owner == "RelationFilter" && fld == "Filter") {
					continue
				}
				mi, ok := st.Val.(*ssa.MakeInterface)
				if !ok {
					continue
				}
				if _, isPtr := mi.X.Type().Underlying().(*types.Pointer); !isPtr {
					continue // a value (the include mask): copied
				}
				n++
				sub, emb := embedded(mi.X)
				construct := fmt.Sprintf("%s.%s = pointer #%d", owner, fld, n)
				if emb {
					r.Bad(p.FuncName(fn), construct, p.Pos(st.Pos()), "the filter handed out points at "+sub+", a struct embedded in the generic filter that the next compilation overwrites in place: queries still open and filters handed out earlier change their selection when the generic filter is reconfigured or used with another world")
				} else {
					r.OK(p.FuncName(fn), construct, p.Pos(st.Pos()), "the pointer is loaded from a pointer field or freshly allocated, not the address of state embedded in the generic filter")
				}
			}
		}
	}
	if n == 0 {
		r.Anchor("generic: a pointer stored as compiled filter / relation filter's inner filter")
	}
}

// recycleAfterTableEvents: in a function that delivers removal events for the rows of a table and recycles their handles,
// no handle is recycled where a notification can still follow before the table is emptied: within the removal window a
// listener must not see handles that are dead but still listed in their table.
func recycleAfterTableEvents(p *Prog, r *Reporter) {
	n := 0
	for _, fn := range p.Funcs {
		if fn.Pkg == nil || fn.Pkg.Pkg.Name() != "ecs" || fn.Blocks == nil {
			continue
		}
		isRecycle := func(i ssa.Instruction) bool {
			c, ok := i.(ssa.CallInstruction)
			if !ok {
				return false
			}
			sc := c.Common().StaticCallee()
			return sc != nil && cname(sc) == "Recycle" && typeName(recvType(sc)) == "entityPool"
		}
		isNotify := func(i ssa.Instruction) bool {
			c, ok := i.(ssa.CallInstruction)
			return ok && c.Common().IsInvoke() && c.Common().Method.Name() == "Notify"
		}
		isEmpty := func(i ssa.Instruction) bool {
			c, ok := i.(ssa.CallInstruction)
			if !ok {
				return false
			}
			sc := c.Common().StaticCallee()
			if sc == nil {
				return false
			}
			return (cname(sc) == "Reset" || cname(sc) == "Remove") && typeName(recvType(sc)) == "archetype"
		}
		hasNotify := false
		for _, b := range fn.Blocks {
			for _, ins := range b.Instrs {
				if isNotify(ins) {
					hasNotify = true
				}
			}
		}
		if !hasNotify {
			continue
		}
		kfn := 0
		for _, b := range fn.Blocks {
			for k, ins := range b.Instrs {
				if !isRecycle(ins) {
					continue
				}
				n++
				kfn++
				// forward from the recycle: a Notify reachable without passing a call that empties the table?
				bad := token.NoPos
				seen := map[*ssa.BasicBlock]bool{}
				var walk func(x *ssa.BasicBlock, from int)
				walk = func(x *ssa.BasicBlock, from int) {
					for j := from; j < len(x.Instrs); j++ {
						if isEmpty(x.Instrs[j]) {
							return
						}
						if isNotify(x.Instrs[j]) {
							bad = x.Instrs[j].Pos()
							return
						}
					}
					for _, s := range x.Succs {
						if !seen[s] {
							seen[s] = true
							walk(s, 0)
						}
					}
				}
				walk(b, k+1)
				construct := fmt.Sprintf("handle recycled #%d", kfn)
				if bad == token.NoPos {
					r.OK(p.FuncName(fn), construct, p.Pos(ins.Pos()), "no notification can follow before the table is emptied")
				} else {
					r.Bad(p.FuncName(fn), construct, p.Pos(ins.Pos()), "after this handle is recycled a removal event (at "+p.Pos(bad)+") can still be delivered before the table is emptied: inside that event the listener sees a handle that is dead (Alive false) but still yielded by queries")
				}
			}
		}
	}
	if n == 0 {
		r.Anchor("a function that notifies and recycles handles")
	}
}

// closeGuarded: the function that releases a query's lock bit does so only after a test of the query's own state: a
// second Close of a query whose bit was re-issued to another query must not release that other query's lock.
func closeGuarded(p *Prog, r *Reporter) {
	n := 0
	for _, fn := range p.Funcs {
		if fn.Pkg == nil || fn.Pkg.Pkg.Name() != "ecs" || fn.Blocks == nil {
			continue
		}
		for _, site := range callsIn(fn) {
			sc := site.Common().StaticCallee()
			if sc == nil || cname(sc) != "unlock" || typeName(recvType(sc)) != "World" || len(site.Common().Args) < 2 {
				continue
			}
			// the bit released is a field of a Query
			o, f, base, ok := loadedField(site.Common().Args[1])
			if !ok || o != "Query" {
				continue
			}
			n++
			// dominated by a branch on a field of the same query
			guarded := false
			for _, b := range fn.Blocks {
				atom, _, okc := ifCond(b)
				if !okc || !(b == site.Block() || dominatesBlock(b, site.Block())) || b == site.Block() {
					continue
				}
				var uses func(v ssa.Value, d int) bool
				uses = func(v ssa.Value, d int) bool {
					if d > 4 || v == nil {
						return false
					}
					if o2, _, b2, ok := loadedField(v); ok && o2 == "Query" && b2 == base {
						return true
					}
					if ins, ok := v.(ssa.Instruction); ok {
						for _, op := range ins.Operands(nil) {
							if *op != nil && uses(*op, d+1) {
								return true
							}
						}
					}
					return false
				}
				if uses(atom, 0) {
					guarded = true
				}
			}
			construct := "releases Query." + f
			if guarded {
				r.OK(p.FuncName(fn), construct, p.Pos(site.Pos()), "the release is dominated by a test of the query's own state")
			} else {
				r.Bad(p.FuncName(fn), construct, p.Pos(site.Pos()), "the query's lock bit is released without a test that this query still holds it: Close() of a query that already finished, after its bit was re-issued to another query, silently releases that query's lock (the world is unlocked while a query is open)")
			}
		}
	}
	if n == 0 {
		r.Anchor("a release of a Query's lock bit")
	}
}

// batchCountOnEveryReturn: a batch mover that returns the number of matching entities returns a value built from the
// matched tables' lengths on every return, not a constant.
func batchCountOnEveryReturn(p *Prog, r *Reporter) {
	n := 0
	for _, fn := range p.Funcs {
		if fn.Pkg == nil || fn.Pkg.Pkg.Name() != "ecs" || fn.Blocks == nil || typeName(recvType(fn)) != "World" {
			continue
		}
		res := fn.Signature.Results()
		if res.Len() != 1 {
			continue
		}
		if bt, ok := res.At(0).Type().Underlying().(*types.Basic); !ok || bt.Kind() != types.Int {
			continue
		}
		// a batch mover: takes a Filter and calls getArchetypes
		takesFilter := false
		for _, pr := range fn.Params {
			if typeName(pr.Type()) == "Filter" {
				takesFilter = true
			}
		}
		enumerates := false
		for _, site := range callsIn(fn) {
			if sc := site.Common().StaticCallee(); sc != nil && cname(sc) == "getArchetypes" {
				enumerates = true
			}
		}
		if !takesFilter || !enumerates {
			continue
		}
		k := 0
		for _, b := range fn.Blocks {
			ret, ok := b.Instrs[len(b.Instrs)-1].(*ssa.Return)
			if !ok {
				continue
			}
			k++
			n++
			_, isConst := ret.Results[0].(*ssa.Const)
			construct := fmt.Sprintf("return #%d", k)
			if isConst {
				r.Bad(p.FuncName(fn), construct, p.Pos(ret.Pos()), "the batch operation returns the constant "+exprString(ret.Results[0])+" on this path, before the filter was evaluated: the returned count is not the number of matching entities (and an unregistered filter handle goes unnoticed)")
			} else {
				r.OK(p.FuncName(fn), construct, p.Pos(ret.Pos()), "the returned count is computed from the matched tables")
			}
		}
	}
	if n == 0 {
		r.Anchor("a batch mover returning a count")
	}
}
