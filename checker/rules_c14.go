package main

import (
	"bytes"
	"fmt"
	"go/token"
	"go/types"
	"os"
	"os/exec"
	"regexp"
	"sort"
	"strings"

	"golang.org/x/tools/go/ssa"
)

func init() {
	register(&Property{
		ID: "C14",
		Decides: "every parameter through which a component value enters the raw (unsafe) copy into storage is reported by the compiler's escape analysis as leaking, so that nothing the component points to can live on the caller's stack (R1); every call of the raw byte-copy primitive is classified by the provenance of its operands: entity storage (pointer-free by type) is fine, a raw copy into or out of a component column must be dominated by a test that the column's type is pointer-free — otherwise the garbage collector's write barrier is bypassed (R2); " +
			"every shrinking write to a table's length zeroes the vacated rows, so storage stops keeping referents alive (R3 = C06.R3); column storage is allocated as reflect arrays of the column's registered type, retained in the table, and the cached raw pointers are derived from the retained values (R4).",
		NotDecided:  "garbage-collection schedules themselves; that the compiler's escape verdict is right; pointer-bearing data smuggled through uintptr or similar by user types.",
		Assumptions: append([]string{"the compiler's -m escape report is faithful for the toolchain used to build (default go; thorough also go1.26.8)"}, commonAssumptions...),
		Rules: []Rule{
			{ID: "C14.R1", Floor: 8, Run: c14r1, Text: "escape verdicts (E-esc): parameters of type interface{}, Component or []Component whose value flows (E-flow) into a reflect.ValueOf(x).UnsafePointer() ingest must be `leaking param` / `leaking param content` in `go build -gcflags=-m` output of package ecs"},
			{ID: "C14.R2", Floor: 6, Run: c14r2, Text: "raw copy classification: each call of the raw-copy primitive has operands that are entity storage (element type Entity: pointer-free) or a component column of unknown registered type (layout.pointer, Get, a caller-supplied unsafe.Pointer, the ingest pointer, zeroPointer); a raw copy touching a component column must be dominated by a pointer-freeness test of that column"},
			{ID: "C14.R3", Floor: 3, Run: c06r3, Text: "removed data is zeroed (= C06.R3 / C01.R4): shrinking a table zeroes the vacated rows (typed SetZero or zero-copy)"},
			{ID: "C14.R4", Floor: 4, Run: c14r4, Text: "typed, retained buffers: every value stored into archetypeData.buffers / entityBuffer is reflect.New(reflect.ArrayOf(n, T)).Elem() with T the column's registered type (node.Types[i], the old buffer's element type, or the entity type); every value stored into layout.pointer / entityPointer is X.Addr().UnsafePointer() of such a retained buffer"},
			{ID: "C14.R5", Floor: 3, Run: c01r7, Text: "swap-remove moves every column (= C01.R7): a column skipped on removal leaves the surviving entity pointing at the removed entity's referent"},
			{ID: "C14.R6", Floor: 3, Run: columnEffectsComplete, Text: "per-column effects are not skipped (= C01.R12)"},
			{ID: "C14.R7", Floor: 2, Run: idsNotFabricated, Text: "component ids in per-column loops come from the table's id list (= C01.R13): zeroing by buffer position clears the wrong columns"},
			{ID: "C14.R8", Floor: 1, Run: typeListedForItsID, Text: "a column's type is the registry's type for its id: in every componentType{ID, Type} literal Type is registry.Types[ID.id]"},
			{ID: "C14.R9", Floor: 1, Run: offsetsInPointerWidth, Text: "storage offsets are computed in pointer width (= C01.R18)"},
			{ID: "C14.R10", Floor: 4, Run: registryKeyIsParam, Text: "the registry is keyed by the type as given (= C16.R15): two types never share a column whose pointer layout was taken from one of them"},
		},
	})
}

// ---------- R1 ----------

// ingestParams: (function, param index) pairs whose interface value reaches reflect.ValueOf(...).UnsafePointer()/Pointer().
func (p *Prog) ingestParams() map[*ssa.Function]map[int]string {
	out := map[*ssa.Function]map[int]string{}
	add := func(fn *ssa.Function, i int, why string) bool {
		if out[fn] == nil {
			out[fn] = map[int]string{}
		}
		if _, ok := out[fn][i]; ok {
			return false
		}
		out[fn][i] = why
		return true
	}
	rootParam := func(v ssa.Value) *ssa.Parameter {
		for d := 0; d < 12; d++ {
			switch x := v.(type) {
			case *ssa.Parameter:
				return x
			case *ssa.UnOp:
				v = x.X
			case *ssa.FieldAddr:
				v = x.X
			case *ssa.Field:
				v = x.X
			case *ssa.IndexAddr:
				v = x.X
			case *ssa.Index:
				v = x.X
			case *ssa.Slice:
				v = x.X
			case *ssa.ChangeType:
				v = x.X
			case *ssa.MakeInterface:
				v = x.X
			case *ssa.Extract:
				v = x.Tuple
			case *ssa.Next:
				v = x.Iter
			case *ssa.Range:
				v = x.X
			case *ssa.Alloc:
				// local variable (spilled parameter, range variable): follow what is stored into it
				var src ssa.Value
				for _, ref := range *x.Referrers() {
					if st, ok := ref.(*ssa.Store); ok && st.Addr == ssa.Value(x) {
						if src == nil {
							src = st.Val
						}
						if _, isP := st.Val.(*ssa.Parameter); isP {
							src = st.Val
						}
					}
				}
				if src == nil {
					return nil
				}
				v = src
			default:
				return nil
			}
		}
		return nil
	}
	// seeds
	for _, fn := range p.Funcs {
		if fn.Pkg == nil || fn.Pkg.Pkg.Name() != "ecs" {
			continue
		}
		for _, site := range callsIn(fn) {
			sc := site.Common().StaticCallee()
			if sc == nil || sc.Pkg == nil || sc.Pkg.Pkg.Path() != "reflect" || (cname(sc) != "UnsafePointer" && cname(sc) != "Pointer" && cname(sc) != "UnsafeAddr") {
				continue
			}
			// receiver: reflect.ValueOf(x) result
			recv := site.Common().Args[0]
			vo := callOf(originValue(recv))
			if vo == nil || vo.Common().StaticCallee() == nil || cname(vo.Common().StaticCallee()) != "ValueOf" {
				continue
			}
			if pr := rootParam(vo.Common().Args[0]); pr != nil && pr.Parent() == fn {
				add(fn, paramIndex(pr), "reflect.ValueOf("+pr.Name()+")."+cname(sc)+"() in "+p.FuncName(fn))
			}
		}
	}
	// propagate to callers
	for changed := true; changed; {
		changed = false
		for _, cf := range p.Funcs {
			for _, site := range callsIn(cf) {
				sc := p.canon(site.Common().StaticCallee())
				m, ok := out[sc]
				if sc == nil || !ok {
					continue
				}
				for i, why := range m {
					if i >= len(site.Common().Args) {
						continue
					}
					if pr := rootParam(site.Common().Args[i]); pr != nil && pr.Parent() == cf {
						if add(cf, paramIndex(pr), p.FuncName(cf)+" → "+why) {
							changed = true
						}
					}
				}
			}
		}
	}
	return out
}

// originValue: through a local variable (Alloc) to the single value stored in it.
func originValue(v ssa.Value) ssa.Value {
	if u, ok := v.(*ssa.UnOp); ok && u.Op == token.MUL {
		if a, ok := u.X.(*ssa.Alloc); ok {
			var val ssa.Value
			n := 0
			for _, ref := range *a.Referrers() {
				if st, ok := ref.(*ssa.Store); ok && st.Addr == ssa.Value(a) {
					val = st.Val
					n++
				}
			}
			if n == 1 {
				return val
			}
		}
	}
	return v
}

var escRe = regexp.MustCompile(`^(\S+?):(\d+):(\d+): (leaking param content|leaking param|moved to heap|.* does not escape)(: )?(.*)$`)

// escapeReport runs the compiler's escape analysis for package ecs and returns verdicts keyed "file:line:col".
func (p *Prog) escapeReport(goBin string) (map[string]string, string, error) {
	args := []string{"build", "-gcflags=-m"}
	if p.Cfg.Tags != "" {
		args = append(args, "-tags="+p.Cfg.Tags)
	}
	args = append(args, "./ecs")
	cmd := exec.Command(goBin, args...)
	cmd.Dir = p.Repo
	cmd.Env = append(os.Environ(), "GOFLAGS=-mod=mod", "GOPROXY=off", "GOSUMDB=off", "GOTOOLCHAIN=local", "GOWORK=off", "GOARCH="+p.Cfg.GOARCH, "CGO_ENABLED=0")
	var buf bytes.Buffer
	cmd.Stderr = &buf
	cmd.Stdout = &buf
	if err := cmd.Run(); err != nil {
		return nil, "", fmt.Errorf("%s %v: %v: %s", goBin, args, err, strings.TrimSpace(buf.String()))
	}
	ver := ""
	if out, err := exec.Command(goBin, "version").Output(); err == nil {
		ver = strings.TrimSpace(string(out))
	}
	res := map[string]string{}
	for _, ln := range strings.Split(buf.String(), "\n") {
		m := escRe.FindStringSubmatch(strings.TrimSpace(ln))
		if m == nil {
			continue
		}
		key := m[1] + ":" + m[2] + ":" + m[3]
		verdict := m[4]
		if strings.HasSuffix(verdict, "does not escape") {
			verdict = "does not escape"
		}
		// keep the strongest verdict per position
		if old, ok := res[key]; ok && old != "does not escape" {
			continue
		}
		res[key] = verdict
	}
	return res, ver, nil
}

func c14r1(p *Prog, r *Reporter) {
	ing := p.ingestParams()
	if len(ing) == 0 {
		r.Anchor("a function passing a parameter to reflect.ValueOf(x).UnsafePointer()")
		return
	}
	goBins := []string{"go"}
	if os.Getenv("ARCHECHECK_TIER") == "thorough" {
		if _, err := exec.LookPath("go1.26.8"); err == nil {
			goBins = append(goBins, "go1.26.8")
		}
	}
	for _, gb := range goBins {
		rep, ver, err := p.escapeReport(gb)
		if err != nil {
			r.Und("ecs", "escape report ("+gb+")", "-", "cannot obtain the compiler's escape report: "+err.Error())
			continue
		}
		var fns []*ssa.Function
		for fn := range ing {
			fns = append(fns, fn)
		}
		sort.Slice(fns, func(i, j int) bool { return p.FuncName(fns[i]) < p.FuncName(fns[j]) })
		for _, fn := range fns {
			var idxs []int
			for i := range ing[fn] {
				idxs = append(idxs, i)
			}
			sort.Ints(idxs)
			for _, i := range idxs {
				pr := fn.Params[i]
				if !isComponentCarrier(pr.Type()) {
					continue
				}
				ps := p.Fset.Position(pr.Pos())
				key := fmt.Sprintf("%s:%d:%d", strings.TrimPrefix(ps.Filename, p.Repo+"/"), ps.Line, ps.Column)
				verdict, ok := rep[key]
				name := p.FuncName(fn)
				construct := "escape verdict for parameter " + pr.Name()
				if len(goBins) > 1 && gb != "go" {
					construct += " (" + gb + ")"
				}
				switch {
				case !ok:
					r.Und(name, construct, p.Pos(pr.Pos()), "the compiler's report has no verdict at "+key+" ("+ver+")")
				case strings.HasPrefix(verdict, "leaking param"):
					r.OK(name, construct, p.Pos(pr.Pos()), "compiler ("+ver+"): "+verdict+"; the value flows into the raw ingest via "+ing[fn][i])
				default:
					r.Bad(name, construct, p.Pos(pr.Pos()), "compiler ("+ver+"): "+pr.Name()+" "+verdict+", but its bytes are copied into component storage through unsafe pointers ("+ing[fn][i]+"): a component literal holding a pointer to a local would leave a dangling stack pointer in storage")
				}
			}
		}
	}
}

func isComponentCarrier(t types.Type) bool {
	switch x := t.Underlying().(type) {
	case *types.Interface:
		return true
	case *types.Slice:
		return typeName(x.Elem()) == "Component"
	case *types.Struct:
		return typeName(t) == "Component"
	}
	return false
}

// ---------- R2 ----------

// rawCopyPrimitives: functions whose body copies between byte slices forged from unsafe.Pointer parameters.
func (p *Prog) rawCopyPrimitives() map[*ssa.Function]bool {
	out := map[*ssa.Function]bool{}
	for _, fn := range p.Funcs {
		for _, site := range callsIn(fn) {
			bi, ok := site.Common().Value.(*ssa.Builtin)
			if !ok || bi.Name() != "copy" {
				continue
			}
			forged := 0
			for _, a := range site.Common().Args {
				if sl, ok := a.(*ssa.Slice); ok {
					if cv, ok := sl.X.(*ssa.Convert); ok {
						if bt, ok := cv.X.Type().Underlying().(*types.Basic); ok && bt.Kind() == types.UnsafePointer {
							if _, isP := cv.X.(*ssa.Parameter); isP {
								forged++
							}
						}
					}
				}
			}
			if forged == 2 {
				out[fn] = true
			}
		}
	}
	return out
}

// classifyPointer: "entity" (pointer-free entity storage) or "column" (component column of unknown type) with a description.
func classifyPointer(v ssa.Value) (string, string) {
	for d := 0; d < 10; d++ {
		switch x := v.(type) {
		case *ssa.Call:
			if bi, ok := x.Call.Value.(*ssa.Builtin); ok && bi.Name() == "Add" {
				v = x.Call.Args[0]
				continue
			}
			if sc := x.Common().StaticCallee(); sc != nil {
				if cname(sc) == "Get" || cname(sc) == "UnsafePointer" {
					return "column", "result of " + cname(sc)
				}
				// an offset helper: a function whose every return is unsafe.Add(<its k-th parameter>, …) stands for that argument
				if k := offsetHelperBase(sc); k >= 0 && k < len(x.Call.Args) {
					v = x.Call.Args[k]
					continue
				}
				// an accessor: a function whose every return is unsafe.Add(<a field of one of its parameters>, …) stands for
				// that field's buffer (`func (a *archetypeAccess) entityAt(i) unsafe.Pointer { return unsafe.Add(a.entityPointer, …) }`)
				if base := offsetHelperFieldBase(sc); base != nil {
					v = base
					continue
				}
			}
			return "column", "result of a call"
		case *ssa.UnOp:
			if x.Op == token.MUL {
				if _, f, _, ok := loadedField(x); ok {
					switch f {
					case "entityPointer":
						return "entity", "entity buffer (element type Entity: no pointers)"
					case "pointer":
						return "column", "layout.pointer"
					case "zeroPointer":
						return "column-zero", "the node's zero block"
					}
				}
				v = x.X
				continue
			}
			return "column", x.String()
		case *ssa.Convert:
			if pt, ok := x.X.Type().Underlying().(*types.Pointer); ok && isEntityType(pt.Elem()) {
				return "entity", "address of an Entity value"
			}
			v = x.X
		case *ssa.Parameter:
			if bt, ok := x.Type().Underlying().(*types.Basic); ok && bt.Kind() == types.UnsafePointer {
				return "column", "caller-supplied unsafe.Pointer " + x.Name()
			}
			return "column", "parameter " + x.Name()
		case *ssa.Alloc:
			for _, ref := range *x.Referrers() {
				if st, ok := ref.(*ssa.Store); ok && st.Addr == ssa.Value(x) {
					return classifyPointer(st.Val)
				}
			}
			return "column", "local"
		case *ssa.Phi:
			return "column", "merged value"
		default:
			return "column", v.String()
		}
	}
	return "column", "?"
}

func c14r2(p *Prog, r *Reporter) {
	prims := p.rawCopyPrimitives()
	if len(prims) == 0 {
		r.Anchor("raw-copy primitive (copy between byte views forged from unsafe.Pointer parameters)")
		return
	}
	for _, fn := range p.Funcs {
		n := 0
		for _, site := range callsIn(fn) {
			sc := site.Common().StaticCallee()
			if sc == nil || !prims[sc] {
				continue
			}
			n++
			args := site.Common().Args
			src, dst := args[len(args)-3], args[len(args)-2]
			sk, sd := classifyPointer(src)
			dk, dd := classifyPointer(dst)
			// a copy inside an unexported helper with a single caller is attributed to that caller, so that extracting
			// the loop into a helper does not turn a known finding into a new one
			name := p.FuncName(soleCallerRoot(p, fn))
			construct := fmt.Sprintf("raw copy #%d: %s → %s", n, sd, dd)
			// the same copy moved into a shared helper: if exactly one caller would make this a listed known finding,
			// it is that finding (the defect is the copy, wherever it was moved to)
			if name2 := knownCaller(p, r.rule.ID, soleCallerRoot(p, fn), construct); name2 != "" {
				name = name2
			}
			// the same copy written out in a sibling method (a caller that inlined the listed function's body): a raw copy
			// with the same source and destination classes in a method of the same type is the listed finding, not a new one
			if n2, c2 := knownSameClass(p, r.rule.ID, name, construct, soleCallerRoot(p, fn)); n2 != "" {
				name, construct = n2, c2
			}
			if sk == "entity" && dk == "entity" {
				r.OK(name, construct, p.Pos(site.Pos()), "both operands are entity storage, whose element type has no pointers (checked from go/types)")
				continue
			}
			// a component column is involved: needs a dominating pointer-freeness test
			pf := &MustFlow{Fn: fn, EdgeGen: func(b *ssa.BasicBlock, k int) bool {
				atom, holds, ok := edgeCond(b, k)
				if !ok {
					return false
				}
				// `lay.hasPointers` false edge, or a call to a hasPointers-like predicate false edge
				if _, f, _, ok := loadedField(atom); ok && strings.Contains(strings.ToLower(f), "pointer") && atom.Type().String() == "bool" {
					return !holds
				}
				return false
			}}
			pf.Run()
			if pf.Before(site.(ssa.Instruction)) {
				r.OK(name, construct, p.Pos(site.Pos()), "dominated by a test that the column's type is pointer-free")
			} else {
				r.Bad(name, construct, p.Pos(site.Pos()), "component bytes of unknown type are copied with a raw memmove and no pointer-freeness test: for pointer-bearing components the garbage collector's write barrier is bypassed (a concurrent GC cycle can free an object that is only referenced from the destination)")
			}
		}
	}
	// the entity type really is pointer-free
	if n := p.Named("ecs.Entity"); n != nil {
		r.Check(!typeHasPointers(n.Underlying(), 0), "ecs.Entity", "entity type is pointer-free", p.Pos(n.Obj().Pos()), "fields: "+n.Underlying().String())
	}
}

func typeHasPointers(t types.Type, d int) bool {
	if d > 6 {
		return true
	}
	switch x := t.Underlying().(type) {
	case *types.Basic:
		return x.Kind() == types.UnsafePointer || x.Kind() == types.String
	case *types.Struct:
		for i := 0; i < x.NumFields(); i++ {
			if typeHasPointers(x.Field(i).Type(), d+1) {
				return true
			}
		}
		return false
	case *types.Array:
		return typeHasPointers(x.Elem(), d+1)
	}
	return true
}

// ---------- R4 ----------

func c14r4(p *Prog, r *Reporter) {
	isReflectCall := func(v ssa.Value, name string) *ssa.Call {
		c := callOf(v)
		if c == nil {
			return nil
		}
		sc := c.Common().StaticCallee()
		if sc == nil || sc.Pkg == nil || sc.Pkg.Pkg.Path() != "reflect" || cname(sc) != name {
			return nil
		}
		return c
	}
	for _, fn := range p.Funcs {
		if typeName(recvType(fn)) != "archetype" {
			continue
		}
		name := p.FuncName(fn)
		for _, b := range fn.Blocks {
			for _, ins := range b.Instrs {
				st, ok := ins.(*ssa.Store)
				if !ok {
					continue
				}
				target := apath(st.Addr)
				isBuf := strings.HasSuffix(target, ".entityBuffer") || strings.Contains(target, ".buffers[")
				isPtr := strings.HasSuffix(target, ".entityPointer") || strings.HasSuffix(target, ".pointer") && !strings.Contains(target, "pointers")
				if strings.HasSuffix(target, ".basePointer") {
					// &layouts[0]
					okb := false
					if cv, ok := st.Val.(*ssa.Convert); ok {
						if ia, ok := cv.X.(*ssa.IndexAddr); ok && isConstInt(ia.Index, 0) && strings.HasSuffix(apath(ia.X), ".layouts") {
							okb = true
						}
					}
					r.Check(okb, name, "store "+tail(target), p.Pos(st.Pos()), "basePointer = &layouts[0] of the current layout table")
					continue
				}
				if isBuf {
					// reflect.New(reflect.ArrayOf(n, T)).Elem()
					okb, why := false, "not reflect.New(reflect.ArrayOf(n, T)).Elem()"
					if el := isReflectCall(st.Val, "Elem"); el != nil {
						if nw := isReflectCall(el.Common().Args[0], "New"); nw != nil {
							if ao := isReflectCall(nw.Common().Args[0], "ArrayOf"); ao != nil {
								tsrc := apath(ao.Common().Args[1])
								if strings.Contains(tsrc, ".Types[") || strings.Contains(tsrc, "call(Elem)") || strings.Contains(tsrc, "entityType") || strings.Contains(tsrc, "call(Type)") {
									okb, why = true, "element type "+tsrc
								} else {
									why = "element type comes from " + tsrc + ", not from the column's registered type"
								}
							}
						}
					}
					if okb {
						r.OK(name, "store "+tail(target), p.Pos(st.Pos()), "typed reflect array, "+why)
					} else {
						r.Bad(name, "store "+tail(target), p.Pos(st.Pos()), "column storage is "+why+": the garbage collector would not see the pointers inside components")
					}
				}
				if isPtr {
					okb := false
					src := ""
					if up := isReflectCall(st.Val, "UnsafePointer"); up != nil {
						if ad := isReflectCall(up.Common().Args[0], "Addr"); ad != nil {
							src = apath(ad.Common().Args[0])
							if strings.Contains(src, "entityBuffer") || strings.Contains(src, ".buffers[") {
								okb = true
							} else if refs := ad.Common().Args[0].Referrers(); refs != nil {
								// the same reflect.Value is also stored into a retained buffer field in this function
								for _, ref := range *refs {
									if s2, ok := ref.(*ssa.Store); ok && s2.Val == ad.Common().Args[0] {
										if t2 := apath(s2.Addr); strings.HasSuffix(t2, ".entityBuffer") || strings.Contains(t2, ".buffers[") {
											okb, src = true, t2+" (same value)"
										}
									}
								}
							}
						}
					}
					if okb {
						r.OK(name, "store "+tail(target), p.Pos(st.Pos()), "derived from the retained buffer "+src)
					} else {
						r.Bad(name, "store "+tail(target), p.Pos(st.Pos()), "a cached raw pointer is not derived from the retained reflect buffer ("+apath(st.Val)+"): the storage could be collected while still in use")
					}
				}
			}
		}
		// composite literal layout{pointer, size}: stores into a local layout then whole-struct store
	}
}

func tail(s string) string {
	if i := strings.LastIndex(s, "."); i >= 0 {
		return s[i+1:]
	}
	return s
}

// soleCallerRoot climbs from an unexported function to its caller while there is exactly one static call site (three levels at most).
func soleCallerRoot(p *Prog, fn *ssa.Function) *ssa.Function {
	for fn.Parent() != nil { // a closure belongs to the function it is written in
		fn = fn.Parent()
	}
	for d := 0; d < 3; d++ {
		if fn.Object() == nil || fn.Object().Exported() {
			return fn
		}
		var caller *ssa.Function
		n := 0
		for _, g := range p.Funcs {
			if g.Synthetic != "" {
				continue // wrappers and thunks only forward
			}
			for _, site := range callsIn(g) {
				if isCallTo(site, fn) {
					n++
					caller = g
				}
			}
		}
		if n != 1 || caller == fn {
			return fn
		}
		fn = caller
	}
	return fn
}

// knownCaller: among the callers of an unexported helper, the single one F for which rule|F|construct is a listed
// known finding ("" if none or several, or if the helper's own key is listed).
func knownCaller(p *Prog, rule string, fn *ssa.Function, construct string) string {
	keys := map[string]bool{}
	for _, k := range loadKnown() {
		if k.Status == "known" {
			keys[k.Key] = true
		}
	}
	if len(keys) == 0 || keys[rule+"|"+p.FuncName(fn)+"|"+construct] {
		return ""
	}
	if fn.Object() == nil || fn.Object().Exported() {
		return ""
	}
	cand := map[string]bool{}
	for _, g := range p.Funcs {
		for _, site := range callsIn(g) {
			if !isCallTo(site, fn) {
				continue
			}
			root := g
			for root.Parent() != nil {
				root = root.Parent()
			}
			if n := p.FuncName(root); keys[rule+"|"+n+"|"+construct] {
				cand[n] = true
			}
		}
	}
	if len(cand) == 1 {
		for n := range cand {
			return n
		}
	}
	return ""
}

// knownSameClass: rule|name|construct is not listed, but exactly one listed known finding of the rule has the same
// construct up to its running number and sits in a method of the same receiver type: returns that finding's function
// and construct.
func knownSameClass(p *Prog, rule, name, construct string, fn *ssa.Function) (string, string) {
	strip := func(c string) string {
		if i := strings.Index(c, "#"); i >= 0 {
			if j := strings.Index(c[i:], ":"); j >= 0 {
				return c[:i] + c[i+j:]
			}
		}
		return c
	}
	recv := typeName(recvType(fn))
	if recv == "" {
		return "", ""
	}
	var hitN, hitC string
	k := 0
	for _, kf := range loadKnown() {
		if kf.Status != "known" {
			continue
		}
		parts := strings.SplitN(kf.Key, "|", 3)
		if len(parts) != 3 || parts[0] != rule {
			continue
		}
		if parts[1] == name && parts[2] == construct {
			return "", "" // listed as it is
		}
		if strip(parts[2]) != strip(construct) {
			continue
		}
		g := p.Fn(parts[1])
		if g == nil || typeName(recvType(g)) != recv {
			continue
		}
		k++
		hitN, hitC = parts[1], parts[2]
	}
	if k == 1 {
		return hitN, hitC
	}
	return "", ""
}

// offsetHelperBase: fn returns, on every path, unsafe.Add(p, …) for one and the same pointer parameter p: index of p, else -1.
// offsetHelperFieldBase: every return of fn is unsafe.Add(<load of the same field of a parameter>, …); returns one such load.
func offsetHelperFieldBase(fn *ssa.Function) ssa.Value {
	if fn == nil || fn.Blocks == nil || fn.Signature.Results().Len() != 1 {
		return nil
	}
	var base ssa.Value
	name := ""
	for _, b := range fn.Blocks {
		ret, ok := b.Instrs[len(b.Instrs)-1].(*ssa.Return)
		if !ok {
			continue
		}
		c, ok := ret.Results[0].(*ssa.Call)
		if !ok {
			return nil
		}
		bi, ok := c.Call.Value.(*ssa.Builtin)
		if !ok || bi.Name() != "Add" {
			return nil
		}
		ld, ok := c.Call.Args[0].(*ssa.UnOp)
		if !ok || ld.Op != token.MUL {
			return nil
		}
		fa, ok := ld.X.(*ssa.FieldAddr)
		if !ok {
			return nil
		}
		if _, isP := fa.X.(*ssa.Parameter); !isP {
			return nil
		}
		f := fieldName(fa.X.Type(), fa.Field)
		if name != "" && name != f {
			return nil
		}
		name, base = f, ld
	}
	return base
}

func offsetHelperBase(fn *ssa.Function) int {
	if fn == nil || fn.Blocks == nil || fn.Signature.Results().Len() != 1 {
		return -1
	}
	idx := -1
	for _, b := range fn.Blocks {
		ret, ok := b.Instrs[len(b.Instrs)-1].(*ssa.Return)
		if !ok {
			continue
		}
		c, ok := ret.Results[0].(*ssa.Call)
		if !ok {
			return -1
		}
		bi, ok := c.Call.Value.(*ssa.Builtin)
		if !ok || bi.Name() != "Add" {
			return -1
		}
		pr, ok := c.Call.Args[0].(*ssa.Parameter)
		if !ok {
			return -1
		}
		k := -1
		for i, q := range fn.Params {
			if q == pr {
				k = i
			}
		}
		if k < 0 || (idx >= 0 && idx != k) {
			return -1
		}
		idx = k
	}
	return idx
}
