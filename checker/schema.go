package main

// Schema alignment: the rules name struct fields and unexported functions of the library (the anchors of DESIGN §1.4).
// A behaviour-preserving rename of an unexported field, function or method, or a change between value and pointer
// receiver, must not turn every rule that mentions the old name into an unresolved anchor. Therefore the checker
// carries a reference schema of the tree it was written against (schema_ref.json: per struct its fields with their
// types, per function its signature and a fingerprint of what it calls and touches) and, on every load, aligns the
// current program with it: identical names first, then unique matches by type (fields) or by signature and fingerprint
// (functions). Rules see reference names; report positions are those of the current source. Something that cannot be
// aligned keeps its own name, and a rule that needs a missing reference name reports an unresolved anchor as before.

import (
	_ "embed"
	"encoding/json"
	"fmt"
	"go/types"
	"os"
	"sort"
	"strings"

	"golang.org/x/tools/go/ssa"
)

//go:embed schema_ref.json
var schemaRefJSON []byte

type refField struct {
	Name string `json:"name"`
	Type string `json:"type"`
}

type refFunc struct {
	Sig   string   `json:"sig"`
	Calls []string `json:"calls"` // names of arche callees and field names touched (fingerprint)
}

type refSchema struct {
	Structs map[string][]refField `json:"structs"` // "ecs.World" → fields in order
	Funcs   map[string]refFunc    `json:"funcs"`   // FuncName (raw) → signature + fingerprint
}

type alignment struct {
	fieldCurToRef map[string]string // "ecs.World.cur" → "ref"
	fieldRefToCur map[string]string // "ecs.World.ref" → "cur"
	funcCurToRef  map[string]string // raw FuncName → reference FuncName
	notes         []string
}

func typeKey(pkgName, typeName string) string { return pkgName + "." + typeName }

// relType renders a type with package names relative to the module (stable across checkouts).
func relType(t types.Type) string {
	return types.TypeString(t, func(p *types.Package) string {
		path := p.Path()
		if strings.HasPrefix(path, modPath) {
			return p.Name()
		}
		return path
	})
}

func (p *Prog) currentSchema() *refSchema {
	s := &refSchema{Structs: map[string][]refField{}, Funcs: map[string]refFunc{}}
	for pn, pk := range p.Pkgs {
		sc := pk.Types.Scope()
		for _, n := range sc.Names() {
			tn, ok := sc.Lookup(n).(*types.TypeName)
			if !ok {
				continue
			}
			st, ok := tn.Type().Underlying().(*types.Struct)
			if !ok {
				continue
			}
			var fs []refField
			for i := 0; i < st.NumFields(); i++ {
				fs = append(fs, refField{st.Field(i).Name(), relType(st.Field(i).Type())})
			}
			s.Structs[typeKey(pn, n)] = fs
		}
	}
	for _, fn := range p.Funcs {
		if fn.Parent() != nil || fn.Synthetic != "" || len(fn.TypeArgs()) > 0 {
			continue // closures, wrappers and instantiations follow their origin
		}
		name := p.rawFuncName(fn)
		sig := fn.Signature
		var parts []string
		for i := 0; i < sig.Params().Len(); i++ {
			parts = append(parts, relType(sig.Params().At(i).Type()))
		}
		res := []string{}
		for i := 0; i < sig.Results().Len(); i++ {
			res = append(res, relType(sig.Results().At(i).Type()))
		}
		rf := refFunc{Sig: "(" + strings.Join(parts, ",") + ")(" + strings.Join(res, ",") + ")"}
		fp := map[string]bool{}
		for _, b := range fn.Blocks {
			for _, ins := range b.Instrs {
				switch x := ins.(type) {
				case ssa.CallInstruction:
					if sc := x.Common().StaticCallee(); sc != nil && p.isArche(sc) {
						fp["call:"+sc.Name()] = true
					} else if x.Common().IsInvoke() {
						fp["invoke:"+x.Common().Method.Name()] = true
					}
				case *ssa.FieldAddr:
					fp["field:"+rawFieldName(x.X.Type(), x.Field)] = true
				case *ssa.Field:
					fp["field:"+rawFieldName(x.X.Type(), x.Field)] = true
				}
			}
		}
		for k := range fp {
			rf.Calls = append(rf.Calls, k)
		}
		sort.Strings(rf.Calls)
		s.Funcs[name] = rf
	}
	return s
}

func rawFieldName(t types.Type, idx int) string {
	if p, ok := t.Underlying().(*types.Pointer); ok {
		t = p.Elem()
	}
	if st, ok := t.Underlying().(*types.Struct); ok && idx < st.NumFields() {
		return st.Field(idx).Name()
	}
	return fmt.Sprintf("#%d", idx)
}

// funcOwner splits "ecs.(*World).Add" into owner "ecs.World" and name "Add"; "ecs.All" into "ecs" and "All".
func funcOwner(full string) (owner, name string) {
	if i := strings.Index(full, ".("); i >= 0 {
		j := strings.Index(full[i:], ").")
		if j > 0 {
			recv := strings.TrimPrefix(full[i+2:i+j], "*")
			if k := strings.Index(recv, "["); k >= 0 {
				recv = recv[:k]
			}
			return full[:i] + "." + recv, full[i+j+2:]
		}
	}
	if i := strings.LastIndex(full, "."); i >= 0 {
		return full[:i], full[i+1:]
	}
	return "", full
}

func jaccard(a, b []string) float64 {
	if len(a) == 0 && len(b) == 0 {
		return 1
	}
	m := map[string]bool{}
	for _, x := range a {
		m[x] = true
	}
	inter := 0
	for _, x := range b {
		if m[x] {
			inter++
		}
	}
	return float64(inter) / float64(len(a)+len(b)-inter)
}

func (p *Prog) align() {
	a := &alignment{fieldCurToRef: map[string]string{}, fieldRefToCur: map[string]string{}, funcCurToRef: map[string]string{}}
	p.al = a
	var ref refSchema
	if err := json.Unmarshal(schemaRefJSON, &ref); err != nil || len(ref.Structs) == 0 {
		return
	}
	cur := p.currentSchema()
	// ---- fields
	for tk, rfs := range ref.Structs {
		cfs, ok := cur.Structs[tk]
		if !ok {
			continue
		}
		refNames, curNames := map[string]bool{}, map[string]bool{}
		for _, f := range rfs {
			refNames[f.Name] = true
		}
		for _, f := range cfs {
			curNames[f.Name] = true
		}
		var ur, uc []refField
		for _, f := range rfs {
			if !curNames[f.Name] {
				ur = append(ur, f)
			}
		}
		for _, f := range cfs {
			if !refNames[f.Name] {
				uc = append(uc, f)
			}
		}
		// group by type; equal counts are matched in declaration order
		byType := func(fs []refField) map[string][]string {
			m := map[string][]string{}
			for _, f := range fs {
				m[f.Type] = append(m[f.Type], f.Name)
			}
			return m
		}
		rt, ct := byType(ur), byType(uc)
		for t, rn := range rt {
			cn := ct[t]
			if len(cn) != len(rn) {
				continue
			}
			for i := range rn {
				a.fieldCurToRef[tk+"."+cn[i]] = rn[i]
				a.fieldRefToCur[tk+"."+rn[i]] = cn[i]
				a.notes = append(a.notes, fmt.Sprintf("field %s.%s is reference field %s (same type %s)", tk, cn[i], rn[i], t))
			}
		}
	}
	// the fingerprints of the current functions must be compared in reference vocabulary: recompute after field alignment
	cur = p.currentSchemaAligned()
	// ---- functions
	type fent struct {
		name string
		rf   refFunc
	}
	refBy, curBy := map[string][]fent{}, map[string][]fent{}
	for n, rf := range ref.Funcs {
		if _, ok := cur.Funcs[n]; ok {
			continue
		}
		o, _ := funcOwner(n)
		refBy[o] = append(refBy[o], fent{n, rf})
	}
	for n, rf := range cur.Funcs {
		if _, ok := ref.Funcs[n]; ok {
			continue
		}
		o, _ := funcOwner(n)
		curBy[o] = append(curBy[o], fent{n, rf})
	}
	for o, rs := range refBy {
		cs := curBy[o]
		sort.Slice(rs, func(i, j int) bool { return rs[i].name < rs[j].name })
		sort.Slice(cs, func(i, j int) bool { return cs[i].name < cs[j].name })
		used := map[int]bool{}
		for _, r := range rs {
			best, bestScore, second := -1, -1.0, -1.0
			_, rname := funcOwner(r.name)
			for ci, c := range cs {
				if used[ci] || c.rf.Sig != r.rf.Sig {
					continue
				}
				score := jaccard(r.rf.Calls, c.rf.Calls)
				_, cnm := funcOwner(c.name)
				if cnm == rname {
					score += 1 // same name, receiver kind changed
				}
				if score > bestScore {
					second = bestScore
					best, bestScore = ci, score
				} else if score > second {
					second = score
				}
			}
			if best < 0 {
				continue
			}
			// unique signature match, or a clearly best fingerprint
			nSame := 0
			for ci, c := range cs {
				if !used[ci] && c.rf.Sig == r.rf.Sig {
					nSame++
				}
			}
			nRefSame := 0
			for _, r2 := range rs {
				if r2.rf.Sig == r.rf.Sig {
					nRefSame++
				}
			}
			if (nSame == 1 && nRefSame == 1 && bestScore >= 0.3) || (bestScore >= 0.6 && bestScore-second >= 0.2) {
				used[best] = true
				a.funcCurToRef[cs[best].name] = r.name
				a.notes = append(a.notes, fmt.Sprintf("function %s is reference function %s (signature %s, similarity %.2f)", cs[best].name, r.name, r.rf.Sig, bestScore))
			}
		}
	}
	sort.Strings(a.notes)
}

// currentSchemaAligned: like currentSchema, with field names already mapped to reference names in the fingerprints.
func (p *Prog) currentSchemaAligned() *refSchema {
	s := p.currentSchema()
	for n, rf := range s.Funcs {
		fn := p.rawByName[n]
		if fn == nil {
			continue
		}
		fp := map[string]bool{}
		for _, b := range fn.Blocks {
			for _, ins := range b.Instrs {
				switch x := ins.(type) {
				case ssa.CallInstruction:
					if sc := x.Common().StaticCallee(); sc != nil && p.isArche(sc) {
						fp["call:"+sc.Name()] = true
					} else if x.Common().IsInvoke() {
						fp["invoke:"+x.Common().Method.Name()] = true
					}
				case *ssa.FieldAddr:
					fp["field:"+fieldName(x.X.Type(), x.Field)] = true
				case *ssa.Field:
					fp["field:"+fieldName(x.X.Type(), x.Field)] = true
				}
			}
		}
		rf.Calls = rf.Calls[:0]
		for k := range fp {
			rf.Calls = append(rf.Calls, k)
		}
		sort.Strings(rf.Calls)
		s.Funcs[n] = rf
	}
	return s
}

// cname: the reference name of a function (method name without receiver and without type arguments); for anything
// else that has a Name, its name.
func cname(x interface{ Name() string }) string {
	if fn, ok := x.(*ssa.Function); ok && fn != nil {
		if theProg != nil && theProg.al != nil {
			o := fn
			if fn.Origin() != nil {
				o = fn.Origin()
			}
			if r, ok := theProg.al.funcCurToRef[theProg.rawFuncName(o)]; ok {
				_, n := funcOwner(r)
				return n
			}
		}
		n := fn.Name()
		if i := strings.Index(n, "["); i > 0 {
			n = n[:i]
		}
		return n
	}
	return x.Name()
}

func dumpSchema(p *Prog, path string) error {
	s := p.currentSchema()
	b, err := json.MarshalIndent(s, "", " ")
	if err != nil {
		return err
	}
	return os.WriteFile(path, b, 0o644)
}
