package main

import (
	"fmt"
	"go/token"
	"go/types"
	"strings"

	"golang.org/x/tools/go/ssa"
)

func init() {
	register(&Property{
		ID: "C11",
		Decides: "every exported entry that can change which entities exist or where they are stored can reach a notification site, directly or through the batch query it returns, whose close function notifies (R1, R6); removal events are delivered inside a lock window and before the entity's removal primitives, all other events outside any lock window, after the structural change and after the component values were copied (R2); " +
			"at each site the subscription test is fed with the event's own type bits, masks and relation ids (R3 = C12.R1); sibling sites of one kind compute their type bits the same way (R4); a no-op neither emits nor crashes (R5 = C10.R3); variables feeding a notification in a loop are fresh in every iteration (R7 = C12.R5).",
		NotDecided:  "truthfulness of masks, ids and targets with respect to the actual change; exactly-one event per change; that replaying the stream rebuilds the world.",
		Assumptions: commonAssumptions,
		Rules: []Rule{
			{ID: "C11.R1", Floor: 25, Run: c11r1, Text: "must notify (reachability): every exported ecs entry whose mod-set contains entity state (index, pools, table lengths) reaches an invoke of Listener.Notify or returns a Query built by the batch-query constructor; Reset, LoadEntities are documented to emit nothing"},
			{ID: "C11.R2", Floor: 12, Run: c11r2, Text: "timing: a notification whose type bits come from subscription(_, true, …) (entity removed) is inside a lock window (acquire … release) and no removal primitive can precede it in the iteration; every other notification (and every call of a notifying helper) is outside lock windows, after a call that changes entity state, and no component-value copy (copyTo) can follow it"},
			{ID: "C11.R3", Floor: 11, Run: c12r1, Text: "literal ⇄ guard correspondence (= C12.R1)"},
			{ID: "C11.R4", Floor: 8, Run: c11r4, Text: "sibling type-bit vectors: creation sites pass subscription(true, false, len(ids)>0, false, R, R) with R = `newRel != nil` or true; removal sites subscription(false, true, false, len(oldIds)>0, oldRel != nil, oldRel != nil); exchange sites (…, len(added)>0, len(removed)>0, relChanged, relChanged || targChanged)"},
			{ID: "C11.R5", Floor: 1, Run: c10r3, Text: "no-op exchange (= C10.R3): the sometimes-nil result of the mover is not dereferenced by the notifier"},
			{ID: "C11.R6", Floor: 6, Run: c11r6, Text: "Q variants: every function that builds a batch query passes a batch list that was filled by the mover; the close function notifies for a batch list when a listener is installed, after releasing the lock"},
			{ID: "C11.R8", Floor: 1, Run: c11r8, Text: "deferred events read the old table after the batch: no function on the retire path (free-list push, deactivate, reset) writes the table's identity fields (RelationTarget, RelationComponent, HasRelationComponent, Mask), so OldTarget/OldRelation of batch events stay truthful after the old table was retired"},
			{ID: "C11.R9", Floor: 4, Run: batchParallelAppends, Text: "every recorded batch range keeps its own old table (= C03.R8): OldTarget / OldRelation of batch events are read from it"},
			{ID: "C11.R10", Floor: 2, Run: constPrefilters, Text: "constant subscription pre-filters: only the two target setters (table in checker/rules_r3.go) test Subscriptions() against a constant mask before notifying, and the mask is event.TargetChanged; every other notification leaves filtering to subscribes() with the per-event types"},
			{ID: "C11.R11", Floor: 7, Run: c04r1, Text: "mask operations are word-uniform (= C04.R1): Added/Removed of an event are computed with Xor/And"},
			{ID: "C11.R12", Floor: 9, Run: c04r2, Text: "mask operations have their set semantics (= C04.R2)"},
			{ID: "C11.R13", Floor: 1, Run: zeroIDNotAbsence, Text: "the zero ID never stands for absence in a comparison: no ==/!= on an ID operand that may hold the zero default of a missing option (component id 0 is a real id)"},
			{ID: "C11.R7", Floor: 1, Run: c12r5, Text: "freshness of notification inputs in loops (= C12.R5)"},
			{ID: "C11.R14", Floor: 4, Run: oldTargetProvenance, Text: "the old target in events is the table's: every value stored into EntityEvent.OldTarget is, on every path (through phis, locals, parameters, results), a RelationTarget read from a table — not the table's on some paths and zero on others"},
			{ID: "C11.R15", Floor: 20, Run: flagArgsNotComputed, Text: "has-relation flags are not computed from the target (= C05.R13): batch and single operations emit the same target events"},
			{ID: "C11.R16", Floor: 4, Run: c01r3, Text: "column copy loops leave the function's parameters alone (= C01.R3): the relation id reported in the event is the one the caller passed"},
			{ID: "C11.R17", Floor: 1, Run: recycleAfterTableEvents, Text: "handles are recycled only after the removal events of their table were delivered (= C02.R21): the world a removal listener inspects is consistent"},
		},
	})
}

// notifiers: functions that (transitively, within arche) reach an invoke of Listener.Notify.
func (p *Prog) notifiers() map[*ssa.Function]bool {
	out := map[*ssa.Function]bool{}
	for _, fn := range p.Funcs {
		for _, site := range callsIn(fn) {
			if site.Common().IsInvoke() && site.Common().Method.Name() == "Notify" && isNamed(site.Common().Value.Type(), "/ecs", "Listener") {
				out[fn] = true
			}
		}
	}
	for changed := true; changed; {
		changed = false
		for _, fn := range p.Funcs {
			if out[fn] {
				continue
			}
			for _, site := range callsIn(fn) {
				callees, boundary := p.Callees(site)
				if boundary {
					continue
				}
				for _, c := range callees {
					if out[c] {
						out[fn] = true
						changed = true
					}
				}
			}
		}
	}
	return out
}

func c11r1(p *Prog, r *Reporter) {
	nq := p.Fn("ecs.newBatchQuery")
	if nq == nil {
		r.Anchor("ecs.newBatchQuery")
		return
	}
	not := p.notifiers()
	buildsBatchQuery := map[*ssa.Function]bool{nq: true}
	for changed := true; changed; {
		changed = false
		for _, fn := range p.Funcs {
			if buildsBatchQuery[fn] || !strings.Contains(fn.Signature.Results().String(), "Query") {
				continue
			}
			for _, site := range callsIn(fn) {
				if sc := site.Common().StaticCallee(); sc != nil && buildsBatchQuery[sc] {
					buildsBatchQuery[fn] = true
					changed = true
				}
			}
		}
	}
	exempt := map[string]string{
		"ecs.(*World).Reset":        "documented to emit no events (the world is emptied wholesale)",
		"ecs.(*World).LoadEntities": "documented to emit no events (entity state is replaced wholesale)",
	}
	for _, e := range p.Entries("ecs") {
		if !reachesExistingState(e) {
			continue
		}
		if p.Mod(e).Has(isCore) == nil {
			continue
		}
		name := p.FuncName(e)
		if why, ok := exempt[name]; ok {
			r.OKt(name, "notifies", p.FnPos(e), "exempt: "+why)
			continue
		}
		// queries themselves (Next/Close …) close and notify through the close function
		switch {
		case not[e]:
			r.OK(name, "notifies", p.FnPos(e), "changes entity state and reaches a Listener.Notify site")
		case buildsBatchQuery[e]:
			r.OK(name, "notifies", p.FnPos(e), "changes entity state and returns a batch query; its close function notifies (R6)")
		default:
			r.Bad(name, "notifies", p.FnPos(e), "the entry can change entity state ("+p.Mod(e).Has(isCore).Path+") but reaches no notification site: its changes would be invisible to listeners")
		}
	}
}

// ---------- R2 ----------

func isRemovalNotify(fn *ssa.Function, site ssa.CallInstruction) (bool, bool) {
	// find the subscription(...) call feeding the event's EventTypes in this function; removal iff its 2nd arg is constant true
	found, removal := false, false
	for _, s2 := range callsIn(fn) {
		sc := s2.Common().StaticCallee()
		if sc == nil || cname(sc) != "subscription" {
			continue
		}
		found = true
		if fl := subscriptionFlagArgs(s2); len(fl) >= 2 && fl[1] != nil {
			if cb, ok := constBool(fl[1]); ok && cb {
				removal = true
			}
		}
	}
	return found, removal
}

func c11r2(p *Prog, r *Reporter) {
	acq, rel := p.lockPrimitives()
	not := p.notifiers()
	copyTo := p.Fn("ecs.(*World).copyTo")
	isAcq := func(i ssa.Instruction) bool {
		c, ok := i.(ssa.CallInstruction)
		return ok && c.Common().StaticCallee() != nil && acq[c.Common().StaticCallee()]
	}
	isRel := func(i ssa.Instruction) bool {
		c, ok := i.(ssa.CallInstruction)
		return ok && c.Common().StaticCallee() != nil && rel[c.Common().StaticCallee()]
	}
	changesEntities := func(i ssa.Instruction) bool {
		c, ok := i.(ssa.CallInstruction)
		if !ok {
			return false
		}
		return p.SiteMod(c).Has(isCore) != nil
	}
	isRemovalPrim := func(i ssa.Instruction) bool {
		c, ok := i.(ssa.CallInstruction)
		if !ok || c.Common().StaticCallee() == nil {
			return false
		}
		sc := c.Common().StaticCallee()
		if cname(sc) == "Recycle" && typeName(recvType(sc)) == "entityPool" {
			return true
		}
		return typeName(recvType(sc)) == "archetype" && (cname(sc) == "Remove" || cname(sc) == "Reset")
	}
	for _, fn := range p.Funcs {
		if fn.Pkg == nil || fn.Pkg.Pkg.Name() != "ecs" {
			continue
		}
		readsLockBit := false
		for _, b := range fn.Blocks {
			for _, ins := range b.Instrs {
				if _, f, _, ok := loadedField(insValue(ins)); ok && f == "lockBit" {
					readsLockBit = true
				}
			}
		}
		locked := &MustFlow{Fn: fn, InstrGen: isAcq, InstrKill: isRel}
		locked.Run()
		unlocked := &MustFlow{Fn: fn, Entry: !readsLockBit, InstrGen: isRel, InstrKill: isAcq}
		unlocked.Run()
		changed := &MustFlow{Fn: fn, InstrGen: changesEntities}
		changed.Run()
		name := p.FuncName(fn)
		n, nm := 0, 0
		for _, site := range callsIn(fn) {
			direct := site.Common().IsInvoke() && site.Common().Method.Name() == "Notify" && isNamed(site.Common().Value.Type(), "/ecs", "Listener")
			helper := false
			if sc := site.Common().StaticCallee(); sc != nil && not[sc] && !direct {
				// calls of pure notification helpers (functions that notify and change no entity state)
				if p.Mod(sc).Has(isCore) == nil {
					helper = true
				}
			}
			if sc := site.Common().StaticCallee(); sc != nil && not[sc] && !direct && !helper && copyTo != nil {
				// a callee that changes entity state and delivers its own event (the public NewEntity used as a helper):
				// the event it sends must already describe finished components
				nm++
				cons := "call of a notifying mutator #" + itoa(nm) + " (" + sc.Name() + ")"
				if reachableFrom(fn, site.(ssa.Instruction), func(i ssa.Instruction) bool { return isCallTo(i, copyTo) }) {
					r.Bad(name, cons, p.Pos(site.Pos()), "component values are copied (copyTo) after a call that already delivered the entity's event: the listener sees the new entity with zeroed components")
				} else {
					r.OK(name, cons, p.Pos(site.Pos()), "no component-value copy follows the call that delivers the event")
				}
			}
			if !direct && !helper {
				continue
			}
			n++
			construct := "notification #" + itoa(n)
			ins := site.(ssa.Instruction)
			_, removal := isRemovalNotify(fn, site)
			if direct && removal {
				okLock := locked.Before(ins)
				okOrder := !reachableNoBackEdge(fn, isRemovalPrim, ins)
				switch {
				case !okLock:
					r.Bad(name, construct+" (entity removed)", p.Pos(site.Pos()), "the removal event is delivered outside a lock window: the listener could change the world while the entity is being removed")
				case !okOrder:
					r.Bad(name, construct+" (entity removed)", p.Pos(site.Pos()), "a removal primitive can run before the removal event in the same iteration: the entity would no longer be inspectable")
				default:
					r.OK(name, construct+" (entity removed)", p.Pos(site.Pos()), "inside a lock window and before the entity's removal primitives")
				}
				continue
			}
			if helper && removalHelper(p, site.Common().StaticCallee(), 0) {
				// a helper that delivers the removal event (inside its own lock window, checked there): it must run before the removal primitives
				if reachableNoBackEdge(fn, isRemovalPrim, ins) {
					r.Bad(name, construct+" (entity removed, via helper)", p.Pos(site.Pos()), "a removal primitive can run before the helper that delivers the removal event: the entity would no longer be inspectable")
				} else {
					r.OK(name, construct+" (entity removed, via helper)", p.Pos(site.Pos()), "the removal event's helper runs before the entity's removal primitives")
				}
				continue
			}
			bad := ""
			if !unlocked.Before(ins) {
				bad = "delivered while a lock acquired in this function is held"
			}
			// notification helpers for a mutation done by the caller (notifyExchange) take the change as given
			if direct && !changed.Before(ins) && !isPureNotifier(p, fn) {
				bad = "delivered before the structural change on some path"
			}
			if helper && !changed.Before(ins) && !isPureNotifier(p, fn) && !readsLockBit {
				bad = "the notifying helper is called before the structural change on some path"
			}
			if copyTo != nil && reachableFrom(fn, ins, func(i ssa.Instruction) bool { return isCallTo(i, copyTo) }) {
				bad = "component values are copied (copyTo) after the notification: the listener would see stale component data"
			}
			if bad != "" {
				r.Bad(name, construct, p.Pos(site.Pos()), bad)
			} else {
				r.OK(name, construct, p.Pos(site.Pos()), "outside lock windows, after the change and after all component-value copies")
			}
		}
	}
}

// removalHelper: the function (or a helper it calls, two levels) delivers a removal event directly.
func removalHelper(p *Prog, fn *ssa.Function, depth int) bool {
	if fn == nil || depth > 2 {
		return false
	}
	for _, site := range callsIn(fn) {
		if site.Common().IsInvoke() && site.Common().Method.Name() == "Notify" && isNamed(site.Common().Value.Type(), "/ecs", "Listener") {
			if _, removal := isRemovalNotify(fn, site); removal {
				return true
			}
			continue
		}
		if sc := site.Common().StaticCallee(); sc != nil && p.isArche(sc) && p.notifiers()[sc] && removalHelper(p, sc, depth+1) {
			return true
		}
	}
	return false
}

func insValue(ins ssa.Instruction) ssa.Value {
	if v, ok := ins.(ssa.Value); ok {
		return v
	}
	return nil
}

// isPureNotifier: the function changes no entity state itself (a notification helper called after the change).
func isPureNotifier(p *Prog, fn *ssa.Function) bool {
	return p.Mod(fn).Has(isCore) == nil
}

// reachableFrom: some instruction satisfying pred is reachable (forward, any path incl. loops) from just after `from`.
func reachableFrom(fn *ssa.Function, from ssa.Instruction, pred func(ssa.Instruction) bool) bool {
	b := from.Block()
	start := 0
	for i, ins := range b.Instrs {
		if ins == from {
			start = i + 1
		}
	}
	for i := start; i < len(b.Instrs); i++ {
		if pred(b.Instrs[i]) {
			return true
		}
	}
	seen := map[*ssa.BasicBlock]bool{}
	st := append([]*ssa.BasicBlock{}, b.Succs...)
	for len(st) > 0 {
		x := st[len(st)-1]
		st = st[:len(st)-1]
		if seen[x] {
			continue
		}
		seen[x] = true
		for _, ins := range x.Instrs {
			if ins == from {
				break // came around a loop to the notification itself: a new iteration
			}
			if pred(ins) {
				return true
			}
		}
		st = append(st, x.Succs...)
	}
	return false
}

// reachableNoBackEdge: is `to` reachable from an instruction satisfying pred without taking a back edge?
func reachableNoBackEdge(fn *ssa.Function, pred func(ssa.Instruction) bool, to ssa.Instruction) bool {
	for _, b := range fn.Blocks {
		for i, ins := range b.Instrs {
			if !pred(ins) {
				continue
			}
			// forward search from (b, i+1) ignoring back edges
			for j := i + 1; j < len(b.Instrs); j++ {
				if b.Instrs[j] == to {
					return true
				}
			}
			seen := map[*ssa.BasicBlock]bool{b: true}
			st := []*ssa.BasicBlock{}
			for _, s := range b.Succs {
				if !dominatesBlock(s, b) {
					st = append(st, s)
				}
			}
			for len(st) > 0 {
				x := st[len(st)-1]
				st = st[:len(st)-1]
				if seen[x] {
					continue
				}
				seen[x] = true
				for _, i2 := range x.Instrs {
					if i2 == to {
						return true
					}
				}
				for _, s := range x.Succs {
					if !dominatesBlock(s, x) {
						st = append(st, s)
					}
				}
			}
		}
	}
	return false
}

// ---------- R4 ----------

func c11r4(p *Prog, r *Reporter) {
	// flag classes
	cls := func(v ssa.Value) string {
		if v == nil {
			return "false"
		}
		if cb, ok := constBool(v); ok {
			return fmt.Sprint(cb)
		}
		if bo, ok := v.(*ssa.BinOp); ok {
			if c := callOf(bo.X); c != nil {
				if bi, ok := c.Call.Value.(*ssa.Builtin); ok && bi.Name() == "len" {
					if k, ok := constInt64(bo.Y); ok && (bo.Op == token.GTR && k == 0 || bo.Op == token.NEQ && k == 0 || bo.Op == token.GEQ && k == 1) {
						return "len>0"
					}
				}
			}
			if bo.Op == token.NEQ && (isNilConst(bo.Y) || isNilConst(bo.X)) {
				return "!=nil"
			}
		}
		return "computed"
	}
	same := func(a, b ssa.Value) bool {
		if a == nil || b == nil {
			return a == b
		}
		return a == b || structEq(a, b, 0) || cls(a) == cls(b) && (cls(a) == "true" || cls(a) == "false")
	}
	// b is a || something: a phi with a constant-true edge selected by a's true branch, or an OR of a
	impliedBy := func(a, b ssa.Value) bool {
		if b == nil || a == nil {
			return false
		}
		if ph, ok := b.(*ssa.Phi); ok {
			for i, e := range ph.Edges {
				if cb, isC := constBool(e); isC && cb {
					pred := ph.Block().Preds[i]
					if iff, ok := pred.Instrs[len(pred.Instrs)-1].(*ssa.If); ok && (iff.Cond == a || structEq(iff.Cond, a, 0)) && pred.Succs[0] == ph.Block() {
						return true
					}
				}
			}
		}
		if bo, ok := b.(*ssa.BinOp); ok && bo.Op == token.OR {
			return bo.X == a || bo.Y == a
		}
		return false
	}
	for _, fn := range p.Funcs {
		if fn.Pkg == nil || fn.Pkg.Pkg.Name() != "ecs" || cname(fn) == "subscription" {
			continue
		}
		n := 0
		for _, site := range callsIn(fn) {
			sc := site.Common().StaticCallee()
			if sc == nil || cname(sc) != "subscription" || sc.Pkg == nil || sc.Pkg.Pkg.Name() != "ecs" {
				continue
			}
			a := subscriptionFlagArgs(site)
			if len(a) != 6 {
				r.Und(p.FuncName(fn), "type bits", p.Pos(site.Pos()), "the call of subscription() does not pass six flags in a recognised form")
				continue
			}
			n++
			var c [6]string
			for i := range a {
				c[i] = cls(a[i])
			}
			bad, kind := "", ""
			switch {
			case c[0] == "true" && c[1] == "false":
				kind = "creation"
				if c[2] != "len>0" {
					bad = "componentAdded is " + c[2] + ", siblings use len(ids) > 0"
				}
				if c[3] != "false" {
					bad = "componentRemoved is " + c[3] + " at a creation site"
				}
				if !same(a[4], a[5]) || !(c[4] == "true" || c[4] == "!=nil") {
					bad = "relation bits are (" + c[4] + ", " + c[5] + "), siblings use (R, R) with R = newRel != nil or true"
				}
			case c[0] == "false" && c[1] == "true":
				kind = "removal"
				if c[2] != "false" {
					bad = "componentAdded is " + c[2] + " at a removal site"
				}
				if c[3] != "len>0" {
					bad = "componentRemoved is " + c[3] + ", siblings use len(oldIds) > 0"
				}
				if !same(a[4], a[5]) || c[4] != "!=nil" {
					bad = "relation bits are (" + c[4] + ", " + c[5] + "), siblings use (oldRel != nil, oldRel != nil)"
				}
			default:
				kind = "exchange"
				if c[1] != "false" {
					bad = "entityRemoved is " + c[1] + " at an exchange site"
				}
				if c[2] != "len>0" || c[3] != "len>0" {
					bad = "component bits are (" + c[2] + ", " + c[3] + "), siblings use len(added) > 0, len(removed) > 0"
				}
				if !impliedBy(a[4], a[5]) {
					bad = "relation bits are (" + c[4] + ", " + c[5] + "), siblings use (relChanged, relChanged || targChanged)"
				}
			}
			construct := kind + " type bits"
			if n > 1 {
				construct = fmt.Sprintf("%s type bits #%d", kind, n)
			}
			if bad != "" {
				r.Bad(p.FuncName(fn), construct, p.Pos(site.Pos()), bad)
			} else {
				r.OK(p.FuncName(fn), construct, p.Pos(site.Pos()), "subscription("+strings.Join(c[:], ", ")+") follows the pattern of its siblings")
			}
		}
	}
}

// subscriptionFlagArgs: the six flag values of a call of subscription(): the positional bool arguments, or the fields
// of an options-struct literal (nil = field not set = false).
func subscriptionFlagArgs(site ssa.CallInstruction) []ssa.Value {
	args := site.Common().Args
	if len(args) >= 6 {
		return args[:6]
	}
	if len(args) != 1 {
		return nil
	}
	st, ok := args[0].Type().Underlying().(*types.Struct)
	if !ok {
		return nil
	}
	out := make([]ssa.Value, st.NumFields())
	ld, ok := args[0].(*ssa.UnOp)
	if !ok || ld.Op != token.MUL {
		return nil
	}
	al, ok := ld.X.(*ssa.Alloc)
	if !ok {
		return nil
	}
	for _, ref := range *al.Referrers() {
		fa, ok := ref.(*ssa.FieldAddr)
		if !ok {
			continue
		}
		for _, r2 := range *fa.Referrers() {
			if s2, ok := r2.(*ssa.Store); ok && s2.Addr == ssa.Value(fa) {
				out[fa.Field] = s2.Val
			}
		}
	}
	return out
}

// ---------- R6 ----------

func c11r6(p *Prog, r *Reporter) {
	nq := p.Fn("ecs.newBatchQuery")
	closeFn := p.Fn("ecs.(*World).closeQuery")
	nqy := p.Fn("ecs.(*World).notifyQuery")
	add := p.Fn("ecs.(*batchArchetypes).Add")
	if nq == nil || closeFn == nil || nqy == nil || add == nil {
		r.Anchor("ecs.newBatchQuery / closeQuery / notifyQuery / batchArchetypes.Add")
		return
	}
	fills := map[*ssa.Function]bool{add: true}
	for changed := true; changed; {
		changed = false
		for _, fn := range p.Funcs {
			if fills[fn] {
				continue
			}
			for _, site := range callsIn(fn) {
				if sc := site.Common().StaticCallee(); sc != nil && fills[sc] {
					fills[fn] = true
					changed = true
				}
			}
		}
	}
	for _, fn := range p.Funcs {
		for _, site := range callsIn(fn) {
			if !isCallTo(site, nq) {
				continue
			}
			// the batch list is the argument of type *batchArchetypes (its position shifts when the constructor becomes a method)
			var batch ssa.Value
			for _, a := range site.Common().Args {
				if typeName(a.Type()) == "batchArchetypes" {
					batch = a
				}
			}
			if batch == nil {
				r.Und(p.FuncName(fn), "batch query built from a filled batch list", p.Pos(site.Pos()), "the batch-query constructor receives no *batchArchetypes argument")
				continue
			}
			okc := false
			for _, s2 := range callsIn(fn) {
				if s2 == site {
					continue
				}
				sc := s2.Common().StaticCallee()
				if sc == nil || !fills[sc] {
					continue
				}
				for _, a := range s2.Common().Args {
					if a == batch {
						okc = true
					}
				}
			}
			r.Check(okc, p.FuncName(fn), "batch query built from a filled batch list", p.Pos(site.Pos()), "the list passed to the batch-query constructor was passed to a function that records ranges in it")
		}
	}
	// close function: comma-ok assertion to *batchArchetypes, then notifyQuery, under listener != nil, after release
	name := p.FuncName(closeFn)
	_, rel := p.lockPrimitives()
	var call ssa.CallInstruction
	for _, site := range callsIn(closeFn) {
		if isCallTo(site, nqy) {
			call = site
		}
	}
	if call == nil {
		r.Bad(name, "deferred batch notification", p.FnPos(closeFn), "the close function does not call the batch notifier: Q variants would emit nothing")
		return
	}
	released := &MustFlow{Fn: closeFn, InstrGen: func(i ssa.Instruction) bool {
		c, ok := i.(ssa.CallInstruction)
		return ok && c.Common().StaticCallee() != nil && rel[c.Common().StaticCallee()]
	}}
	released.Run()
	okAssert := false
	if ex, ok := call.Common().Args[1].(*ssa.Extract); ok {
		if ta, ok := ex.Tuple.(*ssa.TypeAssert); ok && ta.CommaOk && typeName(ta.AssertedType) == "batchArchetypes" {
			okAssert = true
		}
	}
	r.Check(okAssert, name, "deferred batch notification", p.Pos(call.Pos()), "notifyQuery is called with the query's batch list obtained by a comma-ok assertion")
	r.Check(released.Before(call.(ssa.Instruction)), name, "batch notification after release", p.Pos(call.Pos()), "the lock is released before the deferred events are delivered")
}

func c11r8(p *Prog, r *Reporter) {
	push, _ := p.retirePrimitives()
	if len(push) == 0 {
		r.Anchor("function appending to nodeData.freeIndices")
		return
	}
	for fn := range push {
		name := p.FuncName(fn)
		bad := ""
		for _, pa := range p.Mod(fn).Paths() {
			for _, f := range []string{"archetypeAccess.RelationTarget", "archetypeAccess.RelationComponent", "archetypeAccess.HasRelationComponent", "archetypeAccess.Mask", "archetype.archetypeAccess"} {
				if strings.HasSuffix(pa, f) || strings.Contains(pa, f+".") {
					w := p.Mod(fn).Has(func(s string) bool { return s == pa })
					bad = pa + " (" + p.chain(w) + ")"
				}
			}
		}
		if bad == "" {
			r.OK(name, "retire keeps the table's identity fields", p.FnPos(fn), "the retire path writes none of RelationTarget, RelationComponent, HasRelationComponent, Mask")
		} else {
			r.Bad(name, "retire keeps the table's identity fields", p.FnPos(fn), "retiring a table overwrites "+bad+": batch events, which are built after the batch from the old table, would report a wrong OldTarget/OldRelation")
		}
	}
}
