package main

import (
	"go/token"
	"go/types"
	"strings"

	"golang.org/x/tools/go/ssa"
)

func init() {
	register(&Property{
		ID: "C06",
		Decides: "a table is retired only when it is known active (dominating activity test, or just read from the node's target map with no retire-capable call in between) (R1); retiring and reusing perform all their co-updates on every path: map delete + free-list push + deactivate + cache removal, resp. free-list pop + activate + map insert (R2); " +
			"every write that shrinks a table's length zeroes the vacated rows on the same path, so a retired table starts empty when reused (R3); rows placed under a non-zero target set the target flag, removal paths clean up and clear under the flag, creation clears the flag of a recycled id (R4).",
		NotDecided:  "orderings of the three retire triggers over histories; that no entity is lost (row arithmetic); what the children report after their target died (C05.R8 covers that they are not rejected).",
		Assumptions: commonAssumptions,
		Rules: []Rule{
			{ID: "C06.R1", Floor: 3, Run: c06r1, Text: "retire typestate: every call that retires a table (pushes its index to the node's free list) is made on a table known active: dominated by IsActive()/index >= 0 on the same table, or the table was read out of the node's target map in the same function with no retire-capable call in between; otherwise the requirement passes to every caller"},
			{ID: "C06.R2", Floor: 5, Run: c06r2, Text: "co-updates: the function that pushes to the free list also deletes the map entry and deactivates the table on every path; every caller of it removes the table from the filter cache on every path; the function that pops the free list activates the table and inserts it into the map"},
			{ID: "C06.R3", Floor: 3, Run: c06r3, Text: "shrink ⇒ zero: every store that does not increase archetype.len lies on paths that also run a zeroing primitive over the table's columns (typed SetZero of every buffer, or the zero-copy over every column of the vacated row); fresh tables (buffers allocated in the same function) are exempt"},
			{ID: "C06.R5", Floor: 2, Run: c05r8, Text: "children of a dead target can still be moved (= C05.R8): the dead-target panic is never applied to a target inherited from an existing table"},
			{ID: "C06.R4", Floor: 10, Run: c06r4, Text: "target flag: every function that allocates rows in a table obtained for a (non-constant) target sets targetEntities[target.id] under !target.IsZero(); every function that recycles an entity tests the flag, cleans up the entity's tables and clears it; creation clears the flag of the issued id"},
			{ID: "C06.R6", Floor: 1, Run: c16r7, Text: "layout extension reaches retired tables too (= C16.R7): a retired table is re-used without re-initialisation, so it must not be skipped when layout arrays grow"},
			{ID: "C06.R7", Floor: 1, Run: c05r11, Text: "target map ⇄ table target (= C05.R11): a re-used table is registered under the target it was activated with"},
			{ID: "C06.R8", Floor: 2, Run: moversKeepDeadTargets, Text: "movers carry the inherited target over without testing its liveness: no Alive test on a value loaded from RelationTarget in a function that computes a destination table"},
			{ID: "C06.R9", Floor: 3, Run: c01r7, Text: "column loops visit every column (= C01.R7): zeroing a vacated row must not stop at the first zero-sized component"},
			{ID: "C06.R10", Floor: 1, Run: retireDropsReferences, Text: "references dropped on retire: every field of nodeData that can refer to a table (pointer, map or slice of table pointers) and is written at run time is updated by the retiring method, except the named exceptions"},
			{ID: "C06.R11", Floor: 6, Run: c09r2, Text: "lock typestate (= C09.R2): removing an entity (e.g. a relation target) never leaves the world locked"},
			{ID: "C06.R12", Floor: 3, Run: columnEffectsComplete, Text: "per-column effects are not skipped (= C01.R12): a re-used table starts empty in every column, whatever the column's type"},
			{ID: "C06.R13", Floor: 1, Run: deactivateOnlyOnRetire, Text: "a table is marked inactive only by the retiring method (which also removes it from the target map and pushes its slot to the free list)"},
			{ID: "C06.R14", Floor: 3, Run: targetFlagsCoverIndex, Text: "the target flags cover the index: every World.targetEntities.ExtendTo(x) has x = the capacity the index is allocated with, a capacity helper's result, or the old index length plus the increment"},
			{ID: "C06.R15", Floor: 20, Run: flagArgsNotComputed, Text: "has-relation flags are not computed from the target (= C05.R13): an explicit zero target resets the target instead of keeping a dead one"},
		},
	})
}

// retire primitive: the function that appends to nodeData.freeIndices.
func (p *Prog) retirePrimitives() (push, pop map[*ssa.Function]bool) {
	push, pop = map[*ssa.Function]bool{}, map[*ssa.Function]bool{}
	for _, fn := range p.Funcs {
		for _, b := range fn.Blocks {
			for _, ins := range b.Instrs {
				st, ok := ins.(*ssa.Store)
				if !ok {
					continue
				}
				_, fld, _, ok := loadedField(st.Addr)
				if !ok || fld != "freeIndices" {
					continue
				}
				// append → push, slice → pop
				switch v := st.Val.(type) {
				case *ssa.Call:
					if b, ok := v.Call.Value.(*ssa.Builtin); ok && b.Name() == "append" {
						push[fn] = true
					}
				case *ssa.Slice:
					pop[fn] = true
				}
			}
		}
	}
	return
}

// retireCapable: functions that may (transitively) push to a free list (retire a table).
var retireCapableMemo map[*ssa.Function]bool

func (p *Prog) retireCapable() map[*ssa.Function]bool {
	if retireCapableMemo != nil {
		return retireCapableMemo
	}
	push, _ := p.retirePrimitives()
	out := map[*ssa.Function]bool{}
	for f := range push {
		out[f] = true
	}
	for changed := true; changed; {
		changed = false
		for _, fn := range p.Funcs {
			if out[fn] {
				continue
			}
			for _, site := range callsIn(fn) {
				callees, boundary := p.Callees(site)
				if boundary {
					continue
				}
				for _, c := range callees {
					if out[c] {
						out[fn] = true
						changed = true
					}
				}
			}
		}
	}
	retireCapableMemo = out
	return out
}

func c06r1(p *Prog, r *Reporter) {
	push, _ := p.retirePrimitives()
	if len(push) == 0 {
		r.Anchor("function appending to nodeData.freeIndices")
		return
	}
	capable := p.retireCapable()
	// requiresActive[fn] = parameter index of the *archetype that must be active on entry
	requires := map[*ssa.Function]int{}
	for fn := range push {
		for i, pr := range fn.Params {
			if typeName(pr.Type()) == "archetype" && i > 0 {
				requires[fn] = i
			}
		}
	}
	type site struct {
		fn   *ssa.Function
		call ssa.CallInstruction
		arg  ssa.Value
	}
	done := map[ssa.CallInstruction]bool{}
	for round := 0; round < 6; round++ {
		changed := false
		for _, fn := range p.Funcs {
			for _, cs := range callsIn(fn) {
				sc := cs.Common().StaticCallee()
				idx, ok := requires[sc]
				if sc == nil || !ok || done[cs] || idx >= len(cs.Common().Args) {
					continue
				}
				done[cs] = true
				arg := cs.Common().Args[idx]
				name := p.FuncName(fn)
				construct := "retire " + apath(arg) + " via " + p.FuncName(sc)
				base := apath(arg)
				mf := &MustFlow{Fn: fn,
					EdgeGen: func(b *ssa.BasicBlock, k int) bool {
						atom, holds, ok := edgeCond(b, k)
						if !ok {
							return false
						}
						// arch.IsActive() true edge
						if c := callOf(atom); c != nil && holds {
							if s2 := c.Common().StaticCallee(); s2 != nil && s2.Name() == "IsActive" && apath(c.Common().Args[0]) == base {
								return true
							}
						}
						// arch.index >= 0
						if bo, isB := atom.(*ssa.BinOp); isB {
							if _, fld, bs, ok := loadedField(bo.X); ok && fld == "index" && strings.HasPrefix(bs, base) && isConstInt(bo.Y, 0) {
								if (bo.Op == token.GEQ && holds) || (bo.Op == token.LSS && !holds) {
									return true
								}
							}
						}
						// comma-ok of a target-map lookup that defined the argument
						if ex, isE := atom.(*ssa.Extract); isE && holds && ex.Index == 1 {
							if lk, ok := ex.Tuple.(*ssa.Lookup); ok {
								if _, fld, _, ok := loadedField(lk.X); ok && fld == "archetypeMap" {
									if a0, ok := arg.(*ssa.Extract); ok && a0.Tuple == ex.Tuple {
										return true
									}
								}
							}
						}
						return false
					},
					InstrKill: func(ins ssa.Instruction) bool {
						c, ok := ins.(ssa.CallInstruction)
						if !ok || c == cs {
							return false
						}
						callees, _ := p.Callees(c)
						for _, cal := range callees {
							if capable[cal] {
								return true
							}
						}
						return false
					},
				}
				mf.Run()
				if mf.Before(cs.(ssa.Instruction)) {
					r.OK(name, construct, p.Pos(cs.Pos()), "the table is known active here (activity test or fresh target-map lookup, no retire-capable call in between)")
					continue
				}
				// pass the requirement to callers if the argument is a parameter
				if pr, ok := arg.(*ssa.Parameter); ok {
					if _, already := requires[fn]; !already {
						requires[fn] = paramIndex(pr)
						changed = true
					}
					r.OKt(name, construct, p.Pos(cs.Pos()), "requirement forwarded to the callers of "+name)
					continue
				}
				r.Bad(name, construct, p.Pos(cs.Pos()), "a table is retired without being known active: a table that is already retired would be pushed to the free list a second time (index -1)")
			}
		}
		if !changed {
			break
		}
	}
}

func c06r2(p *Prog, r *Reporter) {
	push, pop := p.retirePrimitives()
	cacheRemove := p.Fn("ecs.(*Cache).removeArchetype")
	if cacheRemove == nil {
		r.Anchor("ecs.(*Cache).removeArchetype")
		return
	}
	for fn := range push {
		name := p.FuncName(fn)
		var del, deact bool
		for _, site := range callsIn(fn) {
			if b, ok := site.Common().Value.(*ssa.Builtin); ok && b.Name() == "delete" {
				if _, fld, _, ok := loadedField(site.Common().Args[0]); ok && fld == "archetypeMap" {
					del = mustPass(p, fn, site.(ssa.Instruction))
				}
			}
			if sc := site.Common().StaticCallee(); sc != nil {
				for _, pa := range p.Mod(sc).Paths() {
					if pa == "archetypeData.index" {
						deact = mustPass(p, fn, site.(ssa.Instruction))
					}
				}
			}
		}
		r.Check(del, name, "retire deletes the target-map entry", p.FnPos(fn), "delete(archetypeMap, target) on every path")
		r.Check(deact, name, "retire deactivates the table", p.FnPos(fn), "a call that clears the table's index runs on every path")
		// callers remove from the cache
		for _, cf := range p.Funcs {
			for _, site := range callsIn(cf) {
				if !isCallTo(site, fn) {
					continue
				}
				ok := false
				var arg ssa.Value
				for _, a := range site.Common().Args[1:] {
					if typeName(a.Type()) == "archetype" {
						arg = a
					}
				}
				for _, s2 := range callsIn(cf) {
					if isCallTo(s2, cacheRemove) && arg != nil && apath(s2.Common().Args[1]) == apath(arg) &&
						(s2.Block() == site.Block() || dominatesBlock(site.Block(), s2.Block()) && postDominates(p, cf, s2.Block(), site.Block())) {
						ok = true
					}
				}
				r.Check(ok, p.FuncName(cf), "retire removes the table from the filter cache", p.Pos(site.Pos()), "the cache's removeArchetype is called with the same table on every path after the retire")
			}
		}
	}
	for fn := range pop {
		name := p.FuncName(fn)
		// the popping block must call Activate (writes archetypeData.index and RelationTarget) and the function inserts into the map on every path
		var act, ins bool
		for _, site := range callsIn(fn) {
			if sc := site.Common().StaticCallee(); sc != nil && p.isArche(sc) {
				paths := strings.Join(p.Mod(sc).Paths(), " ")
				if strings.Contains(paths, "archetypeData.index") && strings.Contains(paths, "RelationTarget") {
					act = true
				}
			}
		}
		// every path to a return passes an insertion into the target map (one statement, or one per branch)
		insFlow := &MustFlow{Fn: fn, InstrGen: func(i2 ssa.Instruction) bool {
			mu, ok := i2.(*ssa.MapUpdate)
			if !ok {
				return false
			}
			_, fld, _, ok := loadedField(mu.Map)
			return ok && fld == "archetypeMap"
		}}
		insFlow.Run()
		ins = insFlow.AtAllReturns()
		r.Check(act, name, "reuse activates the table with the new target", p.FnPos(fn), "the popped table gets its index and RelationTarget set")
		r.Check(ins, name, "reuse inserts the table into the target map", p.FnPos(fn), "archetypeMap[target] = table on every path")
	}
}

// mustPass: every path from entry to a Return passes instruction ins.
func mustPass(p *Prog, fn *ssa.Function, ins ssa.Instruction) bool {
	mf := &MustFlow{Fn: fn, InstrGen: func(i ssa.Instruction) bool { return i == ins }}
	mf.Run()
	return mf.AtAllReturns()
}

// postDominates: every path from block `from` to a Return passes block `b` (ignoring panicking paths).
func postDominates(p *Prog, fn *ssa.Function, b, from *ssa.BasicBlock) bool {
	if b == from {
		return true
	}
	seen := map[*ssa.BasicBlock]bool{}
	var dfs func(x *ssa.BasicBlock) bool
	dfs = func(x *ssa.BasicBlock) bool {
		if x == b {
			return true
		}
		if seen[x] {
			return true
		}
		seen[x] = true
		if _, isRet := x.Instrs[len(x.Instrs)-1].(*ssa.Return); isRet {
			return false
		}
		for _, s := range x.Succs {
			if !dfs(s) {
				return false
			}
		}
		return true
	}
	return dfs(from)
}

// ---------- R3 ----------

// zeroing functions: contain a call to reflect.Value.SetZero, or a raw copy whose source is a zeroPointer field; transitive (depth 2).
func (p *Prog) zeroingFns() map[*ssa.Function]bool {
	out := map[*ssa.Function]bool{}
	for _, fn := range p.Funcs {
		for _, site := range callsIn(fn) {
			if isZeroingCall(site) {
				out[fn] = true
			}
		}
	}
	// an archetype method (or a closure inside one) that calls a zeroing archetype method / closure; a closure passed
	// to a higher-order helper counts at the call that passes it (Callees hoists it there)
	archLike := func(f *ssa.Function) bool {
		for f != nil {
			if typeName(recvType(f)) == "archetype" {
				return true
			}
			f = f.Parent()
		}
		return false
	}
	for round := 0; round < 4; round++ {
		for _, fn := range p.Funcs {
			if out[fn] || !archLike(fn) {
				continue
			}
			for _, site := range callsIn(fn) {
				callees, _ := p.Callees(site)
				for _, sc := range callees {
					if out[sc] && archLike(sc) {
						out[fn] = true
					}
				}
			}
		}
	}
	return out
}

func c06r3(p *Prog, r *Reporter) {
	zero := p.zeroingFns()
	if len(zero) == 0 {
		r.Anchor("a function calling reflect.Value.SetZero or copying from zeroPointer")
		return
	}
	for _, fn := range p.Funcs {
		for _, b := range fn.Blocks {
			for _, ins := range b.Instrs {
				st, ok := ins.(*ssa.Store)
				if !ok {
					continue
				}
				fa, ok := st.Addr.(*ssa.FieldAddr)
				if !ok || typeName(fa.X.Type()) != "archetype" || fieldName(fa.X.Type(), fa.Field) != "len" {
					continue
				}
				name := p.FuncName(fn)
				// increasing store: len + x
				if bo, ok := st.Val.(*ssa.BinOp); ok && bo.Op == token.ADD {
					continue
				}
				// fresh table: buffers allocated in this function
				fresh := false
				for _, pa := range directPaths(fn) {
					if pa == "archetypeData.buffers" {
						fresh = true
					}
				}
				if fresh {
					r.OKt(name, "len reset on fresh table", p.Pos(st.Pos()), "the function allocates the table's buffers itself: nothing to zero")
					continue
				}
				// zeroing before (must) or after (on every path to return)
				mf := &MustFlow{Fn: fn, InstrGen: func(i ssa.Instruction) bool {
					c, ok := i.(ssa.CallInstruction)
					if !ok {
						return false
					}
					callees, _ := p.Callees(c)
					for _, sc := range callees {
						if zero[sc] {
							return true
						}
					}
					return isZeroingCall(c)
				}}
				mf.Run()
				ok2 := mf.Before(st)
				if !ok2 {
					// a loop over the table's columns whose body zeroes counts at its header (no columns: nothing to zero)
					heads := loopHeadsContaining(fn, mf.InstrGen)
					ok2 = allPathsFromPass(fn, st, func(i ssa.Instruction) bool {
						return mf.InstrGen(i) || (heads[i.Block()] && i == i.Block().Instrs[0])
					})
				}
				if ok2 {
					r.OK(name, "shrinking store to archetype.len", p.Pos(st.Pos()), "every path through the store also runs a zeroing primitive over the table's columns")
				} else {
					r.Bad(name, "shrinking store to archetype.len", p.Pos(st.Pos()), "the table's length is reduced without zeroing the vacated rows on the same path: a reused table would expose old component values and keep their referents alive")
				}
			}
		}
	}
}

func directPaths(fn *ssa.Function) []string {
	var out []string
	for _, b := range fn.Blocks {
		for _, ins := range b.Instrs {
			for _, w := range directWrites(ins) {
				out = append(out, w.Path)
			}
		}
	}
	return out
}

// allPathsFromPass: every path from just after `from` to a Return passes an instruction satisfying pred.
func allPathsFromPass(fn *ssa.Function, from ssa.Instruction, pred func(ssa.Instruction) bool) bool {
	b := from.Block()
	idx := 0
	for i, ins := range b.Instrs {
		if ins == from {
			idx = i + 1
		}
	}
	seen := map[*ssa.BasicBlock]bool{}
	var walk func(x *ssa.BasicBlock, start int) bool
	walk = func(x *ssa.BasicBlock, start int) bool {
		for i := start; i < len(x.Instrs); i++ {
			if pred(x.Instrs[i]) {
				return true
			}
			if _, isRet := x.Instrs[i].(*ssa.Return); isRet {
				return false
			}
			if _, isP := x.Instrs[i].(*ssa.Panic); isP {
				return true
			}
		}
		for _, s := range x.Succs {
			if seen[s] {
				continue
			}
			seen[s] = true
			if !walk(s, 0) {
				return false
			}
		}
		return true
	}
	return walk(b, idx)
}

// ---------- R4 ----------

func c06r4(p *Prog, r *Reporter) {
	recycle := p.Fn("ecs.(*entityPool).Recycle")
	get := p.Fn("ecs.(*entityPool).Get")
	if recycle == nil || get == nil {
		r.Anchor("ecs.(*entityPool).Recycle / Get")
		return
	}
	// (a) functions that obtain a table for a non-constant target and allocate rows in it
	for _, fn := range p.Funcs {
		var targetArg ssa.Value
		var tableCall *ssa.Call
		for _, site := range callsIn(fn) {
			c, ok := site.(*ssa.Call)
			if !ok || typeName(c.Type()) != "archetype" && !tupleHasArchetype(c.Type()) {
				continue
			}
			for _, a := range c.Common().Args {
				if isEntityType(a.Type()) {
					if _, isConst := a.(*ssa.Const); !isConst {
						targetArg = a
						tableCall = c
					}
				}
			}
		}
		if tableCall == nil {
			continue
		}
		allocs := false
		for _, site := range callsIn(fn) {
			if sc := site.Common().StaticCallee(); sc != nil {
				switch cname(sc) {
				case "Alloc", "AllocN", "createEntity", "createEntities":
					allocs = true
				}
			}
		}
		if !allocs {
			continue
		}
		name := p.FuncName(fn)
		cell := originOf(targetArg)
		found, guarded := false, false
		for _, site := range callsIn(fn) {
			idc, ok := isFlagSet(site, true)
			if !ok || idc == nil {
				continue
			}
			if originOf(idc) != cell && idc != cell {
				continue
			}
			found = true
			// guarded by !IsZero(target): block's single predecessor branches on IsZero of the same cell, this is the false edge
			b := site.Block()
			for _, pr := range b.Preds {
				atom, trueSucc, ok := ifCond(pr)
				if !ok {
					continue
				}
				if c := callOf(atom); c != nil && c.Common().StaticCallee() != nil && cname(c.Common().StaticCallee()) == "IsZero" {
					if originOf(c.Common().Args[0]) == cell && pr.Succs[1-trueSucc] == b {
						guarded = true
					}
				}
			}
		}
		// or through a helper that sets the flag of its Entity parameter under !IsZero
		for _, site := range callsIn(fn) {
			sc := site.Common().StaticCallee()
			if sc == nil {
				continue
			}
			if idx, ok := targetFlagSetters(p)[sc]; ok && idx < len(site.Common().Args) {
				a := site.Common().Args[idx]
				if originOf(a) == cell || a == cell {
					found, guarded = true, true
				}
			}
		}
		if found && guarded {
			r.OK(name, "target flag set for "+apath(targetArg), p.Pos(tableCall.Pos()), "rows are placed under the target and targetEntities[target.id] is set under !target.IsZero()")
		} else if found {
			r.Und(name, "target flag set for "+apath(targetArg), p.Pos(tableCall.Pos()), "the flag is set, but not in the recognised `if !target.IsZero()` form")
		} else {
			r.Bad(name, "target flag set for "+apath(targetArg), p.Pos(tableCall.Pos()), "rows are placed in a table obtained for this target, but the target flag is never set: when the target dies its tables are not cleaned up")
		}
	}
	// (b) recycling paths test, clean up and clear
	for _, fn := range p.Funcs {
		for _, site := range callsIn(fn) {
			if !isCallTo(site, recycle) {
				continue
			}
			name := p.FuncName(fn)
			ent := originOf(site.Common().Args[1])
			okc := false
			for _, b := range fn.Blocks {
				atom, trueSucc, isIf := ifCond(b)
				if !isIf {
					continue
				}
				c := callOf(atom)
				if c == nil || c.Common().StaticCallee() == nil || cname(c.Common().StaticCallee()) != "Get" || typeName(recvType(c.Common().StaticCallee())) != "bitSet" {
					continue
				}
				idc := idOf(c.Common().Args[1])
				if idc == nil || (originOf(idc) != ent && idc != ent) {
					continue
				}
				tb := b.Succs[trueSucc]
				var cleans, clears bool
				for _, i2 := range tb.Instrs {
					s2, ok := i2.(ssa.CallInstruction)
					if !ok {
						continue
					}
					if idv, ok := isFlagSet(s2, false); ok && idv != nil && (originOf(idv) == ent || idv == ent) {
						clears = true
					}
					if sc := s2.Common().StaticCallee(); sc != nil && p.isArche(sc) {
						for _, a := range s2.Common().Args {
							if isEntityType(a.Type()) && originOf(a) == ent && p.retireCapable()[sc] {
								cleans = true
							}
						}
					}
				}
				if cleans && clears {
					okc = true
				}
			}
			r.Check(okc, name, "recycle: flag tested, tables cleaned, flag cleared", p.Pos(site.Pos()), "`if targetEntities.Get(e.id) { cleanup(e); targetEntities.Set(e.id, false) }` for the recycled entity")
		}
	}
	// (c) creation clears the flag of the issued id (or extends the bit set, which yields zero bits)
	for _, fn := range p.Funcs {
		for _, site := range callsIn(fn) {
			if !isCallTo(site, get) {
				continue
			}
			call, ok := site.(*ssa.Call)
			if !ok {
				continue
			}
			name := p.FuncName(fn)
			okc := false
			for _, s2 := range callsIn(fn) {
				if idv, ok := isFlagSet(s2, false); ok && idv != nil {
					o := originOf(idv)
					if o == ssa.Value(call) || storedFrom(o, call) {
						okc = true
					}
				}
			}
			r.Check(okc, name, "creation clears the target flag of the issued id", p.Pos(call.Pos()), "targetEntities.Set(entity.id, false) for the entity obtained from the pool")
		}
	}
}

func tupleHasArchetype(t types.Type) bool {
	tu, ok := t.(*types.Tuple)
	if !ok {
		return false
	}
	for i := 0; i < tu.Len(); i++ {
		if typeName(tu.At(i).Type()) == "archetype" {
			return true
		}
	}
	return false
}

// storedFrom: cell is a local into which v is stored.
func storedFrom(cell ssa.Value, v ssa.Value) bool {
	a, ok := cell.(*ssa.Alloc)
	if !ok {
		return false
	}
	for _, ref := range *a.Referrers() {
		if st, ok := ref.(*ssa.Store); ok && st.Addr == ssa.Value(a) && st.Val == v {
			return true
		}
	}
	return false
}

// loopHeadsContaining: loop header blocks (targets of a back edge) whose loop body contains an instruction satisfying pred.
func loopHeadsContaining(fn *ssa.Function, pred func(ssa.Instruction) bool) map[*ssa.BasicBlock]bool {
	out := map[*ssa.BasicBlock]bool{}
	for _, b := range fn.Blocks {
		for _, s := range b.Succs {
			if !dominatesBlock(s, b) {
				continue
			}
			// back edge b → s: body = blocks dominated by s that can reach b
			for _, x := range fn.Blocks {
				if !dominatesBlock(s, x) {
					continue
				}
				for _, ins := range x.Instrs {
					if pred(ins) && reaches(x, b) {
						out[s] = true
					}
				}
			}
		}
	}
	return out
}

func reaches(from, to *ssa.BasicBlock) bool {
	seen := map[*ssa.BasicBlock]bool{}
	st := []*ssa.BasicBlock{from}
	for len(st) > 0 {
		x := st[len(st)-1]
		st = st[:len(st)-1]
		if x == to {
			return true
		}
		if seen[x] {
			continue
		}
		seen[x] = true
		st = append(st, x.Succs...)
	}
	return false
}

// isZeroingCall: reflect.Value.SetZero, or a call that copies from a node's zeroPointer.
func isZeroingCall(site ssa.CallInstruction) bool {
	if sc := site.Common().StaticCallee(); sc != nil && cname(sc) == "SetZero" && sc.Pkg != nil && sc.Pkg.Pkg.Path() == "reflect" {
		return true
	}
	for _, a := range site.Common().Args {
		if _, fld, _, ok := loadedField(a); ok && fld == "zeroPointer" {
			return true
		}
	}
	return false
}

var targetFlagSetterMemo map[*ssa.Function]int

// targetFlagSetters: functions that set the target flag of one of their Entity parameters, guarded by !IsZero of that
// parameter (value: the parameter's index).
func targetFlagSetters(p *Prog) map[*ssa.Function]int {
	if targetFlagSetterMemo != nil {
		return targetFlagSetterMemo
	}
	out := map[*ssa.Function]int{}
	for _, fn := range p.Funcs {
		for i, pr := range fn.Params {
			if !isEntityType(pr.Type()) {
				continue
			}
			var cell ssa.Value = pr
			norm := func(v ssa.Value) ssa.Value {
				v = originOf(v)
				if u, ok := v.(*ssa.UnOp); ok {
					v = u.X
				}
				if al, ok := v.(*ssa.Alloc); ok {
					if sp := spilledParam(al); sp != nil {
						return sp
					}
				}
				return v
			}
			found, guarded := false, false
			for _, site := range callsIn(fn) {
				idc, ok := isFlagSet(site, true)
				if !ok || idc == nil {
					continue
				}
				if norm(idc) != cell {
					continue
				}
				found = true
				b := site.Block()
				for _, pb := range b.Preds {
					atom, trueSucc, ok := ifCond(pb)
					if !ok {
						continue
					}
					if c := callOf(atom); c != nil && c.Common().StaticCallee() != nil && cname(c.Common().StaticCallee()) == "IsZero" {
						if norm(c.Common().Args[0]) == cell && pb.Succs[1-trueSucc] == b {
							guarded = true
						}
					}
				}
			}
			if found && guarded {
				out[fn] = i
			}
		}
	}
	targetFlagSetterMemo = out
	return out
}

// isFlagSet: the call is World.targetEntities.Set(x.id, val); returns the entity x.
func isFlagSet(site ssa.CallInstruction, val bool) (ssa.Value, bool) {
	sc := site.Common().StaticCallee()
	if sc == nil || cname(sc) != "Set" || typeName(recvType(sc)) != "bitSet" || len(site.Common().Args) != 3 {
		return nil, false
	}
	if _, fld, _, ok := loadedField(site.Common().Args[0]); !ok || fld != "targetEntities" {
		return nil, false
	}
	cb, ok := constBool(site.Common().Args[2])
	if !ok || cb != val {
		return nil, false
	}
	return idOf(site.Common().Args[1]), true
}
