package main

import (
	"go/token"
	"go/types"
	"sort"
	"strings"

	"golang.org/x/tools/go/ssa"
)

func init() {
	register(&Property{
		ID: "C08",
		Decides: "for each pair of a single-entity operation and its batch form (exchange, set-relation, removal, creation with and without values) the sets of storage primitives applied (grow, write row entity, copy columns, shrink, write index, set/clear target flag, clean up dead-target tables, find destination, compute exchange mask, issue/recycle handle, relation check, copy values) are equal modulo a short reasoned asymmetry table (R1), and so are the explicit panic guards (R2); " +
			"the count a batch operation returns is the sum of the matched tables' lengths read before any row is moved (R3); batch ranges are [Len before, Len after) of the destination (R4 = C03.R4); rows moved in bulk are indexed at the allocated row (R5 = C01.R2); handles are compared as whole values when deciding to skip a table (R6 = C05.R7); batch iteration consumes exactly the recorded ranges (R7 = C03.R5).",
		NotDecided:  "equality of the resulting world states; that the Q-variant's query yields exactly the affected entities (only range provenance and consumption are decided).",
		Assumptions: commonAssumptions,
		Rules: []Rule{
			{ID: "C08.R1", Floor: 5, Run: c08r1, Text: "primitive-effect siblings (E-sib): the effect classes reached by the single-entity function equal those reached by its batch counterpart(s), modulo the asymmetry table (single Alloc ≙ bulk AllocN + SetEntity; single Remove ≙ bulk Reset; liveness of the subject entity is single-only; table enumeration is batch-only)"},
			{ID: "C08.R2", Floor: 4, Run: c08r2, Text: "validation siblings: the classes of explicit panic guards of the single-entity function equal those of its batch counterpart(s) (lock, dead target, no-op with relation, relation in result mask, relation is a relation, relation check, exchange mask), modulo: subject liveness single-only, range tests of the count (count < 1, count > MaxUint32) batch-only"},
			{ID: "C08.R3", Floor: 3, Run: c08r3, Text: "returned count: the integer a batch mover returns is a sum of Len() of the matched tables, each read where no row-moving call can have preceded it in the same iteration"},
			{ID: "C08.R4", Floor: 4, Run: c03r4, Text: "batch range provenance (= C03.R4)"},
			{ID: "C08.R5", Floor: 7, Run: c01r2, Text: "alloc ⇄ index for bulk rows (= C01.R2)"},
			{ID: "C08.R6", Floor: 3, Run: c05r7, Text: "whole-handle comparison when skipping unchanged targets (= C05.R7)"},
			{ID: "C08.R7", Floor: 3, Run: c03r5, Text: "batch range consumption (= C03.R5)"},
			{ID: "C08.R8", Floor: 8, Run: c03r3, Text: "table selection siblings (= C03.R3): the table lists batch operations work on are selected under the same has-relation / active / matches conditions as query iteration"},
			{ID: "C08.R9", Floor: 1, Run: batchRowFromStart, Text: "rows of a batch table are offset by the recorded StartIndex (= C03.R9)"},
			{ID: "C08.R10", Floor: 4, Run: c01r3, Text: "column copies of the batch movers read the moved entity's own source row (= C01.R3)"},
			{ID: "C08.R11", Floor: 20, Run: flagArgsNotComputed, Text: "option flags are not computed from values: at every call of an internal function with an (ID, bool) parameter pair the bool argument is a constant, a forwarded bool parameter, a stored flag or a presence test of a variadic argument - never derived from the value (the zero ID / zero entity are valid values)"},
			{ID: "C08.R12", Floor: 2, Run: sameTargetSkipChecked, Text: "the same-target shortcut comes after the relation check (= C10.R16): the batch variant panics where the single-entity operation does"},
			{ID: "C08.R13", Floor: 4, Run: queryIntParamsRangeChecked, Text: "batch sizes are not truncated (= C10.R15): an int count reaches a conversion to a 32-bit type only under a known upper bound"},
			{ID: "C08.R14", Floor: 4, Run: batchCountOnEveryReturn, Text: "the count is computed on every return: a batch mover that enumerates the filter's tables returns no constant"},
		},
	})
}

type sibPair struct {
	name   string
	single []string
	batch  []string
}

var sibPairs = []sibPair{
	{"exchange", []string{"ecs.(*World).exchangeNoNotify"}, []string{"ecs.(*World).exchangeBatchNoNotify", "ecs.(*World).exchangeArch"}},
	{"set relation", []string{"ecs.(*World).setRelation"}, []string{"ecs.(*World).setRelationBatchNoNotify", "ecs.(*World).setRelationArch"}},
	{"remove entities", []string{"ecs.(*World).RemoveEntity"}, []string{"ecs.(*World).removeEntities"}},
	{"create", []string{"ecs.(*World).createEntity"}, []string{"ecs.(*World).createEntities"}},
	{"create with target", []string{"ecs.(*World).newEntityTarget"}, []string{"ecs.(*World).newEntitiesNoNotify"}},
	{"create with values", []string{"ecs.(*World).newEntityTargetWith"}, []string{"ecs.(*World).newEntitiesWithNoNotify"}},
}

func effectClasses1(p *Prog, fn *ssa.Function, unclassified *[]*ssa.Function) map[string]bool {
	out := map[string]bool{}
	grow := growFns(p)
	capable := p.retireCapable()
	for _, b := range fn.Blocks {
		for _, ins := range b.Instrs {
			if st, ok := ins.(*ssa.Store); ok {
				for _, w := range directWrites(st) {
					if hasSeg(w.Path, "World.entities") {
						out["write index"] = true
					}
				}
				if fa, ok := st.Addr.(*ssa.FieldAddr); ok && typeName(fa.X.Type()) == "entityIndex" {
					out["write index"] = true
				}
			}
			site, ok := ins.(ssa.CallInstruction)
			if !ok {
				continue
			}
			sc := site.Common().StaticCallee()
			if sc == nil {
				continue
			}
			rt := typeName(recvType(sc))
			switch {
			case rt == "archetype" && cname(sc) == "Alloc":
				out["grow table"] = true
				out["write row entity"] = true
			case rt == "archetype" && cname(sc) == "AllocN":
				out["grow table"] = true
			case rt == "archetype" && cname(sc) == "SetEntity":
				out["write row entity"] = true
			case rt == "archetype" && cname(sc) == "SetPointer":
				out["copy columns"] = true
			case rt == "archetype" && (cname(sc) == "Remove" || cname(sc) == "Reset"):
				out["shrink table"] = true
			case rt == "bitSet" && cname(sc) == "Set":
				if _, f, _, ok := loadedField(site.Common().Args[0]); ok && f == "targetEntities" {
					if cb, ok := constBool(site.Common().Args[2]); ok {
						if cb {
							out["set target flag"] = true
						} else {
							out["clear target flag"] = true
						}
					}
				}
			case rt == "bitSet" && cname(sc) == "Get":
				out["test target flag"] = true
			case rt == "bitSet" && cname(sc) == "ExtendTo":
				out["extend target flags"] = true
			case rt == "entityPool" && cname(sc) == "Get":
				out["issue handle"] = true
			case rt == "entityPool" && cname(sc) == "Recycle":
				out["recycle handle"] = true
			case cname(sc) == "getExchangeMask":
				out["exchange mask"] = true
			case cname(sc) == "checkRelation":
				out["relation check"] = true
			case cname(sc) == "copyTo":
				out["copy values"] = true
			case cname(sc) == "findOrCreateArchetype" || cname(sc) == "createArchetype" || cname(sc) == "GetArchetype":
				out["find destination"] = true
			case rt == "World" && issuesHandles(p, sc):
				out["create rows"] = true
			case capable[sc] && rt == "World":
				out["clean up dead-target tables"] = true
				// a World helper that cleans up among other things (a loop body moved into a helper): also look inside
				if unclassified != nil && sc.Object() != nil && !sc.Object().Exported() && sc.Blocks != nil {
					*unclassified = append(*unclassified, sc)
				}
			case grow[sc] && rt == "World":
				out["grow table"] = true
				// a World helper that allocates rows itself (not through the creating primitives): also look inside
				if unclassified != nil && sc.Object() != nil && !sc.Object().Exported() && sc.Blocks != nil {
					*unclassified = append(*unclassified, sc)
				}
			default:
				if unclassified != nil && rt == "World" && sc.Object() != nil && !sc.Object().Exported() && sc.Blocks != nil {
					*unclassified = append(*unclassified, sc)
				}
			}
		}
	}
	return out
}

func c08r1(p *Prog, r *Reporter) {
	for _, sp := range sibPairs {
		collect := func(names []string) (map[string]bool, bool) {
			out := map[string]bool{}
			for _, n := range names {
				fn := p.Fn(n)
				if fn == nil {
					r.Anchor(n)
					return nil, false
				}
				for k := range effectClasses(p, fn) {
					out[k] = true
				}
			}
			return out, true
		}
		s, ok1 := collect(sp.single)
		b, ok2 := collect(sp.batch)
		if !ok1 || !ok2 {
			continue
		}
		var onlyS, onlyB []string
		for k := range s {
			if !b[k] {
				onlyS = append(onlyS, k)
			}
		}
		for k := range b {
			if !s[k] {
				onlyB = append(onlyB, k)
			}
		}
		sort.Strings(onlyS)
		sort.Strings(onlyB)
		name := strings.Join(sp.single, " + ") + " ~ " + strings.Join(sp.batch, " + ")
		if len(onlyS) == 0 && len(onlyB) == 0 {
			var ks []string
			for k := range s {
				ks = append(ks, k)
			}
			sort.Strings(ks)
			r.OK(name, "same storage primitives ("+sp.name+")", p.FnPos(p.Fn(sp.single[0])), "both sides apply: "+strings.Join(ks, ", "))
		} else {
			d := ""
			if len(onlyS) > 0 {
				d += "only the single-entity side applies: " + strings.Join(onlyS, ", ") + ". "
			}
			if len(onlyB) > 0 {
				d += "only the batch side applies: " + strings.Join(onlyB, ", ") + "."
			}
			r.Bad(name, "same storage primitives ("+sp.name+")", p.FnPos(p.Fn(sp.single[0])), d)
		}
	}
}

// guardClasses: classes of explicit panic guards in a function (including guards inside direct callees that exist only to panic).
func guardClasses(p *Prog, fn *ssa.Function, g *guardInfo) map[string]bool {
	out := map[string]bool{}
	alive := p.entityValidators()
	for _, b := range fn.Blocks {
		for _, ins := range b.Instrs {
			site, ok := ins.(ssa.CallInstruction)
			if !ok {
				continue
			}
			sc := site.Common().StaticCallee()
			if sc == nil {
				continue
			}
			if g.sum[sc] != nil && g.sum[sc].establishes && len(p.Mod(sc).W) == 0 {
				out["lock"] = true
			}
			switch cname(sc) {
			case "checkRelation":
				out["relation check"] = true
			case "getExchangeMask":
				out["exchange mask"] = true
			}
		}
		atom, trueSucc, isIf := ifCond(b)
		if !isIf {
			continue
		}
		panicsOnTrue := p.panicOnly(b.Succs[trueSucc])
		panicsOnFalse := p.panicOnly(b.Succs[1-trueSucc])
		if !panicsOnTrue && !panicsOnFalse {
			continue
		}
		// a short-circuit conjunction used as a value (`case a && b: panic`): in the if-form the block that branches to the
		// panic is the one testing the last conjunct, so the guard is classified by that conjunct here as well
		if ph, isPhi := atom.(*ssa.Phi); isPhi {
			var nonConst []ssa.Value
			for _, e := range ph.Edges {
				if _, isC := constBool(e); !isC {
					nonConst = append(nonConst, e)
				}
			}
			if len(nonConst) == 1 {
				a2, neg := condAtom(nonConst[0])
				atom = a2
				if neg {
					panicsOnTrue, panicsOnFalse = panicsOnFalse, panicsOnTrue
				}
			}
		}
		cls := "other: " + apath(atom)
		if c := callOf(atom); c != nil && c.Common().StaticCallee() != nil {
			sc := c.Common().StaticCallee()
			if idx, isV := alive[sc]; isV && idx < len(c.Common().Args) {
				if !isSubjectRole(fn, c.Common().Args[idx]) {
					cls = "dead target"
				} else if cname(sc) != "IsZero" {
					cls = "subject liveness"
				}
			}
			if cname(sc) == "Get" && typeName(recvType(sc)) == "Mask" {
				if _, f, _, ok := loadedField(c.Common().Args[0]); ok && f == "IsRelation" {
					cls = "relation is a relation"
				} else {
					cls = "relation in result mask"
				}
			}
			if g.lockTests[sc] {
				cls = "lock"
			}
		}
		if pr, ok := atom.(*ssa.Parameter); ok && panicsOnTrue {
			if bt, ok := pr.Type().Underlying().(*types.Basic); ok && bt.Kind() == types.Bool {
				cls = "no-op with relation" // a bool parameter (the has-relation flag) whose true edge panics
			}
		}
		if bo, ok := atom.(*ssa.BinOp); ok && (bo.Op == token.LSS || bo.Op == token.GTR || bo.Op == token.LEQ || bo.Op == token.GEQ) {
			// a range test of the integer count parameter against a constant (count < 1, count > MaxUint32)
			if pr, ok := stripConvs(bo.X).(*ssa.Parameter); ok {
				if _, isC := bo.Y.(*ssa.Const); isC {
					if bt, ok := pr.Type().Underlying().(*types.Basic); ok && bt.Info()&types.IsInteger != 0 {
						cls = "count < 1"
					}
				}
			}
		}
		out[cls] = true
	}
	return out
}

func c08r2(p *Prog, r *Reporter) {
	g := p.guardAnalysis()
	asym := map[string]string{"subject liveness": "single", "count < 1": "batch"}
	for _, sp := range sibPairs {
		if sp.name == "create" || sp.name == "remove entities" {
			continue // no argument validation beyond the lock in these primitives
		}
		collect := func(names []string) (map[string]bool, bool) {
			out := map[string]bool{}
			for _, n := range names {
				fn := p.Fn(n)
				if fn == nil {
					r.Anchor(n)
					return nil, false
				}
				for k := range guardClassesT(p, fn, g) {
					out[k] = true
				}
			}
			return out, true
		}
		s, ok1 := collect(sp.single)
		b, ok2 := collect(sp.batch)
		if !ok1 || !ok2 {
			continue
		}
		var diff []string
		for k := range s {
			if !b[k] && asym[k] != "single" {
				diff = append(diff, "only single: "+k)
			}
		}
		for k := range b {
			if !s[k] && asym[k] != "batch" {
				diff = append(diff, "only batch: "+k)
			}
		}
		sort.Strings(diff)
		name := strings.Join(sp.single, " + ") + " ~ " + strings.Join(sp.batch, " + ")
		if len(diff) == 0 {
			var ks []string
			for k := range s {
				ks = append(ks, k)
			}
			sort.Strings(ks)
			r.OK(name, "same panic guards ("+sp.name+")", p.FnPos(p.Fn(sp.single[0])), "guards on both sides: "+strings.Join(ks, ", "))
		} else {
			r.Bad(name, "same panic guards ("+sp.name+")", p.FnPos(p.Fn(sp.single[0])), "the single-entity and the batch path validate differently: "+strings.Join(diff, "; "))
		}
	}
}

func c08r3(p *Prog, r *Reporter) {
	grow := growFns(p)
	moves := func(i ssa.Instruction) bool {
		c, ok := i.(ssa.CallInstruction)
		if !ok || c.Common().StaticCallee() == nil {
			return false
		}
		sc := c.Common().StaticCallee()
		if grow[sc] {
			return true
		}
		return typeName(recvType(sc)) == "archetype" && (cname(sc) == "Remove" || cname(sc) == "Reset")
	}
	for _, n := range []string{"ecs.(*World).exchangeBatchNoNotify", "ecs.(*World).setRelationBatchNoNotify", "ecs.(*World).removeEntities"} {
		fn := p.Fn(n)
		if fn == nil {
			r.Anchor(n)
			continue
		}
		// the returned int: follow to an accumulator variable (phi) and its addends
		var lens []*ssa.Call
		seen := map[ssa.Value]bool{}
		var walk func(v ssa.Value)
		bad := ""
		walk = func(v ssa.Value) {
			if seen[v] {
				return
			}
			seen[v] = true
			switch x := stripConvs(v).(type) {
			case *ssa.Phi:
				for _, e := range x.Edges {
					walk(e)
				}
			case *ssa.BinOp:
				if x.Op == token.ADD {
					walk(x.X)
					walk(x.Y)
				} else {
					bad = "the count is computed with " + x.Op.String()
				}
			case *ssa.Call:
				if isArchMethod(x, "Len") {
					lens = append(lens, x)
				} else {
					bad = "the count includes the result of " + calleeShort(x)
				}
			case *ssa.Const:
			case *ssa.UnOp:
				// a slice element holding a length read earlier (lengths[i]) — find what was stored there
				if ia, ok := x.X.(*ssa.IndexAddr); ok {
					for _, b := range fn.Blocks {
						for _, ins := range b.Instrs {
							if st, ok := ins.(*ssa.Store); ok {
								if ia2, ok := st.Addr.(*ssa.IndexAddr); ok && apath(ia2.X) == apath(ia.X) {
									walk(st.Val)
								}
							}
						}
					}
				}
			default:
				bad = "the count derives from " + apath(v)
			}
		}
		nret := 0
		for _, b := range fn.Blocks {
			if ret, ok := b.Instrs[len(b.Instrs)-1].(*ssa.Return); ok && len(ret.Results) == 1 {
				nret++
				walk(ret.Results[0])
			}
		}
		name := p.FuncName(fn)
		if nret == 0 || len(lens) == 0 && bad == "" {
			bad = "the function returns no count built from table lengths"
		}
		for _, l := range lens {
			if reachableNoBackEdge(fn, moves, l) {
				bad = "a table length that enters the count is read at " + p.Pos(l.Pos()) + " after rows may already have been moved in the same pass"
			}
			// rows moved *into* tables by an earlier iteration change the lengths of tables visited later: a length that
			// enters the count must not be reachable (through the loop's back edge either) from a call that can grow a table
			for _, b := range fn.Blocks {
				for _, ins := range b.Instrs {
					c, ok := ins.(ssa.CallInstruction)
					if !ok || c.Common().StaticCallee() == nil || !grow[c.Common().StaticCallee()] {
						continue
					}
					if reachableFrom(fn, ins, func(i ssa.Instruction) bool { return i == ssa.Instruction(l) }) {
						bad = "the table length read at " + p.Pos(l.Pos()) + " enters the count, but an earlier iteration may already have moved rows into that table (" + cname(c.Common().StaticCallee()) + " at " + p.Pos(c.Pos()) + "): lengths must be read before the first move"
					}
				}
			}
		}
		if bad == "" {
			r.OK(name, "returned count", p.FnPos(fn), "the result is the sum of Len() of the matched tables, each read before any row-moving call of that pass")
		} else {
			r.Bad(name, "returned count", p.FnPos(fn), bad)
		}
	}
}

var issuesMemo map[*ssa.Function]bool

// issuesHandles: the function (transitively) takes handles from the entity pool.
func issuesHandles(p *Prog, fn *ssa.Function) bool {
	if issuesMemo == nil {
		issuesMemo = map[*ssa.Function]bool{}
		if g := p.Fn("ecs.(*entityPool).Get"); g != nil {
			issuesMemo[g] = true
		}
		for changed := true; changed; {
			changed = false
			for _, f := range p.Funcs {
				if issuesMemo[f] {
					continue
				}
				for _, site := range callsIn(f) {
					if sc := site.Common().StaticCallee(); sc != nil && issuesMemo[sc] {
						issuesMemo[f] = true
						changed = true
					}
				}
			}
		}
	}
	return issuesMemo[fn]
}

// effectClasses: the classes of the function and of the unexported World helpers it calls that are not themselves
// classified primitives (two levels): splitting a mover into helpers does not change what it reaches.
func effectClasses(p *Prog, fn *ssa.Function) map[string]bool {
	out := map[string]bool{}
	seen := map[*ssa.Function]bool{fn: true}
	frontier := []*ssa.Function{fn}
	for d := 0; d < 3 && len(frontier) > 0; d++ {
		var next []*ssa.Function
		for _, g := range frontier {
			var un []*ssa.Function
			for k := range effectClasses1(p, g, &un) {
				out[k] = true
			}
			for _, h := range un {
				// helpers that also notify are skipped, except the unexported body of an exported shell (RemoveEntity → removeEntity)
				if !seen[h] && (!p.notifiers()[h] || (d == 0 && g == fn && !h.Object().Exported() && strings.EqualFold(h.Name(), fn.Name()))) {
					seen[h] = true
					next = append(next, h)
				}
			}
		}
		frontier = next
	}
	return out
}

// guardClassesT: guard classes of the function and of the unexported, otherwise unclassified World helpers it calls.
func guardClassesT(p *Prog, fn *ssa.Function, g *guardInfo) map[string]bool {
	out := map[string]bool{}
	seen := map[*ssa.Function]bool{fn: true}
	frontier := []*ssa.Function{fn}
	for d := 0; d < 3 && len(frontier) > 0; d++ {
		var next []*ssa.Function
		for _, f := range frontier {
			for k := range guardClasses(p, f, g) {
				out[k] = true
			}
			var un []*ssa.Function
			effectClasses1(p, f, &un)
			for _, h := range un {
				if !seen[h] && !p.notifiers()[h] && !(g.sum[h] != nil && g.sum[h].establishes) {
					seen[h] = true
					next = append(next, h)
				}
			}
		}
		frontier = next
	}
	return out
}

// isSubjectRole: the validated entity is the one whose entry in World.entities this function looks up (the subject of
// the operation); any other validated entity is a target.
func isSubjectRole(fn *ssa.Function, v ssa.Value) bool {
	o := originOf(v)
	for _, b := range fn.Blocks {
		for _, ins := range b.Instrs {
			ia, ok := ins.(*ssa.IndexAddr)
			if !ok {
				continue
			}
			if _, f, _, ok := loadedField(ia.X); !ok || f != "entities" {
				continue
			}
			if e := idOf(ia.Index); e != nil && (e == v || originOf(e) == o || e == o) {
				return true
			}
		}
	}
	return false
}
