package main

import (
	"go/token"
	"strings"

	"golang.org/x/tools/go/ssa"
)

func init() {
	register(&Property{
		ID: "C07",
		Decides: "the world tells the filter cache about every table it creates or reuses, and about every table it retires (R1, with C06.R2); inside the cache, every append of a relation table to a filter's list also records its position when the position map exists, and a swap-removal re-indexes the swapped table and deletes the removed one (R2); " +
			"a slice that may be the cache's own table list is never indexed or ranged after a call that can modify that list (R3); initial list, incremental update and uncached query select tables the same way (R4 = C03.R3); a cached filter delegates matching, and unregistering returns the stored filter and re-indexes the entry it swapped (R5).",
		NotDecided:  "equality of the selections over histories; ordering of tables inside the lists.",
		Assumptions: commonAssumptions,
		Rules: []Rule{
			{ID: "C07.R1", Floor: 1, Run: c07r1, Text: "every function that initialises or re-activates a table and is not itself called only from such a function calls the cache's addArchetype with that table on every path to return"},
			{ID: "C07.R2", Floor: 4, Run: c07r2, Text: "list ⇄ index-map coherence: in the cache, an append to cacheEntry.Archetypes outside the no-relation region is immediately followed by `if Indices != nil { Indices[table] = position }`; a RemoveAt on the list has its result branched on with Indices[swapped] = idx on the true edge, and is followed by delete(Indices, table)"},
			{ID: "C07.R3", Floor: 2, Run: c07r3, Text: "no stale alias: a value that may be the cache's own list (a load of the pointers field of a cacheEntry's list, or the result of a function that may return it) is not indexed, ranged or measured after a call whose mod-set includes that list"},
			{ID: "C07.R4", Floor: 8, Run: c03r3, Text: "selectors agree (= C03.R3): Register's initial list (getArchetypes), the incremental update (addArchetype) and uncached queries select tables by the same rule"},
			{ID: "C07.R6", Floor: 5, Run: c06r2, Text: "retire co-update (= C06.R2): wherever a table is retired, the cache's removeArchetype is called with it on every path"},
			{ID: "C07.R5", Floor: 3, Run: c07r5, Text: "CachedFilter.Matches returns the wrapped filter's result; Unregister returns the stored filter, deletes the id, and re-indexes the entry it swapped into the vacated position"},
			{ID: "C07.R7", Floor: 1, Run: selectorNoLen, Text: "the selector that fills cache entries and feeds batch operations (getArchetypes) does not test Len(): registration time must not matter"},
			{ID: "C07.R8", Floor: 1, Run: cacheAddDominance, Text: "Cache.addArchetype adds a table to an entry only where the table has no relation, or the entry's filter is not a relation filter, or the filter's target equals the table's target"},
			{ID: "C07.R9", Floor: 3, Run: cacheNeverRecycles, Text: "filter ids are never recycled (= C10.R8): unregistering leaves all other registrations working"},
			{ID: "C07.R10", Floor: 2, Run: indicesNilOrComplete, Text: "the lazily built position index of a cache entry is nil or complete: a fresh map is stored into cacheEntry.Indices only by a function that also fills it for every table of the entry's list"},
			{ID: "C07.R11", Floor: 1, Run: c07r11, Text: "no write through a pointer to a slice element after that element was overwritten as a whole (swap-remove of cache entries); fixture-backed"},
			{ID: "C07.R12", Floor: 2, Run: pointerAssertedFilters, Text: "pointer-asserted filter types are implemented by the pointer type only (= C10.R10)"},
			{ID: "C07.R13", Floor: 1, Run: deactivateOnlyOnRetire, Text: "a table is marked inactive only by the retiring method (which also removes it from the target map and pushes its slot to the free list)"},
			{ID: "C07.R14", Floor: 1, Run: cacheEntryMoves, Text: "moving cache entries keeps the id → position map exact: no bulk copy inside Cache.filters; after the removed id was deleted, the map is written only where the moved entry differs from the removed one (idx != last)"},
			{ID: "C07.R15", Floor: 1, Run: relationAssertUnwrapped, Text: "relation filters are looked at unwrapped (= C03.R15): a batch operation through a registered relation filter keeps its target"},
			{ID: "C07.R16", Floor: 3, Run: indexMapValuesArePositions, Text: "the archetype → position map holds positions: every Indices[k] = v has v = the range index of k, the index k was read from, or Len()-1 right after Add(k)"},
			{ID: "C07.R17", Floor: 2, Run: handleParamsReadOnly, Text: "registered-filter handles are read-only (= C10.R13)"},
			{ID: "C07.R18", Floor: 2, Run: growKeepsLength, Text: "growth keeps the length: in `new := make(T, L, C); copy(new, old)` L is len(old); a truncated id pool issues a filter id twice"},
			{ID: "C07.R19", Floor: 10, Run: freshRelationFilterPerCall, Text: "generic FilterN.Filter hands out a relation filter of its own for a per-call target (= C18.R22): a registered relation filter keeps its target"},
			{ID: "C07.R20", Floor: 4, Run: noRelationRegionIgnoresRelationFilter, Text: "tables without a relation are selected by the component filter alone (= C03.R21): the incremental cache update and the uncached selectors agree"},
			{ID: "C07.R21", Floor: 2, Run: indicesConsultedPerEntry, Text: "the lazily built position index is consulted per entry: a lookup or delete in cacheEntry.Indices outside the building function lies where that entry's Indices was compared with nil on the path"},
		},
	})
}

func c07r1(p *Prog, r *Reporter) {
	add := p.Fn("ecs.(*Cache).addArchetype")
	if add == nil {
		r.Anchor("ecs.(*Cache).addArchetype")
		return
	}
	// table makers: functions whose direct effects include setting a table's index/target (Init, Activate)
	makers := map[*ssa.Function]bool{}
	for _, fn := range p.Funcs {
		if typeName(recvType(fn)) != "archetype" {
			continue
		}
		// sets the table's index to something other than a negative constant (Init, Activate — not Deactivate)
		for _, b := range fn.Blocks {
			for _, ins := range b.Instrs {
				st, ok := ins.(*ssa.Store)
				if !ok {
					continue
				}
				if _, f, _, ok := loadedField(st.Addr); !ok || f != "index" || typeName(fieldOwner(st.Addr)) != "archetypeData" {
					continue
				}
				if c, isC := st.Val.(*ssa.Const); isC && c.Value != nil && c.Int64() < 0 {
					continue
				}
				makers[fn] = true
			}
		}
	}
	if len(makers) == 0 {
		r.Anchor("table initialiser / activator (writes archetypeData.index and the access struct)")
		return
	}
	// need(fn): fn may return having made a table that the cache has not been told about.
	need := map[*ssa.Function]bool{}
	for m := range makers {
		need[m] = true
	}
	discharged := map[*ssa.Function]bool{}
	for changed := true; changed; {
		changed = false
		for _, fn := range p.Funcs {
			if need[fn] || discharged[fn] {
				continue
			}
			callsNeedy := false
			for _, site := range callsIn(fn) {
				if sc := site.Common().StaticCallee(); sc != nil && need[sc] {
					callsNeedy = true
				}
			}
			if !callsNeedy {
				continue
			}
			notifies := false
			for _, site := range callsIn(fn) {
				if isCallTo(site, add) && mustPass(p, fn, site.(ssa.Instruction)) {
					notifies = true
				}
			}
			if notifies {
				discharged[fn] = true
			} else {
				need[fn] = true
			}
			changed = true
		}
	}
	for _, fn := range p.Funcs {
		name := p.FuncName(fn)
		if discharged[fn] {
			r.OK(name, "tell the cache about the new table", p.FnPos(fn), "a table is initialised or re-activated below this function, and addArchetype is called on every path to return")
			continue
		}
		if !need[fn] || makers[fn] {
			continue
		}
		// needy function with no needy-propagating caller: the obligation is lost
		callers := 0
		for _, cf := range p.Funcs {
			for _, site := range callsIn(cf) {
				if isCallTo(site, fn) {
					callers++
				}
			}
		}
		if callers == 0 {
			r.Bad(name, "tell the cache about the new table", p.FnPos(fn), "a table is initialised or re-activated, but the filter cache's addArchetype is not called on every path: registered filters would miss the table")
		}
	}
}

// coveredBy: fn itself notifies on every path (so its callers need not).
func coveredBy(p *Prog, fn *ssa.Function, notifies map[*ssa.Function]bool, seen map[*ssa.Function]bool) bool {
	return notifies[fn]
}

func c07r2(p *Prog, r *Reporter) {
	for _, fn := range p.Funcs {
		if typeName(recvType(fn)) != "Cache" {
			continue
		}
		name := p.FuncName(fn)
		var hr *MustFlow
		nAdd := 0
		for _, b := range fn.Blocks {
			for _, ins := range b.Instrs {
				site, ok := ins.(*ssa.Call)
				if !ok || site.Common().StaticCallee() == nil || len(site.Common().Args) == 0 {
					continue
				}
				sc := site.Common().StaticCallee()
				_, fld, base, okf := loadedField(site.Common().Args[0])
				if !okf || fld != "Archetypes" {
					continue
				}
				short := cname(sc)
				if i := strings.IndexByte(short, '['); i > 0 {
					short = short[:i]
				}
				switch short {
				case "Add":
					nAdd++
					ord := " #" + itoa(nAdd)
					table := site.Common().Args[1]
					if hr == nil {
						hr = hasRelationKnown(p, fn)
					}
					if !hr.Before(site) {
						// is it in the no-relation region? (dominated by the false edge of a has-relation test)
						nr := noRelationKnown(p, fn)
						if nr.Before(site) {
							r.OKt(name, "append to filter list (no-relation region)"+ord, p.Pos(site.Pos()), "tables without a relation are never removed, no position needed")
							continue
						}
					}
					// next: If Indices != nil → MapUpdate(Indices, table)
					okc := false
					valueWhy := ""
					if atom, trueSucc, isIf := ifCond(b); isIf {
						if bo, isB := atom.(*ssa.BinOp); isB && bo.Op == token.NEQ && isNilConst(bo.Y) {
							if _, f, bs, ok := loadedField(bo.X); ok && f == "Indices" && bs == base {
								for _, i2 := range b.Succs[trueSucc].Instrs {
									if mu, ok := i2.(*ssa.MapUpdate); ok {
										if _, f2, _, ok := loadedField(mu.Map); ok && f2 == "Indices" && apath(mu.Key) == apath(table) {
											// the recorded value must be the new last position of this list: Len() - 1 (or len(pointers) - 1)
											if bo, isB := stripConvs(mu.Value).(*ssa.BinOp); isB && bo.Op == token.SUB && isConstInt(bo.Y, 1) {
												if lc := callOf(stripConvs(bo.X)); lc != nil && len(lc.Common().Args) > 0 {
													if _, f3, b3, ok := loadedField(lc.Common().Args[0]); ok && (f3 == "Archetypes" || f3 == "pointers") && strings.HasPrefix(b3, base[:len(base)]) {
														okc = true
													}
												}
											}
											if !okc {
												valueWhy = "the recorded position is " + apath(mu.Value) + ", not the new last index of the list"
											}
										}
									}
								}
							}
						}
					}
					if okc {
						r.OK(name, "append to filter list records position"+ord, p.Pos(site.Pos()), "followed by `if Indices != nil { Indices[table] = len-1 }`")
					} else {
						why := "a relation table is appended to a filter's list without recording its position in Indices: it can never be removed from the list again"
						if valueWhy != "" {
							why = valueWhy + ": a later removal would swap-remove the wrong table"
						}
						r.Bad(name, "append to filter list records position"+ord, p.Pos(site.Pos()), why)
					}
				case "RemoveAt":
					// result branched; true edge stores Indices[...] = idx; delete(Indices, table) follows
					var swapOK, delOK bool
					for _, ref := range *site.Referrers() {
						if iff, ok := ref.(*ssa.If); ok {
							tb := iff.Block().Succs[0]
							for _, i2 := range tb.Instrs {
								if mu, ok := i2.(*ssa.MapUpdate); ok {
									if _, f2, _, ok := loadedField(mu.Map); ok && f2 == "Indices" {
										swapOK = true
									}
								}
							}
						}
					}
					for _, s2 := range callsIn(fn) {
						if bi, ok := s2.Common().Value.(*ssa.Builtin); ok && bi.Name() == "delete" {
							if _, f2, _, ok := loadedField(s2.Common().Args[0]); ok && f2 == "Indices" {
								if allPathsFromPass(fn, site, func(i ssa.Instruction) bool { return i == s2.(ssa.Instruction) }) || dominatesBlock(site.Block(), s2.Block()) {
									delOK = true
								}
							}
						}
					}
					r.Check(swapOK, name, "swap-removal re-indexes the swapped table", p.Pos(site.Pos()), "`if swapped { Indices[list[idx]] = idx }`")
					r.Check(delOK, name, "swap-removal deletes the removed table's position", p.Pos(site.Pos()), "delete(Indices, table) after the removal")
				}
			}
		}
	}
}

func noRelationKnown(p *Prog, fn *ssa.Function) *MustFlow {
	// false edge of a has-relation test
	getter := func(v ssa.Value) bool {
		if _, f, _, ok := loadedField(v); ok && (f == "HasRelation" || f == "HasRelationComponent") {
			return true
		}
		if c := callOf(v); c != nil && c.Common().StaticCallee() != nil {
			g := c.Common().StaticCallee()
			if len(g.Blocks) == 1 {
				if ret, ok := g.Blocks[0].Instrs[len(g.Blocks[0].Instrs)-1].(*ssa.Return); ok && len(ret.Results) == 1 {
					if _, f, _, ok := loadedField(ret.Results[0]); ok && (f == "HasRelationComponent" || f == "HasRelation") {
						return true
					}
				}
			}
		}
		return false
	}
	mf := &MustFlow{Fn: fn, EdgeGen: func(b *ssa.BasicBlock, k int) bool {
		atom, holds, ok := edgeCond(b, k)
		return ok && !holds && getter(atom)
	}}
	mf.Run()
	return mf
}

// ---------- R3 ----------

func isCacheListLoad(v ssa.Value) bool {
	u, ok := v.(*ssa.UnOp)
	if !ok || u.Op != token.MUL {
		return false
	}
	fa, ok := u.X.(*ssa.FieldAddr)
	if !ok || fieldName(fa.X.Type(), fa.Field) != "pointers" {
		return false
	}
	// base must be the Archetypes field of a cacheEntry
	_, f, _, ok := loadedField(fa.X)
	return ok && f == "Archetypes"
}

func c07r3(p *Prog, r *Reporter) {
	// MayReturnCacheList
	may := map[*ssa.Function]bool{}
	derives := func(v ssa.Value, tainted func(ssa.Value) bool) bool {
		seen := map[ssa.Value]bool{}
		var rec func(x ssa.Value) bool
		rec = func(x ssa.Value) bool {
			if seen[x] {
				return false
			}
			seen[x] = true
			if tainted(x) {
				return true
			}
			switch y := x.(type) {
			case *ssa.Phi:
				for _, e := range y.Edges {
					if rec(e) {
						return true
					}
				}
			case *ssa.Slice:
				return rec(y.X)
			case *ssa.ChangeType:
				return rec(y.X)
			}
			return false
		}
		return rec(v)
	}
	taintedIn := func(v ssa.Value) bool {
		if isCacheListLoad(v) {
			return true
		}
		if c := callOf(v); c != nil {
			callees, _ := p.Callees(c)
			for _, cal := range callees {
				if may[cal] {
					return true
				}
			}
		}
		return false
	}
	for changed := true; changed; {
		changed = false
		for _, fn := range p.Funcs {
			if may[fn] {
				continue
			}
			for _, b := range fn.Blocks {
				ret, ok := b.Instrs[len(b.Instrs)-1].(*ssa.Return)
				if !ok {
					continue
				}
				for _, res := range ret.Results {
					if _, isSlice := res.Type().Underlying().(interface{ Elem() interface{} }); isSlice {
					}
					if derives(res, taintedIn) {
						may[fn] = true
						changed = true
					}
				}
			}
		}
	}
	invalidates := func(ins ssa.Instruction) bool {
		site, ok := ins.(ssa.CallInstruction)
		if !ok {
			return false
		}
		for _, pa := range p.SiteMod(site).Paths() {
			if strings.Contains(pa, "Archetypes.pointers") || strings.HasPrefix(pa, "pointers.pointers") {
				return true
			}
		}
		return false
	}
	for _, fn := range p.Funcs {
		name := p.FuncName(fn)
		for _, b := range fn.Blocks {
			for _, ins := range b.Instrs {
				v, ok := ins.(ssa.Value)
				if !ok || !taintedIn(v) {
					continue
				}
				if _, isSl := v.Type().Underlying().(interface{ String() string }); !isSl {
				}
				if !strings.HasPrefix(v.Type().String(), "[]") {
					continue
				}
				// uses of v (through phis/slices) that read elements or length
				bad := ""
				var uses []ssa.Instruction
				seen := map[ssa.Value]bool{}
				var collect func(x ssa.Value)
				collect = func(x ssa.Value) {
					if seen[x] || x.Referrers() == nil {
						return
					}
					seen[x] = true
					for _, ref := range *x.Referrers() {
						switch y := ref.(type) {
						case *ssa.IndexAddr, *ssa.Range, *ssa.Index:
							uses = append(uses, ref)
						case *ssa.Call:
							if bi, ok := y.Call.Value.(*ssa.Builtin); ok && (bi.Name() == "len" || bi.Name() == "cap") {
								uses = append(uses, ref)
							}
						case *ssa.Phi:
							collect(y)
						case *ssa.Slice:
							collect(y)
						case *ssa.Store:
							if a, ok := y.Addr.(*ssa.Alloc); ok {
								for _, r3 := range *a.Referrers() {
									if ld, ok := r3.(*ssa.UnOp); ok && ld.Op == token.MUL {
										collect(ld)
									}
								}
							}
						}
					}
				}
				collect(v)
				for _, u := range uses {
					// is there a path def(v) → invalidating call → u ?
					if pathThrough(ins, u, invalidates) {
						bad = "used at " + p.Pos(posOf(u)) + " after a call that can modify the cache's list"
						break
					}
				}
				if bad != "" {
					r.Bad(name, "alias of a cached filter's table list", p.Pos(posOf(ins)), "the slice may be the cache's own list and is "+bad+": entries can be nil or shifted")
				} else {
					r.OK(name, "alias of a cached filter's table list", p.Pos(posOf(ins)), "no use of the (possibly shared) list follows a call that can modify it")
				}
			}
		}
	}
}

// pathThrough: exists a CFG path from just after `from` to `to` that passes an instruction satisfying pred.
func pathThrough(from, to ssa.Instruction, pred func(ssa.Instruction) bool) bool {
	type st struct {
		b    *ssa.BasicBlock
		i    int
		seen bool
	}
	start := 0
	for i, ins := range from.Block().Instrs {
		if ins == from {
			start = i + 1
		}
	}
	visited := map[[2]int]bool{}
	var walk func(b *ssa.BasicBlock, i int, hit bool) bool
	walk = func(b *ssa.BasicBlock, i int, hit bool) bool {
		for ; i < len(b.Instrs); i++ {
			ins := b.Instrs[i]
			if ins == to && hit {
				return true
			}
			if ins == from {
				return false // the value is computed afresh on this path: a later use sees the new one
			}
			if pred(ins) {
				hit = true
			}
		}
		for _, s := range b.Succs {
			k := [2]int{s.Index, 0}
			if hit {
				k[1] = 1
			}
			if visited[k] {
				continue
			}
			visited[k] = true
			if walk(s, 0, hit) {
				return true
			}
		}
		return false
	}
	return walk(from.Block(), start, false)
}

// ---------- R5 ----------

func c07r5(p *Prog, r *Reporter) {
	m := p.Fn("ecs.(*CachedFilter).Matches")
	if m == nil {
		r.Anchor("ecs.(*CachedFilter).Matches")
	} else {
		ok := false
		for _, b := range m.Blocks {
			if ret, isR := b.Instrs[len(b.Instrs)-1].(*ssa.Return); isR && len(ret.Results) == 1 {
				if c := callOf(ret.Results[0]); c != nil && c.Common().IsInvoke() && c.Common().Method.Name() == "Matches" {
					if _, f, _, okf := loadedField(c.Common().Value); okf && f == "filter" {
						if pr, isP := c.Common().Args[0].(*ssa.Parameter); isP && pr.Name() == m.Params[1].Name() {
							ok = true
						}
					}
				}
			}
		}
		r.Check(ok, p.FuncName(m), "delegates to the wrapped filter", p.FnPos(m), "returns filter.Matches(bits) of the stored filter with the same mask")
	}
	u := p.Fn("ecs.(*Cache).Unregister")
	if u == nil {
		r.Anchor("ecs.(*Cache).Unregister")
		return
	}
	name := p.FuncName(u)
	// returns filters[idx].Filter loaded before the swap
	retOK, delOK, reidxOK := false, false, false
	var ublocks []*ssa.BasicBlock
	for _, g := range withHelpers(p, u, 2) {
		ublocks = append(ublocks, g.Blocks...)
	}
	for _, b := range ublocks {
		if ret, isR := b.Instrs[len(b.Instrs)-1].(*ssa.Return); isR && len(ret.Results) == 1 && b.Parent() == u {
			if strings.HasSuffix(apath(ret.Results[0]), ".Filter") && strings.Contains(apath(ret.Results[0]), "filters[") {
				retOK = true
			}
		}
		for _, ins := range b.Instrs {
			if c, ok := ins.(*ssa.Call); ok {
				if bi, ok := c.Call.Value.(*ssa.Builtin); ok && bi.Name() == "delete" {
					if _, f, _, ok := loadedField(c.Call.Args[0]); ok && f == "indices" {
						delOK = true
					}
				}
			}
			if mu, ok := ins.(*ssa.MapUpdate); ok {
				if _, f, _, ok := loadedField(mu.Map); ok && f == "indices" && strings.HasSuffix(apath(mu.Key), ".ID") {
					reidxOK = true
				}
			}
		}
	}
	r.Check(retOK, name, "returns the stored filter", p.FnPos(u), "the result is filters[idx].Filter")
	r.Check(delOK, name, "forgets the filter id", p.FnPos(u), "delete(indices, id)")
	r.Check(reidxOK, name, "re-indexes the swapped entry", p.FnPos(u), "indices[filters[idx].ID] = idx after the swap")
}
