package main

import (
	"bytes"
	"os"
	"fmt"
	"go/ast"
	"go/printer"
	"go/token"
	"sort"
	"strings"
)

func (p *Prog) src(n ast.Node) string {
	var buf bytes.Buffer
	printer.Fprint(&buf, p.Fset, n)
	return strings.Join(strings.Fields(buf.String()), " ")
}

func unparen(e ast.Expr) ast.Expr {
	for {
		pe, ok := e.(*ast.ParenExpr)
		if !ok {
			return e
		}
		e = pe.X
	}
}

// inlineBody: if the function body is a sequence of simple `x := expr` definitions followed by a single return of one
// expression, returns that expression with the local definitions substituted. ok=false otherwise.
func inlineBody(fd *ast.FuncDecl) (ast.Expr, map[string]ast.Expr, bool) {
	defs := map[string]ast.Expr{}
	if fd.Body == nil {
		return nil, nil, false
	}
	for i, st := range fd.Body.List {
		switch s := st.(type) {
		case *ast.AssignStmt:
			if s.Tok != token.DEFINE || len(s.Lhs) != len(s.Rhs) {
				return nil, nil, false
			}
			for j, l := range s.Lhs {
				id, ok := l.(*ast.Ident)
				if !ok {
					return nil, nil, false
				}
				defs[id.Name] = s.Rhs[j]
			}
		case *ast.ReturnStmt:
			if i != len(fd.Body.List)-1 || len(s.Results) != 1 {
				return nil, nil, false
			}
			return s.Results[0], defs, true
		case *ast.ExprStmt:
			// q.checkGet() style no-op calls are not expected in the functions we inline
			return nil, nil, false
		default:
			return nil, nil, false
		}
	}
	return nil, nil, false
}

// subst renders an expression with local definitions substituted (depth-limited).
func (p *Prog) subst(e ast.Expr, defs map[string]ast.Expr, depth int) string {
	if depth > 6 {
		return p.src(e)
	}
	switch x := unparen(e).(type) {
	case *ast.Ident:
		if d, ok := defs[x.Name]; ok {
			return "(" + p.subst(d, defs, depth+1) + ")"
		}
		return x.Name
	case *ast.BinaryExpr:
		return "(" + p.subst(x.X, defs, depth+1) + " " + x.Op.String() + " " + p.subst(x.Y, defs, depth+1) + ")"
	case *ast.UnaryExpr:
		return x.Op.String() + p.subst(x.X, defs, depth+1)
	case *ast.CallExpr:
		var args []string
		for _, a := range x.Args {
			args = append(args, p.subst(a, defs, depth+1))
		}
		return p.subst(x.Fun, defs, depth+1) + "(" + strings.Join(args, ", ") + ")"
	case *ast.SelectorExpr:
		return p.subst(x.X, defs, depth+1) + "." + x.Sel.Name
	case *ast.IndexExpr:
		return p.subst(x.X, defs, depth+1) + "[" + p.subst(x.Index, defs, depth+1) + "]"
	case *ast.StarExpr:
		return "*" + p.subst(x.X, defs, depth+1)
	case *ast.BasicLit:
		return x.Value
	}
	return p.src(e)
}

// boolTree evaluates a boolean expression built from &&, ||, !, ==, != (between boolean sub-expressions) over atoms.
// atoms are collected in order of first appearance; eval is called with an assignment.
type boolExpr struct {
	op   string // "atom", "&&", "||", "!", "==", "!=", "const"
	atom string
	val  bool
	l, r *boolExpr
}

func (p *Prog) parseBool(e ast.Expr, defs map[string]ast.Expr, atomOf func(ast.Expr) (string, bool)) (*boolExpr, error) {
	e = unparen(e)
	switch x := e.(type) {
	case *ast.Ident:
		if x.Name == "true" || x.Name == "false" {
			return &boolExpr{op: "const", val: x.Name == "true"}, nil
		}
		if d, ok := defs[x.Name]; ok {
			return p.parseBool(d, defs, atomOf)
		}
	case *ast.UnaryExpr:
		if x.Op == token.NOT {
			in, err := p.parseBool(x.X, defs, atomOf)
			if err != nil {
				return nil, err
			}
			return &boolExpr{op: "!", l: in}, nil
		}
	case *ast.BinaryExpr:
		switch x.Op {
		case token.LAND, token.LOR:
			l, err := p.parseBool(x.X, defs, atomOf)
			if err != nil {
				return nil, err
			}
			r, err := p.parseBool(x.Y, defs, atomOf)
			if err != nil {
				return nil, err
			}
			return &boolExpr{op: x.Op.String(), l: l, r: r}, nil
		case token.EQL, token.NEQ:
			// boolean (in)equality only if both sides parse as boolean trees of call atoms
			if a, ok := atomOf(e); ok {
				return &boolExpr{op: "atom", atom: a}, nil
			}
			l, err1 := p.parseBool(x.X, defs, atomOf)
			r, err2 := p.parseBool(x.Y, defs, atomOf)
			if err1 == nil && err2 == nil {
				return &boolExpr{op: x.Op.String(), l: l, r: r}, nil
			}
		}
	}
	if a, ok := atomOf(e); ok {
		return &boolExpr{op: "atom", atom: a}, nil
	}
	return nil, fmt.Errorf("unrecognised boolean sub-expression %q", p.src(e))
}

func (b *boolExpr) atoms(out map[string]bool) {
	if b == nil {
		return
	}
	if b.op == "atom" {
		out[b.atom] = true
	}
	b.l.atoms(out)
	b.r.atoms(out)
}

func (b *boolExpr) eval(as map[string]bool) bool {
	switch b.op {
	case "const":
		return b.val
	case "atom":
		return as[b.atom]
	case "!":
		return !b.l.eval(as)
	case "&&":
		return b.l.eval(as) && b.r.eval(as)
	case "||":
		return b.l.eval(as) || b.r.eval(as)
	case "==":
		return b.l.eval(as) == b.r.eval(as)
	case "!=":
		return b.l.eval(as) != b.r.eval(as)
	}
	return false
}

// truthTable compares a parsed expression with a specification over the given atoms; `consistent` filters assignments.
// Returns the first differing assignment, or "".
func truthTable(b *boolExpr, atoms []string, spec func(map[string]bool) bool, consistent func(map[string]bool) bool) (string, int) {
	n := len(atoms)
	rows := 0
	for m := 0; m < 1<<n; m++ {
		as := map[string]bool{}
		for i, a := range atoms {
			as[a] = m&(1<<i) != 0
		}
		if consistent != nil && !consistent(as) {
			continue
		}
		rows++
		if b.eval(as) != spec(as) {
			var parts []string
			for _, a := range atoms {
				parts = append(parts, fmt.Sprintf("%s=%v", a, as[a]))
			}
			return strings.Join(parts, ", ") + fmt.Sprintf(" → code %v, specification %v", b.eval(as), spec(as)), rows
		}
	}
	return "", rows
}

func sortedAtomList(b *boolExpr) []string {
	m := map[string]bool{}
	b.atoms(m)
	var out []string
	for a := range m {
		out = append(out, a)
	}
	sort.Strings(out)
	return out
}

// splitTop splits an expression at top-level occurrences of op (left-assoc chains).
func splitTop(e ast.Expr, op token.Token) []ast.Expr {
	e = unparen(e)
	if be, ok := e.(*ast.BinaryExpr); ok && be.Op == op {
		return append(splitTop(be.X, op), splitTop(be.Y, op)...)
	}
	return []ast.Expr{e}
}

func osReadFile(name string) ([]byte, error) { return os.ReadFile(name) }
