package main

// Rules added after the eighth round of seeded changes (DESIGN §6): each was missed by the rules that existed.

import (
	"fmt"
	"go/token"
	"go/types"
	"strings"

	"golang.org/x/tools/go/ssa"
)

// recvFieldStore: ins stores into field F of the function's receiver (first parameter); returns F.
func recvFieldStore(fn *ssa.Function, ins ssa.Instruction) (string, *ssa.Store, bool) {
	st, ok := ins.(*ssa.Store)
	if !ok || len(fn.Params) == 0 {
		return "", nil, false
	}
	fa, ok := st.Addr.(*ssa.FieldAddr)
	if !ok || fa.X != ssa.Value(fn.Params[0]) {
		return "", nil, false
	}
	return fieldName(fa.X.Type(), fa.Field), st, true
}

// recvFieldLoad: v is a load of field F of the function's receiver; returns F.
func recvFieldLoad(fn *ssa.Function, v ssa.Value) (string, bool) {
	u, ok := v.(*ssa.UnOp)
	if !ok || u.Op != token.MUL || len(fn.Params) == 0 {
		return "", false
	}
	fa, ok := u.X.(*ssa.FieldAddr)
	if !ok || fa.X != ssa.Value(fn.Params[0]) {
		return "", false
	}
	return fieldName(fa.X.Type(), fa.Field), true
}

// ---------- Exchange: the builder follows its configuration ----------

// exchangeBuilderFollowsConfig: Exchange.builder is derived from add, hasRelation and relationID. In every method of
// Exchange that stores one of those fields, a store to builder follows on every path to a return: NewEntity(target) goes
// through the builder, NewEntity() through the id list, and the two must describe the same component set.
func exchangeBuilderFollowsConfig(p *Prog, r *Reporter) {
	src := map[string]bool{"add": true, "hasRelation": true, "relationID": true}
	n := 0
	for _, fn := range p.Funcs {
		if fn.Pkg == nil || fn.Pkg.Pkg.Name() != "generic" || typeName(recvType(fn)) != "Exchange" || fn.Blocks == nil {
			continue
		}
		var stored []string
		seen := map[string]bool{}
		for _, b := range fn.Blocks {
			for _, ins := range b.Instrs {
				if f, _, ok := recvFieldStore(fn, ins); ok && src[f] && !seen[f] {
					seen[f] = true
					stored = append(stored, f)
				}
			}
		}
		if len(stored) == 0 {
			continue
		}
		n++
		mf := &MustFlow{Fn: fn, Entry: true,
			InstrGen: func(ins ssa.Instruction) bool {
				f, _, ok := recvFieldStore(fn, ins)
				return ok && f == "builder"
			},
			InstrKill: func(ins ssa.Instruction) bool {
				f, _, ok := recvFieldStore(fn, ins)
				return ok && src[f]
			}}
		mf.Run()
		construct := "configuration store (" + strings.Join(stored, ", ") + ")"
		if mf.AtAllReturns() {
			r.OK(p.FuncName(fn), construct, p.FnPos(fn), "the builder is rebuilt after the configuration changed, on every path")
		} else {
			r.Bad(p.FuncName(fn), construct, p.FnPos(fn), "a path returns with a changed "+strings.Join(stored, "/")+" and the old builder: entities created with a target get the previous component list")
		}
	}
	if n == 0 {
		r.Anchor("a method of generic.Exchange storing add / hasRelation / relationID")
	}
}

// ---------- Compile: the compiled flag, and recomputation ----------

// compileGuardFlag: every return of compiledQuery.Compile that is not preceded by a store of `true` to a bool field F of
// the receiver lies where F was tested true; and nothing that can fail (no call) follows a store F = true. The early
// return therefore only fires for a filter whose last compilation ran to its end; a field that is written before the
// fallible registration of component types cannot serve as the flag.
func compileGuardFlag(p *Prog, r *Reporter) {
	fn := p.Fn("generic.(*compiledQuery).Compile")
	if fn == nil || fn.Blocks == nil {
		r.Anchor("generic.(*compiledQuery).Compile")
		return
	}
	cands := map[string]bool{}
	for _, b := range fn.Blocks {
		for _, ins := range b.Instrs {
			if f, st, ok := recvFieldStore(fn, ins); ok {
				if cb, isC := constBool(st.Val); isC && cb {
					cands[f] = true
				}
			}
		}
	}
	var rets []*ssa.Return
	for _, b := range fn.Blocks {
		if !reachable(b) || len(b.Instrs) == 0 {
			continue
		}
		if rt, ok := b.Instrs[len(b.Instrs)-1].(*ssa.Return); ok {
			rets = append(rets, rt)
		}
	}
	flag, why := "", "no bool field of the receiver is both set to true by Compile and known true at every early return"
	for f := range cands {
		f := f
		set := &MustFlow{Fn: fn, InstrGen: func(ins ssa.Instruction) bool {
			g, st, ok := recvFieldStore(fn, ins)
			if !ok || g != f {
				return false
			}
			cb, isC := constBool(st.Val)
			return isC && cb
		}}
		set.Run()
		tested := &MustFlow{Fn: fn, EdgeGen: func(b *ssa.BasicBlock, k int) bool {
			atom, holds, ok := edgeCond(b, k)
			if !ok || !holds {
				return false
			}
			g, isL := recvFieldLoad(fn, atom)
			return isL && g == f
		}}
		tested.Run()
		all, early := true, 0
		for _, rt := range rets {
			if set.Before(rt) {
				continue
			}
			early++
			if !tested.Before(rt) {
				all = false
			}
		}
		if !all || early == 0 {
			continue
		}
		// nothing fallible after the flag is set
		bad := ""
		for _, b := range fn.Blocks {
			for _, ins := range b.Instrs {
				g, st, ok := recvFieldStore(fn, ins)
				if !ok || g != f {
					continue
				}
				if cb, isC := constBool(st.Val); !isC || !cb {
					continue
				}
				if reachableFrom(fn, ins, func(i ssa.Instruction) bool {
					switch c := i.(type) {
					case *ssa.Panic:
						return true
					case ssa.CallInstruction:
						_, isB := c.Common().Value.(*ssa.Builtin)
						return !isB
					}
					return false
				}) {
					bad = p.Pos(st.Pos())
				}
			}
		}
		if bad != "" {
			why = "the flag " + f + " is set at " + bad + " before a call that can still panic: a failed compilation would leave the filter marked as compiled"
			continue
		}
		flag = f
		break
	}
	if flag != "" {
		r.OK(p.FuncName(fn), "early return is guarded by a completion flag", p.FnPos(fn), "every early return lies where "+flag+" is known true; "+flag+" is set after the last call")
	} else {
		r.Bad(p.FuncName(fn), "early return is guarded by a completion flag", p.FnPos(fn), why+": a compilation that panicked half-way (component registration in a locked world) is taken for complete by the next call")
	}
}

// compileRecomputes: after its entry guard, Compile reads a field of the receiver that it also writes only where that
// field was already written in this invocation: everything derived from the world (ids, masks, the relation id) is
// derived again for the world it is compiled for, never carried over from the previous compilation.
func compileRecomputes(p *Prog, r *Reporter) {
	fn := p.Fn("generic.(*compiledQuery).Compile")
	if fn == nil || fn.Blocks == nil {
		r.Anchor("generic.(*compiledQuery).Compile")
		return
	}
	written := map[string]bool{}
	for _, b := range fn.Blocks {
		for _, ins := range b.Instrs {
			if f, _, ok := recvFieldStore(fn, ins); ok {
				written[f] = true
			}
		}
	}
	// guard region: no field of the receiver has been stored yet
	untouched := &MustFlow{Fn: fn, Entry: true, InstrKill: func(ins ssa.Instruction) bool {
		_, _, ok := recvFieldStore(fn, ins)
		return ok
	}}
	untouched.Run()
	flows := map[string]*MustFlow{}
	n := 0
	for _, b := range fn.Blocks {
		for _, ins := range b.Instrs {
			v, ok := ins.(ssa.Value)
			if !ok {
				continue
			}
			f, ok := recvFieldLoad(fn, v)
			if !ok || !written[f] {
				continue
			}
			if untouched.Before(ins) {
				continue // the entry guard
			}
			mf := flows[f]
			if mf == nil {
				f := f
				mf = &MustFlow{Fn: fn, InstrGen: func(i ssa.Instruction) bool {
					g, _, ok := recvFieldStore(fn, i)
					return ok && g == f
				}}
				mf.Run()
				flows[f] = mf
			}
			n++
			construct := fmt.Sprintf("reads %s #%d", f, n)
			if mf.Before(ins) {
				r.OK(p.FuncName(fn), construct, p.Pos(ins.Pos()), "the field was written earlier in this compilation on every path")
			} else {
				r.Bad(p.FuncName(fn), construct, p.Pos(ins.Pos()), "the compilation reads "+f+" as left by the previous compilation (possibly for another world) on some path: component ids differ between worlds")
			}
		}
	}
	if n == 0 {
		r.OKt(p.FuncName(fn), "reads of own outputs", p.FnPos(fn), "Compile reads none of the fields it writes after its entry guard")
	}
}

// ---------- growth copies the whole old slice ----------

// growCopyWholeSource: in a function that allocates a slice, the source of a builtin copy is not cut short: a source
// `old[:k]` is accepted only for k = len(old).
func growCopyWholeSource(p *Prog, r *Reporter) {
	n := 0
	for _, fn := range p.Funcs {
		if !p.isArche(fn) || fn.Blocks == nil {
			continue
		}
		makes := false
		for _, b := range fn.Blocks {
			for _, ins := range b.Instrs {
				if _, ok := ins.(*ssa.MakeSlice); ok {
					makes = true
				}
			}
		}
		if !makes {
			continue
		}
		for _, site := range callsIn(fn) {
			bi, ok := site.Common().Value.(*ssa.Builtin)
			if !ok || bi.Name() != "copy" || len(site.Common().Args) != 2 {
				continue
			}
			n++
			construct := fmt.Sprintf("copy(%s, %s) source", apath(site.Common().Args[0]), apath(site.Common().Args[1]))
			sl, isSl := site.Common().Args[1].(*ssa.Slice)
			if !isSl || sl.High == nil {
				r.OKt(p.FuncName(fn), construct, p.Pos(site.Pos()), "the source is not cut short")
				continue
			}
			okHigh := false
			if c := callOf(stripConvs(sl.High)); c != nil {
				if b2, isB := c.Call.Value.(*ssa.Builtin); isB && b2.Name() == "len" && structEq(c.Call.Args[0], sl.X, 0) {
					okHigh = true
				}
			}
			if okHigh {
				r.OK(p.FuncName(fn), construct, p.Pos(site.Pos()), "the source is sliced to its own length")
			} else {
				r.Bad(p.FuncName(fn), construct, p.Pos(site.Pos()), "a growth copy takes only "+apath(sl.X)+"[:"+apath(sl.High)+"]: entries behind that bound are lost when storage is re-allocated (ids are not a dense prefix)")
			}
		}
	}
	if n == 0 {
		r.Anchor("a builtin copy in a function that allocates a slice")
	}
}

// ---------- tables without a relation are selected by the component filter alone ----------

// noRelationRegionIgnoresRelationFilter: where a table or node is known to have no relation component, and the filter is
// matched there, the code does not look at whether the filter is a *RelationFilter: every selector (uncached iteration,
// Count/EntityAt, the list handed to Register, the incremental cache update) decides such tables by Filter.Matches alone.
func noRelationRegionIgnoresRelationFilter(p *Prog, r *Reporter) {
	n := 0
	for _, fn := range p.Funcs {
		if !p.isArche(fn) || fn.Blocks == nil || fn.Pkg == nil || fn.Pkg.Pkg.Name() != "ecs" {
			continue
		}
		edge := func(b *ssa.BasicBlock, k int) bool {
			atom, holds, ok := edgeCond(b, k)
			if !ok || holds {
				return false
			}
			if _, f, _, okf := loadedField(atom); okf && (f == "HasRelationComponent" || f == "HasRelation") {
				return true
			}
			if c := callOf(atom); c != nil {
				if sc := c.Common().StaticCallee(); sc != nil && cname(sc) == "HasRelation" {
					return true
				}
			}
			return false
		}
		mf := &MustFlow{Fn: fn, EdgeGen: edge}
		mf.Run()
		matches, region, bad := false, false, ""
		for _, b := range fn.Blocks {
			for k := range b.Succs {
				if edge(b, k) {
					region = true
				}
			}
			for _, ins := range b.Instrs {
				if c, ok := ins.(ssa.CallInstruction); ok {
					if c.Common().IsInvoke() && c.Common().Method.Name() == "Matches" {
						matches = true
					} else if sc := c.Common().StaticCallee(); sc != nil && cname(sc) == "Matches" {
						matches = true
					}
				}
				if ta, ok := ins.(*ssa.TypeAssert); ok && typeName(ta.AssertedType) == "RelationFilter" {
					matches = true
					if mf.Before(ins) {
						bad = p.Pos(ta.Pos())
					}
				}
			}
		}
		if !matches || !region {
			continue
		}
		n++
		if bad == "" {
			r.OK(p.FuncName(fn), "selection of tables without a relation", p.FnPos(fn), "decided by Filter.Matches alone")
		} else {
			r.Bad(p.FuncName(fn), "selection of tables without a relation", bad, "a table without relation component is selected depending on whether the filter is a *RelationFilter; the sibling selectors decide such tables by Filter.Matches alone, so a registered filter and the original disagree")
		}
	}
	if n == 0 {
		r.Anchor("a function matching a filter where the table is known to have no relation")
	}
}

// ---------- loops over a paged list cover it ----------

// pagedLoopsCoverList: a loop that indexes a paged list with its counter (`for j = 0; j < B; j++ { L.Get(j) }`) has
// B = L.Len(): Count, EntityAt, the table selectors and the node-wide updates see every slot of the list (inactive
// slots sit anywhere in it, so no arithmetic on the bound can skip exactly them).
func pagedLoopsCoverList(p *Prog, r *Reporter) {
	n := 0
	for _, fn := range p.Funcs {
		if !p.isArche(fn) || fn.Blocks == nil || fn.Pkg == nil || fn.Pkg.Pkg.Name() != "ecs" {
			continue
		}
		k := 0
		for _, site := range callsIn(fn) {
			var recv, idx ssa.Value
			if site.Common().IsInvoke() {
				// the table list of a node is held behind the `archetypes` interface
				if site.Common().Method.Name() != "Get" || len(site.Common().Args) != 1 || typeName(site.Common().Value.Type()) != "archetypes" {
					continue
				}
				recv, idx = site.Common().Value, site.Common().Args[0]
			} else {
				sc := site.Common().StaticCallee()
				if sc == nil || !(cname(sc) == "Get" || strings.HasPrefix(cname(sc), "Get[")) || len(site.Common().Args) != 2 {
					continue
				}
				if rt := typeName(recvType(sc)); !strings.HasPrefix(rt, "pagedSlice") && !strings.HasPrefix(rt, "pointers") && !strings.HasPrefix(rt, "batchArchetypes") {
					continue
				}
				recv, idx = site.Common().Args[0], site.Common().Args[1]
			}
			ph, ok := stripConvs(idx).(*ssa.Phi)
			if !ok || !isCounterFromZero(ph) {
				continue
			}
			// the comparison that bounds the counter
			var bound ssa.Value
			nb := 0
			for _, ref := range *ph.Referrers() {
				bo, ok := ref.(*ssa.BinOp)
				if !ok {
					continue
				}
				var other ssa.Value
				switch {
				case bo.X == ssa.Value(ph) && bo.Op == token.LSS:
					other = bo.Y
				case bo.Y == ssa.Value(ph) && bo.Op == token.GTR:
					other = bo.X
				default:
					continue
				}
				feedsIf := false
				for _, r2 := range *bo.Referrers() {
					if _, isIf := r2.(*ssa.If); isIf {
						feedsIf = true
					}
				}
				if feedsIf {
					bound = other
					nb++
				}
			}
			if nb != 1 {
				continue
			}
			n++
			k++
			construct := fmt.Sprintf("loop over %s #%d", apath(recv), k)
			okB := false
			if c := callOf(stripConvs(bound)); c != nil {
				if c.Common().IsInvoke() {
					if c.Common().Method.Name() == "Len" && (c.Common().Value == recv || structEq(c.Common().Value, recv, 0)) {
						okB = true
					}
				} else if lc := c.Common().StaticCallee(); lc != nil && (cname(lc) == "Len" || strings.HasPrefix(cname(lc), "Len[")) && len(c.Common().Args) == 1 {
					if structEq(c.Common().Args[0], recv, 0) || apath(c.Common().Args[0]) == apath(recv) {
						okB = true
					}
				}
			}
			if okB {
				r.OK(p.FuncName(fn), construct, p.Pos(site.Pos()), "the counter runs from 0 to the list's Len()")
			} else if c := callOf(stripConvs(bound)); c == nil {
				if _, isBin := stripConvs(bound).(*ssa.BinOp); isBin {
					r.Bad(p.FuncName(fn), construct, p.Pos(site.Pos()), "the loop's bound is computed ("+apath(bound)+"), not the list's Len(): slots behind the bound are never visited, although active tables sit anywhere in the list")
				} else {
					r.OKt(p.FuncName(fn), construct, p.Pos(site.Pos()), "bound is a plain value (not judged)")
				}
			} else {
				r.OKt(p.FuncName(fn), construct, p.Pos(site.Pos()), "bound is another call (not judged)")
			}
		}
	}
	if n == 0 {
		r.Anchor("a counter loop indexing a paged list")
	}
}

// isCounterFromZero: phi with a constant-0 edge whose other edges are phi + 1.
func isCounterFromZero(ph *ssa.Phi) bool {
	zero, inc := false, false
	for _, e := range ph.Edges {
		if isConstInt(e, 0) {
			zero = true
			continue
		}
		if bo, ok := e.(*ssa.BinOp); ok && bo.Op == token.ADD && bo.X == ssa.Value(ph) && isConstInt(bo.Y, 1) {
			inc = true
			continue
		}
		return false
	}
	return zero && inc
}

// ---------- the lazily built position index is consulted per entry ----------

// indicesConsultedPerEntry: cacheEntry.Indices is built lazily, per entry (nil until the first removal that concerns the
// entry). A lookup or delete in it outside the building function therefore lies where that same entry's Indices was
// compared with nil on the path; a lookup in a nil map silently answers "not in the list" and the removed table stays in
// the entry's list. (Not demanded if no cacheEntry is ever constructed with a nil Indices.)
func indicesConsultedPerEntry(p *Prog, r *Reporter) {
	// is the index lazy at all? The code says so itself where it compares an entry's Indices with nil or stores nil.
	lazy := false
	for _, fn := range p.Funcs {
		if !p.isArche(fn) || fn.Blocks == nil {
			continue
		}
		for _, b := range fn.Blocks {
			for _, ins := range b.Instrs {
				switch x := ins.(type) {
				case *ssa.Store:
					if o, f, _, okf := loadedField(x.Addr); okf && o == "cacheEntry" && f == "Indices" && isNilConst(x.Val) {
						lazy = true
					}
				case *ssa.BinOp:
					for _, pr := range [][2]ssa.Value{{x.X, x.Y}, {x.Y, x.X}} {
						if o, f, _, okf := loadedField(pr[0]); okf && o == "cacheEntry" && f == "Indices" && isNilConst(pr[1]) {
							lazy = true
						}
					}
				}
			}
		}
	}
	n := 0
	for _, fn := range p.Funcs {
		if !p.isArche(fn) || fn.Blocks == nil || typeName(recvType(fn)) != "Cache" {
			continue
		}
		// the building function stores a fresh map
		builds := false
		for _, b := range fn.Blocks {
			for _, ins := range b.Instrs {
				if st, ok := ins.(*ssa.Store); ok {
					if o, f, _, okf := loadedField(st.Addr); okf && o == "cacheEntry" && f == "Indices" {
						if _, isMk := st.Val.(*ssa.MakeMap); isMk {
							builds = true
						}
					}
				}
			}
		}
		if builds {
			continue
		}
		for _, b := range fn.Blocks {
			for _, ins := range b.Instrs {
				var mp ssa.Value
				what := ""
				switch x := ins.(type) {
				case *ssa.Lookup:
					mp, what = x.X, "lookup"
				case *ssa.Call:
					if bi, ok := x.Call.Value.(*ssa.Builtin); ok && bi.Name() == "delete" {
						mp, what = x.Call.Args[0], "delete"
					}
				}
				if mp == nil {
					continue
				}
				o, f, base, okf := loadedField(mp)
				if !okf || o != "cacheEntry" || f != "Indices" {
					continue
				}
				n++
				construct := fmt.Sprintf("%s in %s.Indices #%d", what, base, n)
				tested := &MustFlow{Fn: fn, EdgeGen: func(bb *ssa.BasicBlock, k int) bool {
					atom, _, ok := edgeCond(bb, k)
					if !ok {
						return false
					}
					bo, isB := atom.(*ssa.BinOp)
					if !isB || (bo.Op != token.EQL && bo.Op != token.NEQ) {
						return false
					}
					for _, pr := range [][2]ssa.Value{{bo.X, bo.Y}, {bo.Y, bo.X}} {
						if !isNilConst(pr[1]) {
							continue
						}
						if o2, f2, b2, ok2 := loadedField(pr[0]); ok2 && o2 == "cacheEntry" && f2 == "Indices" && b2 == base {
							return true
						}
					}
					return false
				}}
				tested.Run()
				switch {
				case tested.Before(ins):
					r.OK(p.FuncName(fn), construct, p.Pos(ins.Pos()), "the entry's Indices was compared with nil on every path to this use")
				case !lazy:
					r.OKt(p.FuncName(fn), construct, p.Pos(ins.Pos()), "no cacheEntry is constructed with a nil Indices")
				default:
					r.Bad(p.FuncName(fn), construct, p.Pos(ins.Pos()), "the lazily built position index of this entry is consulted without a nil test of this entry's Indices: for an entry whose index was never built the "+what+" silently misses and the removed table stays in the registered filter's list")
				}
			}
		}
	}
	if n == 0 {
		r.Anchor("a lookup in cacheEntry.Indices")
	}
}

var _ = types.Typ
