package main

import (
	"fmt"
	"go/ast"
	"go/constant"
	"go/token"
	"go/types"
	"sort"
	"strings"

	"golang.org/x/tools/go/packages"
	"golang.org/x/tools/go/ssa"
)

func init() {
	register(&Property{
		ID: "C12",
		Decides: "both copies of the subscription predicate equal the documented rule on every one of the 8192 assignments of their 13 atoms, with the event-type masks evaluated from the event constants (R2); the subscription-mask builder sets exactly bit i for parameter i (R3); at every notification site the predicate is called with the trigger `Subscriptions() & types` of exactly the event's types, the addresses of the event's own Added/Removed masks (nil iff absent), the listener's Components() and the event's own relation ids (R1); " +
			"Dispatch aggregates events with |=, components with Or and drops the restriction when a sub-listener has none, and the accessors return nil iff unrestricted (R4); a notification guard carried around a loop is recomputed in every iteration (R5).",
		NotDecided:  "equality of the delivered stream with the selected subsequence over histories; order of delivery (follows from the single loop over listeners).",
		Assumptions: append([]string{"Dispatch delivery is sound because the aggregate subscription is a superset and the predicate is monotone in trigger and components (argument in DESIGN.md, not a check)"}, commonAssumptions...),
		Rules: []Rule{
			{ID: "C12.R1", Floor: 11, Run: c12r1, Text: "literal ⇄ guard correspondence (E-ast): for every Notify(world, event) the guarding subscribes(trigger, A, R, C, O, N) has trigger = <listener>.Subscriptions() & <event's EventTypes>, A/R = addresses of the event's Added/Removed (nil iff the event has none), C = <listener>.Components(), O/N = the event's OldRelation/NewRelation (nil iff none)"},
			{ID: "C12.R2", Floor: 2, Run: c12r2, Text: "subscribes truth table (E-tt), both copies: over atoms trigger=0, subs=nil, trigger∩Relations, old≠nil, old∈C, new≠nil, new∈C, trigger∩(Created|Added), added≠nil, C∩added, trigger∩(Removed|CompRemoved), removed≠nil, C∩removed (8192 rows, exhaustive), result = trigger≠0 ∧ (subs=nil ∨ relations clause ∨ additions clause ∨ removals clause)"},
			{ID: "C12.R3", Floor: 6, Run: c12r3, Text: "subscription builder: parameter i (entityCreated, entityRemoved, componentAdded, componentRemoved, relationChanged, targetChanged) ORs exactly the event constant of the same name, whose value is 1<<i"},
			{ID: "C12.R4", Floor: 8, Run: c12r4, Text: "Dispatch aggregation siblings (NewDispatch, AddListener): events |= Subscriptions(); components = components.Or(c) when c != nil, hasComponents = false when nil; accessors of Dispatch and Callback return nil iff not restricted"},
			{ID: "C12.R5", Floor: 1, Run: c12r5, Text: "freshness: every variable that guards or fills a notification inside a loop (guard flag, event bits, relation pointers, id lists) is assigned on every path of an iteration before the notification, except on a path skipped because no listener is installed"},
			{ID: "C12.R6", Floor: 2, Run: constPrefilters, Text: "constant subscription pre-filters: only the two target setters (table in checker/rules_r3.go) test Subscriptions() against a constant mask before notifying, and the mask is event.TargetChanged; every other notification leaves filtering to subscribes() with the per-event types"},
			{ID: "C12.R7", Floor: 2, Run: paramSlicesNotGrown, Text: "caller-owned slices that the library appends to are copied first: a slice parameter of an exported function stored into a field is never grown or element-written through that field anywhere in the package (Dispatch keeps the sub-listeners it was given, also those added later)"},
		},
	})
}

// ---------- R2 ----------

type stmtInterp struct {
	p     *Prog
	info  *types.Info
	conds map[ast.Expr]*boolExpr
}

// subscribesAtom canonicalises the atoms of the predicate by parameter position.
func subscribesAtom(p *Prog, info *types.Info, params []string) func(ast.Expr) (string, bool) {
	pos := map[string]string{}
	canon := []string{"trigger", "added", "removed", "subs", "oldRel", "newRel"}
	for i, n := range params {
		if i < len(canon) {
			pos[n] = canon[i]
		}
	}
	name := func(e ast.Expr) string {
		e = unparen(e)
		if st, ok := e.(*ast.StarExpr); ok {
			e = unparen(st.X)
		}
		if id, ok := e.(*ast.Ident); ok {
			if c, ok := pos[id.Name]; ok {
				return c
			}
			return id.Name
		}
		return p.src(e)
	}
	return func(e ast.Expr) (string, bool) {
		e = unparen(e)
		switch x := e.(type) {
		case *ast.BinaryExpr:
			if x.Op == token.EQL || x.Op == token.NEQ {
				l, r := name(x.X), p.src(x.Y)
				if ls := p.src(x.X); ls == "0" || ls == "nil" { // constant on the left: the comparison is symmetric
					l, r = name(x.Y), ls
				}
				if r == "0" || r == "nil" {
					a := l + "==" + r
					if x.Op == token.NEQ {
						return "!" + a, true // handled by caller as negation marker
					}
					return a, true
				}
			}
		case *ast.CallExpr:
			sel, ok := unparen(x.Fun).(*ast.SelectorExpr)
			if !ok || len(x.Args) != 1 {
				return "", false
			}
			arg := name(x.Args[0])
			if tv, ok := info.Types[x.Args[0]]; ok && tv.Value != nil {
				arg = tv.Value.ExactString()
			}
			return sel.Sel.Name + "(" + name(sel.X) + ";" + arg + ")", true
		}
		return "", false
	}
}

// substAST replaces identifiers by expressions (copy on write: unchanged sub-trees keep their identity, so that
// types.Info still knows their constant values).
func substAST(e ast.Expr, env map[string]ast.Expr) ast.Expr {
	if len(env) == 0 || e == nil {
		return e
	}
	switch x := e.(type) {
	case *ast.Ident:
		if v, ok := env[x.Name]; ok {
			return v
		}
		return x
	case *ast.ParenExpr:
		in := substAST(x.X, env)
		if in == x.X {
			return x
		}
		return &ast.ParenExpr{X: in}
	case *ast.UnaryExpr:
		in := substAST(x.X, env)
		if in == x.X {
			return x
		}
		return &ast.UnaryExpr{Op: x.Op, X: in, OpPos: x.OpPos}
	case *ast.StarExpr:
		in := substAST(x.X, env)
		if in == x.X {
			return x
		}
		return &ast.StarExpr{X: in, Star: x.Star}
	case *ast.BinaryExpr:
		l, r := substAST(x.X, env), substAST(x.Y, env)
		if l == x.X && r == x.Y {
			return x
		}
		return &ast.BinaryExpr{X: l, Op: x.Op, Y: r, OpPos: x.OpPos}
	case *ast.SelectorExpr:
		in := substAST(x.X, env)
		if in == x.X {
			return x
		}
		return &ast.SelectorExpr{X: in, Sel: x.Sel}
	case *ast.CallExpr:
		fun := substAST(x.Fun, env)
		changed := fun != x.Fun
		args := make([]ast.Expr, len(x.Args))
		for i, a := range x.Args {
			args[i] = substAST(a, env)
			if args[i] != a {
				changed = true
			}
		}
		if !changed {
			return x
		}
		return &ast.CallExpr{Fun: fun, Args: args, Lparen: x.Lparen, Rparen: x.Rparen}
	}
	return e
}

// funcToBool converts a boolean function whose body is an if-chain of returns (nested ifs, else branches, helper
// calls to functions of the same shape in the same package) into one boolean expression over atoms.
type boolConv struct {
	p      *Prog
	pkg    string
	atomOf func(ast.Expr) (string, bool)
	depth  int
}

func ite(c, t, e *boolExpr) *boolExpr {
	return &boolExpr{op: "||", l: &boolExpr{op: "&&", l: c, r: t}, r: &boolExpr{op: "&&", l: &boolExpr{op: "!", l: c}, r: e}}
}

func (bc *boolConv) expr(e ast.Expr, env map[string]ast.Expr) (*boolExpr, error) {
	e = substAST(e, env)
	return bc.p.parseBool(e, nil, func(x ast.Expr) (string, bool) {
		if a, ok := bc.atomOf(x); ok {
			return a, true
		}
		return "", false
	})
}

func (bc *boolConv) parse(e ast.Expr, env map[string]ast.Expr) (*boolExpr, error) {
	e = unparen(substAST(e, env))
	// helper call: f(args) with f a function of this package whose body converts
	if ce, ok := e.(*ast.CallExpr); ok {
		if id, ok := ce.Fun.(*ast.Ident); ok {
			if fd := bc.p.FuncDecl(bc.pkg, "", id.Name); fd != nil && fd.Body != nil && bc.depth < 4 {
				cenv := map[string]ast.Expr{}
				i := 0
				for _, f := range fd.Type.Params.List {
					for _, n := range f.Names {
						if i < len(ce.Args) {
							cenv[n.Name] = ce.Args[i]
						}
						i++
					}
				}
				bc.depth++
				defer func() { bc.depth-- }()
				return bc.stmts(fd.Body.List, cenv, nil)
			}
		}
	}
	switch x := e.(type) {
	case *ast.UnaryExpr:
		if x.Op == token.NOT {
			in, err := bc.parse(x.X, nil)
			if err != nil {
				return nil, err
			}
			return &boolExpr{op: "!", l: in}, nil
		}
	case *ast.BinaryExpr:
		if x.Op == token.LAND || x.Op == token.LOR {
			l, err := bc.parse(x.X, nil)
			if err != nil {
				return nil, err
			}
			r, err := bc.parse(x.Y, nil)
			if err != nil {
				return nil, err
			}
			return &boolExpr{op: x.Op.String(), l: l, r: r}, nil
		}
	case *ast.Ident:
		if x.Name == "true" || x.Name == "false" {
			return &boolExpr{op: "const", val: x.Name == "true"}, nil
		}
	}
	if a, ok := bc.atomOf(e); ok {
		if strings.HasPrefix(a, "!") {
			return &boolExpr{op: "!", l: &boolExpr{op: "atom", atom: a[1:]}}, nil
		}
		return &boolExpr{op: "atom", atom: a}, nil
	}
	return nil, fmt.Errorf("unrecognised boolean sub-expression %q", bc.p.src(e))
}

// stmts converts a statement list; k is the value of "what follows" (nil: falling off the end is an error).
func (bc *boolConv) stmts(list []ast.Stmt, env map[string]ast.Expr, k *boolExpr) (*boolExpr, error) {
	if len(list) == 0 {
		if k == nil {
			return nil, fmt.Errorf("a path falls off the end of the function")
		}
		return k, nil
	}
	switch s := list[0].(type) {
	case *ast.AssignStmt:
		// x := expr (a definition used later): substitute
		if s.Tok == token.DEFINE && len(s.Lhs) == 1 && len(s.Rhs) == 1 {
			if id, ok := s.Lhs[0].(*ast.Ident); ok {
				env2 := map[string]ast.Expr{}
				for k2, v := range env {
					env2[k2] = v
				}
				env2[id.Name] = substAST(s.Rhs[0], env)
				return bc.stmts(list[1:], env2, k)
			}
		}
		return nil, fmt.Errorf("unsupported assignment in a predicate")
	case *ast.ReturnStmt:
		if len(s.Results) != 1 {
			return nil, fmt.Errorf("return with %d results", len(s.Results))
		}
		return bc.parse(s.Results[0], env)
	case *ast.IfStmt:
		if s.Init != nil {
			return nil, fmt.Errorf("if with init statement")
		}
		rest, errRest := bc.stmts(list[1:], env, k)
		c, err := bc.parse(s.Cond, env)
		if err != nil {
			return nil, err
		}
		var restOrNil *boolExpr
		if errRest == nil {
			restOrNil = rest
		}
		t, err := bc.stmts(s.Body.List, env, restOrNil)
		if err != nil {
			return nil, err
		}
		var e *boolExpr
		switch el := s.Else.(type) {
		case nil:
			if errRest != nil {
				return nil, errRest
			}
			e = rest
		case *ast.BlockStmt:
			e, err = bc.stmts(el.List, env, restOrNil)
			if err != nil {
				return nil, err
			}
		case *ast.IfStmt:
			e, err = bc.stmts([]ast.Stmt{el}, env, restOrNil)
			if err != nil {
				return nil, err
			}
		}
		return ite(c, t, e), nil
	}
	return nil, fmt.Errorf("unsupported statement %T in a predicate", list[0])
}

func c12r2(p *Prog, r *Reporter) {
	for _, pkg := range []string{"ecs", "listener"} {
		fd := p.FuncDecl(pkg, "", "subscribes")
		name := pkg + ".subscribes"
		if fd == nil {
			r.Anchor(name)
			continue
		}
		info := p.Pkgs[pkg].TypesInfo
		var params []string
		for _, f := range fd.Type.Params.List {
			for _, n := range f.Names {
				params = append(params, n.Name)
			}
		}
		bc := &boolConv{p: p, pkg: pkg, atomOf: subscribesAtom(p, info, params)}
		be, err := bc.stmts(fd.Body.List, nil, nil)
		if err != nil {
			r.Und(name, "truth table", p.Pos(fd.Pos()), "the predicate is not an if-chain over recognised atoms: "+err.Error())
			continue
		}
		want := []string{
			"trigger==0", "subs==nil",
			"ContainsAny(trigger;48)", "oldRel==nil", "Get(subs;oldRel)", "newRel==nil", "Get(subs;newRel)",
			"ContainsAny(trigger;5)", "added==nil", "ContainsAny(subs;added)",
			"ContainsAny(trigger;10)", "removed==nil", "ContainsAny(subs;removed)",
		}
		wantSet := map[string]bool{}
		for _, a := range want {
			wantSet[a] = true
		}
		unknown := ""
		for _, a := range sortedAtomList(be) {
			if !wantSet[a] {
				unknown = a
			}
		}
		if unknown != "" {
			r.Und(name, "truth table", p.Pos(fd.Pos()), "the predicate uses an atom outside the documented rule: "+unknown)
			continue
		}
		spec := func(a map[string]bool) bool {
			if a["trigger==0"] {
				return false
			}
			if a["subs==nil"] {
				return true
			}
			rel := a["ContainsAny(trigger;48)"] && ((!a["oldRel==nil"] && a["Get(subs;oldRel)"]) || (!a["newRel==nil"] && a["Get(subs;newRel)"]))
			add := a["ContainsAny(trigger;5)"] && !a["added==nil"] && a["ContainsAny(subs;added)"]
			rem := a["ContainsAny(trigger;10)"] && !a["removed==nil"] && a["ContainsAny(subs;removed)"]
			return rel || add || rem
		}
		consistent := func(a map[string]bool) bool {
			if a["trigger==0"] && (a["ContainsAny(trigger;48)"] || a["ContainsAny(trigger;5)"] || a["ContainsAny(trigger;10)"]) {
				return false
			}
			return true
		}
		diff, rows := truthTable(be, want, spec, consistent)
		if diff != "" {
			r.Bad(name, "truth table", p.Pos(fd.Pos()), "differs from the documented rule at "+diff)
		} else {
			r.OK(name, "truth table", p.Pos(fd.Pos()), fmt.Sprintf("equals the documented rule on all %d consistent rows of %d atoms (event masks 48, 5, 10 evaluated from the event constants)", rows, len(want)))
		}
	}
}

// ---------- R3 ----------

func c12r3(p *Prog, r *Reporter) {
	fn := p.Fn("ecs.subscription")
	if fn == nil {
		r.Anchor("ecs.subscription")
		return
	}
	ev := p.Pkgs["event"]
	// documented positional order of the arguments of subscription()
	want := []string{"EntityCreated", "EntityRemoved", "ComponentAdded", "ComponentRemoved", "RelationChanged", "TargetChanged"}
	// the flags: the bool parameters in order, or the bool fields (in order) of a single options-struct parameter
	var flags []string
	for _, pr := range fn.Params {
		if bt, ok := pr.Type().Underlying().(*types.Basic); ok && bt.Kind() == types.Bool {
			flags = append(flags, pr.Name())
		}
	}
	if len(flags) == 0 && len(fn.Params) == 1 {
		if st, ok := fn.Params[0].Type().Underlying().(*types.Struct); ok {
			for i := 0; i < st.NumFields(); i++ {
				if bt, ok := st.Field(i).Type().Underlying().(*types.Basic); ok && bt.Kind() == types.Bool {
					flags = append(flags, fn.Params[0].Name()+"."+fieldName(fn.Params[0].Type(), i))
				}
			}
		}
	}
	if len(flags) != len(want) {
		r.Bad("ecs.subscription", "parameter list", p.FnPos(fn), fmt.Sprintf("%d bool flags, the documented list has %d", len(flags), len(want)))
		return
	}
	// which constants are OR-ed in under which parameter's true edge; every OR result must reach the return value
	reaches := func(v ssa.Value) bool {
		seen := map[ssa.Value]bool{}
		var walk func(x ssa.Value) bool
		walk = func(x ssa.Value) bool {
			if seen[x] || x.Referrers() == nil {
				return false
			}
			seen[x] = true
			for _, ref := range *x.Referrers() {
				switch y := ref.(type) {
				case *ssa.Return:
					return true
				case *ssa.Phi:
					if walk(y) {
						return true
					}
				case *ssa.BinOp:
					if y.Op == token.OR && walk(y) {
						return true
					}
				case *ssa.Store:
					// spilled named result: loads of the same cell
					if al, ok := y.Addr.(*ssa.Alloc); ok {
						for _, r2 := range *al.Referrers() {
							if ld, ok := r2.(*ssa.UnOp); ok && walk(ld) {
								return true
							}
						}
					}
				}
			}
			return false
		}
		return walk(v)
	}
	for i, flag := range flags {
		var consts []string
		for _, b := range fn.Blocks {
			for _, ins := range b.Instrs {
				bo, ok := ins.(*ssa.BinOp)
				if !ok || bo.Op != token.OR {
					continue
				}
				var c *ssa.Const
				if k, ok := bo.Y.(*ssa.Const); ok {
					c = k
				} else if k, ok := bo.X.(*ssa.Const); ok {
					c = k
				}
				if c == nil || c.Value == nil {
					continue
				}
				if !factBefore(fn, bo, flag+"=true") {
					continue
				}
				other := false
				for _, q := range flags {
					if q != flag && factBefore(fn, bo, q+"=true") {
						other = true
					}
				}
				if other || !reaches(bo) {
					continue
				}
				consts = append(consts, c.Value.ExactString())
			}
		}
		wc, _ := ev.Types.Scope().Lookup(want[i]).(*types.Const)
		if wc == nil {
			r.Anchor("event." + want[i])
			continue
		}
		okc := len(consts) == 1 && consts[0] == wc.Val().ExactString()
		r.Check(okc, "ecs.subscription", fmt.Sprintf("argument %d sets event.%s", i+1, want[i]), p.FnPos(fn),
			fmt.Sprintf("under the true edge of bool parameter %d exactly the constant %s (event.%s) is OR-ed into the result; found %v", i+1, wc.Val().ExactString(), want[i], consts))
	}
}

// ---------- R1 ----------

type notifySite struct {
	fn       string
	pos      token.Pos
	event    map[string]string // field → source (literal or variable fields)
	isVar    string            // variable name if the event is a variable
	listener string
}

func c12r1(p *Prog, r *Reporter) {
	for _, pkg := range []string{"ecs", "listener"} {
		pk := p.Pkgs[pkg]
		for _, file := range pk.Syntax {
			for _, d := range file.Decls {
				fd, ok := d.(*ast.FuncDecl)
				if !ok || fd.Body == nil {
					continue
				}
				c12r1func(p, r, pkg, pk, fd)
			}
		}
	}
}

func c12r1func(p *Prog, r *Reporter, pkg string, pk *packages.Package, fd *ast.FuncDecl) {
	fname := pkg + "." + fd.Name.Name
	if fd.Recv != nil {
		fname = pkg + ".(" + recvTypeName(fd.Recv.List[0].Type) + ")." + fd.Name.Name
	}
	// definitions: trigger := X.Subscriptions() & B ; bits := ...
	triggers := map[string][2]string{} // name → (listener expr, B)
	assigns := map[string]string{}     // "event.EventTypes" → rhs
	type subCall struct {
		pos  token.Pos
		args []string
	}
	var subs []subCall
	type notif struct {
		pos      token.Pos
		listener string
		arg      ast.Expr
	}
	var notifs []notif
	norm := func(e ast.Expr) string { return strings.ReplaceAll(p.src(e), " ", "") }
	ast.Inspect(fd.Body, func(n ast.Node) bool {
		switch x := n.(type) {
		case *ast.AssignStmt:
			for i, l := range x.Lhs {
				if i >= len(x.Rhs) {
					break
				}
				if be, ok := unparen(x.Rhs[i]).(*ast.BinaryExpr); ok && be.Op == token.AND {
					if ce, ok := unparen(be.X).(*ast.CallExpr); ok {
						if sel, ok := unparen(ce.Fun).(*ast.SelectorExpr); ok && sel.Sel.Name == "Subscriptions" {
							triggers[norm(l)] = [2]string{norm(sel.X), norm(be.Y)}
						}
					}
				}
				assigns[norm(l)] = norm(x.Rhs[i])
			}
		case *ast.CallExpr:
			switch f := unparen(x.Fun).(type) {
			case *ast.Ident:
				if f.Name == "subscribes" && len(x.Args) == 6 {
					var args []string
					for _, a := range x.Args {
						args = append(args, norm(a))
					}
					subs = append(subs, subCall{x.Pos(), args})
				}
			case *ast.SelectorExpr:
				if f.Sel.Name == "Notify" && len(x.Args) == 2 {
					if tv, ok := pk.TypesInfo.Types[x.Args[1]]; ok && typeName(tv.Type) == "EntityEvent" {
						notifs = append(notifs, notif{x.Pos(), norm(f.X), x.Args[1]})
					}
				}
			}
		}
		return true
	})
	sort.Slice(subs, func(i, j int) bool { return subs[i].pos < subs[j].pos })
	for ni, nt := range notifs {
		// nearest preceding subscribes call
		var sc *subCall
		for i := range subs {
			if subs[i].pos < nt.pos {
				sc = &subs[i]
			}
		}
		pos := p.Pos(nt.pos)
		if sc == nil {
			// forwarding listeners (Callback.Notify → callback) are not notification sites of the world
			if strings.Contains(nt.listener, "callback") || fd.Name.Name == "Notify" && !strings.Contains(fname, "Dispatch") {
				continue
			}
			r.Bad(fname, "notification guarded by subscribes", pos, "a Notify call has no preceding subscribes(...) test in the function")
			continue
		}
		// per event field: the source expressions it may have been given (literal value; or, for an event built in a
		// variable, the field itself and the expression last assigned to it)
		fields := map[string][]string{}
		if cl, ok := unparen(nt.arg).(*ast.CompositeLit); ok {
			for _, el := range cl.Elts {
				if kv, ok := el.(*ast.KeyValueExpr); ok {
					fields[p.src(kv.Key)] = []string{norm(kv.Value)}
				}
			}
		} else {
			v := norm(nt.arg)
			for _, f := range []string{"Added", "Removed", "OldRelation", "NewRelation", "EventTypes"} {
				fields[f] = []string{v + "." + f}
				if rhs, ok := assigns[v+"."+f]; ok {
					fields[f] = append(fields[f], rhs)
				}
			}
		}
		// simple aliases: x := &y / x := y
		for f, vs := range fields {
			for _, v := range vs {
				if rhs, ok := assigns[v]; ok && !strings.ContainsAny(rhs, "(") {
					fields[f] = append(fields[f], rhs)
				}
			}
		}
		has := func(vs []string, want string) bool {
			for _, v := range vs {
				if v == want {
					return true
				}
			}
			return false
		}
		var bad []string
		tr, ok := triggers[sc.args[0]]
		if !ok {
			bad = append(bad, "the first argument "+sc.args[0]+" is not a trigger computed as <listener>.Subscriptions() & <types>")
		} else {
			if !has(fields["EventTypes"], tr[1]) {
				bad = append(bad, "trigger is masked with "+tr[1]+", the event's EventTypes is "+strings.Join(fields["EventTypes"], " / "))
			}
			if tr[0] != nt.listener {
				bad = append(bad, "trigger is computed from "+tr[0]+", the event is delivered to "+nt.listener)
			}
		}
		addrOrNil := func(arg, field string) string {
			vs, ok := fields[field]
			if !ok {
				if arg != "nil" {
					return field + ": the event has none, the predicate gets " + arg
				}
				return ""
			}
			for _, v := range vs {
				if arg == "&"+v {
					return ""
				}
				// the predicate gets a pointer variable p, the event carries *p
				if v == "*"+arg {
					return ""
				}
			}
			return field + ": the event carries " + strings.Join(vs, " / ") + ", the predicate gets " + arg
		}
		valOrNil := func(arg, field string) string {
			vs, ok := fields[field]
			if !ok {
				if arg != "nil" {
					return field + ": the event has none, the predicate gets " + arg
				}
				return ""
			}
			if !has(vs, arg) {
				return field + ": the event carries " + strings.Join(vs, " / ") + ", the predicate gets " + arg
			}
			return ""
		}
		for _, s := range []string{addrOrNil(sc.args[1], "Added"), addrOrNil(sc.args[2], "Removed"), valOrNil(sc.args[4], "OldRelation"), valOrNil(sc.args[5], "NewRelation")} {
			if s != "" {
				bad = append(bad, s)
			}
		}
		if sc.args[3] != nt.listener+".Components()" {
			bad = append(bad, "component restriction argument is "+sc.args[3]+", expected "+nt.listener+".Components()")
		}
		construct := "Notify guarded by subscribes #" + fmt.Sprint(ni+1)
		if len(bad) > 0 {
			r.Bad(fname, construct, pos, strings.Join(bad, "; "))
		} else {
			r.OK(fname, construct, pos, "trigger, masks, component restriction and relation ids of the predicate are the event's own")
		}
	}
}

// ---------- R4 ----------

func c12r4(p *Prog, r *Reporter) {
	for _, n := range []string{"listener.NewDispatch", "listener.(*Dispatch).AddListener"} {
		fn := p.Fn(n)
		if fn == nil {
			r.Anchor(n)
			continue
		}
		name := n
		var evOK, nilOK, orOK bool
		// the aggregation may live in the function or in a helper it calls (same package, two levels)
		var blocks []*ssa.BasicBlock
		for _, g := range withHelpers(p, fn, 2) {
			blocks = append(blocks, g.Blocks...)
		}
		for _, b := range blocks {
			for _, ins := range b.Instrs {
				if bo, ok := ins.(*ssa.BinOp); ok && bo.Op == token.OR {
					for _, op := range []ssa.Value{bo.X, bo.Y} {
						if c := callOf(op); c != nil && c.Common().IsInvoke() && c.Common().Method.Name() == "Subscriptions" {
							evOK = true
						}
					}
				}
			}
			atom, trueSucc, isIf := ifCond(b)
			if !isIf {
				continue
			}
			bo, ok := atom.(*ssa.BinOp)
			if !ok || (bo.Op != token.EQL && bo.Op != token.NEQ) || !isNilConst(bo.Y) {
				continue
			}
			cmp := callOf(bo.X)
			if cmp == nil || !cmp.Common().IsInvoke() || cmp.Common().Method.Name() != "Components" {
				continue
			}
			nilSucc, nonNilSucc := b.Succs[trueSucc], b.Succs[1-trueSucc]
			if bo.Op == token.NEQ {
				nilSucc, nonNilSucc = nonNilSucc, nilSucc
			}
			// non-nil side: Mask.Or(..., cmp)
			for _, i2 := range nonNilSucc.Instrs {
				if c2, ok := i2.(*ssa.Call); ok && c2.Common().StaticCallee() != nil && cname(c2.Common().StaticCallee()) == "Or" {
					for _, a := range c2.Common().Args {
						if a == ssa.Value(cmp) {
							orOK = true
						}
					}
				}
			}
			// nil side: hasComponents = false (field store, or phi edge of the local variable)
			for _, i2 := range nilSucc.Instrs {
				if st, ok := i2.(*ssa.Store); ok {
					if _, f, _, ok := loadedField(st.Addr); ok && f == "hasComponents" {
						if cb, isC := constBool(st.Val); isC && !cb {
							nilOK = true
						}
					}
				}
			}
			for _, bb := range b.Parent().Blocks {
				for _, i2 := range bb.Instrs {
					ph, ok := i2.(*ssa.Phi)
					if !ok || !flowsToField(ph, "hasComponents", map[ssa.Value]bool{}) {
						continue
					}
					for ei, e := range ph.Edges {
						if cb, isC := constBool(e); isC && !cb {
							from := bb.Preds[ei]
							if from == nilSucc || from == b && nilSucc == bb {
								nilOK = true
							}
						}
					}
				}
			}
		}
		r.Check(evOK, name, "aggregates event types", p.FnPos(fn), "events |= sub.Subscriptions()")
		r.Check(nilOK, name, "unrestricted sub-listener lifts the restriction", p.FnPos(fn), "on the edge where Components() is nil, hasComponents becomes false")
		r.Check(orOK, name, "aggregates components", p.FnPos(fn), "on the edge where Components() is non-nil, components = components.Or(c)")
	}
	for _, tn := range []string{"Dispatch", "Callback"} {
		fn := p.Fn("listener.(*" + tn + ").Components")
		name := "listener.(*" + tn + ").Components"
		if fn == nil {
			r.Anchor(name)
			continue
		}
		flagEdge := func(want bool) func(b *ssa.BasicBlock, k int) bool {
			return func(b *ssa.BasicBlock, k int) bool {
				atom, holds, ok := edgeCond(b, k)
				if !ok {
					return false
				}
				_, f, _, okf := loadedField(atom)
				return okf && f == "hasComponents" && holds == want
			}
		}
		on := &MustFlow{Fn: fn, EdgeGen: flagEdge(true)}
		on.Run()
		off := &MustFlow{Fn: fn, EdgeGen: flagEdge(false)}
		off.Run()
		okc, n := true, 0
		for _, b := range fn.Blocks {
			ret, isR := b.Instrs[len(b.Instrs)-1].(*ssa.Return)
			if !isR || !reachable(b) {
				continue
			}
			n++
			if isNilConst(ret.Results[0]) {
				if !off.Before(ret) {
					okc = false
				}
			} else {
				_, f, _, okf := loadedField(ret.Results[0])
				if !(okf && f == "components") || !on.Before(ret) {
					okc = false
				}
			}
		}
		if !(okc && n >= 2) {
			// or through a helper h(&components, hasComponents) that returns its pointer argument exactly where its flag
			// argument is true and nil exactly where it is false
			if hk, hn := componentsViaHelper(p, fn); hn > 0 {
				okc, n = hk, 2
			}
		}
		r.Check(okc && n >= 2, name, "nil iff unrestricted", p.FnPos(fn), "returns &components exactly where hasComponents is true, nil exactly where it is false")
		fs := p.Fn("listener.(*" + tn + ").Subscriptions")
		if fs != nil {
			oks := false
			for _, b := range fs.Blocks {
				if ret, isR := b.Instrs[len(b.Instrs)-1].(*ssa.Return); isR {
					if _, f, _, okf := loadedField(ret.Results[0]); okf && f == "events" {
						oks = true
					}
				}
			}
			r.Check(oks, "listener.(*"+tn+").Subscriptions", "returns the stored event mask", p.FnPos(fs), "returns the events field")
		}
	}
	// NewCallback: the value stored into hasComponents is a non-emptiness test of the components parameter
	if fn := p.Fn("listener.NewCallback"); fn != nil {
		n, okc, why := 0, true, ""
		for _, b := range fn.Blocks {
			for _, ins := range b.Instrs {
				st, ok := ins.(*ssa.Store)
				if !ok {
					continue
				}
				fa, ok := st.Addr.(*ssa.FieldAddr)
				if !ok || fieldName(fa.X.Type(), fa.Field) != "hasComponents" {
					continue
				}
				n++
				if !isNonEmptyTest(st.Val, "components") {
					okc, why = false, "the stored value is "+apath(st.Val)
				}
			}
		}
		if n == 0 {
			okc, why = false, "hasComponents is never set"
		}
		if okc {
			r.OK("listener.NewCallback", "restriction flag", p.FnPos(fn), "hasComponents is set to a non-emptiness test of the components argument")
		} else {
			r.Bad("listener.NewCallback", "restriction flag", p.FnPos(fn), "hasComponents must be `len(components) > 0`: "+why)
		}
	} else {
		r.Anchor("listener.NewCallback")
	}
}

// ---------- R5 ----------

func c12r5(p *Prog, r *Reporter) {
	n := 0
	for _, fn := range p.Funcs {
		for _, site := range callsIn(fn) {
			com := site.Common()
			if !com.IsInvoke() || com.Method.Name() != "Notify" || !inLoop(site.Block()) {
				continue
			}
			// values that decide or fill the notification: the controlling conditions and the event
			var roots []ssa.Value
			for d := site.Block(); d != nil; d = d.Idom() {
				id := d.Idom()
				if id == nil {
					break
				}
				if atom, _, ok := ifCond(id); ok && inLoop(id) {
					roots = append(roots, atom)
				}
			}
			roots = append(roots, com.Args...)
			phis := map[*ssa.Phi]bool{}
			seen := map[ssa.Value]bool{}
			var walk func(v ssa.Value, d int)
			walk = func(v ssa.Value, d int) {
				if v == nil || seen[v] || d > 12 {
					return
				}
				seen[v] = true
				switch x := v.(type) {
				case *ssa.Phi:
					phis[x] = true
					for _, pr := range x.Block().Preds {
						if dominatesBlock(x.Block(), pr) {
							return // loop header: its edges belong to previous iterations
						}
					}
					for _, e := range x.Edges {
						walk(e, d+1)
					}
				case *ssa.UnOp:
					walk(x.X, d+1)
				case *ssa.BinOp:
					walk(x.X, d+1)
					walk(x.Y, d+1)
				case *ssa.Alloc:
					// local struct / variable: everything stored into it or its fields
					for _, ref := range *x.Referrers() {
						switch y := ref.(type) {
						case *ssa.Store:
							if y.Addr == ssa.Value(x) {
								walk(y.Val, d+1)
							}
						case *ssa.FieldAddr:
							for _, r2 := range *y.Referrers() {
								if st, ok := r2.(*ssa.Store); ok && st.Addr == ssa.Value(y) {
									walk(st.Val, d+1)
								}
							}
						}
					}
				case *ssa.Call:
					if sc := x.Common().StaticCallee(); sc != nil && (cname(sc) == "subscribes" || cname(sc) == "subscription") {
						for _, a := range x.Common().Args {
							walk(a, d+1)
						}
					}
				case *ssa.MakeInterface:
					walk(x.X, d+1)
				case *ssa.Slice:
					walk(x.X, d+1)
				}
			}
			for _, v := range roots {
				walk(v, 0)
			}
			name := p.FuncName(fn)
			var names []string
			bad := ""
			var sorted []*ssa.Phi
			for ph := range phis {
				sorted = append(sorted, ph)
			}
			sort.Slice(sorted, func(i, j int) bool { return sorted[i].Pos() < sorted[j].Pos() || sorted[i].Name() < sorted[j].Name() })
			for _, ph := range sorted {
				if !inLoop(ph.Block()) {
					continue
				}
				isHeader := false
				for _, pr := range ph.Block().Preds {
					if dominatesBlock(ph.Block(), pr) {
						isHeader = true
					}
				}
				if isHeader {
					continue
				}
				names = append(names, ph.Comment)
				if s := staleGuard(ph, map[*ssa.Phi]bool{}); s != "" && bad == "" {
					bad = "variable " + ph.Comment + ": " + s
				}
			}
			if len(names) == 0 {
				continue
			}
			n++
			if bad == "" {
				r.OK(name, "notification inputs in a loop", p.Pos(site.Pos()), "the variables feeding the notification ("+strings.Join(uniq(names), ", ")+") are assigned on every path of an iteration (or skipped only because no listener is installed)")
			} else {
				r.Bad(name, "notification inputs in a loop", p.Pos(site.Pos()), bad)
			}
		}
	}
	if n == 0 {
		r.OKt("all library functions", "notification inputs in loops", "-", "no loop-carried variable feeds a notification")
	}
}

// staleGuard: looking only at paths from the loop header to the use: does the guard receive the loop header's value
// (i.e. a value computed for a previous iteration) on a branch other than `no listener installed`?
func staleGuard(ph *ssa.Phi, seen map[*ssa.Phi]bool) string {
	if seen[ph] {
		return ""
	}
	seen[ph] = true
	isHeaderPhi := func(x *ssa.Phi) bool {
		b := x.Block()
		for _, pr := range b.Preds {
			if dominatesBlock(b, pr) {
				return dominatesBlock(b, ph.Block())
			}
		}
		return false
	}
	if isHeaderPhi(ph) {
		return "the notification is guarded directly by a loop-carried variable"
	}
	for i, e := range ph.Edges {
		sub, ok := e.(*ssa.Phi)
		if !ok {
			continue
		}
		if isHeaderPhi(sub) {
			// this edge carries the previous iteration's value to the use: the branch that skipped the assignment
			pred := ph.Block().Preds[i]
			okSkip := false
			for d := pred; d != nil; d = d.Idom() {
				atom, _, isIf := ifCond(d)
				if !isIf {
					continue
				}
				if bo, isB := atom.(*ssa.BinOp); isB && (bo.Op == token.NEQ || bo.Op == token.EQL) && isNilConst(bo.Y) {
					if _, f, _, ok := loadedField(bo.X); ok && f == "listener" {
						okSkip = true
					}
				}
				break
			}
			if !okSkip {
				return "on some path of an iteration the guard keeps the value computed for a previous table: events would be delivered (or suppressed) according to another table's subscription test"
			}
			continue
		}
		if s := staleGuard(sub, seen); s != "" {
			return s
		}
	}
	return ""
}

var _ = constant.MakeBool

// isNonEmptyTest: v is len(param) > 0 in any of its spellings (> 0, != 0, >= 1, 0 <, 1 <=, !(== 0)).
func isNonEmptyTest(v ssa.Value, param string) bool {
	if u, ok := v.(*ssa.UnOp); ok && u.Op == token.NOT {
		if bo, ok := u.X.(*ssa.BinOp); ok {
			l, c, ok2 := lenAndConst(bo, param)
			if ok2 && (bo.Op == token.EQL && c == 0 || l && bo.Op == token.LEQ && c == 0 || l && bo.Op == token.LSS && c == 1 || !l && bo.Op == token.GEQ && c == 0 || !l && bo.Op == token.GTR && c == 1) {
				return true
			}
		}
		return false
	}
	bo, ok := v.(*ssa.BinOp)
	if !ok {
		return false
	}
	l, c, ok2 := lenAndConst(bo, param)
	if !ok2 {
		return false
	}
	if bo.Op == token.NEQ && c == 0 {
		return true
	}
	if l { // len OP c
		return bo.Op == token.GTR && c == 0 || bo.Op == token.GEQ && c == 1
	}
	// c OP len
	return bo.Op == token.LSS && c == 0 || bo.Op == token.LEQ && c == 1
}

// lenAndConst: bo compares len(param) with an integer constant; lenLeft tells on which side the len is.
func lenAndConst(bo *ssa.BinOp, param string) (lenLeft bool, c int64, ok bool) {
	isLen := func(v ssa.Value) bool {
		call := callOf(v)
		if call == nil {
			return false
		}
		bi, ok := call.Call.Value.(*ssa.Builtin)
		if !ok || bi.Name() != "len" {
			return false
		}
		pr, ok := call.Call.Args[0].(*ssa.Parameter)
		return ok && pr.Name() == param
	}
	cst := func(v ssa.Value) (int64, bool) {
		k, ok := v.(*ssa.Const)
		if !ok || k.Value == nil || k.Value.Kind() != constant.Int {
			return 0, false
		}
		n, ok := constant.Int64Val(k.Value)
		return n, ok
	}
	if isLen(bo.X) {
		if n, ok := cst(bo.Y); ok {
			return true, n, true
		}
	}
	if isLen(bo.Y) {
		if n, ok := cst(bo.X); ok {
			return false, n, true
		}
	}
	return false, 0, false
}

// flowsToField: the value (through phis) is stored into a field of the given name.
func flowsToField(v ssa.Value, field string, seen map[ssa.Value]bool) bool {
	if seen[v] || v.Referrers() == nil {
		return false
	}
	seen[v] = true
	for _, ref := range *v.Referrers() {
		switch x := ref.(type) {
		case *ssa.Store:
			if x.Val == v {
				if _, f, _, ok := loadedField(x.Addr); ok && f == field {
					return true
				}
			}
		case *ssa.Phi:
			if flowsToField(x, field, seen) {
				return true
			}
		}
	}
	return false
}

// componentsViaHelper: fn's single return is h(..&x.components.., ..x.hasComponents..) and h returns its pointer
// parameter exactly under flag=true and nil exactly under flag=false. Returns (ok, number of helper returns).
func componentsViaHelper(p *Prog, fn *ssa.Function) (bool, int) {
	var call *ssa.Call
	for _, b := range fn.Blocks {
		if ret, ok := b.Instrs[len(b.Instrs)-1].(*ssa.Return); ok && reachable(b) {
			c := callOf(ret.Results[0])
			if c == nil || call != nil {
				return false, 0
			}
			call = c
		}
	}
	if call == nil {
		return false, 0
	}
	h := call.Common().StaticCallee()
	if h == nil || h.Blocks == nil || !p.isArche(h) {
		return false, 0
	}
	ptrIdx, flagIdx := -1, -1
	for i, a := range call.Common().Args {
		if fa, ok := a.(*ssa.FieldAddr); ok && fieldName(fa.X.Type(), fa.Field) == "components" {
			ptrIdx = i
		}
		if _, f, _, ok := loadedField(a); ok && f == "hasComponents" {
			flagIdx = i
		}
	}
	if ptrIdx < 0 || flagIdx < 0 || ptrIdx >= len(h.Params) || flagIdx >= len(h.Params) {
		return false, 0
	}
	flag := h.Params[flagIdx].Name()
	okc, n := true, 0
	for _, b := range h.Blocks {
		ret, ok := b.Instrs[len(b.Instrs)-1].(*ssa.Return)
		if !ok || !reachable(b) {
			continue
		}
		n++
		switch {
		case isNilConst(ret.Results[0]):
			if !factBefore(h, ret, flag+"=false") {
				okc = false
			}
		case ret.Results[0] == ssa.Value(h.Params[ptrIdx]):
			if !factBefore(h, ret, flag+"=true") {
				okc = false
			}
		default:
			okc = false
		}
	}
	return okc && n >= 2, n
}
