package main

import (
	"fmt"
	"go/ast"
	"go/constant"
	"go/token"
	"go/types"
	"sort"
	"strings"

	"golang.org/x/tools/go/packages"
	"golang.org/x/tools/go/ssa"
)

func init() {
	register(&Property{
		ID: "C12",
		Decides: "both copies of the subscription predicate equal the documented rule on every one of the 8192 assignments of their 13 atoms, with the event-type masks evaluated from the event constants (R2); the subscription-mask builder sets exactly bit i for parameter i (R3); at every notification site the predicate is called with the trigger `Subscriptions() & types` of exactly the event's types, the addresses of the event's own Added/Removed masks (nil iff absent), the listener's Components() and the event's own relation ids (R1); " +
			"Dispatch aggregates events with |=, components with Or and drops the restriction when a sub-listener has none, and the accessors return nil iff unrestricted (R4); a notification guard carried around a loop is recomputed in every iteration (R5).",
		NotDecided:  "equality of the delivered stream with the selected subsequence over histories; order of delivery (follows from the single loop over listeners).",
		Assumptions: append([]string{"Dispatch delivery is sound because the aggregate subscription is a superset and the predicate is monotone in trigger and components (argument in DESIGN.md, not a check)"}, commonAssumptions...),
		Rules: []Rule{
			{ID: "C12.R1", Floor: 11, Run: c12r1, Text: "literal ⇄ guard correspondence (E-ast): for every Notify(world, event) the guarding subscribes(trigger, A, R, C, O, N) has trigger = <listener>.Subscriptions() & <event's EventTypes>, A/R = addresses of the event's Added/Removed (nil iff the event has none), C = <listener>.Components(), O/N = the event's OldRelation/NewRelation (nil iff none)"},
			{ID: "C12.R2", Floor: 2, Run: c12r2, Text: "subscribes truth table (E-tt), both copies: over atoms trigger=0, subs=nil, trigger∩Relations, old≠nil, old∈C, new≠nil, new∈C, trigger∩(Created|Added), added≠nil, C∩added, trigger∩(Removed|CompRemoved), removed≠nil, C∩removed (8192 rows, exhaustive), result = trigger≠0 ∧ (subs=nil ∨ relations clause ∨ additions clause ∨ removals clause)"},
			{ID: "C12.R3", Floor: 6, Run: c12r3, Text: "subscription builder: parameter i (entityCreated, entityRemoved, componentAdded, componentRemoved, relationChanged, targetChanged) ORs exactly the event constant of the same name, whose value is 1<<i"},
			{ID: "C12.R4", Floor: 8, Run: c12r4, Text: "Dispatch aggregation siblings (NewDispatch, AddListener): events |= Subscriptions(); components = components.Or(c) when c != nil, hasComponents = false when nil; accessors of Dispatch and Callback return nil iff not restricted"},
			{ID: "C12.R5", Floor: 1, Run: c12r5, Text: "freshness: every variable that guards or fills a notification inside a loop (guard flag, event bits, relation pointers, id lists) is assigned on every path of an iteration before the notification, except on a path skipped because no listener is installed"},
		},
	})
}

// ---------- R2 ----------

type stmtInterp struct {
	p     *Prog
	info  *types.Info
	conds map[ast.Expr]*boolExpr
}

// subscribesAtom canonicalises the atoms of the predicate by parameter position.
func subscribesAtom(p *Prog, info *types.Info, params []string) func(ast.Expr) (string, bool) {
	pos := map[string]string{}
	canon := []string{"trigger", "added", "removed", "subs", "oldRel", "newRel"}
	for i, n := range params {
		if i < len(canon) {
			pos[n] = canon[i]
		}
	}
	name := func(e ast.Expr) string {
		e = unparen(e)
		if st, ok := e.(*ast.StarExpr); ok {
			e = unparen(st.X)
		}
		if id, ok := e.(*ast.Ident); ok {
			if c, ok := pos[id.Name]; ok {
				return c
			}
			return id.Name
		}
		return p.src(e)
	}
	return func(e ast.Expr) (string, bool) {
		e = unparen(e)
		switch x := e.(type) {
		case *ast.BinaryExpr:
			if x.Op == token.EQL || x.Op == token.NEQ {
				l, r := name(x.X), p.src(x.Y)
				if r == "0" || r == "nil" {
					a := l + "==" + r
					if x.Op == token.NEQ {
						return "!" + a, true // handled by caller as negation marker
					}
					return a, true
				}
			}
		case *ast.CallExpr:
			sel, ok := unparen(x.Fun).(*ast.SelectorExpr)
			if !ok || len(x.Args) != 1 {
				return "", false
			}
			arg := name(x.Args[0])
			if tv, ok := info.Types[x.Args[0]]; ok && tv.Value != nil {
				arg = tv.Value.ExactString()
			}
			return sel.Sel.Name + "(" + name(sel.X) + ";" + arg + ")", true
		}
		return "", false
	}
}

func c12r2(p *Prog, r *Reporter) {
	for _, pkg := range []string{"ecs", "listener"} {
		fd := p.FuncDecl(pkg, "", "subscribes")
		name := pkg + ".subscribes"
		if fd == nil {
			r.Anchor(name)
			continue
		}
		info := p.Pkgs[pkg].TypesInfo
		var params []string
		for _, f := range fd.Type.Params.List {
			for _, n := range f.Names {
				params = append(params, n.Name)
			}
		}
		rawAtom := subscribesAtom(p, info, params)
		atomOf := func(e ast.Expr) (string, bool) {
			a, ok := rawAtom(e)
			if !ok {
				return "", false
			}
			return a, true
		}
		// parse all conditions; "!x==nil" atoms are turned into negations of "x==nil"
		fix := func(b *boolExpr) *boolExpr { return b }
		var fixRec func(b *boolExpr) *boolExpr
		fixRec = func(b *boolExpr) *boolExpr {
			if b == nil {
				return nil
			}
			if b.op == "atom" && strings.HasPrefix(b.atom, "!") {
				return &boolExpr{op: "!", l: &boolExpr{op: "atom", atom: b.atom[1:]}}
			}
			b.l, b.r = fixRec(b.l), fixRec(b.r)
			return b
		}
		_ = fix
		var parseErr error
		conds := map[ast.Expr]*boolExpr{}
		ast.Inspect(fd.Body, func(n ast.Node) bool {
			switch s := n.(type) {
			case *ast.IfStmt:
				be, err := p.parseBool(s.Cond, nil, atomOf)
				if err != nil {
					parseErr = err
				} else {
					conds[s.Cond] = fixRec(be)
				}
			case *ast.ReturnStmt:
				if len(s.Results) == 1 {
					be, err := p.parseBool(s.Results[0], nil, atomOf)
					if err != nil {
						parseErr = err
					} else {
						conds[s.Results[0]] = fixRec(be)
					}
				}
			}
			return true
		})
		if parseErr != nil {
			r.Und(name, "truth table", p.Pos(fd.Pos()), "the predicate is not an if-chain over recognised atoms: "+parseErr.Error())
			continue
		}
		atomSet := map[string]bool{}
		for _, be := range conds {
			be.atoms(atomSet)
		}
		want := []string{
			"trigger==0", "subs==nil",
			"ContainsAny(trigger;48)", "oldRel==nil", "Get(subs;oldRel)", "newRel==nil", "Get(subs;newRel)",
			"ContainsAny(trigger;5)", "added==nil", "ContainsAny(subs;added)",
			"ContainsAny(trigger;10)", "removed==nil", "ContainsAny(subs;removed)",
		}
		wantSet := map[string]bool{}
		for _, a := range want {
			wantSet[a] = true
		}
		unknown := ""
		for a := range atomSet {
			if !wantSet[a] {
				unknown = a
			}
		}
		if unknown != "" {
			r.Und(name, "truth table", p.Pos(fd.Pos()), "the predicate uses an atom outside the documented rule: "+unknown)
			continue
		}
		spec := func(a map[string]bool) bool {
			if a["trigger==0"] {
				return false
			}
			if a["subs==nil"] {
				return true
			}
			rel := a["ContainsAny(trigger;48)"] && ((!a["oldRel==nil"] && a["Get(subs;oldRel)"]) || (!a["newRel==nil"] && a["Get(subs;newRel)"]))
			add := a["ContainsAny(trigger;5)"] && !a["added==nil"] && a["ContainsAny(subs;added)"]
			rem := a["ContainsAny(trigger;10)"] && !a["removed==nil"] && a["ContainsAny(subs;removed)"]
			return rel || add || rem
		}
		consistent := func(a map[string]bool) bool {
			if a["trigger==0"] && (a["ContainsAny(trigger;48)"] || a["ContainsAny(trigger;5)"] || a["ContainsAny(trigger;10)"]) {
				return false
			}
			return true
		}
		// interpret
		var exec func(stmts []ast.Stmt, as map[string]bool) (bool, bool)
		exec = func(stmts []ast.Stmt, as map[string]bool) (ret bool, returned bool) {
			for _, st := range stmts {
				switch s := st.(type) {
				case *ast.IfStmt:
					if conds[s.Cond].eval(as) {
						if v, ok := exec(s.Body.List, as); ok {
							return v, true
						}
					} else if s.Else != nil {
						if blk, ok := s.Else.(*ast.BlockStmt); ok {
							if v, ok := exec(blk.List, as); ok {
								return v, true
							}
						}
					}
				case *ast.ReturnStmt:
					return conds[s.Results[0]].eval(as), true
				}
			}
			return false, false
		}
		rows, diff := 0, ""
		n := len(want)
		for m := 0; m < 1<<n && diff == ""; m++ {
			as := map[string]bool{}
			for i, a := range want {
				as[a] = m&(1<<i) != 0
			}
			if !consistent(as) {
				continue
			}
			rows++
			got, ok := exec(fd.Body.List, as)
			if !ok {
				diff = "a path falls off the end of the function"
				break
			}
			if got != spec(as) {
				var parts []string
				for _, a := range want {
					if as[a] {
						parts = append(parts, a)
					}
				}
				diff = fmt.Sprintf("true atoms {%s} → code %v, documented rule %v", strings.Join(parts, ", "), got, spec(as))
			}
		}
		if diff != "" {
			r.Bad(name, "truth table", p.Pos(fd.Pos()), diff)
		} else {
			r.OK(name, "truth table", p.Pos(fd.Pos()), fmt.Sprintf("equals the documented rule on all %d consistent rows of %d atoms (event masks 48, 5, 10 evaluated from the event constants)", rows, n))
		}
	}
}

// ---------- R3 ----------

func c12r3(p *Prog, r *Reporter) {
	fd := p.FuncDecl("ecs", "", "subscription")
	if fd == nil {
		r.Anchor("ecs.subscription")
		return
	}
	info := p.Pkgs["ecs"].TypesInfo
	var params []string
	for _, f := range fd.Type.Params.List {
		for _, n := range f.Names {
			params = append(params, n.Name)
		}
	}
	want := []string{"entityCreated", "entityRemoved", "componentAdded", "componentRemoved", "relationChanged", "targetChanged"}
	if strings.Join(params, ",") != strings.Join(want, ",") {
		r.Bad("ecs.subscription", "parameter order", p.Pos(fd.Pos()), "parameters are "+strings.Join(params, ",")+", documented order is "+strings.Join(want, ","))
		return
	}
	found := map[string]string{}
	ast.Inspect(fd.Body, func(n ast.Node) bool {
		ifs, ok := n.(*ast.IfStmt)
		if !ok {
			return true
		}
		id, ok := unparen(ifs.Cond).(*ast.Ident)
		if !ok || len(ifs.Body.List) != 1 {
			return true
		}
		as, ok := ifs.Body.List[0].(*ast.AssignStmt)
		if !ok || as.Tok != token.OR_ASSIGN {
			return true
		}
		v := ""
		if tv, ok := info.Types[as.Rhs[0]]; ok && tv.Value != nil {
			v = tv.Value.ExactString()
		}
		found[id.Name] = p.src(as.Rhs[0]) + "=" + v
		return true
	})
	for i, pn := range want {
		constName := "event." + strings.ToUpper(pn[:1]) + pn[1:]
		wantV := fmt.Sprintf("%s=%d", constName, 1<<i)
		r.Check(found[pn] == wantV, "ecs.subscription", "parameter "+pn, p.Pos(fd.Pos()), "ORs "+found[pn]+"; expected "+wantV)
	}
}

// ---------- R1 ----------

type notifySite struct {
	fn       string
	pos      token.Pos
	event    map[string]string // field → source (literal or variable fields)
	isVar    string            // variable name if the event is a variable
	listener string
}

func c12r1(p *Prog, r *Reporter) {
	for _, pkg := range []string{"ecs", "listener"} {
		pk := p.Pkgs[pkg]
		for _, file := range pk.Syntax {
			for _, d := range file.Decls {
				fd, ok := d.(*ast.FuncDecl)
				if !ok || fd.Body == nil {
					continue
				}
				c12r1func(p, r, pkg, pk, fd)
			}
		}
	}
}

func c12r1func(p *Prog, r *Reporter, pkg string, pk *packages.Package, fd *ast.FuncDecl) {
	fname := pkg + "." + fd.Name.Name
	if fd.Recv != nil {
		fname = pkg + ".(" + recvTypeName(fd.Recv.List[0].Type) + ")." + fd.Name.Name
	}
	// definitions: trigger := X.Subscriptions() & B ; bits := ...
	triggers := map[string][2]string{} // name → (listener expr, B)
	assigns := map[string]string{}     // "event.EventTypes" → rhs
	type subCall struct {
		pos  token.Pos
		args []string
	}
	var subs []subCall
	type notif struct {
		pos      token.Pos
		listener string
		arg      ast.Expr
	}
	var notifs []notif
	norm := func(e ast.Expr) string { return strings.ReplaceAll(p.src(e), " ", "") }
	ast.Inspect(fd.Body, func(n ast.Node) bool {
		switch x := n.(type) {
		case *ast.AssignStmt:
			for i, l := range x.Lhs {
				if i >= len(x.Rhs) {
					break
				}
				if be, ok := unparen(x.Rhs[i]).(*ast.BinaryExpr); ok && be.Op == token.AND {
					if ce, ok := unparen(be.X).(*ast.CallExpr); ok {
						if sel, ok := unparen(ce.Fun).(*ast.SelectorExpr); ok && sel.Sel.Name == "Subscriptions" {
							triggers[norm(l)] = [2]string{norm(sel.X), norm(be.Y)}
						}
					}
				}
				assigns[norm(l)] = norm(x.Rhs[i])
			}
		case *ast.CallExpr:
			switch f := unparen(x.Fun).(type) {
			case *ast.Ident:
				if f.Name == "subscribes" && len(x.Args) == 6 {
					var args []string
					for _, a := range x.Args {
						args = append(args, norm(a))
					}
					subs = append(subs, subCall{x.Pos(), args})
				}
			case *ast.SelectorExpr:
				if f.Sel.Name == "Notify" && len(x.Args) == 2 {
					if tv, ok := pk.TypesInfo.Types[x.Args[1]]; ok && typeName(tv.Type) == "EntityEvent" {
						notifs = append(notifs, notif{x.Pos(), norm(f.X), x.Args[1]})
					}
				}
			}
		}
		return true
	})
	sort.Slice(subs, func(i, j int) bool { return subs[i].pos < subs[j].pos })
	for ni, nt := range notifs {
		// nearest preceding subscribes call
		var sc *subCall
		for i := range subs {
			if subs[i].pos < nt.pos {
				sc = &subs[i]
			}
		}
		pos := p.Pos(nt.pos)
		if sc == nil {
			// forwarding listeners (Callback.Notify → callback) are not notification sites of the world
			if strings.Contains(nt.listener, "callback") || fd.Name.Name == "Notify" && !strings.Contains(fname, "Dispatch") {
				continue
			}
			r.Bad(fname, "notification guarded by subscribes", pos, "a Notify call has no preceding subscribes(...) test in the function")
			continue
		}
		fields := map[string]string{}
		if cl, ok := unparen(nt.arg).(*ast.CompositeLit); ok {
			for _, el := range cl.Elts {
				if kv, ok := el.(*ast.KeyValueExpr); ok {
					fields[p.src(kv.Key)] = norm(kv.Value)
				}
			}
		} else {
			v := norm(nt.arg)
			for _, f := range []string{"Added", "Removed", "OldRelation", "NewRelation", "EventTypes"} {
				fields[f] = v + "." + f
			}
			// a variable built earlier: EventTypes may have been assigned from a local
			if rhs, ok := assigns[v+".EventTypes"]; ok {
				fields["EventTypes"] = rhs
			}
		}
		var bad []string
		tr, ok := triggers[sc.args[0]]
		if !ok {
			bad = append(bad, "the first argument "+sc.args[0]+" is not a trigger computed as <listener>.Subscriptions() & <types>")
		} else {
			if tr[1] != fields["EventTypes"] {
				bad = append(bad, "trigger is masked with "+tr[1]+", the event's EventTypes is "+fields["EventTypes"])
			}
			if tr[0] != nt.listener {
				bad = append(bad, "trigger is computed from "+tr[0]+", the event is delivered to "+nt.listener)
			}
		}
		addrOrNil := func(arg, field string) string {
			v, has := fields[field]
			if !has {
				if arg != "nil" {
					return field + ": the event has none, the predicate gets " + arg
				}
				return ""
			}
			if arg != "&"+v {
				return field + ": the event carries " + v + ", the predicate gets " + arg
			}
			return ""
		}
		valOrNil := func(arg, field string) string {
			v, has := fields[field]
			if !has {
				if arg != "nil" {
					return field + ": the event has none, the predicate gets " + arg
				}
				return ""
			}
			if arg != v {
				return field + ": the event carries " + v + ", the predicate gets " + arg
			}
			return ""
		}
		for _, s := range []string{addrOrNil(sc.args[1], "Added"), addrOrNil(sc.args[2], "Removed"), valOrNil(sc.args[4], "OldRelation"), valOrNil(sc.args[5], "NewRelation")} {
			if s != "" {
				bad = append(bad, s)
			}
		}
		if sc.args[3] != nt.listener+".Components()" {
			bad = append(bad, "component restriction argument is "+sc.args[3]+", expected "+nt.listener+".Components()")
		}
		construct := "Notify guarded by subscribes #" + fmt.Sprint(ni+1)
		if len(bad) > 0 {
			r.Bad(fname, construct, pos, strings.Join(bad, "; "))
		} else {
			r.OK(fname, construct, pos, "trigger, masks, component restriction and relation ids of the predicate are the event's own")
		}
	}
}

// ---------- R4 ----------

func c12r4(p *Prog, r *Reporter) {
	for _, n := range []string{"NewDispatch", "AddListener"} {
		recv := ""
		if n == "AddListener" {
			recv = "Dispatch"
		}
		fd := p.FuncDecl("listener", recv, n)
		name := "listener." + n
		if fd == nil {
			r.Anchor(name)
			continue
		}
		s := strings.ReplaceAll(p.src(fd.Body), " ", "")
		ev := strings.Contains(s, "events|=") && strings.Contains(s, ".Subscriptions()")
		// if cmp == nil { hasComponents = false } else { components = components.Or(cmp) }
		var nilBranch, orBranch bool
		ast.Inspect(fd.Body, func(nd ast.Node) bool {
			ifs, ok := nd.(*ast.IfStmt)
			if !ok {
				return true
			}
			c := strings.ReplaceAll(p.src(ifs.Cond), " ", "")
			if !strings.HasSuffix(c, "==nil") {
				return true
			}
			v := strings.TrimSuffix(c, "==nil")
			th := strings.ReplaceAll(p.src(ifs.Body), " ", "")
			if strings.Contains(th, "hasComponents=false") {
				nilBranch = true
			}
			if ifs.Else != nil {
				el := strings.ReplaceAll(p.src(ifs.Else), " ", "")
				if strings.Contains(el, "components=") && strings.Contains(el, "components.Or("+v+")") {
					orBranch = true
				}
			}
			return true
		})
		r.Check(ev, name, "aggregates event types", p.Pos(fd.Pos()), "events |= sub.Subscriptions()")
		r.Check(nilBranch, name, "unrestricted sub-listener lifts the restriction", p.Pos(fd.Pos()), "if Components() == nil { hasComponents = false }")
		r.Check(orBranch, name, "aggregates components", p.Pos(fd.Pos()), "else { components = components.Or(c) }")
	}
	for _, tn := range []string{"Dispatch", "Callback"} {
		fd := p.FuncDecl("listener", tn, "Components")
		name := "listener.(" + tn + ").Components"
		if fd == nil {
			r.Anchor(name)
			continue
		}
		s := strings.ReplaceAll(p.src(fd.Body), " ", "")
		rn := recvName(fd)
		okc := strings.Contains(s, "if"+rn+".hasComponents{return&"+rn+".components}") && strings.HasSuffix(s, "returnnil}")
		r.Check(okc, name, "nil iff unrestricted", p.Pos(fd.Pos()), "returns &components when hasComponents, else nil")
		fs := p.FuncDecl("listener", tn, "Subscriptions")
		if fs != nil {
			s2 := strings.ReplaceAll(p.src(fs.Body), " ", "")
			r.Check(s2 == "{return"+recvName(fs)+".events}", "listener.("+tn+").Subscriptions", "returns the stored event mask", p.Pos(fs.Pos()), s2)
		}
	}
	// NewCallback: hasComponents: len(components) > 0
	if fd := p.FuncDecl("listener", "", "NewCallback"); fd != nil {
		s := strings.ReplaceAll(p.src(fd.Body), " ", "")
		r.Check(strings.Contains(s, "hasComponents:len(components)>0"), "listener.NewCallback", "restriction flag", p.Pos(fd.Pos()), "hasComponents: len(components) > 0")
	}
}

// ---------- R5 ----------

func c12r5(p *Prog, r *Reporter) {
	n := 0
	for _, fn := range p.Funcs {
		for _, site := range callsIn(fn) {
			com := site.Common()
			if !com.IsInvoke() || com.Method.Name() != "Notify" || !inLoop(site.Block()) {
				continue
			}
			// values that decide or fill the notification: the controlling conditions and the event
			var roots []ssa.Value
			for d := site.Block(); d != nil; d = d.Idom() {
				id := d.Idom()
				if id == nil {
					break
				}
				if atom, _, ok := ifCond(id); ok && inLoop(id) {
					roots = append(roots, atom)
				}
			}
			roots = append(roots, com.Args...)
			phis := map[*ssa.Phi]bool{}
			seen := map[ssa.Value]bool{}
			var walk func(v ssa.Value, d int)
			walk = func(v ssa.Value, d int) {
				if v == nil || seen[v] || d > 12 {
					return
				}
				seen[v] = true
				switch x := v.(type) {
				case *ssa.Phi:
					phis[x] = true
					for _, pr := range x.Block().Preds {
						if dominatesBlock(x.Block(), pr) {
							return // loop header: its edges belong to previous iterations
						}
					}
					for _, e := range x.Edges {
						walk(e, d+1)
					}
				case *ssa.UnOp:
					walk(x.X, d+1)
				case *ssa.BinOp:
					walk(x.X, d+1)
					walk(x.Y, d+1)
				case *ssa.Alloc:
					// local struct / variable: everything stored into it or its fields
					for _, ref := range *x.Referrers() {
						switch y := ref.(type) {
						case *ssa.Store:
							if y.Addr == ssa.Value(x) {
								walk(y.Val, d+1)
							}
						case *ssa.FieldAddr:
							for _, r2 := range *y.Referrers() {
								if st, ok := r2.(*ssa.Store); ok && st.Addr == ssa.Value(y) {
									walk(st.Val, d+1)
								}
							}
						}
					}
				case *ssa.Call:
					if sc := x.Common().StaticCallee(); sc != nil && (sc.Name() == "subscribes" || sc.Name() == "subscription") {
						for _, a := range x.Common().Args {
							walk(a, d+1)
						}
					}
				case *ssa.MakeInterface:
					walk(x.X, d+1)
				case *ssa.Slice:
					walk(x.X, d+1)
				}
			}
			for _, v := range roots {
				walk(v, 0)
			}
			name := p.FuncName(fn)
			var names []string
			bad := ""
			var sorted []*ssa.Phi
			for ph := range phis {
				sorted = append(sorted, ph)
			}
			sort.Slice(sorted, func(i, j int) bool { return sorted[i].Pos() < sorted[j].Pos() || sorted[i].Name() < sorted[j].Name() })
			for _, ph := range sorted {
				if !inLoop(ph.Block()) {
					continue
				}
				isHeader := false
				for _, pr := range ph.Block().Preds {
					if dominatesBlock(ph.Block(), pr) {
						isHeader = true
					}
				}
				if isHeader {
					continue
				}
				names = append(names, ph.Comment)
				if s := staleGuard(ph, map[*ssa.Phi]bool{}); s != "" && bad == "" {
					bad = "variable " + ph.Comment + ": " + s
				}
			}
			if len(names) == 0 {
				continue
			}
			n++
			if bad == "" {
				r.OK(name, "notification inputs in a loop", p.Pos(site.Pos()), "the variables feeding the notification ("+strings.Join(uniq(names), ", ")+") are assigned on every path of an iteration (or skipped only because no listener is installed)")
			} else {
				r.Bad(name, "notification inputs in a loop", p.Pos(site.Pos()), bad)
			}
		}
	}
	if n == 0 {
		r.OKt("all library functions", "notification inputs in loops", "-", "no loop-carried variable feeds a notification")
	}
}

// staleGuard: looking only at paths from the loop header to the use: does the guard receive the loop header's value
// (i.e. a value computed for a previous iteration) on a branch other than `no listener installed`?
func staleGuard(ph *ssa.Phi, seen map[*ssa.Phi]bool) string {
	if seen[ph] {
		return ""
	}
	seen[ph] = true
	isHeaderPhi := func(x *ssa.Phi) bool {
		b := x.Block()
		for _, pr := range b.Preds {
			if dominatesBlock(b, pr) {
				return dominatesBlock(b, ph.Block())
			}
		}
		return false
	}
	if isHeaderPhi(ph) {
		return "the notification is guarded directly by a loop-carried variable"
	}
	for i, e := range ph.Edges {
		sub, ok := e.(*ssa.Phi)
		if !ok {
			continue
		}
		if isHeaderPhi(sub) {
			// this edge carries the previous iteration's value to the use: the branch that skipped the assignment
			pred := ph.Block().Preds[i]
			okSkip := false
			for d := pred; d != nil; d = d.Idom() {
				atom, _, isIf := ifCond(d)
				if !isIf {
					continue
				}
				if bo, isB := atom.(*ssa.BinOp); isB && (bo.Op == token.NEQ || bo.Op == token.EQL) && isNilConst(bo.Y) {
					if _, f, _, ok := loadedField(bo.X); ok && f == "listener" {
						okSkip = true
					}
				}
				break
			}
			if !okSkip {
				return "on some path of an iteration the guard keeps the value computed for a previous table: events would be delivered (or suppressed) according to another table's subscription test"
			}
			continue
		}
		if s := staleGuard(sub, seen); s != "" {
			return s
		}
	}
	return ""
}

var _ = constant.MakeBool
