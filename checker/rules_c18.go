package main

import (
	"fmt"
	"go/ast"
	"go/token"
	"go/types"
	"regexp"
	"sort"
	"strconv"
	"strings"

	"golang.org/x/tools/go/ssa"
)

func init() {
	register(&Property{
		ID: "C18",
		Decides: "every builder method of every FilterN that changes the filter's configuration invalidates the compiled filter on every path and first refuses a registered filter (R1, R2); for every arity and every position j the type parameter in position j, the field idj, compiled.Ids[j] and the j-th pointer argument are paired consistently at every site — the unsafe casts make this invisible to the compiler (R3); the method sets of the generated arities are identical after abstracting the per-position lists (R4); " +
			"Filter/Query/Register compile before they read the compiled filter (R5); Compile publishes only sub-filters it has (re)built on that path (R7); Exchange keeps its builder consistent with its relation setting (R8); Resource.Get is nil-safe and both relation-type tests agree (R6).",
		NotDecided:  "equality of effects of the generic calls with the ID-based calls they document as equivalents (only the pairing of ids, types and argument positions is decided); behaviour of the hand-written Map/Exchange helpers beyond R8.",
		Assumptions: commonAssumptions,
		Rules: []Rule{
			{ID: "C18.R1", Floor: 50, Run: c18r1, Text: "invalidate on write: a method of a filter type that stores to include/optional/exclude/exclusive/targetType/target/hasTarget passes compiled.Reset() on every path to return"},
			{ID: "C18.R2", Floor: 50, Run: c18r2, Text: "registered filters are immutable: every such store is dominated by `if compiled.locked { panic }`"},
			{ID: "C18.R3", Floor: 500, Run: c18r3, Text: "positional consistency (typed AST), for all arities and positions: (*Tj)(…idk…) ⇒ k=j; idk: ComponentID[T] ⇒ T=Tk; idk: compiled.Ids[n] ⇒ n=k; idk: m.idn ⇒ n=k; Component{ID: idk, Comp: x} with x of type *Tj ⇒ k=j; []ID{id0,…} in order; newFilter(typeOf[T0], …) in order; any other use of an idk field is reported as undecided"},
			{ID: "C18.R4", Floor: 20, Run: c18r4, Text: "cross-arity isomorphism: for each method name, the sources of arities 2–12, with per-position lines and arity-specific names abstracted, are identical; a deviant arity is a violation, a uniform template change is not"},
			{ID: "C18.R5", Floor: 26, Run: c18r5, Text: "compile before use: in methods of filter types, every read of compiled.{filter,Ids,Relation,HasRelation} and every call of compiled.Register is preceded on all paths by compiled.Compile (directly or through a method of the same receiver that always compiles)"},
			{ID: "C18.R6", Floor: 2, Run: c20r1, Text: "Resource.Get is nil-safe (= C20.R1)"},
			{ID: "C18.R7", Floor: 2, Run: c18r7, Text: "Compile publishes what it built: wherever the compiled filter is set to the address of one of Compile's own sub-filters (relationFilter, maskFilter), that sub-filter has been assigned on every path since the function's entry check"},
			{ID: "C18.R8", Floor: 2, Run: c18r8, Text: "Exchange builder consistency: every builder stored into Exchange.builder went through WithRelation(relationID) on every path on which hasRelation may be true"},
			{ID: "C18.R9", Floor: 10, Run: c16r4, Text: "the generic relation-type test agrees with the core's (= C16.R4)"},
			{ID: "C18.R10", Floor: 6, Run: c18r10, Text: "the compiled filter loses no clause: every value stored into compiledQuery.filter is the full mask filter, or its Include mask alone only where `exclusive` is false and `exclude` is empty, or (exactly where a target is given) the relation filter built in the same block around one of those two with the `target` argument; Register wraps the current filter, Unregister restores what Cache.Unregister returns for it"},
			{ID: "C18.R11", Floor: 2, Run: typeParamReflection, Text: "reflection of type parameters: reflect.TypeOf is never applied to a value of bare type-parameter type (nil for interface type arguments, so distinct types collapse into one registry key); the idiom reflect.TypeOf((*T)(nil)).Elem() is followed by Elem()"},
			{ID: "C18.R12", Floor: 10, Run: mapperStateless, Text: "generic mappers hold no world state: methods of Resource[T], Map[T] and MapN never write their receiver's own fields (E-mod); only constructors do"},
			{ID: "C18.R13", Floor: 4, Run: mapperDelegates, Text: "delegation: each method of Resource[T] that has a namesake on ecs.Resources calls that namesake (Has answers what Resources.Has answers, not whether Get is non-nil)"},
			{ID: "C18.R14", Floor: 4, Run: variadicTargetForwarded, Text: "a given target is forwarded (= C05.R15), for the generic wrappers as well"},
			{ID: "C18.R15", Floor: 3, Run: exchangeListsAgree, Text: "generic Exchange: in each method the call with a relation target and the call without pass the same add/remove lists"},
			{ID: "C18.R16", Floor: 1, Run: checkedCallsChecked, Text: "exported generic methods not named *Unchecked never call an *Unchecked method of package ecs"},
			{ID: "C18.R17", Floor: 2, Run: exchangeSettersReplace, Text: "generic Exchange setters replace: Adds/Removes store a list that does not depend on the one stored before"},
			{ID: "C18.R18", Floor: 15, Run: c10r1, Text: "validate before mutate (= C10.R1): a generic New(target) that panics has not created an entity"},
			{ID: "C18.R19", Floor: 1, Run: exclusiveFromInclude, Text: "Exclusive excludes the complement of what is included: in Compile the mask that is complemented is the mask stored as the filter's inclusion (after optional components were removed)"},
			{ID: "C18.R20", Floor: 20, Run: mapListsComplete, Text: "component lists of MapN are complete: every list of components or ids a MapN method builds in place and hands to the core has exactly N elements"},
			{ID: "C18.R21", Floor: 4, Run: noTargetNoRelationFlag, Text: "without a target no relation is claimed (= C05.R17)"},
			{ID: "C18.R22", Floor: 10, Run: freshRelationFilterPerCall, Text: "generic FilterN.Filter hands out a relation filter of its own for a per-call target: the target given to a call is never written into a struct owned by the generic filter and handed out by every call"},
			{ID: "C18.R23", Floor: 1, Run: compileKeyedByWorld, Text: "the compilation is keyed by world: the early return of Compile is taken only where the world argument equals the world recorded at the last compilation (or the filter is registered)"},
			{ID: "C18.R24", Floor: 10, Run: compiledFiltersFresh, Text: "handed-out filters do not point into re-compiled state: no pointer stored as the compiled filter, or as the inner filter of a per-call RelationFilter, is the address of a struct embedded in the generic filter; Compile allocates them anew"},
			{ID: "C18.R25", Floor: 1, Run: exchangeBuilderFollowsConfig, Text: "Exchange keeps its builder in step with its configuration: in every method of Exchange that stores add, hasRelation or relationID a store to builder follows on every path to return"},
			{ID: "C18.R26", Floor: 1, Run: compileGuardFlag, Text: "completion flag of Compile (= C09.R18)"},
			{ID: "C18.R27", Floor: 1, Run: compileRecomputes, Text: "Compile derives everything again: after its entry guard, a field of the receiver that Compile writes is read only where it was already written in this invocation (ids and the relation id are per world)"},
		},
	})
}

var filterCfgFields = map[string]bool{"include": true, "optional": true, "exclude": true, "exclusive": true, "targetType": true, "target": true, "hasTarget": true}

func isFilterType(fn *ssa.Function) bool {
	return strings.HasPrefix(typeName(recvType(fn)), "Filter") && fn.Pkg != nil && fn.Pkg.Pkg.Name() == "generic" ||
		fn.Origin() != nil && strings.HasPrefix(typeName(recvType(fn)), "Filter")
}

func cfgStores(fn *ssa.Function) []*ssa.Store {
	var out []*ssa.Store
	for _, b := range fn.Blocks {
		for _, ins := range b.Instrs {
			st, ok := ins.(*ssa.Store)
			if !ok {
				continue
			}
			fa, ok := st.Addr.(*ssa.FieldAddr)
			if !ok {
				continue
			}
			if filterCfgFields[fieldName(fa.X.Type(), fa.Field)] && strings.HasPrefix(typeName(fa.X.Type()), "Filter") {
				out = append(out, st)
			}
			// through the underlying struct: FilterN is defined as `filter`; field access goes through a ChangeType
			if filterCfgFields[fieldName(fa.X.Type(), fa.Field)] && typeName(fa.X.Type()) == "filter" {
				out = append(out, st)
			}
		}
	}
	return out
}

func isCompiledCall(ins ssa.Instruction, method string) bool {
	c, ok := ins.(ssa.CallInstruction)
	if !ok {
		return false
	}
	sc := c.Common().StaticCallee()
	return sc != nil && cname(sc) == method && typeName(recvType(sc)) == "compiledQuery"
}

func c18r1(p *Prog, r *Reporter) {
	for _, fn := range p.Funcs {
		if !isFilterType(fn) {
			continue
		}
		sts := cfgStores(fn)
		if len(sts) == 0 {
			continue
		}
		name := p.FuncName(fn)
		mf := &MustFlow{Fn: fn, InstrGen: func(i ssa.Instruction) bool { return isCompiledCall(i, "Reset") }}
		mf.Run()
		// every path from a store to a return passes Reset
		okc := true
		for _, st := range sts {
			if !allPathsFromPass(fn, st, func(i ssa.Instruction) bool { return isCompiledCall(i, "Reset") }) {
				okc = false
			}
		}
		if okc {
			r.OK(name, "configuration change invalidates compilation", p.FnPos(fn), fmt.Sprintf("%d configuration stores, each followed by compiled.Reset() on every path to return", len(sts)))
		} else {
			r.Bad(name, "configuration change invalidates compilation", p.FnPos(fn), "the filter's configuration is changed without compiled.Reset() on some path: a filter that was already used keeps its stale compilation")
		}
	}
}

func c18r2(p *Prog, r *Reporter) {
	for _, fn := range p.Funcs {
		if !isFilterType(fn) {
			continue
		}
		sts := cfgStores(fn)
		if len(sts) == 0 {
			continue
		}
		name := p.FuncName(fn)
		mf := &MustFlow{Fn: fn, EdgeGen: func(b *ssa.BasicBlock, k int) bool {
			atom, holds, ok := edgeCond(b, k)
			if !ok || holds {
				return false
			}
			_, f, _, ok := loadedField(atom)
			return ok && f == "locked" && p.panicOnly(b.Succs[1-k])
		}}
		mf.Run()
		okc := true
		for _, st := range sts {
			if !mf.Before(st) {
				okc = false
			}
		}
		r.Check(okc, name, "refuses a registered filter", p.FnPos(fn), "every configuration store is dominated by `if compiled.locked { panic }`")
	}
}

// ---------- R3: positional consistency on the typed AST ----------

var idRe = regexp.MustCompile(`^id(\d+)$`)

func idIndex(name string) int {
	m := idRe.FindStringSubmatch(name)
	if m == nil {
		return -1
	}
	k, _ := strconv.Atoi(m[1])
	return k
}

func c18r3(p *Prog, r *Reporter) {
	pk := p.Pkgs["generic"]
	for _, file := range pk.Syntax {
		fname := p.Fset.Position(file.Pos()).Filename
		if !strings.HasSuffix(fname, "_generated.go") {
			continue
		}
		for _, d := range file.Decls {
			fd, ok := d.(*ast.FuncDecl)
			if !ok || fd.Body == nil {
				continue
			}
			tps := funcTypeParams(fd)
			if len(tps) == 0 {
				continue
			}
			pos := map[string]int{}
			for i, n := range tps {
				pos[n] = i
			}
			// parameter name → type param position for parameters of type *T
			ptrParam := map[string]int{}
			for _, f := range fd.Type.Params.List {
				if st, ok := f.Type.(*ast.StarExpr); ok {
					if id, ok := st.X.(*ast.Ident); ok {
						if j, ok := pos[id.Name]; ok {
							for _, n := range f.Names {
								ptrParam[n.Name] = j
							}
						}
					}
				}
			}
			owner := "generic." + fd.Name.Name
			if fd.Recv != nil {
				owner = "generic.(" + recvTypeName(fd.Recv.List[0].Type) + ")." + fd.Name.Name
			}
			handled := map[*ast.SelectorExpr]bool{}
			var idSel func(e ast.Expr) (*ast.SelectorExpr, int)
			idSel = func(e ast.Expr) (*ast.SelectorExpr, int) {
				var found *ast.SelectorExpr
				k := -1
				ast.Inspect(e, func(n ast.Node) bool {
					if se, ok := n.(*ast.SelectorExpr); ok {
						if i := idIndex(se.Sel.Name); i >= 0 {
							found, k = se, i
						}
					}
					return true
				})
				return found, k
			}
			ast.Inspect(fd.Body, func(n ast.Node) bool {
				switch x := n.(type) {
				case *ast.CallExpr:
					// (*T)(expr with idk)
					if pe, ok := x.Fun.(*ast.ParenExpr); ok && len(x.Args) == 1 {
						if st, ok := pe.X.(*ast.StarExpr); ok {
							if id, ok := st.X.(*ast.Ident); ok {
								if j, isTP := pos[id.Name]; isTP {
									se, k := idSel(x.Args[0])
									if se != nil {
										handled[se] = true
										r.Check(k == j, owner, fmt.Sprintf("cast to *%s uses id%d", id.Name, k), p.Pos(x.Pos()), fmt.Sprintf("type parameter %s is in position %d, the component is fetched with id%d", id.Name, j, k))
									}
								}
							}
						}
					}
					// append(make([]ecs.ID, 0, n), m.id0, m.id1, …): the same list built by appending to an empty slice
					if id, ok := x.Fun.(*ast.Ident); ok && id.Name == "append" && len(x.Args) >= 2 {
						if mk, ok := x.Args[0].(*ast.CallExpr); ok {
							if mid, ok := mk.Fun.(*ast.Ident); ok && mid.Name == "make" && len(mk.Args) >= 2 && strings.HasSuffix(p.src(mk.Args[0]), "[]ecs.ID") && p.src(mk.Args[1]) == "0" {
								for i, el := range x.Args[1:] {
									if se, k := idSel(el); se != nil {
										handled[se] = true
										r.Check(k == i, owner, fmt.Sprintf("ids[%d] = id%d", i, k), p.Pos(el.Pos()), "the id list is in field order")
									}
								}
							}
						}
					}
					// newFilter(typeOf[A](), typeOf[B]())
					if id, ok := x.Fun.(*ast.Ident); ok && id.Name == "newFilter" {
						for i, a := range x.Args {
							tn := typeOfArg(a)
							j, isTP := pos[tn]
							r.Check(isTP && j == i, owner, fmt.Sprintf("newFilter argument %d", i), p.Pos(a.Pos()), fmt.Sprintf("argument %d is typeOf[%s], type parameter position %d", i, tn, j))
						}
					}
				case *ast.KeyValueExpr:
					key, ok := x.Key.(*ast.Ident)
					if !ok {
						return true
					}
					if k := idIndex(key.Name); k >= 0 {
						v := strings.ReplaceAll(p.src(x.Value), " ", "")
						switch {
						case strings.Contains(v, "ComponentID["):
							tn := between(v, "ComponentID[", "]")
							j, isTP := pos[tn]
							r.Check(isTP && j == k, owner, fmt.Sprintf("id%d: ComponentID[%s]", k, tn), p.Pos(x.Pos()), fmt.Sprintf("field id%d is initialised with the id of type parameter %s (position %d)", k, tn, j))
						case strings.Contains(v, ".Ids["):
							n, _ := strconv.Atoi(between(v, ".Ids[", "]"))
							r.Check(n == k, owner, fmt.Sprintf("id%d: compiled.Ids[%d]", k, n), p.Pos(x.Pos()), "field and compiled id index must agree")
						default:
							se, n := idSel(x.Value)
							if se != nil {
								handled[se] = true
								r.Check(n == k, owner, fmt.Sprintf("id%d: copied from id%d", k, n), p.Pos(x.Pos()), "a query literal must copy idk from idk")
							} else {
								r.Und(owner, fmt.Sprintf("id%d initialiser", k), p.Pos(x.Pos()), "unrecognised initialiser "+v)
							}
						}
					}
					if key.Name == "ID" {
						// ecs.Component{ID: m.idk, Comp: x}
						se, k := idSel(x.Value)
						if se != nil {
							handled[se] = true
						}
						_ = k
					}
				case *ast.CompositeLit:
					// ecs.Component{ID: m.idk, Comp: a}
					if strings.HasSuffix(p.src(x.Type), "Component") {
						k, comp := -1, ""
						for _, el := range x.Elts {
							if kv, ok := el.(*ast.KeyValueExpr); ok {
								switch p.src(kv.Key) {
								case "ID":
									if se, kk := idSel(kv.Value); se != nil {
										handled[se] = true
										k = kk
									}
								case "Comp":
									comp = p.src(kv.Value)
								}
							}
						}
						if k >= 0 {
							j, isPtr := ptrParam[comp]
							if !isPtr {
								r.Und(owner, fmt.Sprintf("Component{ID: id%d}", k), p.Pos(x.Pos()), "the component value "+comp+" is not a *T parameter")
							} else {
								r.Check(j == k, owner, fmt.Sprintf("Component{ID: id%d, Comp: %s}", k, comp), p.Pos(x.Pos()), fmt.Sprintf("value argument %s has the type of position %d, paired with id%d", comp, j, k))
							}
						}
					}
					// []ecs.ID{m.id0, m.id1}
					if strings.HasSuffix(p.src(x.Type), "[]ecs.ID") {
						for i, el := range x.Elts {
							if se, k := idSel(el); se != nil {
								handled[se] = true
								r.Check(k == i, owner, fmt.Sprintf("ids[%d] = id%d", i, k), p.Pos(el.Pos()), "the id list is in field order")
							}
						}
					}
				}
				return true
			})
			// any other use of an idk field
			ast.Inspect(fd.Body, func(n ast.Node) bool {
				se, ok := n.(*ast.SelectorExpr)
				if !ok || idIndex(se.Sel.Name) < 0 || handled[se] {
					return true
				}
				// reads inside already-checked casts are handled via idSel; remaining are plain uses
				r.Und(owner, "use of "+se.Sel.Name, p.Pos(se.Pos()), "an id field is used in a form the positional rules do not know: "+p.src(se))
				return true
			})
		}
	}
}

func between(s, a, b string) string {
	i := strings.Index(s, a)
	if i < 0 {
		return ""
	}
	s = s[i+len(a):]
	j := strings.Index(s, b)
	if j < 0 {
		return ""
	}
	return s[:j]
}

func typeOfArg(e ast.Expr) string {
	ce, ok := e.(*ast.CallExpr)
	if !ok {
		return ""
	}
	if ix, ok := ce.Fun.(*ast.IndexExpr); ok {
		if id, ok := ix.X.(*ast.Ident); ok && id.Name == "typeOf" {
			if t, ok := ix.Index.(*ast.Ident); ok {
				return t.Name
			}
		}
	}
	return ""
}

// funcTypeParams: type parameter names in order, from the receiver (methods) or the function's own list.
func funcTypeParams(fd *ast.FuncDecl) []string {
	var out []string
	if fd.Recv != nil && len(fd.Recv.List) > 0 {
		t := fd.Recv.List[0].Type
		if st, ok := t.(*ast.StarExpr); ok {
			t = st.X
		}
		switch x := t.(type) {
		case *ast.IndexExpr:
			if id, ok := x.Index.(*ast.Ident); ok {
				out = append(out, id.Name)
			}
		case *ast.IndexListExpr:
			for _, ix := range x.Indices {
				if id, ok := ix.(*ast.Ident); ok {
					out = append(out, id.Name)
				}
			}
		}
		return out
	}
	if fd.Type.TypeParams != nil {
		for _, f := range fd.Type.TypeParams.List {
			for _, n := range f.Names {
				out = append(out, n.Name)
			}
		}
	}
	return out
}

// ---------- R4: cross-arity isomorphism ----------

var (
	reArityName = regexp.MustCompile(`\b(Filter|Query|Map|NewFilter|NewMap|NewQuery)(\d+)\b`)
	reTPList    = regexp.MustCompile(`\[[A-L](, [A-L])*\]`)
	reIDn       = regexp.MustCompile(`\bid\d+\b`)
	rePtrArgs   = regexp.MustCompile(`[a-l] \*[A-L](, [a-l] \*[A-L])*`)
	reTPDecl    = regexp.MustCompile(`\[[A-L] any(, [A-L] any)*\]`)
	rePtrRes    = regexp.MustCompile(`\(\*[A-L](, \*[A-L])*\)`)
)

func normalizeArity(src string) string {
	var out []string
	for _, ln := range strings.Split(src, "\n") {
		t := strings.TrimSpace(ln)
		if t == "" {
			continue
		}
		// per-position lines
		if reIDn.MatchString(t) || strings.Contains(t, "typeOf[") {
			if len(out) == 0 || out[len(out)-1] != "<per-position>" {
				out = append(out, "<per-position>")
			}
			continue
		}
		t = reArityName.ReplaceAllString(t, "${1}N")
		t = reTPList.ReplaceAllString(t, "[TP]")
		t = reTPDecl.ReplaceAllString(t, "[TPD]")
		t = rePtrArgs.ReplaceAllString(t, "ptrs")
		t = rePtrRes.ReplaceAllString(t, "(ptrs)")
		out = append(out, t)
	}
	return strings.Join(out, "\n")
}

func c18r4(p *Prog, r *Reporter) {
	pk := p.Pkgs["generic"]
	// group by (kind, method) → arity → normalized source
	type key struct{ kind, method string }
	groups := map[key]map[int]string{}
	posOf := map[key]map[int]token.Pos{}
	for _, file := range pk.Syntax {
		if !strings.HasSuffix(p.Fset.Position(file.Pos()).Filename, "_generated.go") {
			continue
		}
		for _, d := range file.Decls {
			fd, ok := d.(*ast.FuncDecl)
			if !ok || fd.Body == nil {
				continue
			}
			name := fd.Name.Name
			kind := ""
			if fd.Recv != nil {
				name = recvTypeName(fd.Recv.List[0].Type) + "." + name
			}
			m := regexp.MustCompile(`^(NewFilter|NewMap|Filter|Query|Map)(\d+)(\..*)?$`).FindStringSubmatch(name)
			if m == nil {
				continue
			}
			kind = m[1]
			ar, _ := strconv.Atoi(m[2])
			k := key{kind, m[3]}
			if groups[k] == nil {
				groups[k] = map[int]string{}
				posOf[k] = map[int]token.Pos{}
			}
			var sb strings.Builder
			sb.WriteString(p.rawSrc(fd.Type))
			sb.WriteString("\n")
			sb.WriteString(p.rawSrc(fd.Body))
			groups[k][ar] = normalizeArity(sb.String())
			posOf[k][ar] = fd.Pos()
		}
	}
	var keys []key
	for k := range groups {
		keys = append(keys, k)
	}
	sort.Slice(keys, func(i, j int) bool { return keys[i].kind+keys[i].method < keys[j].kind+keys[j].method })
	for _, k := range keys {
		// majority among arities >= 2
		count := map[string]int{}
		for ar, s := range groups[k] {
			if ar >= 2 {
				count[s]++
			}
		}
		best, bestN := "", 0
		for s, n := range count {
			if n > bestN || n == bestN && s < best {
				best, bestN = s, n
			}
		}
		if bestN == 0 {
			continue
		}
		var ars []int
		for ar := range groups[k] {
			if ar >= 2 {
				ars = append(ars, ar)
			}
		}
		sort.Ints(ars)
		for _, ar := range ars {
			name := fmt.Sprintf("generic.%s%d%s", k.kind, ar, k.method)
			if groups[k][ar] == best {
				r.OK(name, "same shape as its sibling arities", p.Pos(posOf[k][ar]), fmt.Sprintf("identical to %d of %d arities after abstracting per-position lines", bestN, len(ars)))
			} else {
				r.Bad(name, "same shape as its sibling arities", p.Pos(posOf[k][ar]), "this arity deviates from its siblings: "+firstDiff(best, groups[k][ar]))
			}
		}
	}
}

func (p *Prog) rawSrc(n ast.Node) string {
	start, end := p.Fset.Position(n.Pos()), p.Fset.Position(n.End())
	b, err := readFileCached(start.Filename)
	if err != nil || end.Offset > len(b) {
		return p.src(n)
	}
	return string(b[start.Offset:end.Offset])
}

var fileCache = map[string][]byte{}

func readFileCached(name string) ([]byte, error) {
	if b, ok := fileCache[name]; ok {
		return b, nil
	}
	b, err := osReadFile(name)
	if err == nil {
		fileCache[name] = b
	}
	return b, err
}

func firstDiff(a, b string) string {
	la, lb := strings.Split(a, "\n"), strings.Split(b, "\n")
	for i := 0; i < len(la) || i < len(lb); i++ {
		x, y := "", ""
		if i < len(la) {
			x = la[i]
		}
		if i < len(lb) {
			y = lb[i]
		}
		if x != y {
			return fmt.Sprintf("line %d: siblings have %q, this arity has %q", i+1, x, y)
		}
	}
	return "different length"
}

// ---------- R5 ----------

func c18r5(p *Prog, r *Reporter) {
	// methods that always compile
	compiles := map[*ssa.Function]bool{}
	for changed := true; changed; {
		changed = false
		for _, fn := range p.Funcs {
			if compiles[fn] || !isFilterType(fn) {
				continue
			}
			mf := &MustFlow{Fn: fn, InstrGen: func(i ssa.Instruction) bool {
				if isCompiledCall(i, "Compile") {
					return true
				}
				c, ok := i.(ssa.CallInstruction)
				if !ok {
					return false
				}
				sc := p.canon(c.Common().StaticCallee())
				return sc != nil && compiles[sc]
			}}
			mf.Run()
			if mf.AtAllReturns() {
				compiles[fn] = true
				changed = true
			}
		}
	}
	for _, fn := range p.Funcs {
		if !isFilterType(fn) {
			continue
		}
		mf := &MustFlow{Fn: fn, InstrGen: func(i ssa.Instruction) bool {
			if isCompiledCall(i, "Compile") {
				return true
			}
			c, ok := i.(ssa.CallInstruction)
			if !ok {
				return false
			}
			sc := p.canon(c.Common().StaticCallee())
			return sc != nil && compiles[sc]
		}}
		mf.Run()
		n, bad := 0, ""
		for _, b := range fn.Blocks {
			for _, ins := range b.Instrs {
				use := ""
				if u, ok := ins.(*ssa.UnOp); ok && u.Op == token.MUL {
					if o, f, _, ok := loadedField(u); ok && o == "compiledQuery" && (f == "filter" || f == "Ids" || f == "Relation" || f == "HasRelation") {
						use = "read compiled." + f
					}
				}
				if isCompiledCall(ins, "Register") {
					use = "compiled.Register"
				}
				if use == "" {
					continue
				}
				n++
				if !mf.Before(ins) {
					bad = use + " at " + p.Pos(posOf(ins))
				}
			}
		}
		if n == 0 {
			continue
		}
		name := p.FuncName(fn)
		if bad == "" {
			r.OK(name, "compile before use", p.FnPos(fn), fmt.Sprintf("%d uses of the compiled filter, all preceded by Compile", n))
		} else {
			r.Bad(name, "compile before use", p.FnPos(fn), "the compiled filter is used before it is (re)compiled: "+bad)
		}
	}
}

// ---------- R7 ----------

func c18r7(p *Prog, r *Reporter) {
	fn := p.Fn("generic.(*compiledQuery).Compile")
	if fn == nil {
		r.Anchor("generic.(*compiledQuery).Compile")
		return
	}
	name := p.FuncName(fn)
	for _, b := range fn.Blocks {
		for _, ins := range b.Instrs {
			st, ok := ins.(*ssa.Store)
			if !ok {
				continue
			}
			_, f, _, ok := loadedField(st.Addr)
			if !ok || f != "filter" {
				continue
			}
			// sub-filters whose address is published: directly, or through a helper method that returns it
			subs := map[string]types.Type{}
			addSub := func(v ssa.Value) {
				if mi, ok := v.(*ssa.MakeInterface); ok {
					if fa, ok := mi.X.(*ssa.FieldAddr); ok {
						subs[fieldName(fa.X.Type(), fa.Field)] = deref(fa.Type())
					}
					// a sub-filter held through a pointer field: the pointer loaded from the receiver's field
					if ld, ok := mi.X.(*ssa.UnOp); ok && ld.Op == token.MUL {
						if fa, ok := ld.X.(*ssa.FieldAddr); ok && typeName(fa.X.Type()) == "compiledQuery" {
							if _, isPtr := ld.Type().Underlying().(*types.Pointer); isPtr {
								subs[fieldName(fa.X.Type(), fa.Field)] = deref(ld.Type())
							}
						}
					}
				}
			}
			addSub(st.Val)
			if c := callOf(st.Val); c != nil {
				if sc := c.Common().StaticCallee(); sc != nil && typeName(recvType(sc)) == "compiledQuery" {
					for _, hb := range sc.Blocks {
						if ret, ok := hb.Instrs[len(hb.Instrs)-1].(*ssa.Return); ok && len(ret.Results) == 1 {
							addSub(ret.Results[0])
						}
					}
				}
			}
			var names []string
			for sub := range subs {
				names = append(names, sub)
			}
			sort.Strings(names)
			for _, sub := range names {
				rebuilt := func(match func(addr ssa.Value) bool) bool {
					mf := &MustFlow{Fn: fn, InstrGen: func(i ssa.Instruction) bool {
						s2, ok := i.(*ssa.Store)
						return ok && match(s2.Addr)
					}}
					mf.Run()
					return mf.Before(st)
				}
				whole := rebuilt(func(addr ssa.Value) bool {
					_, f2, _, ok := loadedField(addr)
					return ok && f2 == sub
				})
				fieldwise := false
				if stt, ok := subs[sub].Underlying().(*types.Struct); ok && !whole && stt.NumFields() > 0 {
					fieldwise = true
					for k := 0; k < stt.NumFields(); k++ {
						suffix := "." + sub + "." + fieldName(subs[sub], k)
						if !rebuilt(func(addr ssa.Value) bool { return strings.HasSuffix(apath(addr), suffix) }) {
							fieldwise = false
						}
					}
				}
				if whole || fieldwise {
					r.OK(name, "publishes &"+sub, p.Pos(st.Pos()), "the sub-filter is assigned (as a whole, or every field of it) on every path before its address becomes the compiled filter")
				} else {
					r.Bad(name, "publishes &"+sub, p.Pos(st.Pos()), "the compiled filter is set to &"+sub+" although "+sub+" is not rebuilt on every path: a re-compiled filter keeps a stale sub-filter")
				}
			}
		}
	}
}

func deref(t types.Type) types.Type {
	if pt, ok := t.Underlying().(*types.Pointer); ok {
		return pt.Elem()
	}
	return t
}

// ---------- R8 ----------

func c18r8(p *Prog, r *Reporter) {
	wr := p.Fn("ecs.(*Builder).WithRelation")
	if wr == nil {
		r.Anchor("ecs.(*Builder).WithRelation")
		return
	}
	for _, fn := range p.Funcs {
		if typeName(recvType(fn)) != "Exchange" {
			continue
		}
		for _, b := range fn.Blocks {
			for _, ins := range b.Instrs {
				st, ok := ins.(*ssa.Store)
				if !ok {
					continue
				}
				o, f, _, ok := loadedField(st.Addr)
				if !ok || o != "Exchange" || f != "builder" {
					continue
				}
				name := p.FuncName(fn)
				// stored value = *ptr
				ld, ok := st.Val.(*ssa.UnOp)
				if !ok {
					r.Und(name, "store Exchange.builder", p.Pos(st.Pos()), "the stored builder is not a dereferenced *Builder")
					continue
				}
				okc, why := builderHasRelation(p, fn, ld.X, wr, st)
				if okc {
					r.OK(name, "store Exchange.builder", p.Pos(st.Pos()), why)
				} else {
					r.Bad(name, "store Exchange.builder", p.Pos(st.Pos()), why)
				}
			}
		}
	}
}

func builderHasRelation(p *Prog, fn *ssa.Function, ptr ssa.Value, wr *ssa.Function, at ssa.Instruction) (bool, string) {
	edgeNoRel := func(b *ssa.BasicBlock, k int) bool {
		atom, holds, ok := edgeCond(b, k)
		if !ok || holds {
			return false
		}
		o, f, _, ok := loadedField(atom)
		return ok && o == "Exchange" && f == "hasRelation"
	}
	noRel := &MustFlow{Fn: fn, EdgeGen: edgeNoRel}
	noRel.Run()
	var check func(v ssa.Value, from, to *ssa.BasicBlock) (bool, string)
	check = func(v ssa.Value, from, to *ssa.BasicBlock) (bool, string) {
		switch x := v.(type) {
		case *ssa.Call:
			if isCallTo(x, wr) {
				return true, "the builder went through WithRelation"
			}
			// a builder without relation: fine only where hasRelation is known false
			known := noRel.Before(at)
			if from != nil {
				known = noRel.In(from)
				if len(from.Instrs) > 0 {
					known = known || noRel.Before(from.Instrs[len(from.Instrs)-1])
				}
				for k, s := range from.Succs {
					if s == to && edgeNoRel(from, k) {
						known = true
					}
				}
			}
			if known {
				return true, "a plain builder is used only where hasRelation is known false"
			}
			return false, "a builder without the configured relation is stored while hasRelation may be true: the relation set earlier is lost"
		case *ssa.Phi:
			for i, e := range x.Edges {
				if ok, why := check(e, x.Block().Preds[i], x.Block()); !ok {
					return false, why
				}
			}
			return true, "on every path the builder went through WithRelation where hasRelation may be true"
		}
		return false, "unrecognised builder source " + apath(v)
	}
	return check(ptr, nil, nil)
}

// ---------- R10: filter composition in compiledQuery ----------

func c18r10(p *Prog, r *Reporter) {
	type site struct {
		fn *ssa.Function
		st *ssa.Store
	}
	var sites []site
	for _, fn := range p.Funcs {
		if typeName(recvType(fn)) != "compiledQuery" {
			continue
		}
		for _, b := range fn.Blocks {
			for _, ins := range b.Instrs {
				st, ok := ins.(*ssa.Store)
				if !ok {
					continue
				}
				fa, ok := st.Addr.(*ssa.FieldAddr)
				if ok && typeName(fa.X.Type()) == "compiledQuery" && fieldName(fa.X.Type(), fa.Field) == "filter" {
					sites = append(sites, site{fn, st})
				}
			}
		}
	}
	if len(sites) == 0 {
		r.Anchor("generic.compiledQuery.filter")
		return
	}
	// classify an interface value stored as a filter
	// A: &q.maskFilter   B: q.maskFilter.Include (value)   C: &q.relationFilter   D: &q.cachedFilter   U: result of Cache.Unregister
	classify := func(v ssa.Value) (kind string, inner ssa.Value) {
		if mi, ok := v.(*ssa.MakeInterface); ok {
			x := mi.X
			if fa, ok := x.(*ssa.FieldAddr); ok && typeName(fa.X.Type()) == "compiledQuery" {
				switch fieldName(fa.X.Type(), fa.Field) {
				case "maskFilter":
					return "A", nil
				case "relationFilter":
					return "C", nil
				case "cachedFilter":
					return "D", nil
				}
			}
			if ld, ok := x.(*ssa.UnOp); ok && ld.Op == token.MUL {
				if pth := apath(ld.X); strings.HasSuffix(pth, ".maskFilter.Include") {
					return "B", nil
				}
				// the sub-filter held through a pointer field (allocated per compilation): the loaded pointer
				if fa, ok := ld.X.(*ssa.FieldAddr); ok && typeName(fa.X.Type()) == "compiledQuery" {
					if _, isPtr := ld.Type().Underlying().(*types.Pointer); isPtr {
						switch fieldName(fa.X.Type(), fa.Field) {
						case "maskFilter":
							return "A", nil
						case "relationFilter":
							return "C", nil
						case "cachedFilter":
							return "D", nil
						}
					}
				}
			}
			return "?", x
		}
		if c := callOf(v); c != nil {
			if sc := c.Common().StaticCallee(); sc != nil && cname(sc) == "Unregister" && typeName(recvType(sc)) == "Cache" {
				return "U", c.Common().Args[1]
			}
			if sc := c.Common().StaticCallee(); sc != nil && typeName(recvType(sc)) == "compiledQuery" && sc.Blocks != nil {
				return "H", v
			}
		}
		return "?", v
	}
	// helperKinds: for a compiledQuery method returning a filter: the kinds it may return; for kind B (include mask only)
	// the bool parameter that is known true at that return ("" if none).
	type hret struct {
		kind  string
		param string
	}
	helperKinds := func(h *ssa.Function) []hret {
		var out []hret
		for _, hb := range h.Blocks {
			ret, ok := hb.Instrs[len(hb.Instrs)-1].(*ssa.Return)
			if !ok || len(ret.Results) != 1 {
				continue
			}
			k, _ := classify(ret.Results[0])
			hr := hret{kind: k}
			if k == "B" {
				for _, pr := range h.Params {
					if bt, ok := pr.Type().Underlying().(*types.Basic); ok && bt.Kind() == types.Bool && factBefore(h, ret, pr.Name()+"=true") {
						hr.param = pr.Name()
					}
				}
			}
			out = append(out, hr)
		}
		return out
	}
	n := map[string]int{}
	for _, s := range sites {
		fn, st := s.fn, s.st
		name := p.FuncName(fn)
		kind, inner := classify(st.Val)
		n[name+kind]++
		construct := fmt.Sprintf("filter store (%s) #%d", map[string]string{"A": "mask filter", "B": "include mask only", "C": "relation filter", "D": "cached filter", "U": "unregistered filter", "H": "via helper", "?": "other"}[kind], n[name+kind])
		pos := p.Pos(st.Pos())
		// contexts: the function itself, or - for a helper method that is only called from Compile - its call sites there
		type ctx struct {
			caller *ssa.Function
			site   ssa.CallInstruction
		}
		var ctxs []ctx
		isTop := cname(fn) == "Compile" || cname(fn) == "Register" || cname(fn) == "Unregister"
		inCompile := cname(fn) == "Compile"
		if !isTop {
			all := true
			for _, g := range p.Funcs {
				for _, cs := range callsIn(g) {
					if isCallTo(cs, fn) {
						ctxs = append(ctxs, ctx{g, cs})
						if !(typeName(recvType(g)) == "compiledQuery" && cname(g) == "Compile") {
							all = false
						}
					}
				}
			}
			inCompile = all && len(ctxs) > 0
		}
		noExclIn := func(f *ssa.Function, at ssa.Instruction) string {
			if !factBefore(f, at, "exclusive=false") {
				return "`exclusive` is not known to be false here"
			}
			if !factBefore(f, at, "lenzero(exclude)") {
				return "`exclude` is not known to be empty here"
			}
			return ""
		}
		noExcl := func(at ssa.Instruction) string {
			if isTop || len(ctxs) == 0 {
				return noExclIn(fn, at)
			}
			// in a helper: guarded by a bool parameter whose argument at every call implies the two facts
			for _, pr := range fn.Params {
				bt, ok := pr.Type().Underlying().(*types.Basic)
				if !ok || bt.Kind() != types.Bool || !factBefore(fn, at, pr.Name()+"=true") {
					continue
				}
				why := ""
				for _, c := range ctxs {
					f := boolFacts(c.site.Common().Args[paramIndex(pr)], true, 0)
					if !(f["exclusive=false"] && f["lenzero(exclude)"]) {
						why = "the argument for parameter " + pr.Name() + " at " + p.Pos(c.site.Pos()) + " does not imply that exclusive is false and exclude is empty"
					}
				}
				return why
			}
			return "the store in helper " + cname(fn) + " is not guarded by a flag that the caller derives from `!exclusive && len(exclude) == 0`"
		}
		underTarget := cname(fn) == "Compile" && factBefore(fn, st, "hasTarget=true")
		for _, c := range ctxs {
			if inCompile && factBefore(c.caller, c.site.(ssa.Instruction), "hasTarget=true") {
				underTarget = true
			}
		}
		switch kind {
		case "A":
			if underTarget {
				r.Bad(name, construct, pos, "a target is given here, but the filter stored is the plain mask filter: the target clause is lost")
			} else if !inCompile {
				r.Bad(name, construct, pos, "outside Compile the filter may only be wrapped (Register) or restored (Unregister); storing the plain mask filter drops a relation clause compiled earlier")
			} else {
				r.OK(name, construct, pos, "the full mask filter (include and exclude), where no target is given")
			}
		case "B":
			if underTarget || !inCompile {
				r.Bad(name, construct, pos, "the include mask alone is stored where a target is given / outside Compile: clauses are lost")
			} else if why := noExcl(st); why != "" {
				r.Bad(name, construct, pos, "the include mask alone is used as the filter, but "+why+": the exclude clause is lost")
			} else {
				r.OK(name, construct, pos, "include mask alone, where exclusive is false and exclude is empty (the exclude mask is zero)")
			}
		case "C":
			// the relation filter is (re)built on every path before this store; every such assignment is checked
			var mks []*ssa.Store
			for _, b2 := range fn.Blocks {
				for _, i2 := range b2.Instrs {
					if s2, ok := i2.(*ssa.Store); ok {
						if fa, ok := s2.Addr.(*ssa.FieldAddr); ok && typeName(fa.X.Type()) == "compiledQuery" && fieldName(fa.X.Type(), fa.Field) == "relationFilter" {
							mks = append(mks, s2)
						}
					}
				}
			}
			built := &MustFlow{Fn: fn, InstrGen: func(i2 ssa.Instruction) bool {
				for _, s2 := range mks {
					if i2 == ssa.Instruction(s2) {
						return true
					}
				}
				return false
			}}
			built.Run()
			switch {
			case !underTarget:
				r.Bad(name, construct, pos, "the relation filter is stored where `hasTarget` is not known true")
			case !built.Before(st):
				r.Bad(name, construct, pos, "the relation filter is not (re)built by NewRelationFilter on every path to this store: a stale target or filter would be used")
			default:
				bad, good := "", ""
				for _, s2 := range mks {
					mk := callOf(s2.Val)
					if al, ok := s2.Val.(*ssa.Alloc); ok && mk == nil {
						// &local, where local := NewRelationFilter(...) (a relation filter allocated per compilation)
						for _, ref := range *al.Referrers() {
							if s3, ok := ref.(*ssa.Store); ok && s3.Addr == ssa.Value(al) {
								mk = callOf(s3.Val)
							}
						}
					}
					var innerV, targetV ssa.Value
					if mk != nil && mk.Common().StaticCallee() != nil && cname(mk.Common().StaticCallee()) == "NewRelationFilter" {
						innerV, targetV = mk.Common().Args[0], mk.Common().Args[1]
					} else if al, ok := s2.Val.(*ssa.Alloc); ok {
						// &ecs.RelationFilter{Filter: …, Target: …}: the constructor written out as a literal
						for _, ref := range *al.Referrers() {
							fa, ok := ref.(*ssa.FieldAddr)
							if !ok || typeName(fa.X.Type()) != "RelationFilter" {
								continue
							}
							for _, r2 := range *fa.Referrers() {
								if s3, ok := r2.(*ssa.Store); ok && s3.Addr == ssa.Value(fa) {
									switch fieldName(fa.X.Type(), fa.Field) {
									case "Filter":
										innerV = s3.Val
									case "Target":
										targetV = s3.Val
									}
								}
							}
						}
					}
					if innerV == nil || targetV == nil {
						bad = "the relation filter is assigned something other than NewRelationFilter(...)"
						continue
					}
					ik, _ := classify(innerV)
					tgt, isP := targetV.(*ssa.Parameter)
					switch {
					case !isP || tgt.Name() != "target":
						bad = "the relation filter's target is " + apath(targetV) + ", not the `target` argument"
					case ik == "A":
						good = "NewRelationFilter(&maskFilter, target): include, exclude and target clauses all present"
					case ik == "B":
						if why := noExcl(s2); why != "" {
							bad = "the relation filter wraps the include mask alone, but " + why + ": Without/Exclusive would be ignored for fixed targets"
						} else {
							good = "NewRelationFilter(include, target) where the exclude mask is zero"
						}
					default:
						bad = "the relation filter wraps " + apath(innerV) + ", which is neither the mask filter nor its include mask"
					}
				}
				if bad != "" {
					r.Bad(name, construct, pos, bad)
				} else {
					r.OK(name, construct, pos, good)
				}
			}
		case "D":
			// cachedFilter = Cache.Register(load q.filter) earlier in the same block
			okd := false
			for _, ins := range st.Block().Instrs {
				if ins == ssa.Instruction(st) {
					break
				}
				if s2, ok := ins.(*ssa.Store); ok {
					if fa, ok := s2.Addr.(*ssa.FieldAddr); ok && fieldName(fa.X.Type(), fa.Field) == "cachedFilter" {
						if c := callOf(s2.Val); c != nil && c.Common().StaticCallee() != nil && cname(c.Common().StaticCallee()) == "Register" {
							if _, f, _, ok := loadedField(c.Common().Args[1]); ok && f == "filter" {
								okd = true
							}
						}
					}
				}
			}
			r.Check(okd, name, construct, pos, "the cached filter stored is the one just returned by Cache.Register(q.filter)")
		case "U":
			// argument: type assertion of the current filter
			oku := false
			v := inner
			if ex, ok := v.(*ssa.Extract); ok {
				v = ex.Tuple
			}
			if ta, ok := v.(*ssa.TypeAssert); ok {
				if _, f, _, ok := loadedField(ta.X); ok && f == "filter" {
					oku = true
				}
			}
			r.Check(oku, name, construct, pos, "the filter restored is what Cache.Unregister returns for the current (cached) filter: the original filter with all its clauses")
		case "H":
			call := callOf(inner)
			h := call.Common().StaticCallee()
			var bad []string
			for _, hr := range helperKinds(h) {
				switch hr.kind {
				case "A":
				case "B":
					if hr.param == "" {
						bad = append(bad, cname(h)+" returns the include mask alone on a path not guarded by a bool parameter")
						continue
					}
					var arg ssa.Value
					for pi, pr := range h.Params {
						if pr.Name() == hr.param {
							arg = call.Common().Args[pi]
						}
					}
					f := boolFacts(arg, true, 0)
					if !(f["exclusive=false"] && f["lenzero(exclude)"]) {
						bad = append(bad, "the argument for "+cname(h)+"'s parameter "+hr.param+" does not imply that exclusive is false and exclude is empty")
					}
				default:
					bad = append(bad, cname(h)+" may return a filter of kind "+hr.kind)
				}
			}
			switch {
			case underTarget || !inCompile:
				r.Bad(name, construct, pos, "a plain filter from "+cname(h)+" is stored where a target is given / outside Compile: clauses are lost")
			case len(bad) > 0:
				r.Bad(name, construct, pos, strings.Join(bad, "; "))
			default:
				r.OK(name, construct, pos, cname(h)+" returns the full mask filter, or the include mask alone only under a flag that the caller passes as `!exclusive && len(exclude) == 0`")
			}
		default:
			r.Bad(name, construct, pos, "the value stored as the filter ("+apath(inner)+") is none of: mask filter, include mask, relation filter, cached filter, Cache.Unregister result")
		}
	}
}
