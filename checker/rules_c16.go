package main

import (
	"fmt"
	"go/constant"
	"go/token"
	"go/types"
	"math"
	"sort"
	"strings"

	"golang.org/x/tools/go/ssa"
)

func init() {
	register(&Property{
		ID: "C16",
		Decides: "the chain of integer computations from the registry's type count / a fresh id to every allocation of a table's layout array admits MaskTotalBits of the build: no conversion or fixed-width addition on it can wrap (R1); the registry insert is guarded by the limit, which is MaskTotalBits (R2 = C10.U6); the undo of a registration writes every field the registration writes (R3); " +
			"both implementations of `is this type a relation` test struct kind, at least one field, field 0, the marker type and its name (R4); component accessors read the component registry and resource accessors the resource registry (R5); registration under lock is rolled back (R6 = C09.R5); layout extension reaches every table of every node (R7).",
		NotDecided:  "that entities with high ids actually work beyond the capacity chain; density and stability of id assignment over histories (follows from the map/len discipline but is not decided).",
		Assumptions: append([]string{"axioms of the interval evaluation: componentRegistry.Count() ∈ [0, MaskTotalBits], a fresh id ∈ [0, MaskTotalBits-1] (both justified by the limit guard, C10.U6)"}, commonAssumptions...),
		Rules: []Rule{
			{ID: "C16.R1", Floor: 2, Run: c16r1, Text: "layout-capacity chain (E-int): interval evaluation of the def-use chain from every make([]layout, n) back to the registry count / fresh id; every integer conversion and every addition/multiplication in a type narrower than int on that chain must admit its operand's maximum"},
			{ID: "C16.R2", Floor: 2, Run: c10u6, Text: "limit guard (= C10.U6): the insert is dominated by `len >= limit → panic`, limit is MaskTotalBits"},
			{ID: "C16.R3", Floor: 5, Run: c16r3, Text: "register/rollback inverse: every registry field written by the register method is written by the undo method"},
			{ID: "C16.R4", Floor: 10, Run: c16r4, Text: "isRelation siblings: each implementation tests Kind()==Struct, NumField()>0, Field(0), field type == marker type, field is embedded (Anonymous)"},
			{ID: "C16.R5", Floor: 4, Run: c16r5, Text: "accessors read the registry they document: ComponentIDs/ComponentInfo/ComponentID/TypeID use World.registry; ResourceIDs/ResourceType/ResourceID/ResourceTypeID use World.resources.registry"},
			{ID: "C16.R6", Floor: 1, Run: c09r5, Text: "registration under lock is rolled back completely (= C09.R5)"},
			{ID: "C16.R7", Floor: 1, Run: c16r7, Text: "layout extension reaches every table: in every loop that extends table layouts, the extending call lies on every path of an iteration (no activity filter)"},
			{ID: "C16.R8", Floor: 2, Run: c16r8, Text: "narrowing of registry sizes: in methods of componentRegistry every conversion of len(<registry collection>) (± constant) to uint8 provably fits: the length is at most the build's id limit (R2), below it under the limit guard, and minus c after a subtraction; a conversion whose operand can reach 256 wraps to 0"},
			{ID: "C16.R9", Floor: 2, Run: typeParamReflection, Text: "reflection of type parameters: reflect.TypeOf is never applied to a value of bare type-parameter type (nil for interface type arguments, so distinct types collapse into one registry key); the idiom reflect.TypeOf((*T)(nil)).Elem() is followed by Elem()"},
			{ID: "C16.R10", Floor: 2, Run: typeArgPassedThrough, Text: "TypeID / ResourceTypeID hand the reflect.Type they were given to the registry unchanged (= C20.R12)"},
			{ID: "C16.R11", Floor: 2, Run: narrowCounters, Text: "narrow counters fit their limit (= C09.R11): per-chunk use counts of the id maps and the lock-bit counters cannot wrap for the id limit of the build"},
			{ID: "C16.R12", Floor: 1, Run: layoutCountFromCount, Text: "the layout count covers every registered id: wherever a size is rounded up by layoutChunkSize its first argument is the registry's Count() itself"},
			{ID: "C16.R13", Floor: 1, Run: rootTablesNotEnumerated, Text: "World.archetypes is not used to enumerate tables (= C17.R10): it holds only the tables of nodes without a relation"},
			{ID: "C16.R14", Floor: 1, Run: typeListedForItsID, Text: "a column's type is the registry's type for its id (= C14.R8)"},
			{ID: "C16.R15", Floor: 4, Run: registryKeyIsParam, Text: "the registry is keyed by the type as given: lookups, insertions and forwards of a reflect.Type parameter in package ecs use the parameter itself"},
		},
	})
}

type ival struct{ lo, hi float64 }

func (a ival) join(b ival) ival { return ival{math.Min(a.lo, b.lo), math.Max(a.hi, b.hi)} }
func (a ival) String() string   { return fmt.Sprintf("[%g,%g]", a.lo, a.hi) }

type intEval struct {
	p     *Prog
	mtb   float64
	r     *Reporter
	depth int
	busy  map[string]bool
	seen  map[string]bool // obligations emitted
}

func typeRange(t types.Type) (ival, bool) {
	b, ok := t.Underlying().(*types.Basic)
	if !ok || b.Info()&types.IsInteger == 0 {
		return ival{}, false
	}
	switch b.Kind() {
	case types.Uint8:
		return ival{0, 255}, true
	case types.Int8:
		return ival{-128, 127}, true
	case types.Uint16:
		return ival{0, 65535}, true
	case types.Int16:
		return ival{-32768, 32767}, true
	case types.Uint32:
		return ival{0, 4294967295}, true
	case types.Int32:
		return ival{-2147483648, 2147483647}, true
	case types.Uint, types.Uint64, types.Uintptr:
		return ival{0, 1.8e19}, true
	default:
		return ival{-9.2e18, 9.2e18}, true
	}
}

func (e *intEval) check(fn *ssa.Function, what string, pos token.Pos, v ival, t types.Type) ival {
	tr, ok := typeRange(t)
	if !ok {
		return v
	}
	name := e.p.FuncName(fn)
	key := name + "|" + what
	fits := v.hi <= tr.hi && v.lo >= tr.lo
	if !e.seen[key] || !fits {
		e.seen[key] = true
		if fits {
			e.r.OK(name, what, e.p.Pos(pos), fmt.Sprintf("operand range %v fits %s", v, t))
		} else {
			e.r.Bad(name, what, e.p.Pos(pos), fmt.Sprintf("operand range %v does not fit %s (%v): with MaskTotalBits = %g registered types the value wraps", v, t, tr, e.mtb))
		}
	}
	if !fits {
		return tr
	}
	return v
}

func (e *intEval) eval(v ssa.Value, env map[*ssa.Parameter]ival) ival {
	e.depth++
	defer func() { e.depth-- }()
	unknown := ival{0, e.mtb + 16}
	if e.depth > 40 {
		return unknown
	}
	switch x := v.(type) {
	case *ssa.Const:
		if x.Value != nil && x.Value.Kind() == constant.Int {
			f, _ := constant.Float64Val(x.Value)
			return ival{f, f}
		}
		return ival{0, 0}
	case *ssa.Parameter:
		if iv, ok := env[x]; ok {
			return iv
		}
		// join over all static call sites
		fn := x.Parent()
		idx := paramIndex(x)
		key := "P|" + fn.String() + "|" + x.Name()
		if e.busy[key] {
			return unknown
		}
		e.busy[key] = true
		defer func() { e.busy[key] = false }()
		var res *ival
		for _, cf := range e.p.Funcs {
			for _, site := range callsIn(cf) {
				if !isCallTo(site, fn) || idx >= len(site.Common().Args) {
					continue
				}
				iv := e.eval(site.Common().Args[idx], nil)
				if res == nil {
					res = &iv
				} else {
					j := res.join(iv)
					res = &j
				}
			}
		}
		if res == nil {
			return unknown
		}
		return *res
	case *ssa.Convert:
		in := e.eval(x.X, env)
		return e.check(x.Parent(), "convert "+apath(x.X)+" to "+types.TypeString(x.Type(), nil), x.Pos(), in, x.Type())
	case *ssa.ChangeType:
		return e.eval(x.X, env)
	case *ssa.BinOp:
		a, b := e.eval(x.X, env), e.eval(x.Y, env)
		var out ival
		switch x.Op {
		case token.ADD:
			out = ival{a.lo + b.lo, a.hi + b.hi}
		case token.SUB:
			out = ival{a.lo - b.hi, a.hi - b.lo}
		case token.MUL:
			out = ival{a.lo * b.lo, a.hi * b.hi}
		case token.QUO:
			if b.lo > 0 {
				out = ival{math.Floor(a.lo / b.hi), math.Floor(a.hi / b.lo)}
			} else {
				out = a
			}
		case token.REM:
			out = ival{0, math.Max(0, b.hi-1)}
		default:
			return unknown
		}
		if tr, ok := typeRange(x.Type()); ok && tr.hi < 1e9 {
			return e.check(x.Parent(), "arithmetic "+apath(x.X)+" "+x.Op.String()+" "+apath(x.Y)+" in "+types.TypeString(x.Type(), nil), x.Pos(), out, x.Type())
		}
		return out
	case *ssa.Phi:
		key := "φ|" + x.Parent().String() + "|" + x.Name()
		if e.busy[key] {
			return ival{math.Inf(1), math.Inf(-1)} // neutral for join
		}
		e.busy[key] = true
		defer func() { e.busy[key] = false }()
		res := ival{math.Inf(1), math.Inf(-1)}
		for _, ed := range x.Edges {
			res = res.join(e.eval(ed, env))
		}
		return res
	case *ssa.Extract:
		if c := callOf(x.Tuple); c != nil {
			return e.evalCall(c, x.Index, env)
		}
	case *ssa.Call:
		return e.evalCall(x, 0, env)
	case *ssa.UnOp:
		if x.Op == token.MUL {
			// field loads: axioms
			if _, f, _, ok := loadedField(x); ok && f == "id" {
				return ival{0, e.mtb - 1}
			}
			if g, ok := x.X.(*ssa.Global); ok && cname(g) == "layoutChunkSize" {
				return ival{16, 16}
			}
		}
	}
	return unknown
}

func (e *intEval) evalCall(c *ssa.Call, resIdx int, env map[*ssa.Parameter]ival) ival {
	unknown := ival{0, e.mtb + 16}
	if b, ok := c.Call.Value.(*ssa.Builtin); ok {
		if b.Name() == "len" || b.Name() == "cap" {
			if _, f, _, ok := loadedField(c.Call.Args[0]); ok && f == "Components" {
				return ival{0, e.mtb}
			}
			if _, f, _, ok := loadedField(c.Call.Args[0]); ok && f == "layouts" {
				return ival{0, e.mtb + 16}
			}
		}
		return unknown
	}
	sc := c.Common().StaticCallee()
	if sc == nil || !e.p.isArche(sc) || sc.Blocks == nil {
		return unknown
	}
	name := e.p.FuncName(sc)
	switch name {
	case "ecs.(*componentRegistry).Count":
		return ival{0, e.mtb}
	case "ecs.(*componentRegistry).ComponentID":
		if resIdx == 0 {
			return ival{0, e.mtb - 1}
		}
	}
	key := "C|" + sc.String()
	if e.busy[key] {
		return unknown
	}
	e.busy[key] = true
	defer func() { e.busy[key] = false }()
	// pure helper: evaluate returns with parameter intervals
	cenv := map[*ssa.Parameter]ival{}
	for i, a := range c.Common().Args {
		if i < len(sc.Params) {
			if _, ok := typeRange(sc.Params[i].Type()); ok {
				cenv[sc.Params[i]] = e.eval(a, env)
			}
		}
	}
	res := ival{math.Inf(1), math.Inf(-1)}
	n := 0
	for _, b := range sc.Blocks {
		ret, ok := b.Instrs[len(b.Instrs)-1].(*ssa.Return)
		if !ok || resIdx >= len(ret.Results) {
			continue
		}
		n++
		res = res.join(e.eval(ret.Results[resIdx], cenv))
	}
	if n == 0 {
		return unknown
	}
	return res
}

func c16r1(p *Prog, r *Reporter) {
	mtbC, ok := p.Pkgs["ecs"].Types.Scope().Lookup("MaskTotalBits").(*types.Const)
	if !ok {
		r.Anchor("ecs.MaskTotalBits")
		return
	}
	mtb, _ := constant.Float64Val(mtbC.Val())
	e := &intEval{p: p, mtb: mtb, r: r, busy: map[string]bool{}, seen: map[string]bool{}}
	n := 0
	for _, fn := range p.Funcs {
		for _, b := range fn.Blocks {
			for _, ins := range b.Instrs {
				ms, ok := ins.(*ssa.MakeSlice)
				if !ok {
					continue
				}
				sl, ok := ms.Type().Underlying().(*types.Slice)
				if !ok || typeName(sl.Elem()) != "layout" {
					continue
				}
				n++
				iv := e.eval(ms.Len, nil)
				name := p.FuncName(fn)
				if iv.hi >= mtb && iv.hi < 1e6 {
					r.OK(name, "make([]layout, n)", p.Pos(ms.Pos()), fmt.Sprintf("n ranges over %v along the chain; reaches MaskTotalBits = %g without wrapping", iv, mtb))
				} else {
					r.Bad(name, "make([]layout, n)", p.Pos(ms.Pos()), fmt.Sprintf("n ranges over %v: the layout array cannot hold MaskTotalBits = %g component ids", iv, mtb))
				}
			}
		}
	}
	if n == 0 {
		r.Anchor("make([]layout, n)")
	}
}

func c16r3(p *Prog, r *Reporter) {
	reg := p.Fn("ecs.(*componentRegistry).registerComponent")
	undo := p.Fn("ecs.(*componentRegistry).unregisterLastComponent")
	if reg == nil || undo == nil {
		r.Anchor("ecs.(*componentRegistry).registerComponent / unregisterLastComponent")
		return
	}
	fields := func(fn *ssa.Function) map[string]bool {
		out := map[string]bool{}
		for _, pa := range p.Mod(fn).Paths() {
			if strings.HasPrefix(pa, "componentRegistry.") {
				out[firstField(pa[len("componentRegistry."):])] = true
			}
		}
		return out
	}
	rf, uf := fields(reg), fields(undo)
	var fs []string
	for f := range rf {
		fs = append(fs, f)
	}
	sort.Strings(fs)
	for _, f := range fs {
		if !uf[f] {
			r.Bad(p.FuncName(undo), "undo writes componentRegistry."+f, p.FnPos(undo), "the register method writes this field; the undo never does")
			continue
		}
		// on every return path
		field := f
		mf := &MustFlow{Fn: undo, InstrGen: func(i ssa.Instruction) bool {
			for _, w := range directWrites(i) {
				if strings.HasPrefix(w.Path, "componentRegistry."+field) {
					return true
				}
			}
			if site, ok := i.(ssa.CallInstruction); ok {
				for _, pa := range p.SiteMod(site).Paths() {
					if strings.HasPrefix(pa, "componentRegistry."+field) {
						return true
					}
				}
			}
			return false
		}}
		mf.Run()
		r.Check(mf.AtAllReturns(), p.FuncName(undo), "undo writes componentRegistry."+f, p.FnPos(undo), "the register method writes this field; the undo restores it on every path (unconditionally)")
	}
}

func c16r4(p *Prog, r *Reporter) {
	impls := []string{"ecs.(*componentRegistry).isRelation", "generic.(*compiledQuery).Compile"}
	for _, n := range impls {
		fn := p.Fn(n)
		if fn == nil {
			r.Anchor(n)
			continue
		}
		facts := map[string]bool{}
		fieldIdxOK := true
		// the test may live in the function itself or in a helper it calls (same package, two levels)
		var blocks []*ssa.BasicBlock
		for _, g := range withHelpers(p, fn, 2) {
			blocks = append(blocks, g.Blocks...)
		}
		for _, b := range blocks {
			for _, ins := range b.Instrs {
				switch x := ins.(type) {
				case *ssa.BinOp:
					if x.Op != token.EQL && x.Op != token.NEQ && x.Op != token.GTR {
						continue
					}
					xs, ys := apath(x.X), apath(x.Y)
					both := xs + " " + ys
					if strings.Contains(both, "call(Kind)") && (isConstInt(x.Y, 25) || isConstInt(x.X, 25)) {
						facts["Kind()==Struct"] = true
					}
					if strings.Contains(both, "call(NumField)") && (isConstInt(x.Y, 0) || isConstInt(x.X, 0)) {
						facts["NumField()>0"] = true
					}
					if strings.Contains(both, ".Type") && strings.Contains(both, "global:relationType") {
						facts["field type == marker type"] = true
					}
				case *ssa.Field:
					if fieldName(x.X.Type(), x.Field) == "Anonymous" && x.Referrers() != nil {
						for _, ref := range *x.Referrers() {
							switch ref.(type) {
							case *ssa.If, *ssa.Phi, *ssa.Return, *ssa.UnOp:
								facts["field is embedded (Anonymous)"] = true
							}
						}
					}
				case *ssa.UnOp:
					if x.Op == token.MUL {
						if fa, ok := x.X.(*ssa.FieldAddr); ok && fieldName(fa.X.Type(), fa.Field) == "Anonymous" && x.Referrers() != nil {
							for _, ref := range *x.Referrers() {
								switch ref.(type) {
								case *ssa.If, *ssa.Phi, *ssa.Return, *ssa.UnOp:
									facts["field is embedded (Anonymous)"] = true
								}
							}
						}
					}
				case *ssa.Call:
					if x.Common().IsInvoke() && x.Common().Method.Name() == "Field" {
						facts["Field(0)"] = true
						if !isConstInt(x.Common().Args[0], 0) {
							fieldIdxOK = false
						}
					}
				}
			}
		}
		name := p.FuncName(fn)
		for _, f := range []string{"Kind()==Struct", "NumField()>0", "Field(0)", "field type == marker type", "field is embedded (Anonymous)"} {
			okf := facts[f]
			if f == "Field(0)" {
				okf = okf && fieldIdxOK
			}
			r.Check(okf, name, "relation test: "+f, p.FnPos(fn), "both implementations of the relation test must agree")
		}
	}
}

func c16r5(p *Prog, r *Reporter) {
	want := map[string]bool{ // true = resource registry
		"ecs.ComponentIDs": false, "ecs.ComponentInfo": false, "ecs.(*World).componentID": false,
		"ecs.ResourceIDs": true, "ecs.ResourceType": true, "ecs.(*World).resourceID": true,
	}
	var names []string
	for n := range want {
		names = append(names, n)
	}
	sort.Strings(names)
	for _, n := range names {
		fn := p.Fn(n)
		if fn == nil {
			r.Anchor(n)
			continue
		}
		usesComp, usesRes := false, false
		for _, b := range fn.Blocks {
			for _, ins := range b.Instrs {
				fa, ok := ins.(*ssa.FieldAddr)
				if !ok || fieldName(fa.X.Type(), fa.Field) != "registry" {
					continue
				}
				switch typeName(fa.X.Type()) {
				case "World":
					usesComp = true
				case "Resources":
					usesRes = true
				}
			}
		}
		okc := (want[n] && usesRes && !usesComp) || (!want[n] && usesComp && !usesRes)
		which := "component registry (World.registry)"
		if want[n] {
			which = "resource registry (World.resources.registry)"
		}
		r.Check(okc, n, "uses the "+which, p.FnPos(fn), fmt.Sprintf("reads World.registry: %v, World.resources.registry: %v", usesComp, usesRes))
	}
}

func c16r7(p *Prog, r *Reporter) {
	ext := p.Fn("ecs.(*archetype).ExtendLayouts")
	if ext == nil {
		r.Anchor("ecs.(*archetype).ExtendLayouts")
		return
	}
	// extenders: functions (and closures) that (transitively) call ExtendLayouts
	extenders := map[*ssa.Function]bool{ext: true}
	for changed := true; changed; {
		changed = false
		for _, fn := range p.Funcs {
			if extenders[fn] {
				continue
			}
			if fn.Parent() == nil && (fn.Object() == nil || fn.Object().Exported()) {
				continue // only the internal chain below the registration path
			}
			for _, site := range callsIn(fn) {
				callees, _ := p.Callees(site)
				for _, sc := range callees {
					if extenders[sc] {
						extenders[fn] = true
						changed = true
					}
				}
			}
		}
	}
	everyIteration := func(fn *ssa.Function, b *ssa.BasicBlock) bool {
		for _, x := range fn.Blocks {
			for _, s := range x.Succs {
				if dominatesBlock(s, x) && dominatesBlock(s, b) && dominatesBlock(b, x) {
					return true
				}
			}
		}
		return false
	}
	for _, fn := range p.Funcs {
		for _, site := range callsIn(fn) {
			if !inLoop(site.Block()) {
				continue
			}
			// (a) a direct call of an extender inside a loop
			if sc := site.Common().StaticCallee(); sc != nil && extenders[sc] {
				r.Check(everyIteration(fn, site.Block()), p.FuncName(fn), "extend every table via "+p.FuncName(sc), p.Pos(site.Pos()), "the extending call is executed on every iteration of the loop over nodes/tables")
				continue
			}
			// (b) a call of the function's own function parameter inside a loop (a visitor helper): for every closure
			// that callers pass and that extends layouts, the visitor call runs on every iteration and the closure
			// reaches the extending call on every path
			pr, ok := site.Common().Value.(*ssa.Parameter)
			if !ok || pr.Parent() != fn {
				continue
			}
			for _, g := range p.Funcs {
				for _, cs := range callsIn(g) {
					if !isCallTo(cs, fn) || paramIndex(pr) >= len(cs.Common().Args) {
						continue
					}
					cl := closureFn(cs.Common().Args[paramIndex(pr)])
					if cl == nil || !extenders[cl] {
						continue
					}
					must := &MustFlow{Fn: cl, InstrGen: func(i2 ssa.Instruction) bool {
						c2, ok := i2.(ssa.CallInstruction)
						if !ok {
							return false
						}
						callees, _ := p.Callees(c2)
						for _, sc := range callees {
							if extenders[sc] {
								return true
							}
						}
						return false
					}}
					must.Run()
					okc := everyIteration(fn, site.Block()) && must.AtAllReturns()
					r.Check(okc, p.FuncName(g), "extend every table via "+p.FuncName(fn), p.Pos(cs.Pos()), "the visitor is called on every iteration of the helper's loop and the closure passed here reaches the extending call on every path")
				}
			}
		}
	}
}

// ---------- R8: narrowing conversions of registry sizes ----------

func c16r8(p *Prog, r *Reporter) {
	mtb, _ := p.Pkgs["ecs"].Types.Scope().Lookup("MaskTotalBits").(*types.Const)
	if mtb == nil {
		r.Anchor("ecs.MaskTotalBits")
		return
	}
	limit, _ := constant.Int64Val(mtb.Val())
	for _, fn := range p.Funcs {
		if typeName(recvType(fn)) != "componentRegistry" {
			continue
		}
		name := p.FuncName(fn)
		n := 0
		for _, b := range fn.Blocks {
			for _, ins := range b.Instrs {
				cv, ok := ins.(*ssa.Convert)
				if !ok {
					continue
				}
				bt, ok := cv.Type().Underlying().(*types.Basic)
				if !ok || bt.Kind() != types.Uint8 {
					continue
				}
				// operand: len(X) or len(X) - c / + c
				x := cv.X
				var off int64
				if bo, ok := x.(*ssa.BinOp); ok && (bo.Op == token.SUB || bo.Op == token.ADD) {
					if k, ok := constInt64(bo.Y); ok {
						if bo.Op == token.SUB {
							off = -k
						} else {
							off = k
						}
						x = bo.X
					}
				}
				call := callOf(x)
				if call == nil {
					continue
				}
				bi, ok := call.Call.Value.(*ssa.Builtin)
				if !ok || bi.Name() != "len" {
					continue
				}
				n++
				coll := apath(call.Call.Args[0])
				construct := fmt.Sprintf("uint8(len(%s)%+d) #%d", tail(coll), off, n)
				if off == 0 {
					construct = fmt.Sprintf("uint8(len(%s)) #%d", tail(coll), n)
				}
				max := limit // len ≤ limit by the limit guard of the register method (R2)
				// under a dominating `len(same) < L` guard the bound is L-1
				mf := &MustFlow{Fn: fn, EdgeGen: func(bb *ssa.BasicBlock, k int) bool {
					atom, holds, ok := edgeCond(bb, k)
					if !ok {
						return false
					}
					xx, rel, yy, ok := relOnEdge(atom, holds)
					if !ok {
						return false
					}
					isLenSame := func(v ssa.Value) bool {
						c := callOf(v)
						if c == nil {
							return false
						}
						bi, ok := c.Call.Value.(*ssa.Builtin)
						return ok && bi.Name() == "len" && apath(c.Call.Args[0]) == coll
					}
					isLimit := func(v ssa.Value) bool {
						if _, ok := v.(*ssa.Parameter); ok {
							return true // the limit parameter; its value is MaskTotalBits at every call (R2)
						}
						k, ok := constInt64(v)
						return ok && k <= limit
					}
					return isLenSame(xx) && rel == "<" && isLimit(yy) || isLenSame(yy) && rel == ">" && isLimit(xx)
				}}
				mf.Run()
				guarded := mf.Before(cv)
				if guarded {
					max = limit - 1
				}
				max += off
				if max <= 255 {
					why := fmt.Sprintf("at most %d (id limit %d", max, limit)
					if guarded {
						why += ", below it under the limit guard"
					}
					r.OK(name, construct, p.Pos(cv.Pos()), why+")")
				} else {
					r.Bad(name, construct, p.Pos(cv.Pos()), fmt.Sprintf("the operand can reach %d with a full registry (id limit %d) and wraps to %d as uint8", max, limit, max-256))
				}
			}
		}
	}
}

// withHelpers: fn and the functions of the same package it calls statically, up to the given depth.
func withHelpers(p *Prog, fn *ssa.Function, depth int) []*ssa.Function {
	seen := map[*ssa.Function]bool{fn: true}
	out := []*ssa.Function{fn}
	frontier := []*ssa.Function{fn}
	for d := 0; d < depth; d++ {
		var next []*ssa.Function
		for _, g := range frontier {
			for _, site := range callsIn(g) {
				sc := site.Common().StaticCallee()
				if sc == nil || sc.Pkg == nil || fn.Pkg == nil || sc.Pkg != fn.Pkg || sc.Blocks == nil || seen[sc] {
					continue
				}
				seen[sc] = true
				out = append(out, sc)
				next = append(next, sc)
			}
		}
		frontier = next
	}
	return out
}
