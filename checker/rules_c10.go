package main

import (
	"fmt"
	"go/token"
	"go/types"
	"sort"
	"strings"

	"golang.org/x/tools/go/ssa"
)

func init() {
	register(&Property{
		ID: "C10",
		Decides: "for every exported single-entity entry no path performs a write to entity, resource or filter-registration state and afterwards reaches an explicit panic (validate before mutate, R1); " +
			"uses that need a check are dominated by it: an API entity indexes the world's entity index only after the liveness test, resource slots are written only under their nil test, bulk counts under `count < 1 → panic`, filter registration under its comma-ok tests, the registry insert under the limit guard with MaskTotalBits (R2); " +
			"a function that sometimes returns nil never has that result dereferenced unchecked (R3); the value half of a value/flag option pair is compared, dereferenced or exposed only where its flag is known true, or travels together with its flag (R4).",
		NotDecided:  "equality of every observable before and after a failed call (creation of empty graph nodes before a validation panic is deliberately out of scope, DESIGN.md C10); illegal uses that surface only as Go run-time panics (unchecked accessors, closed queries); that every documented-illegal argument class has a check at all beyond those listed.",
		Assumptions: append([]string{"named infeasible pairs (checker/rules_c10.go r1Exceptions) are infeasible for the stated reason"}, commonAssumptions...),
		Rules: []Rule{
			{ID: "C10.R1", Floor: 15, Run: c10r1, Text: "validate before mutate (E-path): on no path of a single-entity entry does a write to S_core ∪ S_res ∪ S_cachereg precede an explicit panic (panics of callees included through summaries); named infeasible pairs are listed with reasons"},
			{ID: "C10.R2", Floor: 18, Run: c10r2, Text: "use requires check: U1 entity index access after Alive; U2 resource slot write under its nil test; U4 bulk count guard; U5 filter registration guards; U6 registry limit guard with MaskTotalBits"},
			{ID: "C10.R3", Floor: 1, Run: c10r3, Text: "nil-return contract: a pointer result that is nil on some return path is not dereferenced by a caller (directly or through a callee that dereferences the parameter unconditionally) without a nil test"},
			{ID: "C10.R5", Floor: 8, Run: c05r1, Text: "dead relation target (= C05.R1): every API-supplied target passes the zero-or-alive validation before it is stored, compared or used as a key, so that a dead target panics on every path, including no-op paths"},
			{ID: "C10.R4", Floor: 20, Run: c10r4, Text: "option-pair discipline: a read of the value field of a value/flag pair that is compared, has its address taken, is returned or passed on alone lies where the flag of the same base is known true; otherwise it travels with the flag (paired copy or paired pass)"},
			{ID: "C10.R6", Floor: 3, Run: c03r5, Text: "batch range consumption (= C03.R5): index arithmetic over a batch query uses the recorded [StartIndex, EndIndex) ranges, so an index past the batch is rejected instead of returning a row outside it"},
			{ID: "C10.R7", Floor: 1, Run: noDeferredEffects, Text: "no deferred state change (= C09.R10): a refused operation must not take effect through a defer"},
			{ID: "C10.R8", Floor: 3, Run: cacheNeverRecycles, Text: "filter ids are never recycled: no method of Cache calls intPool.Recycle (a CachedFilter handle has no generation, so a stale handle must stay invalid)"},
			{ID: "C10.R9", Floor: 20, Run: flagArgsNotComputed, Text: "option flags are not computed from values: at every call of an internal function with an (ID, bool) parameter pair the bool argument is a constant, a forwarded bool parameter, a stored flag or a presence test of a variadic argument - never derived from the value (the zero ID / zero entity are valid values)"},
			{ID: "C10.R10", Floor: 2, Run: pointerAssertedFilters, Text: "filters the library recognises by asserting *T (CachedFilter, RelationFilter) are implemented by *T only (go/types: T itself does not implement ecs.Filter), so a T passed by value cannot slip past the guard against double registration"},
			{ID: "C10.R11", Floor: 1, Run: cacheEntryMoves, Text: "moving cache entries keeps the id → position map exact (= C07.R14): unregistering twice keeps panicking"},
			{ID: "C10.R12", Floor: 1, Run: zeroIDNotAbsence, Text: "the zero ID never stands for absence in a comparison: no ==/!= on an ID operand that may hold the zero default of a missing option (component id 0 is a real id)"},
			{ID: "C10.R13", Floor: 2, Run: handleParamsReadOnly, Text: "registered-filter handles are read-only: no function writes through a *CachedFilter parameter; a zeroed handle carries id 0, a live id, so double unregistration would stop panicking"},
			{ID: "C10.R14", Floor: 5, Run: lookupBeforeLock, Text: "the registered-filter lookup comes before the lock (= C09.R14): using an unregistered handle panics without leaving the world locked"},
			{ID: "C10.R15", Floor: 2, Run: queryIntParamsRangeChecked, Text: "int arguments of query methods are not truncated (= C03.R16): a query index ≥ 2^32 is out of range and panics"},
			{ID: "C10.R16", Floor: 2, Run: sameTargetSkipChecked, Text: "the same-target shortcut comes after the relation check: wherever a table's RelationTarget is compared with the requested target to skip the work, the relation check (flag and id) of that table dominates the comparison"},
			{ID: "C10.R17", Floor: 1, Run: compileGuardFlag, Text: "a failed generic compilation changes nothing that later calls rely on (= C09.R18)"},
			{ID: "C10.R18", Floor: 1, Run: c09r5, Text: "registration under lock is rolled back completely (= C09.R5 = C16.R6): a failed registration leaves no relation flag behind"},
		},
	})
}

// ---------- R1 ----------

func isR1State(path string) bool {
	if isCore(path) {
		return true
	}
	// resources and filter registrations; the per-filter table lists (cacheEntry.Archetypes/Indices) are table
	// bookkeeping (S_graph) and, like empty nodes and tables, not counted (DESIGN.md C10 scope decision).
	if strings.Contains(path, ".Archetypes") || strings.Contains(path, ".Indices") {
		return false
	}
	// Type registration is not an entity operation: a sequence of registrations (NewMap2[A,B]) is a sequence of
	// independent operations, and the one registration that can be followed by a panic (locked world) is undone
	// there (C09.R5, C16.R3). Registries are therefore not part of the R1 state.
	return anySeg(path, "Resources.resources", "World.resources.resources",
		"Cache.filters", "Cache.indices", "Cache.intPool", "World.filterCache.filters", "World.filterCache.indices", "World.filterCache.intPool")
}

// r1Exceptions: explicit panics that cannot happen after the named mutation (infeasible pairs). One line of reason each.
var r1Exceptions = map[string]string{
	"ecs.(*World).copyTo":                 "copyTo's missing-component panic after a creation/exchange in the same call: the component ids passed to copyTo are the ids the entity's table was just built from",
	"ecs.(*entityPool).Recycle":           "Recycle's zero-id panic after the row removal in RemoveEntity: the entity passed the liveness test, and the reserved zero entity is never alive",
	"ecs.(*Cache).get":                    "get's unknown-id panic inside Register (through getArchetypes): only reached for a *CachedFilter argument, which Register rejects before it changes anything",
}

type r1Sum struct {
	mayPanic  bool   // some path from entry reaches an explicit panic (own or callee's)
	panicAt   string // where
	mayMutate bool
	bad       string // a write-then-panic path inside (empty if none)
}

type r1Analysis struct {
	p    *Prog
	sum  map[*ssa.Function]*r1Sum
	busy map[*ssa.Function]bool
}

func (a *r1Analysis) of(fn *ssa.Function) *r1Sum {
	if s, ok := a.sum[fn]; ok {
		return s
	}
	if a.busy[fn] || fn.Blocks == nil || !a.p.isArche(fn) {
		return &r1Sum{}
	}
	a.busy[fn] = true
	s := a.compute(fn)
	a.busy[fn] = false
	a.sum[fn] = s
	return s
}

func (a *r1Analysis) compute(fn *ssa.Function) *r1Sum {
	p := a.p
	s := &r1Sum{}
	name := p.FuncName(fn)
	_, excepted := r1Exceptions[name]
	// forward may-analysis: "a tracked write has happened" with the first such write
	in := map[*ssa.BasicBlock]string{} // "" = not mutated, else description of the write
	reach := map[*ssa.BasicBlock]bool{fn.Blocks[0]: true}
	work := []*ssa.BasicBlock{fn.Blocks[0]}
	outs := map[*ssa.BasicBlock]string{}
	done := map[*ssa.BasicBlock]bool{}
	for len(work) > 0 {
		b := work[0]
		work = work[1:]
		st := in[b]
		cut := p.info(fn).cutAt[b]
		for i, ins := range b.Instrs {
			if pn, ok := ins.(*ssa.Panic); ok {
				if !excepted {
					s.mayPanic = true
					if s.panicAt == "" {
						s.panicAt = name + " at " + p.Pos(pn.Pos())
					}
					if st != "" && s.bad == "" {
						s.bad = st + ", then panic at " + p.Pos(pn.Pos())
					}
				}
			}
			for _, w := range directWrites(ins) {
				if isR1State(w.Path) && st == "" {
					st = "write " + w.Path + " at " + p.Pos(w.Pos)
				}
			}
			if site, ok := ins.(ssa.CallInstruction); ok {
				callees, boundary := p.Callees(site)
				if !boundary {
					for _, cal := range callees {
						if !p.isArche(cal) || cal.Blocks == nil {
							continue
						}
						cs := a.of(cal)
						if cs.bad != "" && s.bad == "" {
							s.bad = p.FuncName(cal) + ": " + cs.bad
						}
						if cs.mayPanic {
							s.mayPanic = true
							if s.panicAt == "" {
								s.panicAt = cs.panicAt
							}
							if st != "" && s.bad == "" {
								s.bad = st + ", then " + p.FuncName(cal) + " may panic (" + cs.panicAt + ")"
							}
						}
					}
					if st == "" {
						sm := p.SiteMod(site)
						for _, k := range sortedKeys(sm.W) {
							w := sm.W[k]
							if !isR1State(w.Path) {
								continue
							}
							if w.In != nil && p.FuncName(w.In) == "ecs.(*archetype).Init" {
								continue // initialisation of a freshly added, empty table: graph creation, out of R1's scope
							}
							st = "write " + w.Path + " via " + p.chain(w)
							break
						}
					}
				}
			}
			if cut == i {
				break
			}
		}
		if st != "" {
			s.mayMutate = true
		}
		if done[b] && outs[b] == st {
			continue
		}
		// monotone: once mutated stays mutated
		if done[b] && outs[b] != "" {
			continue
		}
		outs[b] = st
		done[b] = true
		if cut >= 0 {
			continue
		}
		for _, su := range b.Succs {
			if !reach[su] {
				reach[su] = true
				in[su] = st
				work = append(work, su)
			} else if in[su] == "" && st != "" {
				in[su] = st
				work = append(work, su)
			}
		}
	}
	if excepted {
		s.mayPanic = false
		s.bad = ""
	}
	return s
}

func isBatchEntry(fn *ssa.Function) bool {
	if typeName(recvType(fn)) == "Batch" || strings.Contains(cname(fn), "Batch") || cname(fn) == "RemoveEntities" {
		return true
	}
	for _, pr := range fn.Params {
		if isNamed(pr.Type(), "/ecs", "Filter") {
			if _, ok := pr.Type().Underlying().(*types.Interface); ok {
				return true
			}
		}
	}
	return false
}

func c10r1(p *Prog, r *Reporter) {
	a := &r1Analysis{p: p, sum: map[*ssa.Function]*r1Sum{}, busy: map[*ssa.Function]bool{}}
	for name := range r1Exceptions {
		if p.Fn(name) == nil {
			r.Anchor(name)
		}
	}
	for _, pkg := range []string{"ecs", "generic"} {
		for _, e := range p.Entries(pkg) {
			if isBatchEntry(e) || !reachesExistingState(e) {
				continue
			}
			s := a.of(e)
			if !s.mayMutate {
				continue
			}
			name := p.FuncName(e)
			if s.bad != "" {
				r.Bad(name, "validate before mutate", p.FnPos(e), "a path changes state and then panics: "+s.bad)
			} else {
				d := "no tracked write precedes an explicit panic on any path"
				if s.mayPanic {
					d += "; first possible panic: " + s.panicAt
				}
				r.OK(name, "validate before mutate", p.FnPos(e), d)
			}
		}
	}
}

// ---------- R2 ----------

func c10r2(p *Prog, r *Reporter) {
	c10u1(p, r)
	c10u2(p, r)
	c10u4(p, r)
	c10u5(p, r)
	c10u6(p, r)
}

// U1: an API entity's id indexes World.entities only after Alive(entity).
func c10u1(p *Prog, r *Reporter) {
	may := p.entityAnalysis(false, true)
	chk := p.entityAnalysis(false, false)
	for _, e := range p.Entries("ecs") {
		for _, i := range entityParams(e) {
			ms := may.sum[e][i]
			if ms == nil || !ms.Index {
				continue
			}
			name := p.FuncName(e)
			pn := e.Params[i].Name()
			if strings.Contains(e.Name(), "Unchecked") {
				r.OKt(name, "U1 entity parameter "+pn, p.FnPos(e), "documented unchecked accessor: exempt")
				continue
			}
			cs := chk.sum[e][i]
			if cs != nil && cs.Index {
				r.Bad(name, "U1 entity parameter "+pn, p.FnPos(e), "the entity's id indexes the world's entity index without a dominating liveness test: "+cs.UseAt)
			} else {
				r.OK(name, "U1 entity parameter "+pn, p.FnPos(e), "every index access ("+ms.UseAt+") is dominated by Alive(entity) with panic on the other edge")
			}
		}
	}
}

// U2: stores to Resources.resources[i] (outside the reset loop) are dominated by a nil test of the same slot whose other edge panics.
func c10u2(p *Prog, r *Reporter) {
	for _, fn := range p.Funcs {
		for _, b := range fn.Blocks {
			for _, ins := range b.Instrs {
				st, ok := ins.(*ssa.Store)
				if !ok {
					continue
				}
				ia, ok := st.Addr.(*ssa.IndexAddr)
				if !ok {
					continue
				}
				_, fld, _, ok := loadedField(ia.X)
				if !ok || fld != "resources" || typeName(fieldOwner(ia.X)) != "Resources" {
					continue
				}
				name := p.FuncName(fn)
				slot := apath(ia)
				if isNilConst(stripIface(st.Val)) && inLoop(b) && strings.Contains(slot, "·") {
					r.OKt(name, "U2 resource slot cleared in loop", p.Pos(st.Pos()), "reset loop: every slot set to nil")
					continue
				}
				mf := &MustFlow{Fn: fn, EdgeGen: func(x *ssa.BasicBlock, k int) bool {
					atom, _, ok := edgeCond(x, k)
					if !ok {
						return false
					}
					bo, isB := atom.(*ssa.BinOp)
					if !isB || (bo.Op != token.EQL && bo.Op != token.NEQ) {
						return false
					}
					if !(isNilConst(stripIface(bo.Y)) && apath(bo.X) == slot) && !(isNilConst(stripIface(bo.X)) && apath(bo.Y) == slot) {
						return false
					}
					return p.panicOnly(x.Succs[1-k])
				}}
				mf.Run()
				if mf.Before(st) {
					r.OK(name, "U2 resource slot write", p.Pos(st.Pos()), "dominated by the nil test of the same slot; the other edge panics")
				} else {
					r.Bad(name, "U2 resource slot write", p.Pos(st.Pos()), "a resource slot is written without a dominating nil / non-nil test of that slot that panics otherwise")
				}
			}
		}
	}
}

func stripIface(v ssa.Value) ssa.Value {
	for {
		switch x := v.(type) {
		case *ssa.MakeInterface:
			v = x.X
		case *ssa.ChangeInterface:
			v = x.X
		default:
			return v
		}
	}
}

func fieldOwner(v ssa.Value) types.Type {
	switch x := v.(type) {
	case *ssa.UnOp:
		if fa, ok := x.X.(*ssa.FieldAddr); ok {
			return fa.X.Type()
		}
	case *ssa.FieldAddr:
		return x.X.Type()
	case *ssa.Field:
		return x.X.Type()
	}
	return types.Typ[types.Invalid]
}

// U4: the count passed to the bulk creation primitive derives from a parameter tested `< 1 → panic`.
func c10u4(p *Prog, r *Reporter) {
	ce := p.Fn("ecs.(*World).createEntities")
	if ce == nil {
		r.Anchor("ecs.(*World).createEntities")
		return
	}
	for _, fn := range p.Funcs {
		for _, site := range callsIn(fn) {
			if !isCallTo(site, ce) {
				continue
			}
			arg := stripConvs(site.Common().Args[2])
			pr, ok := arg.(*ssa.Parameter)
			name := p.FuncName(fn)
			if !ok {
				r.Und(name, "U4 bulk count", p.Pos(site.Pos()), "the count passed to the bulk creation primitive is not a parameter of this function: "+apath(arg))
				continue
			}
			mf := &MustFlow{Fn: fn, EdgeGen: func(x *ssa.BasicBlock, k int) bool {
				atom, holds, ok := edgeCond(x, k)
				if !ok {
					return false
				}
				rel, c, ok := boundOnEdge(atom, holds, func(v ssa.Value) bool { return v == ssa.Value(pr) })
				return ok && impliesAtLeast(rel, c, 1) && p.panicOnly(x.Succs[1-k])
			}, InstrGen: func(i ssa.Instruction) bool {
				// a validating helper: a call that returns normally only if its argument (this count) is at least 1
				c2, ok := i.(ssa.CallInstruction)
				if !ok {
					return false
				}
				g := c2.Common().StaticCallee()
				if g == nil || g.Blocks == nil || !p.isArche(g) {
					return false
				}
				for j, a := range c2.Common().Args {
					if stripConvs(a) != ssa.Value(pr) || j >= len(g.Params) {
						continue
					}
					gp := g.Params[j]
					hm := &MustFlow{Fn: g, EdgeGen: func(x *ssa.BasicBlock, k int) bool {
						atom, holds, ok := edgeCond(x, k)
						if !ok {
							return false
						}
						rel, c, ok := boundOnEdge(atom, holds, func(v ssa.Value) bool { return v == ssa.Value(gp) })
						return ok && impliesAtLeast(rel, c, 1)
					}}
					hm.Run()
					if hm.AtAllReturns() {
						return true
					}
				}
				return false
			}}
			mf.Run()
			r.Check(mf.Before(site.(ssa.Instruction)), name, "U4 bulk count", p.Pos(site.Pos()), "the bulk creation is dominated by `"+pr.Name()+" < 1 → panic`")
		}
	}
}

// U5: Cache.Register rejects a *CachedFilter; Unregister and get panic on the comma-ok miss.
func c10u5(p *Prog, r *Reporter) {
	for _, fn := range p.Funcs {
		if typeName(recvType(fn)) != "Cache" {
			continue
		}
		name := p.FuncName(fn)
		for _, b := range fn.Blocks {
			for _, ins := range b.Instrs {
				switch x := ins.(type) {
				case *ssa.Lookup:
					if !x.CommaOk {
						continue
					}
					_, fld, _, ok := loadedField(x.X)
					if !ok || fld != "indices" {
						continue
					}
					// find If on extract #1
					okv := commaOkPanics(p, x, false)
					r.Check(okv, name, "U5 filter id lookup", p.Pos(x.Pos()), "the comma-ok miss of the filter-id lookup panics")
				case *ssa.TypeAssert:
					if !x.CommaOk || typeName(x.AssertedType) != "CachedFilter" {
						continue
					}
					if cname(fn) != "Register" {
						continue
					}
					okv := commaOkPanics(p, x, true)
					r.Check(okv, name, "U5 reject registered filter", p.Pos(x.Pos()), "a *CachedFilter argument panics before anything is registered")
				}
			}
		}
	}
}

// commaOkPanics: the tuple's ok result is branched on, and the edge where ok == panicWhen leads only to panic.
func commaOkPanics(p *Prog, tuple ssa.Value, panicWhen bool) bool {
	for _, ref := range *tuple.Referrers() {
		ex, ok := ref.(*ssa.Extract)
		if !ok || ex.Index != 1 {
			continue
		}
		for _, r2 := range *ex.Referrers() {
			iff, ok := r2.(*ssa.If)
			if !ok {
				continue
			}
			b := iff.Block()
			atom, trueSucc, _ := ifCond(b)
			if atom != ssa.Value(ex) {
				continue
			}
			succ := b.Succs[trueSucc]
			if !panicWhen {
				succ = b.Succs[1-trueSucc]
			}
			if p.panicOnly(succ) {
				return true
			}
		}
	}
	return false
}

// U6: the registry insert is dominated by `len >= limit → panic` and every caller passes MaskTotalBits.
func c10u6(p *Prog, r *Reporter) {
	reg := p.Fn("ecs.(*componentRegistry).registerComponent")
	if reg == nil {
		r.Anchor("ecs.(*componentRegistry).registerComponent")
		return
	}
	name := p.FuncName(reg)
	var limit *ssa.Parameter
	for _, pr := range reg.Params {
		if b, ok := pr.Type().Underlying().(*types.Basic); ok && b.Info()&types.IsInteger != 0 {
			limit = pr
		}
	}
	if limit == nil {
		r.Bad(name, "U6 limit guard", p.FnPos(reg), "the register method has no limit parameter")
		return
	}
	mf := &MustFlow{Fn: reg, EdgeGen: func(x *ssa.BasicBlock, k int) bool {
		atom, holds, ok := edgeCond(x, k)
		if !ok {
			return false
		}
		bo, isB := atom.(*ssa.BinOp)
		if !isB {
			return false
		}
		// on this edge `len(Components) < limit` must be known: a<b holds | a>=b fails | b>a holds | b<=a fails
		var lhs ssa.Value
		switch {
		case bo.Op == token.LSS && holds && bo.Y == ssa.Value(limit):
			lhs = bo.X
		case bo.Op == token.GEQ && !holds && bo.Y == ssa.Value(limit):
			lhs = bo.X
		case bo.Op == token.GTR && holds && bo.X == ssa.Value(limit):
			lhs = bo.Y
		case bo.Op == token.LEQ && !holds && bo.X == ssa.Value(limit):
			lhs = bo.Y
		default:
			return false
		}
		// lhs must be len(r.Components)
		c := callOf(lhs)
		if c == nil {
			return false
		}
		if bi, ok := c.Call.Value.(*ssa.Builtin); !ok || bi.Name() != "len" {
			return false
		}
		if _, fld, _, ok := loadedField(c.Call.Args[0]); !ok || fld != "Components" {
			return false
		}
		return p.panicOnly(x.Succs[1-k])
	}}
	mf.Run()
	n := 0
	for _, b := range reg.Blocks {
		for _, ins := range b.Instrs {
			if mu, ok := ins.(*ssa.MapUpdate); ok {
				n++
				r.Check(mf.Before(mu), name, "U6 limit guard", p.Pos(mu.Pos()), "the insert is dominated by `len(Components) >= limit → panic`")
			}
		}
	}
	if n == 0 {
		r.Bad(name, "U6 limit guard", p.FnPos(reg), "no insert into the type map found")
	}
	mtb, _ := p.Pkgs["ecs"].Types.Scope().Lookup("MaskTotalBits").(*types.Const)
	for _, fn := range p.Funcs {
		for _, site := range callsIn(fn) {
			if !isCallTo(site, reg) {
				continue
			}
			arg := site.Common().Args[paramIndex(limit)]
			c, ok := arg.(*ssa.Const)
			okv := ok && mtb != nil && c.Value != nil && c.Value.ExactString() == mtb.Val().ExactString()
			r.Check(okv, p.FuncName(fn), "U6 limit is MaskTotalBits", p.Pos(site.Pos()), fmt.Sprintf("limit argument %s, MaskTotalBits %v", apath(arg), mtb.Val()))
		}
	}
}

// ---------- R3: nil-return contract ----------

var r3Exceptions = map[string]string{
	"ecs.(*World).assign": "assign passes a non-empty add list (dominating length check), for which exchangeNoNotify never takes its nil-returning early exit",
}

func c10r3(p *Prog, r *Reporter) {
	// SometimesNil(f, i)
	type key struct {
		fn  *ssa.Function
		i   int
		fld int // -1: the i-th result itself; otherwise pointer field fld of the (single, struct-valued) result
	}
	some := map[key]bool{}
	// retNil: the return hands out a literal nil for the key's component
	retNil := func(ret *ssa.Return, k key) bool {
		if k.i >= len(ret.Results) {
			return false
		}
		x := ret.Results[k.i]
		if k.fld < 0 {
			return isNilConst(x)
		}
		if c, ok := x.(*ssa.Const); ok {
			return c.Value == nil // the zero struct
		}
		if u, ok := x.(*ssa.UnOp); ok && u.Op == token.MUL {
			if al, ok := u.X.(*ssa.Alloc); ok {
				stores, nils := 0, 0
				for _, ref := range *al.Referrers() {
					fa, ok := ref.(*ssa.FieldAddr)
					if !ok || fa.Field != k.fld {
						continue
					}
					for _, r2 := range *fa.Referrers() {
						if st, ok := r2.(*ssa.Store); ok && st.Addr == fa {
							stores++
							if isNilConst(st.Val) {
								nils++
							}
						}
					}
				}
				return stores == nils
			}
		}
		return false
	}
	for _, fn := range p.Funcs {
		res := fn.Signature.Results()
		// a single struct-valued result with pointer fields: each pointer field is a component
		if res.Len() == 1 && fn.Blocks != nil && p.isArche(fn) {
			if st, ok := res.At(0).Type().Underlying().(*types.Struct); ok {
				for j := 0; j < st.NumFields(); j++ {
					if _, ok := st.Field(j).Type().Underlying().(*types.Pointer); !ok {
						continue
					}
					k := key{fn, 0, j}
					hasNil, hasNon := false, false
					for _, b := range fn.Blocks {
						if ret, ok := b.Instrs[len(b.Instrs)-1].(*ssa.Return); ok {
							if retNil(ret, k) {
								hasNil = true
							} else {
								hasNon = true
							}
						}
					}
					if hasNil && hasNon {
						some[k] = true
					}
				}
			}
		}
		for i := 0; i < res.Len(); i++ {
			if _, ok := res.At(i).Type().Underlying().(*types.Pointer); !ok {
				continue
			}
			hasNil, hasNon := false, false
			for _, b := range fn.Blocks {
				ret, ok := b.Instrs[len(b.Instrs)-1].(*ssa.Return)
				if !ok || i >= len(ret.Results) {
					continue
				}
				if isNilConst(ret.Results[i]) {
					hasNil = true
				} else {
					hasNon = true
				}
			}
			// comma-ok style (last result bool that callers branch on) is a different contract
			if hasNil && hasNon {
				if res.Len() >= 2 {
					if b, ok := res.At(res.Len()-1).Type().Underlying().(*types.Basic); ok && b.Kind() == types.Bool {
						continue
					}
				}
				some[key{fn, i, -1}] = true
			}
		}
	}
	mustDeref := func(g *ssa.Function, j int) (bool, string) {
		if g.Blocks == nil || j >= len(g.Params) {
			return false, ""
		}
		pr := g.Params[j]
		nilKnown := &MustFlow{Fn: g, EdgeGen: func(x *ssa.BasicBlock, k int) bool { return nonNilEdge(x, k, pr) }}
		nilKnown.Run()
		for _, b := range g.Blocks {
			for _, ins := range b.Instrs {
				if derefs(ins, pr) && !nilKnown.Before(ins) {
					return true, p.Pos(posOf(ins))
				}
			}
		}
		return false, ""
	}
	var keys []key
	for k := range some {
		keys = append(keys, k)
	}
	sort.Slice(keys, func(i, j int) bool {
		if a, b := p.FuncName(keys[i].fn), p.FuncName(keys[j].fn); a != b {
			return a < b
		}
		if keys[i].i != keys[j].i {
			return keys[i].i < keys[j].i
		}
		return keys[i].fld < keys[j].fld
	})
	for _, k := range keys {
		for _, fn := range p.Funcs {
			for _, site := range callsIn(fn) {
				if !isCallTo(site, k.fn) {
					continue
				}
				call, ok := site.(*ssa.Call)
				if !ok {
					continue
				}
				// the values through which this call's component is seen (one Extract, or one Field per selector)
				var vs []ssa.Value
				switch {
				case k.fld >= 0:
					for _, ref := range *call.Referrers() {
						if fx, ok := ref.(*ssa.Field); ok && fx.X == call && fx.Field == k.fld {
							vs = append(vs, fx)
						}
					}
				case k.fn.Signature.Results().Len() > 1:
					for _, ref := range *call.Referrers() {
						if ex, ok := ref.(*ssa.Extract); ok && ex.Index == k.i {
							vs = append(vs, ex)
						}
					}
				default:
					vs = []ssa.Value{call}
				}
				name := p.FuncName(fn)
				construct := "result of " + p.FuncName(k.fn)
				if k.fld >= 0 {
					construct += " (pointer field " + fieldName(k.fn.Signature.Results().At(0).Type(), k.fld) + ")"
				}
				if len(vs) == 0 {
					r.OKt(name, construct, p.Pos(call.Pos()), "the sometimes-nil result is not used")
					continue
				}
				if why, ok := r3Exceptions[name]; ok {
					r.OKt(name, construct, p.Pos(call.Pos()), "named exception: "+why)
					continue
				}
				// results that are nil together: a nil test of result i also guards result k.i if every
				// return with a literal nil at k.i has a literal nil at i
				guards := append([]ssa.Value{}, vs...)
				nOwn := len(guards)
				impliedBy := func(other key) bool {
					for _, b := range k.fn.Blocks {
						ret, ok := b.Instrs[len(b.Instrs)-1].(*ssa.Return)
						if !ok {
							continue
						}
						if retNil(ret, k) && !retNil(ret, other) {
							return false
						}
					}
					return true
				}
				if k.fld >= 0 {
					for _, ref := range *call.Referrers() {
						if fx, ok := ref.(*ssa.Field); ok && fx.X == call && fx.Field != k.fld {
							if _, isP := fx.Type().Underlying().(*types.Pointer); isP && impliedBy(key{k.fn, 0, fx.Field}) {
								guards = append(guards, fx)
							}
						}
					}
				} else if k.fn.Signature.Results().Len() > 1 {
					for _, ref := range *call.Referrers() {
						ex, ok := ref.(*ssa.Extract)
						if !ok || ex.Index == k.i {
							continue
						}
						if impliedBy(key{k.fn, ex.Index, -1}) {
							guards = append(guards, ex)
						}
					}
				}
				nn := &MustFlow{Fn: fn, EdgeGen: func(x *ssa.BasicBlock, kk int) bool {
					for _, gv := range guards {
						if nonNilEdge(x, kk, gv) {
							return true
						}
					}
					return false
				}}
				nn.Run()
				bad := ""
				for _, v := range vs {
					if v.Referrers() == nil {
						continue
					}
					for _, ref := range *v.Referrers() {
						ins := ref
						if nn.Before(ins) {
							continue
						}
						if derefs(ins, v) && !nilPathFeasible(fn, v, guards[nOwn:], ins) {
							continue // no path on which the result is nil reaches the dereference (branch conditions over nil comparisons enumerated)
						}
						if derefs(ins, v) {
							bad = "dereferenced at " + p.Pos(posOf(ins)) + " without a nil test"
							break
						}
						if s2, ok := ins.(ssa.CallInstruction); ok {
							for ai, a := range s2.Common().Args {
								if a != v {
									continue
								}
								callees, _ := p.Callees(s2)
								for _, cal := range callees {
									if md, at := mustDeref(cal, ai); md {
										bad = "passed to " + p.FuncName(cal) + ", which dereferences it at " + at + ", without a nil test"
									}
								}
							}
						}
					}
				}
				if bad != "" {
					r.Bad(name, construct, p.Pos(call.Pos()), "the result can be nil and is "+bad)
				} else {
					r.OK(name, construct, p.Pos(call.Pos()), "every dereference of the sometimes-nil result is dominated by a nil test, or the result is only returned/compared")
				}
			}
		}
	}
}

func nonNilEdge(b *ssa.BasicBlock, k int, v ssa.Value) bool {
	atom, holds, ok := edgeCond(b, k)
	if !ok {
		return false
	}
	bo, isB := atom.(*ssa.BinOp)
	if !isB {
		return false
	}
	var other ssa.Value
	if bo.X == v {
		other = bo.Y
	} else if bo.Y == v {
		other = bo.X
	} else {
		return false
	}
	if !isNilConst(other) {
		return false
	}
	return (bo.Op == token.NEQ && holds) || (bo.Op == token.EQL && !holds)
}

func derefs(ins ssa.Instruction, v ssa.Value) bool {
	switch x := ins.(type) {
	case *ssa.FieldAddr:
		return x.X == v
	case *ssa.UnOp:
		return x.Op == token.MUL && x.X == v
	case *ssa.Store:
		return x.Addr == v
	case *ssa.IndexAddr:
		return x.X == v
	}
	return false
}

// ---------- R4: option pairs ----------

type optPair struct{ owner, value, flag string }

func optionPairs(p *Prog) []optPair {
	out := []optPair{
		{"archNode", "Relation", "HasRelation"},
		{"archetypeAccess", "RelationComponent", "HasRelationComponent"},
		{"Builder", "relationID", "hasRelation"},
		{"compiledQuery", "Relation", "HasRelation"},
		{"Exchange", "relationID", "hasRelation"},
	}
	// generic structs with fields relation+hasRelation / target+hasTarget
	gp := p.Pkgs["generic"]
	names := gp.Types.Scope().Names()
	for _, n := range names {
		tn, ok := gp.Types.Scope().Lookup(n).(*types.TypeName)
		if !ok {
			continue
		}
		st, ok := tn.Type().Underlying().(*types.Struct)
		if !ok {
			continue
		}
		has := map[string]bool{}
		for i := 0; i < st.NumFields(); i++ {
			has[fieldName(tn.Type(), i)] = true
		}
		if has["relation"] && has["hasRelation"] {
			out = append(out, optPair{n, "relation", "hasRelation"})
		}
		if has["target"] && has["hasTarget"] {
			out = append(out, optPair{n, "target", "hasTarget"})
		}
	}
	return out
}

func c10r4(p *Prog, r *Reporter) {
	pairs := optionPairs(p)
	valueOf := map[string]optPair{}
	isValueField := map[string]bool{}
	for _, pr := range pairs {
		valueOf[pr.owner+"."+pr.value] = pr
		isValueField[pr.value] = true
	}
	for _, fn := range p.Funcs {
		name := p.FuncName(fn)
		for _, b := range fn.Blocks {
			for _, ins := range b.Instrs {
				fa, ok := ins.(*ssa.FieldAddr)
				if !ok {
					continue
				}
				owner := typeName(fa.X.Type())
				fld := fieldName(fa.X.Type(), fa.Field)
				pr, isV := valueOf[owner+"."+fld]
				if !isV {
					continue
				}
				base := apath(fa.X)
				// classify uses
				needFlag, why := pairUseNeedsFlag(p, fa, base, pr, isValueField)
				if needFlag == "write" {
					continue
				}
				construct := "read " + owner + "." + fld + " of " + base
				if needFlag == "" {
					r.OK(name, construct, p.Pos(fa.Pos()), "the value travels with its flag ("+why+")")
					continue
				}
				mf := &MustFlow{Fn: fn,
					EdgeGen: func(x *ssa.BasicBlock, k int) bool {
						atom, holds, ok := edgeCond(x, k)
						if !ok || !holds {
							return false
						}
						// a boolean helper that answers true only where the flag of its argument is known true
						if c := callOf(atom); c != nil {
							if g := c.Common().StaticCallee(); g != nil && p.isArche(g) {
								for j, a := range c.Common().Args {
									if apath(a) == base && trueImpliesFlag(g, j, pr.owner, pr.flag) {
										return true
									}
								}
							}
						}
						o, f, bs, ok := loadedField(atom)
						return ok && o == pr.owner && f == pr.flag && bs == base
					},
					InstrGen: func(i2 ssa.Instruction) bool {
						if site, ok := i2.(ssa.CallInstruction); ok {
							// a helper that returns normally only when the flag of its argument is true
							if g := site.Common().StaticCallee(); g != nil && p.isArche(g) {
								for j, a := range site.Common().Args {
									if apath(a) == base && assertsFlag(p, g, j, pr.owner, pr.flag) {
										return true
									}
								}
							}
							return false
						}
						st, ok := i2.(*ssa.Store)
						if !ok {
							return false
						}
						cb, isC := constBool(st.Val)
						if !isC || !cb {
							return false
						}
						o, f, bs, ok := loadedField(st.Addr)
						return ok && o == pr.owner && f == pr.flag && bs == base
					},
				}
				mf.Run()
				if mf.Before(fa) {
					r.OK(name, construct, p.Pos(fa.Pos()), "the value is "+needFlag+" where the flag "+pr.flag+" of the same base is known true")
				} else if !pathWithoutFact(fn, fa, func(atom ssa.Value) bool {
					o, f, bs, ok := loadedField(atom)
					return ok && o == pr.owner && f == pr.flag && bs == base
				}) {
					r.OK(name, construct, p.Pos(fa.Pos()), "the value is "+needFlag+" only on paths on which the flag "+pr.flag+" of the same base was tested true (branch conditions decided consistently along each path)")
				} else {
					r.Bad(name, construct, p.Pos(fa.Pos()), "the value half of the option pair is "+needFlag+" without its flag "+pr.flag+" being known true (the zero ID is a valid component id)")
				}
			}
		}
	}
}

// pairUseNeedsFlag classifies how the value field at address fa is used.
// Returns "" if it only travels with its flag, "write" if fa is only written, else a description of the use that needs the flag.
func pairUseNeedsFlag(p *Prog, fa *ssa.FieldAddr, base string, pr optPair, isValueField map[string]bool) (string, string) {
	fn := fa.Parent()
	flagReadFromBase := func() bool {
		for _, b := range fn.Blocks {
			for _, ins := range b.Instrs {
				if u, ok := ins.(*ssa.UnOp); ok && u.Op == token.MUL {
					if o, f, bs, ok := loadedField(u); ok && o == pr.owner && f == pr.flag && bs == base {
						return true
					}
				}
			}
		}
		return false
	}
	onlyWritten := true
	var need string
	travel := ""
	var visit func(v ssa.Value, depth int)
	visit = func(v ssa.Value, depth int) {
		if depth > 6 || need != "" {
			return
		}
		refs := v.Referrers()
		if refs == nil {
			return
		}
		for _, ref := range *refs {
			switch x := ref.(type) {
			case *ssa.DebugRef:
			case *ssa.Store:
				if x.Addr == v {
					continue // write to the value field
				}
				onlyWritten = false
				// stored somewhere: paired copy if destination is a value field and function reads the flag of base
				if dfa, ok := x.Addr.(*ssa.FieldAddr); ok && isValueField[fieldName(dfa.X.Type(), dfa.Field)] {
					travel = "paired copy into " + typeName(dfa.X.Type()) + "." + fieldName(dfa.X.Type(), dfa.Field)
					continue
				}
				if a, ok := x.Addr.(*ssa.Alloc); ok {
					// local variable: follow its loads
					visit(a, depth+1)
					travel = "local copy"
					continue
				}
				need = "stored to " + apath(x.Addr)
			case *ssa.UnOp:
				onlyWritten = false
				if x.Op == token.MUL {
					visit(x, depth+1)
				}
			case *ssa.FieldAddr:
				onlyWritten = false
				visit(x, depth+1) // .id
			case *ssa.Field:
				onlyWritten = false
				visit(x, depth+1)
			case *ssa.Phi:
				onlyWritten = false
				travel = "local variable"
				visit(x, depth+1)
			case *ssa.BinOp:
				onlyWritten = false
				need = "compared"
			case *ssa.Return:
				onlyWritten = false
				need = "returned"
			case *ssa.MakeInterface:
				onlyWritten = false
				// formatting in panic messages: harmless
				visit(x, depth+1)
			case *ssa.IndexAddr, *ssa.Index, *ssa.Lookup:
				onlyWritten = false
				need = "used as an index/key"
			case ssa.CallInstruction:
				onlyWritten = false
				com := x.Common()
				if v == ssa.Value(fa) {
					// address passed to a call (e.g. &arch.RelationComponent as *ID, or method on the value)
					need = "passed by address"
					continue
				}
				// paired pass: another argument is the flag of the same base
				paired := false
				for _, a := range com.Args {
					if o, f, bs, ok := loadedField(a); ok && o == pr.owner && f == pr.flag && bs == base {
						paired = true
					}
					if ph, ok := a.(*ssa.Phi); ok && ph.Type().String() == "bool" {
						paired = true // local flag variable travelling along
					}
				}
				if paired {
					travel = "paired pass to " + calleeName(p, x)
					continue
				}
				if isFmtOrPanicArg(x) {
					continue
				}
				need = "passed alone to " + calleeName(p, x)
			default:
				onlyWritten = false
				if val, ok := ref.(ssa.Value); ok {
					visit(val, depth+1)
				}
			}
		}
	}
	visit(fa, 0)
	if need != "" {
		// address taken and stored in a local pointer variable (newRel = &arch.RelationComponent) is reported as "stored"
		return need, ""
	}
	if onlyWritten {
		return "write", ""
	}
	if travel != "" && !flagReadFromBase() && !strings.HasPrefix(travel, "local") {
		return "copied without its flag (" + travel + ")", ""
	}
	if travel == "" {
		travel = "no exposing use"
	}
	return "", travel
}

func calleeName(p *Prog, site ssa.CallInstruction) string {
	if sc := site.Common().StaticCallee(); sc != nil {
		return p.FuncName(sc)
	}
	if site.Common().IsInvoke() {
		return site.Common().Method.Name()
	}
	return "?"
}

func isFmtOrPanicArg(site ssa.CallInstruction) bool {
	if sc := site.Common().StaticCallee(); sc != nil && sc.Pkg != nil && sc.Pkg.Pkg.Path() == "fmt" {
		return true
	}
	return false
}

// assertsFlag: g returns normally only if <param j>.<flag> is true (every return is dominated by the flag's true edge;
// the false edge leads to a panic).
func assertsFlag(p *Prog, g *ssa.Function, j int, owner, flag string) bool {
	if g.Blocks == nil || j >= len(g.Params) {
		return false
	}
	base := g.Params[j].Name()
	mf := &MustFlow{Fn: g, EdgeGen: func(x *ssa.BasicBlock, k int) bool {
		atom, holds, ok := edgeCond(x, k)
		if !ok || !holds {
			return false
		}
		o, f, bs, ok := loadedField(atom)
		return ok && o == owner && f == flag && bs == base
	}}
	mf.Run()
	return mf.AtAllReturns()
}

// trueImpliesFlag: g returns a single bool, every return hands out a constant, and the constant true is returned only
// where the flag field of parameter j is known true.
func trueImpliesFlag(g *ssa.Function, j int, owner, flag string) bool {
	if g.Blocks == nil || j >= len(g.Params) || g.Signature.Results().Len() != 1 {
		return false
	}
	base := g.Params[j].Name()
	mf := &MustFlow{Fn: g, EdgeGen: func(x *ssa.BasicBlock, k int) bool {
		atom, holds, ok := edgeCond(x, k)
		if !ok || !holds {
			return false
		}
		o, f, bs, ok := loadedField(atom)
		return ok && o == owner && f == flag && bs == base
	}}
	mf.Run()
	sawTrue := false
	for _, b := range g.Blocks {
		ret, ok := b.Instrs[len(b.Instrs)-1].(*ssa.Return)
		if !ok {
			continue
		}
		cb, isC := constBool(ret.Results[0])
		if !isC {
			return false
		}
		if cb {
			sawTrue = true
			if !mf.Before(ret) {
				return false
			}
		}
	}
	return sawTrue
}
