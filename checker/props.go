package main

// Property describes what the checker decides for one of the twenty fixed properties.
type Property struct {
	ID          string
	Decides     string
	NotDecided  string
	Assumptions []string
	Rules       []Rule
}

var properties = map[string]*Property{}

func register(p *Property) { properties[p.ID] = p }

var commonAssumptions = []string{
	"go/types and go/ssa (golang.org/x/tools v0.29.0) model the program faithfully",
	"calls through the user-facing interfaces ecs.Listener and ecs.Filter are not followed (user code)",
	"type and field anchors named in DESIGN.md §1.4 keep their identity (a rename is reported as anchor-unresolved)",
}
