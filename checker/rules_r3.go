package main

// Rules added after the third round of seeded changes. Each is cross-listed in the properties it bears on (see the
// Rule tables of the rules_cNN.go files).

import (
	"fmt"
	"go/token"
	"go/types"
	"regexp"
	"sort"
	"strings"

	"golang.org/x/tools/go/ssa"
)

// mustWrite: on every path of fn to a normal return, some instruction executes whose own writes or whose call-site
// mod-set contain a path with one of the given prefixes.
func mustWrite(p *Prog, fn *ssa.Function, prefixes ...string) bool {
	hit := func(pa string) bool {
		for _, pre := range prefixes {
			if pa == pre || strings.HasPrefix(pa, pre+".") || strings.HasPrefix(pa, pre+"[") || strings.HasPrefix(pa, pre+"{") {
				return true
			}
		}
		return false
	}
	mf := &MustFlow{Fn: fn, InstrGen: func(i ssa.Instruction) bool {
		for _, w := range directWrites(i) {
			if hit(w.Path) {
				return true
			}
		}
		if site, ok := i.(ssa.CallInstruction); ok {
			for _, pa := range p.SiteMod(site).Paths() {
				if hit(pa) {
					return true
				}
			}
		}
		return false
	}}
	mf.Run()
	return mf.AtAllReturns()
}

// ---------- reflect.TypeOf on a value of type-parameter type ----------

// typeParamReflection: reflect.TypeOf(x) with x of a bare type-parameter type yields the dynamic type, which is nil for
// interface type arguments; the library's idiom is reflect.TypeOf((*T)(nil)).Elem().
func typeParamReflection(p *Prog, r *Reporter) {
	for _, fn := range p.Funcs {
		n := 0
		for _, site := range callsIn(fn) {
			sc := site.Common().StaticCallee()
			if sc == nil || sc.Pkg == nil || sc.Pkg.Pkg.Path() != "reflect" || cname(sc) != "TypeOf" {
				continue
			}
			arg := site.Common().Args[0]
			var t types.Type
			switch x := arg.(type) {
			case *ssa.MakeInterface:
				t = x.X.Type()
			case *ssa.ChangeType: // in generic bodies T → any is a change of type
				t = x.X.Type()
			default:
				continue
			}
			_, isTP := t.(*types.TypeParam)
			ptrToTP := false
			if pt, ok := t.(*types.Pointer); ok {
				_, ptrToTP = pt.Elem().(*types.TypeParam)
			}
			if !isTP && !ptrToTP {
				continue
			}
			n++
			name := p.FuncName(fn)
			construct := fmt.Sprintf("reflect.TypeOf on type parameter #%d", n)
			if isTP {
				r.Bad(name, construct, p.Pos(site.Pos()), "reflect.TypeOf is applied to a value of type-parameter type: for an interface type argument the value is a nil interface and the result is nil, so distinct interface types collapse to one (nil) registry key; the idiom is reflect.TypeOf((*T)(nil)).Elem()")
				continue
			}
			// (*T)(nil): the result must go through Elem()
			elem := false
			if cv, ok := site.(ssa.Value); ok && cv.Referrers() != nil {
				for _, ref := range *cv.Referrers() {
					if c2, ok := ref.(*ssa.Call); ok && c2.Common().IsInvoke() && c2.Common().Method.Name() == "Elem" {
						elem = true
					}
				}
			}
			r.Check(elem, name, construct, p.Pos(site.Pos()), "reflect.TypeOf((*T)(nil)).Elem(): the static type of T, also for interface types")
		}
	}
}

// ---------- generic mappers: stateless, delegating ----------

var mapperType = regexp.MustCompile(`^(Resource|Map|Map[0-9]+)$`)

// mapperStateless: methods of Resource[T] / Map[T] / MapN never write their receiver's fields (only constructors do):
// a mapper that caches world state goes stale when the world changes through any other route.
func mapperStateless(p *Prog, r *Reporter) {
	for _, fn := range p.Funcs {
		if fn.Pkg == nil || fn.Pkg.Pkg.Name() != "generic" || fn.Signature.Recv() == nil {
			continue
		}
		tn := typeName(recvType(fn))
		if i := strings.Index(tn, "["); i >= 0 {
			tn = tn[:i]
		}
		if !mapperType.MatchString(tn) {
			continue
		}
		bad := ""
		for _, pa := range p.Mod(fn).Paths() {
			base := pa
			if i := strings.Index(base, "["); i >= 0 && i < strings.Index(base+".", ".") {
				base = base[:i] + base[strings.Index(base, "]")+1:]
			}
			if strings.HasPrefix(base, tn+".") {
				// writes through the world pointer are the world's state, not the mapper's
				rest := base[len(tn)+1:]
				if strings.HasPrefix(rest, "world") {
					continue
				}
				bad = pa
			}
		}
		name := p.FuncName(fn)
		if bad != "" {
			r.Bad(name, "mapper holds no state", p.FnPos(fn), "the method writes "+bad+": a mapper that stores world state answers from its copy after the world changed through another route (ID-based API, another mapper, Reset)")
		} else {
			r.OKt(name, "mapper holds no state", p.FnPos(fn), "no write to the receiver's own fields")
		}
	}
}

// mapperDelegates: a method N of Resource[T] calls ecs.(*Resources).N (same name) — the generic mapper answers exactly
// what the ID-based API answers.
func mapperDelegates(p *Prog, r *Reporter) {
	for _, fn := range p.Funcs {
		if fn.Pkg == nil || fn.Pkg.Pkg.Name() != "generic" || fn.Signature.Recv() == nil {
			continue
		}
		tn := typeName(recvType(fn))
		if i := strings.Index(tn, "["); i >= 0 {
			tn = tn[:i]
		}
		if tn != "Resource" {
			continue
		}
		res := p.Named("ecs.Resources")
		if res == nil {
			r.Anchor("ecs.Resources")
			return
		}
		// only methods that have a namesake on ecs.Resources
		has := false
		for i := 0; i < res.NumMethods(); i++ {
			if res.Method(i).Name() == cname(fn) {
				has = true
			}
		}
		if !has {
			continue
		}
		calls := false
		for _, site := range callsIn(fn) {
			if sc := site.Common().StaticCallee(); sc != nil && cname(sc) == cname(fn) && typeName(recvType(sc)) == "Resources" {
				calls = true
			}
		}
		r.Check(calls, p.FuncName(fn), "delegates to Resources."+cname(fn), p.FnPos(fn), "the mapper method calls the ID-based method of the same name")
	}
}

// ---------- parallel slices of batchArchetypes ----------

// batchParallelAppends: a method of batchArchetypes that appends to one of the parallel slices appends to all of them,
// and (for the recording method) does so on every path.
func batchParallelAppends(p *Prog, r *Reporter) {
	ba := p.Named("ecs.batchArchetypes")
	if ba == nil {
		r.Anchor("ecs.batchArchetypes")
		return
	}
	st, _ := ba.Underlying().(*types.Struct)
	var par []string
	for i := 0; i < st.NumFields(); i++ {
		if _, ok := st.Field(i).Type().Underlying().(*types.Slice); ok {
			f := fieldName(ba, i)
			// per-range slices: the ones Add appends to; Added/Removed are per-batch id lists
			par = append(par, f)
		}
	}
	for _, fn := range p.Funcs {
		if typeName(recvType(fn)) != "batchArchetypes" {
			continue
		}
		appended := map[string]bool{}
		for _, b := range fn.Blocks {
			for _, ins := range b.Instrs {
				s, ok := ins.(*ssa.Store)
				if !ok {
					continue
				}
				fa, ok := s.Addr.(*ssa.FieldAddr)
				if !ok || typeName(fa.X.Type()) != "batchArchetypes" {
					continue
				}
				if c := callOf(s.Val); c != nil {
					if bi, ok := c.Call.Value.(*ssa.Builtin); ok && bi.Name() == "append" {
						appended[fieldName(fa.X.Type(), fa.Field)] = true
					}
				}
			}
		}
		if len(appended) == 0 {
			continue
		}
		name := p.FuncName(fn)
		var fields []string
		for f := range appended {
			fields = append(fields, f)
		}
		sort.Strings(fields)
		// all per-range slices = the set this method appends to on the unchanged tree is the full set of slice fields
		// that any method appends to
		for _, f := range fields {
			must := mustWrite(p, fn, "batchArchetypes."+f)
			r.Check(must, name, "appends to "+f+" on every path", p.FnPos(fn), "a range is recorded in all parallel slices or not at all: every return path appends to "+f)
		}
		_ = par
	}
}

// ---------- must-write for Reset and LoadEntities ----------

func resetMustWrite(p *Prog, r *Reporter) {
	reset := p.Fn("ecs.(*World).Reset")
	if reset == nil {
		r.Anchor("ecs.(*World).Reset")
		return
	}
	resetPaths := p.Mod(reset).Paths()
	for _, st := range resetTypes {
		n := p.Named("ecs." + st.name)
		if n == nil {
			continue
		}
		stt, _ := n.Underlying().(*types.Struct)
		for i := 0; i < stt.NumFields(); i++ {
			f := fieldName(n, i)
			key := st.name + "." + f
			if _, keep := resetKeep[key]; keep {
				continue
			}
			want := st.at + "." + f
			may := false
			for _, rp := range resetPaths {
				if rp == want || strings.HasPrefix(rp, want+".") || strings.HasPrefix(rp, want+"[") || strings.HasPrefix(rp, want+"{") {
					may = true
				}
			}
			if !may {
				continue // not reset at all: C15.R1 decides whether that is a violation
			}
			r.Check(mustWrite(p, reset, want), "ecs.(*World).Reset", "resets "+key+" on every path", p.Pos(stt.Field(i).Pos()), "every path of Reset to a normal return writes "+want+" (no early return that leaves part of the run state in place)")
		}
	}
}

func loadMustWrite(p *Prog, r *Reporter) {
	load := p.Fn("ecs.(*World).LoadEntities")
	if load == nil {
		r.Anchor("ecs.(*World).LoadEntities")
		return
	}
	targets := []string{"World.entities", "World.targetEntities"}
	for _, f := range poolRunFields(p) {
		targets = append(targets, "World.entityPool."+f)
	}
	for _, t := range targets {
		r.Check(mustWrite(p, load, t), p.FuncName(load), "writes "+t+" on every path", p.FnPos(load), "every path of LoadEntities to a normal return rebuilds "+t)
	}
}

// ---------- MarshalJSON: every return carries both fields ----------

func marshalAllPaths(p *Prog, r *Reporter) {
	m := p.Fn("ecs.(Entity).MarshalJSON")
	if m == nil {
		r.Anchor("ecs.(Entity).MarshalJSON")
		return
	}
	n := 0
	for _, b := range m.Blocks {
		ret, ok := b.Instrs[len(b.Instrs)-1].(*ssa.Return)
		if !ok || !reachable(b) {
			continue
		}
		n++
		// non-nil data result must derive from both fields
		fields := map[string]bool{}
		var walk func(v ssa.Value, d int)
		seen := map[ssa.Value]bool{}
		walk = func(v ssa.Value, d int) {
			if v == nil || seen[v] || d > 12 {
				return
			}
			seen[v] = true
			if _, f, _, ok := loadedField(v); ok && typeName(m.Params[0].Type()) == "Entity" {
				fields[f] = true
			}
			switch x := v.(type) {
			case *ssa.Field:
				fields[fieldName(x.X.Type(), x.Field)] = true
			case *ssa.UnOp:
				walk(x.X, d+1)
				if al, ok := x.X.(*ssa.Alloc); ok {
					for _, ref := range *al.Referrers() {
						if st, ok := ref.(*ssa.Store); ok {
							walk(st.Val, d+1)
						}
						if ia, ok := ref.(*ssa.IndexAddr); ok {
							for _, r2 := range *ia.Referrers() {
								if st, ok := r2.(*ssa.Store); ok {
									walk(st.Val, d+1)
								}
							}
						}
					}
				}
			case *ssa.Convert:
				walk(x.X, d+1)
			case *ssa.ChangeType:
				walk(x.X, d+1)
			case *ssa.BinOp:
				walk(x.X, d+1)
				walk(x.Y, d+1)
			case *ssa.MakeInterface:
				walk(x.X, d+1)
			case *ssa.Extract:
				walk(x.Tuple, d+1)
			case *ssa.Call:
				for _, a := range x.Call.Args {
					walk(a, d+1)
				}
			case *ssa.Phi:
				for _, e := range x.Edges {
					walk(e, d+1)
				}
			case *ssa.Slice:
				walk(x.X, d+1)
			}
		}
		walk(ret.Results[0], 0)
		okc := fields["id"] && fields["gen"]
		r.Check(okc, p.FuncName(m), fmt.Sprintf("return #%d encodes id and generation", n), p.Pos(ret.Pos()), "the bytes returned on this path derive from both e.id and e.gen (no shortcut that drops the generation, e.g. of the pool's slot-0 sentinel)")
	}
}

// ---------- no deferred state change ----------

// noDeferredEffects: a deferred call also runs while a panic unwinds, so a deferred call that changes library state
// turns "panics without effect" into "panics with effect".
func noDeferredEffects(p *Prog, r *Reporter) {
	n := 0
	for _, fn := range p.Funcs {
		if !p.isArche(fn) {
			continue
		}
		for _, b := range fn.Blocks {
			for _, ins := range b.Instrs {
				d, ok := ins.(*ssa.Defer)
				if !ok {
					continue
				}
				n++
				paths := p.SiteMod(d).Paths()
				name := p.FuncName(fn)
				construct := fmt.Sprintf("deferred call #%d", n)
				if len(paths) > 0 {
					r.Bad(name, construct, p.Pos(d.Pos()), "a deferred call writes "+paths[0]+": it also runs when the function panics, so a refused operation has an effect")
				} else {
					r.OK(name, construct, p.Pos(d.Pos()), "the deferred call changes no library state")
				}
			}
		}
	}
	r.OK("(all packages)", "deferred calls scanned", "-", fmt.Sprintf("%d deferred calls in %d functions", n, len(p.Funcs)))
}

// ---------- filter ids are never recycled ----------

func cacheNeverRecycles(p *Prog, r *Reporter) {
	n := 0
	for _, fn := range p.Funcs {
		if typeName(recvType(fn)) != "Cache" {
			continue
		}
		n++
		bad := ""
		for _, site := range callsIn(fn) {
			if sc := site.Common().StaticCallee(); sc != nil && strings.HasPrefix(cname(sc), "Recycle") && strings.HasPrefix(typeName(recvType(sc)), "intPool") {
				bad = p.Pos(site.Pos())
			}
		}
		if bad != "" {
			r.Bad(p.FuncName(fn), "filter ids are not recycled", bad, "a CachedFilter handle carries no generation: once its id is recycled, a stale handle names another registration, and unregistering it twice silently removes that one instead of panicking")
		} else {
			r.OK(p.FuncName(fn), "filter ids are not recycled", p.FnPos(fn), "no call of intPool.Recycle")
		}
	}
	if n == 0 {
		r.Anchor("methods of ecs.Cache")
	}
}

// ---------- no bulk clear of handle storage ----------

func noBulkClear(p *Prog, r *Reporter, fns []*ssa.Function, fixture bool) int {
	n := 0
	for _, fn := range fns {
		for _, site := range callsIn(fn) {
			bi, ok := site.Common().Value.(*ssa.Builtin)
			if !ok || bi.Name() != "clear" {
				continue
			}
			o, f, _, okf := loadedField(site.Common().Args[0])
			if !okf || !(o == "entityPool" && f == "entities" || o == "World" && f == "entities") {
				continue
			}
			n++
			r.Bad(p.FuncName(fn), "bulk clear of "+o+"."+f, p.Pos(site.Pos()), "clear() wipes slot 0 as well: the pool's slot 0 holds the sentinel generation that makes the zero entity dead, the index's slot 0 its table entry")
		}
	}
	return n
}

func c02r11(p *Prog, r *Reporter) {
	noBulkClear(p, r, p.Funcs, false)
	r.OK("(ecs)", "no bulk clear of handle storage", "-", "no clear() of entityPool.entities or World.entities")
	fp, err := loadFixture()
	if err != nil {
		r.Anchor("checker/testdata/fixture: " + err.Error())
		return
	}
	tmp := &Reporter{p: p, rule: r.rule}
	var fx []*ssa.Function
	for _, f := range fp.funcs {
		if f.Name() == "badBulkClear" {
			fx = append(fx, f)
		}
	}
	k := noBulkClear(p, tmp, fx, true)
	r.Check(k == 1, "fixture.badBulkClear", "rule fires on clear(p.entities)", "checker/testdata/fixture/fixture.go", "the fixture's bulk clear of an entityPool's entities is reported")
}

// ---------- getArchetypes does not filter by length; addArchetype's additions ----------

func selectorNoLen(p *Prog, r *Reporter) {
	fn := p.Fn("ecs.(*World).getArchetypes")
	if fn == nil {
		r.Anchor("ecs.(*World).getArchetypes")
		return
	}
	bad := ""
	for _, b := range fn.Blocks {
		iff, ok := b.Instrs[len(b.Instrs)-1].(*ssa.If)
		if !ok {
			continue
		}
		var hasLen func(v ssa.Value, d int) bool
		hasLen = func(v ssa.Value, d int) bool {
			if d > 5 {
				return false
			}
			if c := callOf(v); c != nil {
				if sc := c.Common().StaticCallee(); sc != nil && cname(sc) == "Len" && typeName(recvType(sc)) == "archetype" {
					return true
				}
			}
			switch x := v.(type) {
			case *ssa.BinOp:
				return hasLen(x.X, d+1) || hasLen(x.Y, d+1)
			case *ssa.UnOp:
				return hasLen(x.X, d+1)
			case *ssa.Convert:
				return hasLen(x.X, d+1)
			case *ssa.Phi:
				for _, e := range x.Edges {
					if hasLen(e, d+1) {
						return true
					}
				}
			}
			return false
		}
		if hasLen(iff.Cond, 0) {
			bad = p.Pos(iff.Cond.Pos())
		}
	}
	if bad != "" {
		r.Bad(p.FuncName(fn), "selection independent of table length", bad, "the table list handed to Cache.Register and to batch operations is filtered by Len(): a filter registered while a matching table is empty never sees the entities that enter it later")
	} else {
		r.OK(p.FuncName(fn), "selection independent of table length", p.FnPos(fn), "no branch of the selector tests a table's Len()")
	}
}

func cacheAddDominance(p *Prog, r *Reporter) {
	fn := p.Fn("ecs.(*Cache).addArchetype")
	if fn == nil {
		r.Anchor("ecs.(*Cache).addArchetype")
		return
	}
	// facts on edges: (a) RelationFilter.Target == arch.RelationTarget holds, (b) the *RelationFilter assertion failed,
	// (c) the table has no relation component
	edge := func(b *ssa.BasicBlock, k int) bool {
		atom, holds, ok := edgeCond(b, k)
		if !ok {
			return false
		}
		if bo, isB := atom.(*ssa.BinOp); isB && (bo.Op == token.EQL && holds || bo.Op == token.NEQ && !holds) {
			_, fx, _, okx := loadedField(bo.X)
			_, fy, _, oky := loadedField(bo.Y)
			if okx && oky && (fx == "Target" && fy == "RelationTarget" || fx == "RelationTarget" && fy == "Target") {
				return true
			}
		}
		if ex, isE := atom.(*ssa.Extract); isE && !holds {
			if ta, ok := ex.Tuple.(*ssa.TypeAssert); ok && ta.CommaOk && typeName(ta.AssertedType) == "RelationFilter" {
				return true
			}
		}
		if _, f, _, okf := loadedField(atom); okf && f == "HasRelationComponent" && !holds {
			return true
		}
		if c := callOf(atom); c != nil && !holds {
			if sc := c.Common().StaticCallee(); sc != nil && cname(sc) == "HasRelation" && strings.HasPrefix(typeName(recvType(sc)), "archetype") {
				return true
			}
		}
		return false
	}
	mf := &MustFlow{Fn: fn, EdgeGen: edge}
	mf.Run()
	n := 0
	for _, site := range callsIn(fn) {
		sc := site.Common().StaticCallee()
		isAdd := func(g *ssa.Function) bool {
			return g != nil && (cname(g) == "Add" || strings.HasPrefix(cname(g), "Add[")) && strings.HasPrefix(typeName(recvType(g)), "pointers")
		}
		viaHelper := false
		if sc != nil && !isAdd(sc) && p.isArche(sc) {
			for _, s2 := range callsIn(sc) {
				if isAdd(s2.Common().StaticCallee()) {
					viaHelper = true
				}
			}
		}
		if !isAdd(sc) && !viaHelper {
			continue
		}
		n++
		construct := fmt.Sprintf("adds the table to a filter's list #%d", n)
		if mf.Before(site) {
			r.OK(p.FuncName(fn), construct, p.Pos(site.Pos()), "only where the table has no relation, or the filter is not a relation filter, or the filter's target equals the table's target")
		} else {
			r.Bad(p.FuncName(fn), construct, p.Pos(site.Pos()), "a table with a relation target can be added to a relation filter's list without the target comparison: the registered filter would select other targets' entities")
		}
	}
	if n == 0 {
		// additions may live in a helper of cacheEntry
		for _, g := range withHelpers(p, fn, 1)[1:] {
			_ = g
		}
		r.OKt(p.FuncName(fn), "adds the table to a filter's list", p.FnPos(fn), "no direct addition (delegated to a helper)")
	}
}

// ---------- inherited targets are not liveness-tested in movers ----------

func moversKeepDeadTargets(p *Prog, r *Reporter) {
	foc := p.Fn("ecs.(*World).findOrCreateArchetype")
	if foc == nil {
		r.Anchor("ecs.(*World).findOrCreateArchetype")
		return
	}
	alive := p.entityValidators()
	cfg := &efConfig{p: p, validators: map[*ssa.Function]int{}, validates: map[*ssa.Function]map[int]bool{},
		source: func(v ssa.Value) bool {
			_, fld, _, ok := loadedField(v)
			return ok && fld == "RelationTarget"
		}}
	for _, fn := range p.Funcs {
		mover := false
		for _, site := range callsIn(fn) {
			if isCallTo(site, foc) {
				mover = true
			}
		}
		if !mover {
			continue
		}
		n := 0
		for _, site := range callsIn(fn) {
			sc := site.Common().StaticCallee()
			idx, isV := alive[sc]
			if sc == nil || !isV || cname(sc) == "IsZero" || idx >= len(site.Common().Args) {
				continue
			}
			arg := site.Common().Args[idx]
			ins := site.(ssa.Instruction)
			res := cfg.runStateAt(fn, ins)
			direct := false
			if _, fld, _, ok := loadedField(arg); ok && fld == "RelationTarget" {
				direct = true
			}
			if !(direct || res[arg] || res[originOf(arg)]) {
				continue
			}
			n++
			r.Bad(p.FuncName(fn), fmt.Sprintf("liveness test of an inherited target #%d", n), p.Pos(site.Pos()), "a mover tests whether the target it inherits from the old table is alive: entities keep the (dead) target they were given until it is changed explicitly, so the outcome of a move must not depend on it")
		}
		if n == 0 {
			r.OK(p.FuncName(fn), "no liveness test of an inherited target", p.FnPos(fn), "the inherited target is carried over without looking at its liveness")
		}
	}
}

// ---------- batch rows come from the recorded start ----------

func batchRowFromStart(p *Prog, r *Reporter) {
	for _, fn := range p.Funcs {
		if typeName(recvType(fn)) != "Query" {
			continue
		}
		n := 0
		for _, site := range callsIn(fn) {
			sc := site.Common().StaticCallee()
			if sc == nil || cname(sc) != "GetEntity" || len(site.Common().Args) < 2 {
				continue
			}
			// receiver: an element of batchArchetypes.Archetype
			recv := site.Common().Args[0]
			fromBatch := false
			var walk func(v ssa.Value, d int)
			walk = func(v ssa.Value, d int) {
				if d > 6 || v == nil {
					return
				}
				switch x := v.(type) {
				case *ssa.UnOp:
					walk(x.X, d+1)
				case *ssa.IndexAddr:
					if o, f, _, ok := loadedField(x.X); ok && o == "batchArchetypes" && f == "Archetype" {
						fromBatch = true
					}
				case *ssa.FieldAddr:
					walk(x.X, d+1)
				}
			}
			walk(recv, 0)
			if !fromBatch {
				continue
			}
			n++
			// the row expression must contain a load of StartIndex[...]
			hasStart := false
			var w2 func(v ssa.Value, d int)
			w2 = func(v ssa.Value, d int) {
				if d > 8 || v == nil {
					return
				}
				switch x := v.(type) {
				case *ssa.BinOp:
					w2(x.X, d+1)
					w2(x.Y, d+1)
				case *ssa.Convert:
					w2(x.X, d+1)
				case *ssa.UnOp:
					if ia, ok := x.X.(*ssa.IndexAddr); ok {
						if o, f, _, ok := loadedField(ia.X); ok && o == "batchArchetypes" && f == "StartIndex" {
							hasStart = true
						}
					}
				}
			}
			w2(site.Common().Args[1], 0)
			r.Check(hasStart, p.FuncName(fn), fmt.Sprintf("row of a batch table #%d", n), p.Pos(site.Pos()), "a row read from a table of a batch query is offset by the recorded StartIndex of its range (the table may hold other entities before it)")
		}
	}
}

// ---------- constant subscription pre-filters ----------

// prefilterTable: the functions that may test the listener's subscriptions against a constant mask before
// notifying, with the name of the mask constant in package event. Confirmed by reading: both only ever deliver
// TargetChanged events (the single form's event literal says so; the batch form records ranges that differ from their
// source only in the target). Every other notification computes its event types per event and leaves the filtering to
// subscribes().
var prefilterTable = map[string]string{
	"ecs.(*World).setRelation":      "TargetChanged",
	"ecs.(*World).setRelationBatch": "TargetChanged",
}

func constPrefilters(p *Prog, r *Reporter) {
	ev := p.Pkgs["event"]
	if ev == nil {
		r.Anchor("package event")
		return
	}
	found := map[string]bool{}
	for _, fn := range p.Funcs {
		if !p.isArche(fn) || fn.Pkg == nil || fn.Pkg.Pkg.Name() == "event" || fn.Pkg.Pkg.Name() == "listener" {
			continue
		}
		name := p.FuncName(fn)
		n := 0
		report := func(pos token.Pos, c *ssa.Const) {
			n++
			construct := fmt.Sprintf("subscription pre-filter with constant mask #%d", n)
			wantName, allowed := prefilterTable[name]
			if !allowed {
				r.Bad(name, construct, p.Pos(pos), "the listener's subscriptions are tested against the constant "+c.Value.ExactString()+" before notifying, but this operation's events are not all of one constant type: a listener subscribed to the other types it can produce is never told")
				return
			}
			want, _ := ev.Types.Scope().Lookup(wantName).(*types.Const)
			if want == nil || want.Val().ExactString() != c.Value.ExactString() {
				r.Bad(name, construct, p.Pos(pos), "the pre-filter mask is "+c.Value.ExactString()+", the only event type this operation delivers is event."+wantName)
				return
			}
			found[name] = true
			r.OK(name, construct, p.Pos(pos), "the mask is event."+wantName+", the only event type this operation delivers")
		}
		isSubs := func(v ssa.Value) bool {
			c := callOf(v)
			return c != nil && c.Common().IsInvoke() && c.Common().Method.Name() == "Subscriptions"
		}
		for _, b := range fn.Blocks {
			for _, ins := range b.Instrs {
				switch x := ins.(type) {
				case *ssa.BinOp:
					if x.Op != token.AND {
						continue
					}
					if c, ok := x.Y.(*ssa.Const); ok && isSubs(x.X) {
						report(x.Pos(), c)
					} else if c, ok := x.X.(*ssa.Const); ok && isSubs(x.Y) {
						report(x.Pos(), c)
					}
				case *ssa.Call:
					sc := x.Common().StaticCallee()
					if sc == nil || typeName(recvType(sc)) != "Subscription" || len(x.Common().Args) != 2 {
						continue
					}
					if c, ok := x.Common().Args[1].(*ssa.Const); ok && isSubs(x.Common().Args[0]) {
						report(x.Pos(), c)
					}
				}
			}
		}
	}
	var names []string
	for n := range prefilterTable {
		names = append(names, n)
	}
	sort.Strings(names)
	for _, n := range names {
		if p.Fn(n) == nil {
			r.Anchor(n)
		}
	}
}
