package main

import (
	"fmt"
	"go/constant"
	"go/token"
	"go/types"
	"sort"
	"strings"

	"golang.org/x/tools/go/ssa"
)

func init() {
	register(&Property{
		ID: "C09",
		Decides: "on every path of every exported entry point of package ecs a world-lock test (panic on the locked edge) precedes the first write to entity, table, graph or component-registry state, " +
			"the only admitted exception being the component-id lookup whose registry insert is undone on the locked edge (R1, R5); every lock acquired is released exactly once or handed to the returned query (R2); " +
			"the query's lock bit is read only by the close function (R3); Next/Step close exactly once when they return false and never when they return true, Close closes once, Count/EntityAt never (R4); " +
			"the lock-bit pool capacity, its exhaustion guard and MaskTotalBits are the same constant (R6).",
		NotDecided: "lock counts at run time, that a panicking operation leaves every observable unchanged (only: no structural write happens before the test), nesting behaviour, listener re-entrancy.",
		Assumptions: commonAssumptions,
		Rules: []Rule{
			{ID: "C09.R1", Floor: 60, Run: c09r1, Text: "guard first: for every exported ecs entry and every structural field path it may write (E-mod: entity index, pools, table lengths, graph, component registry), no path from the entry reaches that write before a lock test whose locked edge panics (E-dom with interprocedural summaries)"},
			{ID: "C09.R2", Floor: 6, Run: c09r2, Text: "lock typestate: every value returned by the lock-acquire primitive is, on every non-panicking path to the function's exit, released exactly once or transferred exactly once into the lockBit of the Query the function returns"},
			{ID: "C09.R3", Floor: 2, Run: c09r3, Text: "Query.lockBit is read only by the close function, which releases it exactly once and marks the query closed"},
			{ID: "C09.R4", Floor: 10, Run: c09r4, Text: "closing discipline (path summaries): Next and Step return false only on paths with exactly one close and true only on paths with none; Close closes exactly once; no other exported Query method closes"},
			{ID: "C09.R5", Floor: 1, Run: c09r5, Text: "registration rollback: a component-registry insert that happens before the lock test is followed on every path by the lock test, and the locked edge calls a function whose mod-set covers the insert's before panicking"},
			{ID: "C09.R7", Floor: 4, Run: c09r7, Text: "Reset restores the lock state (= C15.R1 for lockMask and bitPool): every run-state field of the lock mask and the lock-bit pool is written by World.Reset, so that lock bits issued after a reset are distinct"},
			{ID: "C09.R8", Floor: 2, Run: c09r8, Text: "the lock test sees every lock bit (= C04.R1/R2 for Mask.IsZero, and C04.R3 for Get/Set): the zero test of the lock mask covers every word of the mask"},
			{ID: "C09.R9", Floor: 5, Run: c16r3, Text: "rollback completeness (= C16.R3): the undo of a registration refused by the lock restores every registry field the registration wrote, on every path"},
			{ID: "C09.R10", Floor: 1, Run: noDeferredEffects, Text: "no deferred state change: a deferred call runs while a panic unwinds; none of the library's deferred calls (if any) has a non-empty mod-set"},
			{ID: "C09.R11", Floor: 2, Run: narrowCounters, Text: "narrow counters fit their limit: every uint8/uint16 field of package ecs that is incremented has a listed bound (lock bits issued ≤ MaskTotalBits, slots per idMap chunk), and the bound fits the field's type in this build - the lock-bit pool must survive the documented maximum of simultaneously open queries"},
			{ID: "C09.R12", Floor: 1, Run: lockMaskValidateFirst, Text: "the lock mask validates before it changes: no write to the lock mask or the lock-bit pool precedes a test whose failing edge panics"},
			{ID: "C09.R6", Floor: 2, Run: c09r6, Text: "the lock-bit pool's array length and the constant in its exhaustion guard (panic edge dominating the array write) both equal MaskTotalBits of the build"},
			{ID: "C09.R13", Floor: 1, Run: internalQueriesExhausted, Text: "queries opened inside the library are run to the end: a local Query is exhausted (Next() == false) or closed on every path to a return"},
			{ID: "C09.R14", Floor: 5, Run: lookupBeforeLock, Text: "the registered-filter lookup comes before the lock: no call that reaches the stale-handle panic of the filter cache is made while a function holds a lock bit it has just taken (a recovered panic would leave the world locked with no query open)"},
			{ID: "C09.R15", Floor: 12, Run: c11r2, Text: "the removal event is delivered inside a lock window (= C11.R2), whatever the listener subscribes to"},
			{ID: "C09.R16", Floor: 1, Run: noNarrowParamSums, Text: "sums with caller-supplied values are at least 64 bits wide in Query methods (= C03.R18): a step beyond the end exhausts the query and releases its lock"},
			{ID: "C09.R17", Floor: 1, Run: closeGuarded, Text: "closing is guarded by the query's own state: the release of a Query's lock bit is dominated by a test of a field of that query"},
			{ID: "C09.R18", Floor: 1, Run: compileGuardFlag, Text: "a generic filter counts as compiled only after a compilation that ran to its end: every early return of Compile lies where a bool field is known true that Compile sets after its last call; a compilation that panicked in a locked world is repeated, not half-used with the lock taken"},
		},
	})
}

// ---------- lock test / guard discovery ----------

type guardInfo struct {
	p         *Prog
	lockTests map[*ssa.Function]bool
	sum       map[*ssa.Function]*guardSum
	rb        map[*ssa.Call]*rollbackSite
	undo      map[*ssa.BasicBlock]bool // blocks of a verified locked edge (the undo region)
}

type guardSum struct {
	establishes bool
	umod        *ModSet // writes possibly executed before any guard on some path from entry
}

func (p *Prog) lockTestFns() map[*ssa.Function]bool {
	out := map[*ssa.Function]bool{}
	base := p.Fn("ecs.(*lockMask).IsLocked")
	if base == nil {
		return out
	}
	out[base] = true
	// wrappers: functions whose every return is the result of a call to a lock test, and that write nothing
	for changed := true; changed; {
		changed = false
		for _, fn := range p.Funcs {
			if out[fn] || fn.Signature.Results().Len() != 1 {
				continue
			}
			if b, ok := fn.Signature.Results().At(0).Type().Underlying().(*types.Basic); !ok || b.Kind() != types.Bool {
				continue
			}
			all, n := true, 0
			for _, b := range fn.Blocks {
				if r, ok := b.Instrs[len(b.Instrs)-1].(*ssa.Return); ok {
					n++
					c := callOf(r.Results[0])
					if c == nil || c.Common().StaticCallee() == nil || !out[c.Common().StaticCallee()] {
						all = false
					}
				}
			}
			if all && n > 0 && len(p.Mod(fn).W) == 0 {
				out[fn] = true
				changed = true
			}
		}
	}
	return out
}

// isLockTestValue: v is the result of a call to a lock test.
func (g *guardInfo) isLockTestValue(v ssa.Value) bool {
	c := callOf(v)
	if c == nil {
		return false
	}
	sc := c.Common().StaticCallee()
	return sc != nil && g.lockTests[sc]
}

// unlockedEdge: edge (b→Succs[k]) on which a lock test is known false, the other edge leading only to panic.
func (g *guardInfo) unlockedEdge(b *ssa.BasicBlock, k int) bool {
	atom, holds, ok := edgeCond(b, k)
	if !ok || !g.isLockTestValue(atom) {
		return false
	}
	if holds {
		return false // this is the locked edge
	}
	other := b.Succs[1-k]
	return g.p.panicOnly(other)
}

func (p *Prog) guardAnalysis() *guardInfo {
	g := &guardInfo{p: p, lockTests: p.lockTestFns(), sum: map[*ssa.Function]*guardSum{}, rb: map[*ssa.Call]*rollbackSite{}, undo: map[*ssa.BasicBlock]bool{}}
	for _, fn := range p.Funcs {
		g.sum[fn] = &guardSum{establishes: false, umod: newModSet()}
	}
	// phase 1: which functions establish the guard on every normal return (least fixpoint, grows)
	for iter := 0; iter < 30; iter++ {
		changed := false
		for _, fn := range p.Funcs {
			if g.sum[fn].establishes {
				continue
			}
			if g.flow(fn).AtAllReturns() {
				g.sum[fn].establishes = true
				changed = true
			}
		}
		if !changed {
			break
		}
	}
	// phase 2: unguarded mod-sets with the guard summaries fixed. Each round recomputes every
	// function's set from the previous round's summaries and replaces it (tags depend on the
	// converged callee summaries, so merging rounds would make the result order-dependent).
	ser := func(m *ModSet) string {
		var sb strings.Builder
		for _, k := range sortedKeys(m.W) {
			sb.WriteString(k + "#" + m.W[k].Tag + ";")
		}
		return sb.String()
	}
	for iter := 0; iter < 40; iter++ {
		changed := false
		g.rb = map[*ssa.Call]*rollbackSite{}
		g.undo = map[*ssa.BasicBlock]bool{}
		next := map[*ssa.Function]*ModSet{}
		for _, fn := range p.Funcs {
			_, um := g.analyse(fn)
			next[fn] = um
		}
		for _, fn := range p.Funcs {
			if ser(next[fn]) != ser(g.sum[fn].umod) {
				changed = true
			}
			g.sum[fn].umod = next[fn]
		}
		if !changed {
			break
		}
	}
	return g
}

func (g *guardInfo) flow(fn *ssa.Function) *MustFlow {
	mf := &MustFlow{Fn: fn,
		EdgeGen: g.unlockedEdge,
		InstrGen: func(ins ssa.Instruction) bool {
			c, ok := ins.(*ssa.Call)
			if !ok {
				return false
			}
			callees, boundary := g.p.Callees(c)
			if boundary || len(callees) == 0 {
				return false
			}
			for _, cal := range callees {
				s := g.sum[cal]
				if s == nil || !s.establishes {
					return false
				}
			}
			return true
		},
	}
	mf.Run()
	return mf
}

func (g *guardInfo) analyse(fn *ssa.Function) (bool, *ModSet) {
	mf := g.flow(fn)
	um := newModSet()
	for _, b := range fn.Blocks {
		if !reachable(b) {
			continue
		}
		for _, ins := range b.Instrs {
			if mf.Before(ins) {
				continue
			}
			for _, w := range directWrites(ins) {
				if g.undo[b] {
					w.Tag = "rolledback"
				}
				um.add(w)
			}
			if site, ok := ins.(ssa.CallInstruction); ok {
				callees, boundary := g.p.Callees(site)
				if boundary {
					continue
				}
				var tw []*Write
				var regPaths []string
				for _, cal := range callees {
					s := g.sum[cal]
					if s == nil {
						continue
					}
					for _, k := range sortedKeys(s.umod.W) {
						if nw := translate(s.umod.W[k], site, cal); nw != nil {
							tw = append(tw, nw)
							if nw.Tag == "" && isCompRegistry(nw.Path) {
								regPaths = append(regPaths, nw.Path)
							}
						}
					}
				}
				if c, isCall := ins.(*ssa.Call); isCall && len(regPaths) > 0 && !g.undo[b] {
					rs := &rollbackSite{fn: fn, call: c, paths: regPaths}
					rs.ok, rs.why, rs.undoName = g.checkRollback(fn, c, mf, regPaths)
					g.rb[c] = rs
					if rs.ok {
						for _, w := range tw {
							if isCompRegistry(w.Path) {
								w.Tag = "rolledback"
							}
						}
					}
				}
				for _, w := range tw {
					if g.undo[b] && isCompRegistry(w.Path) {
						w.Tag = "rolledback"
					}
					um.add(w)
				}
			}
		}
	}
	return mf.AtAllReturns(), um
}

// rollbackSites finds (function, call) pairs where a component-registry insert happens unguarded and
// checks the rollback shape (C09.R5). Returns the set of functions with a verified rollback.
type rollbackSite struct {
	fn       *ssa.Function
	call     *ssa.Call
	paths    []string
	ok       bool
	why      string
	undoName string
}

func (g *guardInfo) rollbackSites() []rollbackSite {
	var out []rollbackSite
	for _, rs := range g.rb {
		out = append(out, *rs)
	}
	sort.Slice(out, func(i, j int) bool { return out[i].call.Pos() < out[j].call.Pos() })
	return out
}

// noWriteWhenFalse: function fn returns the constant false in result position j only on paths
// on which nothing was written (so "result j is false" implies "no insert happened").
func (g *guardInfo) noWriteWhenFalse(fn *ssa.Function, j int) bool {
	if fn.Blocks == nil {
		return false
	}
	clean := &MustFlow{Fn: fn, Entry: true,
		InstrKill: func(ins ssa.Instruction) bool {
			if len(directWrites(ins)) > 0 {
				return true
			}
			if site, ok := ins.(ssa.CallInstruction); ok {
				return len(g.p.SiteMod(site).W) > 0
			}
			return false
		},
	}
	clean.Run()
	n := 0
	for _, b := range fn.Blocks {
		r, ok := b.Instrs[len(b.Instrs)-1].(*ssa.Return)
		if !ok || !reachable(b) || j >= len(r.Results) {
			continue
		}
		n++
		cb, isConst := constBool(r.Results[j])
		if isConst && cb {
			continue // may have written
		}
		if !clean.Before(r) {
			return false
		}
	}
	return n > 0
}

func (g *guardInfo) checkRollback(fn *ssa.Function, c *ssa.Call, mf *MustFlow, regPaths []string) (bool, string, string) {
	p := g.p
	// (1) every return of fn is either guarded or lies on a path on which no insert happened.
	// "No insert happened" is known after the call on the false edge of a boolean result j of the
	// callee, if the callee returns false in position j only on paths without any write.
	noInsertEdge := func(b *ssa.BasicBlock, k int) bool {
		atom, holds, ok := edgeCond(b, k)
		if !ok || holds {
			return false
		}
		ex, ok := atom.(*ssa.Extract)
		if !ok || ex.Tuple != ssa.Value(c) {
			return false
		}
		sc := c.Common().StaticCallee()
		return sc != nil && g.noWriteWhenFalse(sc, ex.Index)
	}
	safe := &MustFlow{Fn: fn, Entry: true,
		EdgeGen:   func(b *ssa.BasicBlock, k int) bool { return g.unlockedEdge(b, k) || noInsertEdge(b, k) },
		InstrGen:  mf.InstrGen,
		InstrKill: func(ins ssa.Instruction) bool { return ins == ssa.Instruction(c) },
	}
	safe.Run()
	if !safe.AtAllReturns() {
		return false, "a path from the registry insert to a normal return does not pass the lock test", ""
	}
	// (2) no other structural write while unguarded
	for _, b := range fn.Blocks {
		for _, ins := range b.Instrs {
			if ins == ssa.Instruction(c) || mf.Before(ins) {
				continue
			}
			if p.panicOnly(b) {
				continue // the undo itself
			}
			for _, w := range directWrites(ins) {
				if isStructural(w.Path) {
					return false, "another structural write (" + w.Path + ") happens before the lock test", ""
				}
			}
			if site, ok := ins.(ssa.CallInstruction); ok {
				for _, pa := range p.SiteMod(site).Paths() {
					if isStructural(pa) {
						return false, "another structural write (" + pa + " via call) happens before the lock test", ""
					}
				}
			}
		}
	}
	// (3) the locked edge's panic-only region calls a function whose mod-set covers regPaths
	covered := map[string]bool{}
	undo := ""
	found := false
	var undoBlocks []*ssa.BasicBlock
	for _, b := range fn.Blocks {
		atom, trueSucc, ok := ifCond(b)
		if !ok || !g.isLockTestValue(atom) {
			continue
		}
		locked := b.Succs[trueSucc]
		if !p.panicOnly(locked) {
			continue
		}
		found = true
		seen := map[*ssa.BasicBlock]bool{}
		var walk func(bb *ssa.BasicBlock)
		walk = func(bb *ssa.BasicBlock) {
			if seen[bb] {
				return
			}
			seen[bb] = true
			undoBlocks = append(undoBlocks, bb)
			for _, ins := range bb.Instrs {
				if site, ok := ins.(ssa.CallInstruction); ok {
					for _, pa := range p.SiteMod(site).Paths() {
						covered[pa] = true
					}
					if sc := site.Common().StaticCallee(); sc != nil && p.isArche(sc) {
						undo = p.FuncName(sc)
					}
				}
			}
			for _, s := range bb.Succs {
				walk(s)
			}
		}
		walk(locked)
	}
	if !found {
		return false, "no lock test with a panicking locked edge after the insert", ""
	}
	var missing []string
	for _, pa := range regPaths {
		if !covered[pa] {
			missing = append(missing, pa)
		}
	}
	if len(missing) > 0 {
		return false, "the locked edge does not undo: " + strings.Join(missing, ", "), undo
	}
	for _, bb := range undoBlocks {
		g.undo[bb] = true
	}
	return true, "", undo
}

// ---------- R1 ----------

func c09r1(p *Prog, r *Reporter) {
	if p.Fn("ecs.(*lockMask).IsLocked") == nil {
		r.Anchor("ecs.(*lockMask).IsLocked")
		return
	}
	g := p.guardAnalysis()
	guardSites := 0
	for _, fn := range p.Funcs {
		for _, b := range fn.Blocks {
			for k := range b.Succs {
				if g.unlockedEdge(b, k) {
					guardSites++
				}
			}
		}
	}
	_ = guardSites
	for _, pkg := range []string{"ecs", "generic"} {
		for _, e := range p.Entries(pkg) {
			name := p.FuncName(e)
			if !reachesExistingState(e) {
				// constructors (NewWorld, NewConfig, All, …) receive no reference to an existing world
				continue
			}
			mod := p.Mod(e)
			um := g.sum[e].umod
			unguarded := map[string]*Write{}
			for _, k := range sortedKeys(um.W) {
				unguarded[um.W[k].Path] = um.W[k]
			}
			// one obligation per (entry, state class); the detail names the paths
			type agg struct {
				n, rolled int
				first     *Write
				bad       []string
				badW      *Write
			}
			classes := map[string]*agg{}
			for _, pa := range mod.Paths() {
				cl := ""
				switch {
				case isCore(pa):
					cl = "entity state (index, pools, table lengths)"
				case isCompRegistry(pa):
					cl = "component registry"
				case isGraph(pa):
					cl = "tables and archetype graph"
				default:
					continue
				}
				a := classes[cl]
				if a == nil {
					a = &agg{}
					classes[cl] = a
				}
				a.n++
				if a.first == nil {
					a.first = mod.Has(func(s string) bool { return s == pa })
				}
				if uw, bad := unguarded[pa]; bad {
					if uw.Tag == "rolledback" {
						a.rolled++
						continue
					}
					a.bad = append(a.bad, pa)
					if a.badW == nil {
						a.badW = uw
					}
				}
			}
			var cls []string
			for c := range classes {
				cls = append(cls, c)
			}
			sort.Strings(cls)
			for _, c := range cls {
				a := classes[c]
				if len(a.bad) > 0 {
					r.Bad(name, "writes "+c, p.Pos(a.badW.Pos), fmt.Sprintf("a path from the entry reaches a structural write without passing a lock test: %s (%d of %d paths: %s) via %s",
						a.bad[0], len(a.bad), a.n, strings.Join(a.bad, ", "), p.chain(a.badW)))
					continue
				}
				d := fmt.Sprintf("%d written field paths, every path to each passes a lock test first; e.g. %s", a.n, p.chain(a.first))
				if a.rolled > 0 {
					d = fmt.Sprintf("%d written field paths; %d are written before the lock test but undone on the locked edge (C09.R5)", a.n, a.rolled)
				}
				r.OK(name, "writes "+c, p.Pos(a.first.Pos), d)
			}
		}
	}
}

// ---------- R5 ----------

func c09r5(p *Prog, r *Reporter) {
	g := p.guardAnalysis()
	for _, rs := range g.rollbackSites() {
		name := p.FuncName(rs.fn)
		callee := "?"
		if sc := rs.call.Common().StaticCallee(); sc != nil {
			callee = p.FuncName(sc)
			if typeName(recvType(sc)) != "componentRegistry" {
				continue // outer callers only see the consequence of a failed innermost site
			}
		}
		if rs.ok {
			r.OK(name, "registry insert via "+callee, p.Pos(rs.call.Pos()),
				fmt.Sprintf("insert writes %d registry paths before the lock test; all returns pass the test; locked edge undoes them via %s", len(rs.paths), rs.undoName))
		} else {
			r.Bad(name, "registry insert via "+callee, p.Pos(rs.call.Pos()), rs.why)
		}
	}
}

// ---------- R2: lock typestate ----------

func (p *Prog) lockPrimitives() (acquire, release map[*ssa.Function]bool) {
	acquire, release = map[*ssa.Function]bool{}, map[*ssa.Function]bool{}
	a := p.Fn("ecs.(*lockMask).Lock")
	u := p.Fn("ecs.(*lockMask).Unlock")
	if a != nil {
		acquire[a] = true
	}
	if u != nil {
		release[u] = true
	}
	// thin wrappers: a function that returns the result of an acquire / passes its parameter to a release, and does nothing else structural
	for _, fn := range p.Funcs {
		if len(fn.Blocks) != 1 {
			continue
		}
		var calls []*ssa.Call
		for _, ins := range fn.Blocks[0].Instrs {
			if c, ok := ins.(*ssa.Call); ok {
				calls = append(calls, c)
			}
		}
		if len(calls) != 1 {
			continue
		}
		sc := calls[0].Common().StaticCallee()
		if sc == nil {
			continue
		}
		ret, _ := fn.Blocks[0].Instrs[len(fn.Blocks[0].Instrs)-1].(*ssa.Return)
		if a != nil && sc == a && ret != nil && len(ret.Results) == 1 && ret.Results[0] == ssa.Value(calls[0]) {
			acquire[fn] = true
		}
		if u != nil && sc == u && len(calls[0].Common().Args) == 2 {
			if pr, ok := calls[0].Common().Args[1].(*ssa.Parameter); ok && pr.Parent() == fn {
				release[fn] = true
			}
		}
	}
	return
}

// paramToLockBit: functions that store parameter i into Query.lockBit of a value they return.
func (p *Prog) lockBitTransfers() map[*ssa.Function]int {
	out := map[*ssa.Function]int{}
	for _, fn := range p.Funcs {
		if fn.Signature.Results().Len() != 1 || typeName(fn.Signature.Results().At(0).Type()) != "Query" {
			continue
		}
		for _, b := range fn.Blocks {
			for _, ins := range b.Instrs {
				st, ok := ins.(*ssa.Store)
				if !ok {
					continue
				}
				fa, ok := st.Addr.(*ssa.FieldAddr)
				if !ok || typeName(fa.X.Type()) != "Query" || fieldName(fa.X.Type(), fa.Field) != "lockBit" {
					continue
				}
				if pr, ok := st.Val.(*ssa.Parameter); ok {
					out[fn] = paramIndex(pr)
				}
			}
		}
	}
	return out
}

func c09r2(p *Prog, r *Reporter) {
	acq, rel := p.lockPrimitives()
	if len(acq) == 0 || len(rel) == 0 {
		r.Anchor("ecs.(*lockMask).Lock / Unlock")
		return
	}
	transfers := p.lockBitTransfers()
	for _, fn := range p.Funcs {
		if acq[fn] {
			continue
		}
		for _, b := range fn.Blocks {
			for _, ins := range b.Instrs {
				c, ok := ins.(*ssa.Call)
				if !ok {
					continue
				}
				sc := c.Common().StaticCallee()
				if sc == nil || !acq[sc] {
					continue
				}
				checkLockValue(p, r, fn, c, rel, transfers)
			}
		}
	}
	// release calls must take a value that is an acquired lock or a Query.lockBit (R3 covers the latter)
	for _, fn := range p.Funcs {
		if rel[fn] {
			continue
		}
		for _, site := range callsIn(fn) {
			sc := site.Common().StaticCallee()
			if sc == nil || !rel[sc] {
				continue
			}
			arg := site.Common().Args[len(site.Common().Args)-1]
			src := lockSource(arg, acq)
			name := p.FuncName(fn)
			switch src {
			case "acquired":
				r.OKt(name, "release of an acquired lock", p.Pos(site.Pos()), "argument is the result of the acquire primitive in the same function")
			case "lockBit":
				r.OKt(name, "release of Query.lockBit", p.Pos(site.Pos()), "argument is the lock bit stored in the query (see R3)")
			default:
				r.Bad(name, "release of "+apath(arg), p.Pos(site.Pos()), "released value is neither a lock acquired in this function nor a query's lock bit")
			}
		}
	}
}

func lockSource(v ssa.Value, acq map[*ssa.Function]bool) string {
	switch x := v.(type) {
	case *ssa.Call:
		if sc := x.Common().StaticCallee(); sc != nil && acq[sc] {
			return "acquired"
		}
	case *ssa.UnOp:
		if fa, ok := x.X.(*ssa.FieldAddr); ok && typeName(fa.X.Type()) == "Query" && fieldName(fa.X.Type(), fa.Field) == "lockBit" {
			return "lockBit"
		}
	case *ssa.Parameter:
		return "param"
	}
	return ""
}

// checkLockValue: count releases/transfers of lock value c along all paths to Return.
func checkLockValue(p *Prog, r *Reporter, fn *ssa.Function, c *ssa.Call, rel map[*ssa.Function]bool, transfers map[*ssa.Function]int) {
	name := p.FuncName(fn)
	consumes := func(ins ssa.Instruction) bool {
		site, ok := ins.(ssa.CallInstruction)
		if !ok {
			return false
		}
		sc := site.Common().StaticCallee()
		if sc == nil {
			return false
		}
		args := site.Common().Args
		if rel[sc] {
			return len(args) > 0 && args[len(args)-1] == ssa.Value(c)
		}
		if idx, ok := transfers[sc]; ok && idx < len(args) && args[idx] == ssa.Value(c) {
			return true
		}
		return false
	}
	// any other use of the lock value is an escape we cannot follow
	for _, ref := range *c.Referrers() {
		if consumes(ref) {
			continue
		}
		if _, isDbg := ref.(*ssa.DebugRef); isDbg {
			continue
		}
		r.Und(name, "lock value", p.Pos(c.Pos()), "the acquired lock is used by an instruction that is neither a release nor a transfer into a returned query: "+ref.String())
		return
	}
	// dataflow: possible counts (bitmask over {0,1,2+}) at block entry
	in := map[*ssa.BasicBlock]uint8{}
	start := c.Block()
	type item struct{ b *ssa.BasicBlock }
	work := []*ssa.BasicBlock{}
	// count within start block after c
	step := func(b *ssa.BasicBlock, s uint8, from int) uint8 {
		for i := from; i < len(b.Instrs); i++ {
			if consumes(b.Instrs[i]) {
				ns := uint8(0)
				if s&1 != 0 {
					ns |= 2
				}
				if s&2 != 0 {
					ns |= 4
				}
				if s&4 != 0 {
					ns |= 4
				}
				s = ns
			}
		}
		return s
	}
	idx := 0
	for i, ins := range start.Instrs {
		if ins == ssa.Instruction(c) {
			idx = i + 1
		}
	}
	out0 := step(start, 1, idx)
	outs := map[*ssa.BasicBlock]uint8{start: out0}
	bad := ""
	checkRet := func(b *ssa.BasicBlock, s uint8) {
		if _, ok := b.Instrs[len(b.Instrs)-1].(*ssa.Return); ok {
			if s != 2 {
				bad = fmt.Sprintf("a path from the acquire to the return at %s releases/transfers the lock %s times", p.Pos(posOf(b.Instrs[len(b.Instrs)-1])), countSet(s))
			}
		}
	}
	checkRet(start, out0)
	for _, s := range start.Succs {
		work = append(work, s)
	}
	for len(work) > 0 {
		b := work[0]
		work = work[1:]
		var s uint8
		for _, pr := range b.Preds {
			s |= outs[pr]
		}
		if b == start {
			// loop back into the acquiring block: re-acquire is a new value; ignore
			continue
		}
		if s == in[b] {
			continue
		}
		in[b] = s
		o := step(b, s, 0)
		outs[b] = o
		checkRet(b, o)
		for _, su := range b.Succs {
			work = append(work, su)
		}
	}
	if bad != "" {
		r.Bad(name, "lock value", p.Pos(c.Pos()), bad)
		return
	}
	r.OK(name, "lock value", p.Pos(c.Pos()), "every non-panicking path from the acquire to a return releases or transfers the lock exactly once")
}

func countSet(s uint8) string {
	var parts []string
	if s&1 != 0 {
		parts = append(parts, "0")
	}
	if s&2 != 0 {
		parts = append(parts, "1")
	}
	if s&4 != 0 {
		parts = append(parts, "2+")
	}
	return "{" + strings.Join(parts, ",") + "}"
}

// ---------- R3 ----------

func c09r3(p *Prog, r *Reporter) {
	closeFn := p.Fn("ecs.(*World).closeQuery")
	if closeFn == nil {
		r.Anchor("ecs.(*World).closeQuery")
		return
	}
	_, rel := p.lockPrimitives()
	readers := map[string]token.Pos{}
	for _, fn := range p.Funcs {
		for _, b := range fn.Blocks {
			for _, ins := range b.Instrs {
				u, ok := ins.(*ssa.UnOp)
				if !ok || u.Op != token.MUL {
					continue
				}
				fa, ok := u.X.(*ssa.FieldAddr)
				if !ok || typeName(fa.X.Type()) != "Query" || fieldName(fa.X.Type(), fa.Field) != "lockBit" {
					continue
				}
				readers[p.FuncName(fn)] = u.Pos()
			}
			for _, ins := range b.Instrs {
				// whole-struct copies of a Query are fine (value semantics); Field on a loaded Query value
				if f, ok := ins.(*ssa.Field); ok && typeName(f.X.Type()) == "Query" && fieldName(f.X.Type(), f.Field) == "lockBit" {
					readers[p.FuncName(fn)] = f.Pos()
				}
			}
		}
	}
	var names []string
	for n := range readers {
		names = append(names, n)
	}
	sort.Strings(names)
	for _, n := range names {
		if n == p.FuncName(closeFn) {
			r.OKt(n, "read Query.lockBit", p.Pos(readers[n]), "the close function reads the lock bit")
		} else {
			r.Bad(n, "read Query.lockBit", p.Pos(readers[n]), "the query's lock bit is read outside the close function")
		}
	}
	// close function: exactly one release on every return path, and marks the query closed
	cnt := releaseCounts(p, closeFn, rel)
	if cnt == 2 {
		r.OK(p.FuncName(closeFn), "release count", p.FnPos(closeFn), "every return path of the close function releases the lock exactly once")
	} else {
		r.Bad(p.FuncName(closeFn), "release count", p.FnPos(closeFn), "the close function releases the lock "+countSet(cnt)+" times on some path")
	}
	marks := false
	for _, pa := range p.Mod(closeFn).Paths() {
		if strings.HasPrefix(pa, "Query.nodeIndex") || strings.HasPrefix(pa, "Query.archIndex") {
			marks = true
		}
	}
	r.Check(marks, p.FuncName(closeFn), "marks query closed", p.FnPos(closeFn), "the close function writes the query's iteration indices (closed marker)")
}

// releaseCounts: union over return paths of the number of release calls (bitmask {0,1,2+}).
func releaseCounts(p *Prog, fn *ssa.Function, rel map[*ssa.Function]bool) uint8 {
	in := map[*ssa.BasicBlock]uint8{fn.Blocks[0]: 1}
	outs := map[*ssa.BasicBlock]uint8{}
	var res uint8
	work := []*ssa.BasicBlock{fn.Blocks[0]}
	first := true
	for len(work) > 0 {
		b := work[0]
		work = work[1:]
		s := in[b]
		if !first || b != fn.Blocks[0] {
			s = 0
			for _, pr := range b.Preds {
				s |= outs[pr]
			}
			if b == fn.Blocks[0] {
				s |= 1
			}
			if s == in[b] && outs[b] != 0 {
				continue
			}
			in[b] = s
		}
		first = false
		o := s
		for _, ins := range b.Instrs {
			if site, ok := ins.(ssa.CallInstruction); ok {
				if sc := site.Common().StaticCallee(); sc != nil && rel[sc] {
					var ns uint8
					if o&1 != 0 {
						ns |= 2
					}
					if o&6 != 0 {
						ns |= 4
					}
					o = ns
				}
			}
		}
		if o == outs[b] {
			continue
		}
		outs[b] = o
		if _, ok := b.Instrs[len(b.Instrs)-1].(*ssa.Return); ok {
			res |= o
		}
		work = append(work, b.Succs...)
	}
	return res
}

// ---------- R6 ----------

func c09r6(p *Prog, r *Reporter) {
	ecs := p.Pkgs["ecs"]
	mtb := ecs.Types.Scope().Lookup("MaskTotalBits")
	cst, ok := mtb.(*types.Const)
	if !ok {
		r.Anchor("ecs.MaskTotalBits")
		return
	}
	want := cst.Val().ExactString()
	f := p.Field("ecs.bitPool.bits")
	if f == nil {
		r.Anchor("ecs.bitPool.bits")
		return
	}
	arr, ok := f.Type().Underlying().(*types.Array)
	if !ok {
		r.Bad("ecs.bitPool", "bits array length", p.Pos(f.Pos()), "bitPool.bits is not an array")
		return
	}
	r.Check(fmt.Sprint(arr.Len()) == want, "ecs.bitPool", "bits array length", p.Pos(f.Pos()),
		fmt.Sprintf("array length %d, MaskTotalBits %s", arr.Len(), want))
	// the guard in the function that writes bits[length]
	found := false
	for _, fn := range p.Funcs {
		if typeName(recvType(fn)) != "bitPool" {
			continue
		}
		for _, b := range fn.Blocks {
			atom, trueSucc, ok := ifCond(b)
			if !ok {
				continue
			}
			// on the non-panicking edge `length < K` (or <= K-1) must be known, in any comparison shape; K must be MaskTotalBits
			isLength := func(v ssa.Value) bool {
				_, fld, _, isF := loadedField(v)
				return isF && fld == "length"
			}
			for k := range b.Succs {
				if !p.panicOnly(b.Succs[1-k]) || p.panicOnly(b.Succs[k]) {
					continue
				}
				rel, c, ok2 := boundOnEdge(atom, k == trueSucc, isLength)
				if !ok2 {
					continue
				}
				found = true
				wantN := mtbInt(cst)
				okv := impliesAtMost(rel, c, wantN-1) && !impliesAtMost(rel, c, wantN-2)
				r.Check(okv, p.FuncName(fn), "exhaustion guard constant", p.Pos(posOf(b.Instrs[len(b.Instrs)-1])),
					fmt.Sprintf("on the non-panicking edge `length %s %d` is known; MaskTotalBits %s", rel, c, want))
			}
		}
	}
	if !found {
		r.Bad("ecs.bitPool", "exhaustion guard constant", "-", "no panicking guard on bitPool.length found")
	}
}

func stripConv(v ssa.Value) ssa.Value {
	for {
		switch x := v.(type) {
		case *ssa.Convert:
			v = x.X
		case *ssa.ChangeType:
			v = x.X
		default:
			return v
		}
	}
}

func recvType(fn *ssa.Function) types.Type {
	if fn.Signature.Recv() != nil {
		return fn.Signature.Recv().Type()
	}
	return types.Typ[types.Invalid]
}

// reachesExistingState: the function has a parameter through which an existing world can be reached
// (a pointer to, or a struct containing a pointer to, a named arche struct type).
func reachesExistingState(fn *ssa.Function) bool {
	for _, pr := range fn.Params {
		if typeReachesArche(pr.Type(), 0) {
			return true
		}
	}
	return false
}

func typeReachesArche(t types.Type, d int) bool {
	if d > 4 {
		return false
	}
	switch x := t.Underlying().(type) {
	case *types.Pointer:
		if n := namedOf(x); n != nil && n.Obj().Pkg() != nil && strings.HasPrefix(n.Obj().Pkg().Path(), modPath) {
			if _, ok := n.Underlying().(*types.Struct); ok {
				return true
			}
		}
		return typeReachesArche(x.Elem(), d+1)
	case *types.Struct:
		for i := 0; i < x.NumFields(); i++ {
			if typeReachesArche(x.Field(i).Type(), d+1) {
				return true
			}
		}
	case *types.Slice:
		return typeReachesArche(x.Elem(), d+1)
	case *types.Array:
		return typeReachesArche(x.Elem(), d+1)
	}
	return false
}

func c09r7(p *Prog, r *Reporter) {
	tmp := &Reporter{p: p, rule: r.rule}
	c15r1(p, tmp)
	for _, o := range tmp.obs {
		if strings.Contains(o.Construct, "bitPool.") || strings.Contains(o.Construct, "lockMask.") {
			r.add(o.Func, o.Construct, o.Pos, o.Status, o.Detail, o.Nontrivial)
		}
	}
}

func mtbInt(c *types.Const) int64 {
	v, _ := constant.Int64Val(c.Val())
	return v
}

func c09r8(p *Prog, r *Reporter) {
	tmp := &Reporter{p: p, rule: r.rule}
	c04r1(p, tmp)
	c04r2(p, tmp)
	for _, o := range tmp.obs {
		if strings.HasSuffix(o.Func, ".IsZero") || o.Status == "anchor-unresolved" {
			r.add(o.Func, o.Construct, o.Pos, o.Status, o.Detail, o.Nontrivial)
		}
	}
	tmp2 := &Reporter{p: p, rule: r.rule}
	c04r3(p, tmp2)
	for _, o := range tmp2.obs {
		r.add(o.Func, o.Construct, o.Pos, o.Status, o.Detail, o.Nontrivial)
	}
}
