package main

// Rules added in / after the fifth round.

import (
	"fmt"
	"go/constant"
	"go/token"
	"go/types"
	"strings"

	"golang.org/x/tools/go/ssa"
)

// narrowCounterBounds: what a narrow unsigned counter field can count up to, as a constant of package ecs (or a
// literal). Confirmed by reading: every recycled lock bit was issued before, and at most MaskTotalBits are issued
// (guard in bitPool.getNew); a chunk of an idMap has idMapChunkSize slots.
var narrowCounterBounds = map[string]string{
	"bitPool.available": "MaskTotalBits",
	"bitPool.length":    "MaskTotalBits",
	"idMap.chunkUsed":   "idMapChunkSize",
}

// narrowCounters: every field (or element of a field) of type uint8/uint16 that is incremented somewhere in package
// ecs has a listed bound, and the bound fits the type in this build.
func narrowCounters(p *Prog, r *Reporter) {
	pk := p.Pkgs["ecs"]
	seen := map[string]bool{}
	for _, fn := range p.Funcs {
		if fn.Pkg == nil || fn.Pkg.Pkg.Name() != "ecs" || len(fn.TypeArgs()) > 0 {
			continue
		}
		for _, b := range fn.Blocks {
			for _, ins := range b.Instrs {
				st, ok := ins.(*ssa.Store)
				if !ok {
					continue
				}
				bo, ok := st.Val.(*ssa.BinOp)
				if !ok || bo.Op != token.ADD {
					continue
				}
				c, isC := constInt64(bo.Y)
				if !isC || c <= 0 {
					continue
				}
				// x = x + c  with x loaded from the stored address
				ld, ok := bo.X.(*ssa.UnOp)
				if !ok || ld.Op != token.MUL || apath(ld.X) != apath(st.Addr) {
					continue
				}
				bt, ok := bo.Type().Underlying().(*types.Basic)
				if !ok || !(bt.Kind() == types.Uint8 || bt.Kind() == types.Uint16) {
					continue
				}
				// owner.field
				addr := st.Addr
				if ia, ok := addr.(*ssa.IndexAddr); ok {
					addr = ia.X
					if u, ok := addr.(*ssa.UnOp); ok {
						addr = u.X
					}
				}
				fa, ok := addr.(*ssa.FieldAddr)
				if !ok {
					continue
				}
				owner := typeName(fa.X.Type())
				if i := strings.Index(owner, "["); i > 0 {
					owner = owner[:i]
				}
				key := owner + "." + fieldName(fa.X.Type(), fa.Field)
				if seen[key] {
					continue
				}
				seen[key] = true
				max := int64(255)
				if bt.Kind() == types.Uint16 {
					max = 65535
				}
				construct := "narrow counter " + key
				bn, listed := narrowCounterBounds[key]
				if !listed {
					r.Und(p.FuncName(fn), construct, p.Pos(st.Pos()), fmt.Sprintf("a %s field is incremented but no bound for it is listed in the checker (narrowCounterBounds): it may wrap", bt.Name()))
					continue
				}
				bc, _ := pk.Types.Scope().Lookup(bn).(*types.Const)
				if bc == nil {
					r.Anchor("ecs." + bn)
					continue
				}
				bv, _ := constant.Int64Val(bc.Val())
				if bv <= max {
					r.OK(p.FuncName(fn), construct, p.Pos(st.Pos()), fmt.Sprintf("counts at most %s = %d, which fits %s", bn, bv, bt.Name()))
				} else {
					r.Bad(p.FuncName(fn), construct, p.Pos(st.Pos()), fmt.Sprintf("the field can count up to %s = %d but is a %s (max %d): at the limit it wraps to 0 (for the lock-bit pool: after %d simultaneously open queries were all closed, no lock bit is available any more and every new query panics)", bn, bv, bt.Name(), max, bv))
				}
			}
		}
	}
}

// ---------- per-column effects are not skipped ----------

// columnEffectsComplete: in a loop of an archetype method whose body zeroes or copies column storage (reflect SetZero,
// the raw copy primitive, a zeroing method), every path through the body either performs the effect or is known to be
// on a zero-sized column (`itemSize == 0`). A `continue` for any other reason leaves that column's old bytes in place.
func columnEffectsComplete(p *Prog, r *Reporter) {
	zero := p.zeroingFns()
	raw := p.rawCopyPrimitives()
	effect := func(i ssa.Instruction) bool {
		c, ok := i.(ssa.CallInstruction)
		if !ok {
			return false
		}
		if isZeroingCall(c) {
			return true
		}
		callees, _ := p.Callees(c)
		for _, sc := range callees {
			if zero[sc] || raw[sc] {
				return true
			}
		}
		return false
	}
	zeroSized := func(b *ssa.BasicBlock, k int) bool {
		atom, holds, ok := edgeCond(b, k)
		if !ok {
			return false
		}
		rel, c, ok := boundOnEdge(atom, holds, func(v ssa.Value) bool {
			_, f, _, okf := loadedField(v)
			return okf && f == "itemSize"
		})
		return ok && rel == "==" && c == 0
	}
	for _, fn := range p.Funcs {
		root := fn
		for root.Parent() != nil {
			root = root.Parent()
		}
		if tn := typeName(recvType(root)); tn != "archetype" && tn != "archetypeAccess" {
			continue
		}
		// loop headers whose body contains an effect
		n := 0
		anyLoopEffect := false
		for _, h := range fn.Blocks {
			if !isLoopHeader(h) {
				continue
			}
			var body []*ssa.BasicBlock
			has := false
			for _, x := range fn.Blocks {
				if x != h && dominatesBlock(h, x) && reaches(x, h) {
					body = append(body, x)
					for _, ins := range x.Instrs {
						if effect(ins) {
							has = true
						}
					}
				}
			}
			if !has {
				continue
			}
			anyLoopEffect = true
			n++
			// must-flow inside the loop: reset at the header
			mf := &MustFlow{Fn: fn,
				InstrGen:  effect,
				EdgeGen:   zeroSized,
				InstrKill: func(i ssa.Instruction) bool { return i.Block() == h && i == h.Instrs[0] },
			}
			mf.Run()
			bad := ""
			for _, x := range body {
				for k, s := range x.Succs {
					if s != h {
						continue
					}
					// fact at the end of x (back edge)
					st := mf.Before(x.Instrs[len(x.Instrs)-1])
					if !st && !mf.EdgeGen(x, k) {
						bad = p.Pos(posOf(x.Instrs[len(x.Instrs)-1]))
					}
				}
			}
			construct := fmt.Sprintf("per-column effect loop #%d", n)
			if bad == "" {
				r.OK(p.FuncName(fn), construct, p.Pos(posOf(h.Instrs[len(h.Instrs)-1])), "every iteration zeroes/copies its column, or the column is zero-sized")
			} else {
				r.Bad(p.FuncName(fn), construct, p.Pos(posOf(h.Instrs[len(h.Instrs)-1])), "an iteration can reach the next one (back edge at "+bad+") without zeroing/copying its column and without knowing that the column is zero-sized: that column keeps its old bytes")
			}
		}
		// the same loop body written as a per-column visitor: a closure taking the column (its id or layout) that
		// contains an effect is one iteration; every return of it is the end of the iteration
		if fn.Parent() != nil && !anyLoopEffect && columnVisitor(fn) {
			has := false
			for _, b := range fn.Blocks {
				for _, ins := range b.Instrs {
					if effect(ins) {
						has = true
					}
				}
			}
			if has {
				mf := &MustFlow{Fn: fn, InstrGen: effect, EdgeGen: zeroSized}
				mf.Run()
				construct := "per-column effect visitor"
				if mf.AtAllReturns() {
					r.OK(p.FuncName(fn), construct, p.Pos(fn.Pos()), "every call zeroes/copies its column, or the column is zero-sized")
				} else {
					r.Bad(p.FuncName(fn), construct, p.Pos(fn.Pos()), "the per-column callback can return without zeroing/copying its column and without knowing that the column is zero-sized: that column keeps its old bytes")
				}
			}
		}
	}
}

// columnVisitor: a closure whose parameters name one column (a component id or a column layout).
func columnVisitor(fn *ssa.Function) bool {
	for _, pr := range fn.Params {
		switch typeName(pr.Type()) {
		case "ID", "layout":
			return true
		}
	}
	return false
}

// ---------- the pool is restored verbatim ----------

func poolRestoredVerbatim(p *Prog, r *Reporter) {
	load := p.Fn("ecs.(*World).LoadEntities")
	if load == nil {
		r.Anchor("ecs.(*World).LoadEntities")
		return
	}
	want := map[string]string{"next": "Next", "available": "Available"}
	seen := map[string]bool{}
	for _, b := range load.Blocks {
		for _, ins := range b.Instrs {
			st, ok := ins.(*ssa.Store)
			if !ok {
				continue
			}
			o, f, _, okf := loadedField(st.Addr)
			if !okf || o != "entityPool" {
				continue
			}
			wf, tracked := want[f]
			if !tracked {
				continue
			}
			seen[f] = true
			v := stripConvs(st.Val)
			do, df, _, okd := loadedField(v)
			okc := okd && do == "EntityDump" && df == wf
			r.Check(okc, p.FuncName(load), "entityPool."+f+" restored from the dump", p.Pos(st.Pos()), "the pool's "+f+" is the dump's "+wf+" as recorded, not recomputed (found: "+exprString(st.Val)+")")
		}
	}
	for f := range want {
		if !seen[f] {
			r.Bad(p.FuncName(load), "entityPool."+f+" restored from the dump", p.FnPos(load), "no store to entityPool."+f)
		}
	}
}

// ---------- Deactivate only through the retiring method ----------

func deactivateOnlyOnRetire(p *Prog, r *Reporter) {
	push, _ := p.retirePrimitives()
	n := 0
	for _, fn := range p.Funcs {
		for _, site := range callsIn(fn) {
			sc := site.Common().StaticCallee()
			if sc == nil || cname(sc) != "Deactivate" || typeName(recvType(sc)) != "archetype" {
				continue
			}
			n++
			if push[fn] {
				r.OK(p.FuncName(fn), "deactivates a table", p.Pos(site.Pos()), "inside the retiring method, together with the removal from the target map and the push to the free list")
			} else {
				r.Bad(p.FuncName(fn), "deactivates a table", p.Pos(site.Pos()), "a table is marked inactive outside the retiring method: it stays in the node's target map (and keeps receiving entities) while selectors skip it as inactive")
			}
		}
	}
	if n == 0 {
		r.Anchor("a call of archetype.Deactivate")
	}
}

// ---------- the relation-removal guard uses ContainsAny ----------

func relationGuardCallee(p *Prog, r *Reporter) {
	n := 0
	for _, fn := range p.Funcs {
		for _, site := range callsIn(fn) {
			sc := site.Common().StaticCallee()
			if sc == nil || typeName(recvType(sc)) != "Mask" || len(site.Common().Args) != 2 {
				continue
			}
			if _, f, _, ok := loadedField(site.Common().Args[1]); !ok || f != "IsRelation" {
				if fa, ok := site.Common().Args[1].(*ssa.FieldAddr); !ok || fieldName(fa.X.Type(), fa.Field) != "IsRelation" {
					continue
				}
			}
			n++
			construct := fmt.Sprintf("mask test against IsRelation #%d", n)
			if cname(sc) == "ContainsAny" {
				r.OK(p.FuncName(fn), construct, p.Pos(site.Pos()), "ContainsAny: the table has some relation component")
			} else {
				r.Bad(p.FuncName(fn), construct, p.Pos(site.Pos()), "a table's mask is tested with "+cname(sc)+" against the set of all relation types; 'has a relation component' is ContainsAny (with "+cname(sc)+" the test fails as soon as two relation types are registered)")
			}
		}
	}
	if n == 0 {
		r.Anchor("a Mask test against componentRegistry.IsRelation")
	}
}

// ---------- a given target is forwarded ----------

// variadicTargetForwarded: in a method with a variadic Entity parameter, code reachable from the `len(target) > 0`
// edge never calls an internal creator with its has-target flag constant false.
func variadicTargetForwarded(p *Prog, r *Reporter) {
	for _, fn := range p.Funcs {
		if !fn.Signature.Variadic() || len(fn.Params) == 0 {
			continue
		}
		last := fn.Params[len(fn.Params)-1]
		sl, ok := last.Type().Underlying().(*types.Slice)
		if !ok || !isEntityType(sl.Elem()) {
			continue
		}
		fact := "lenpos(" + last.Name() + ")"
		zfact := "lenzero(" + last.Name() + ")"
		n := 0
		for _, b := range fn.Blocks {
			iff, ok := b.Instrs[len(b.Instrs)-1].(*ssa.If)
			if !ok {
				continue
			}
			for k := 0; k < 2; k++ {
				if !boolFacts(iff.Cond, k == 0, 0)[fact] {
					continue
				}
				n++
				// blocks reachable from this edge
				seen := map[*ssa.BasicBlock]bool{}
				work := []*ssa.BasicBlock{b.Succs[k]}
				bad := ""
				for len(work) > 0 {
					x := work[len(work)-1]
					work = work[:len(work)-1]
					if seen[x] {
						continue
					}
					seen[x] = true
					for _, ins := range x.Instrs {
						site, ok := ins.(ssa.CallInstruction)
						if !ok {
							continue
						}
						sc := site.Common().StaticCallee()
						if sc == nil || !p.isArche(sc) || sc.Blocks == nil || len(site.Common().Args) != len(sc.Params) {
							continue
						}
						for i := 0; i+1 < len(sc.Params); i++ {
							if typeName(sc.Params[i].Type()) == "ID" {
								if bt, ok := sc.Params[i+1].Type().Underlying().(*types.Basic); ok && bt.Kind() == types.Bool {
									if cb, isC := constBool(site.Common().Args[i+1]); isC && !cb {
										bad = p.Pos(site.Pos())
									}
								}
							}
						}
					}
					if p.info(fn).cutAt[x] >= 0 {
						continue
					}
					// edges that test the (unchanged) target list again and need it empty are not feasible here
					if xi, ok := x.Instrs[len(x.Instrs)-1].(*ssa.If); ok {
						for j, sx := range x.Succs {
							if !boolFacts(xi.Cond, j == 0, 0)[zfact] {
								work = append(work, sx)
							}
						}
						continue
					}
					work = append(work, x.Succs...)
				}
				construct := fmt.Sprintf("target given (%s) #%d", last.Name(), n)
				if bad == "" {
					r.OK(p.FuncName(fn), construct, p.Pos(iff.Pos()), "no creation without the target is reachable once a target was given")
				} else {
					r.Bad(p.FuncName(fn), construct, p.Pos(iff.Pos()), "with a target given, control can still reach the call at "+bad+" that creates without relation target: the target is silently ignored (and never validated)")
				}
			}
		}
	}
}

// ---------- the target flags cover the index ----------

func targetFlagsCoverIndex(p *Prog, r *Reporter) {
	n := 0
	for _, fn := range p.Funcs {
		for _, site := range callsIn(fn) {
			sc := site.Common().StaticCallee()
			if sc == nil || cname(sc) != "ExtendTo" || typeName(recvType(sc)) != "bitSet" {
				continue
			}
			if _, f, _, ok := loadedField(site.Common().Args[0]); !ok || f != "targetEntities" {
				if fa, ok := site.Common().Args[0].(*ssa.FieldAddr); !ok || fieldName(fa.X.Type(), fa.Field) != "targetEntities" {
					continue
				}
			}
			n++
			x := stripConvs(site.Common().Args[1])
			okc, why := false, "the new size is "+exprString(x)
			// (a) the capacity of the index allocated in this function
			for _, b := range fn.Blocks {
				for _, ins := range b.Instrs {
					if mk, ok := ins.(*ssa.MakeSlice); ok {
						if sl, ok := mk.Type().Underlying().(*types.Slice); ok && typeName(sl.Elem()) == "entityIndex" {
							if c := stripConvs(mk.Cap); c == x || structEq(c, x, 0) {
								okc, why = true, "the capacity the index is allocated with"
							}
							// a constant size covering the constant length the index starts with (the constructor)
							if cx, ok := x.(*ssa.Const); ok && cx.Value != nil {
								if cl, ok := stripConvs(mk.Len).(*ssa.Const); ok && cl.Value != nil && cx.Int64() >= cl.Int64() {
									okc, why = true, "a constant covering the constant length the index is created with"
								}
							}
						}
					}
				}
			}
			// (b) a capacity helper's result
			if c := callOf(x); c != nil && c.Common().StaticCallee() != nil && strings.HasPrefix(cname(c.Common().StaticCallee()), "capacity") {
				okc, why = true, "the result of "+cname(c.Common().StaticCallee())
			}
			// (c) old length + a non-constant increment (the configured capacity increment)
			if bo, ok := x.(*ssa.BinOp); ok && bo.Op == token.ADD {
				isLen := func(v ssa.Value) bool {
					c := callOf(stripConvs(v))
					if c == nil {
						return false
					}
					bi, ok := c.Call.Value.(*ssa.Builtin)
					if !ok || bi.Name() != "len" {
						return false
					}
					_, f, _, okf := loadedField(c.Call.Args[0])
					return okf && f == "entities"
				}
				if isLen(bo.X) || isLen(bo.Y) {
					okc, why = true, "the index length plus the capacity increment"
				}
			}
			construct := fmt.Sprintf("target flags extended #%d", n)
			if okc {
				r.OK(p.FuncName(fn), construct, p.Pos(site.Pos()), "extended to "+why)
			} else {
				r.Bad(p.FuncName(fn), construct, p.Pos(site.Pos()), why+", which is not known to cover the ids the index is about to hold (the capacity of the index, a capacity helper's result, or old length + increment): the newest id may have no flag word")
			}
		}
	}
	if n == 0 {
		r.Anchor("a call of World.targetEntities.ExtendTo")
	}
}

// ---------- moving cache entries ----------

func cacheEntryMoves(p *Prog, r *Reporter) {
	n := 0
	for _, fn := range p.Funcs {
		if typeName(recvType(fn)) != "Cache" {
			continue
		}
		isFilters := func(v ssa.Value) bool {
			if sl, ok := v.(*ssa.Slice); ok {
				v = sl.X
			}
			_, f, _, ok := loadedField(v)
			return ok && f == "filters"
		}
		// bulk moves inside the entry list
		for _, site := range callsIn(fn) {
			bi, ok := site.Common().Value.(*ssa.Builtin)
			if !ok || bi.Name() != "copy" {
				continue
			}
			if isFilters(site.Common().Args[0]) && isFilters(site.Common().Args[1]) {
				n++
				r.Bad(p.FuncName(fn), "bulk move of cache entries", p.Pos(site.Pos()), "entries are shifted inside Cache.filters with copy(): every shifted entry changes position, but the id → position map is not rebuilt for all of them")
			}
		}
		// element moves: c.filters[i] = c.filters[j] must be followed by indices[…] = i and happen only where i != j is known
		// when the function also deletes from the map
		deletes := false
		// the function itself, or a method of the cache that calls it (the removal written in a helper)
		cands := []*ssa.Function{fn}
		for _, g := range p.Funcs {
			if g.Synthetic != "" || typeName(recvType(g)) != "Cache" {
				continue
			}
			for _, site := range callsIn(g) {
				if isCallTo(site, fn) {
					cands = append(cands, g)
				}
			}
		}
		for _, g := range cands {
			for _, site := range callsIn(g) {
				if bi, ok := site.Common().Value.(*ssa.Builtin); ok && bi.Name() == "delete" {
					if _, f, _, ok := loadedField(site.Common().Args[0]); ok && f == "indices" {
						deletes = true
					}
				}
			}
		}
		for _, b := range fn.Blocks {
			for _, ins := range b.Instrs {
				mu, ok := ins.(*ssa.MapUpdate)
				if !ok {
					continue
				}
				if _, f, _, ok := loadedField(mu.Map); !ok || f != "indices" {
					continue
				}
				if !deletes {
					continue
				}
				n++
				// the re-indexing after a swap-remove: only where the removed position differs from the last one
				guarded := false
				mf := &MustFlow{Fn: fn, EdgeGen: func(x *ssa.BasicBlock, k int) bool {
					atom, holds, ok := edgeCond(x, k)
					if !ok {
						return false
					}
					if differsEdge(atom, holds) {
						return true
					}
					// a flag returned by a removal helper that is true only where the helper knows the positions differ
					return holds && flagMeansDiffers(atom)
				}}
				mf.Run()
				guarded = mf.Before(mu)
				if guarded {
					r.OK(p.FuncName(fn), "re-index after swap-remove", p.Pos(mu.Pos()), "the moved entry is re-indexed only where it is a different entry than the removed one")
				} else {
					r.Bad(p.FuncName(fn), "re-index after swap-remove", p.Pos(mu.Pos()), "the id → position map is written unconditionally after the removed id was deleted from it: when the removed entry is the last one it re-inserts the removed id (a stale handle then resolves to whatever is registered next)")
				}
			}
		}
	}
	if n == 0 {
		r.Anchor("Cache: re-indexing of moved entries")
	}
}

func differsEdge(atom ssa.Value, holds bool) bool {
	bo, isB := atom.(*ssa.BinOp)
	if !isB {
		return false
	}
	return bo.Op == token.NEQ && holds || bo.Op == token.EQL && !holds
}

// flagMeansDiffers: v is a boolean result of a statically resolved call, and the callee returns the constant true in
// that position only on paths on which two values are known to differ (and constants everywhere else).
func flagMeansDiffers(v ssa.Value) bool {
	idx := 0
	var call *ssa.Call
	switch x := v.(type) {
	case *ssa.Extract:
		c, ok := x.Tuple.(*ssa.Call)
		if !ok {
			return false
		}
		call, idx = c, x.Index
	case *ssa.Call:
		call = x
	default:
		return false
	}
	sc := call.Common().StaticCallee()
	if sc == nil || len(sc.Blocks) == 0 {
		return false
	}
	mf := &MustFlow{Fn: sc, EdgeGen: func(x *ssa.BasicBlock, k int) bool {
		atom, holds, ok := edgeCond(x, k)
		return ok && differsEdge(atom, holds)
	}}
	mf.Run()
	sawTrue := false
	for _, b := range sc.Blocks {
		for _, ins := range b.Instrs {
			ret, ok := ins.(*ssa.Return)
			if !ok || idx >= len(ret.Results) {
				continue
			}
			c, ok := ret.Results[idx].(*ssa.Const)
			if !ok {
				// the comparison itself is returned (`swapped := idx != last; …; return …, swapped`)
				if at, neg := condAtom(ret.Results[idx]); at != nil && differsEdge(at, !neg) {
					sawTrue = true
					continue
				}
				return false
			}
			if c.Value == nil || c.Value.Kind() != constant.Bool {
				return false
			}
			if constant.BoolVal(c.Value) {
				sawTrue = true
				if !mf.Before(ret) {
					return false
				}
			}
		}
	}
	return sawTrue
}

// ---------- the lock mask validates before it changes ----------

func lockMaskValidateFirst(p *Prog, r *Reporter) {
	n := 0
	for _, fn := range p.Funcs {
		if typeName(recvType(fn)) != "lockMask" {
			continue
		}
		for _, b := range fn.Blocks {
			if _, _, isIf := ifCond(b); !isIf {
				continue
			}
			for k, s := range b.Succs {
				_ = k
				if !p.panicOnly(s) {
					continue
				}
				n++
				// no write to lock state may precede the test
				writes := func(i ssa.Instruction) bool {
					if len(directWrites(i)) > 0 {
						for _, w := range directWrites(i) {
							if strings.HasPrefix(w.Path, "lockMask") || strings.HasPrefix(w.Path, "bitPool") {
								return true
							}
						}
					}
					if c, ok := i.(ssa.CallInstruction); ok {
						for _, pa := range p.SiteMod(c).Paths() {
							if strings.HasPrefix(pa, "lockMask") || strings.HasPrefix(pa, "bitPool") || strings.HasPrefix(pa, "Mask") {
								return true
							}
						}
					}
					return false
				}
				last := b.Instrs[len(b.Instrs)-1]
				if reachableNoBackEdge(fn, writes, last) {
					r.Bad(p.FuncName(fn), "validate before changing lock state", p.Pos(posOf(last)), "lock state (the lock mask or the bit pool) is written before the test whose failing edge panics: a refused unlock has already changed the pool")
				} else {
					r.OK(p.FuncName(fn), "validate before changing lock state", p.Pos(posOf(last)), "nothing is written before the test")
				}
			}
		}
	}
	if n == 0 {
		r.Anchor("a panicking test in a method of lockMask")
	}
}

// ---------- the zero ID is not an absence marker ----------

func zeroIDNotAbsence(p *Prog, r *Reporter) {
	n := 0
	for _, fn := range p.Funcs {
		if !p.isArche(fn) {
			continue
		}
		for _, b := range fn.Blocks {
			for _, ins := range b.Instrs {
				bo, ok := ins.(*ssa.BinOp)
				if !ok || (bo.Op != token.EQL && bo.Op != token.NEQ) || typeName(bo.X.Type()) != "ID" {
					continue
				}
				if _, isPtr := bo.X.Type().Underlying().(*types.Pointer); isPtr {
					continue // pointer comparisons (presence tests) are exactly what should be used
				}
				for _, opnd := range []ssa.Value{bo.X, bo.Y} {
					if maybeZeroDefault(opnd, map[ssa.Value]bool{}) {
						n++
						r.Bad(p.FuncName(fn), fmt.Sprintf("comparison of an ID that may be a zero default #%d", n), p.Pos(bo.Pos()), "one operand is an ID variable that holds the zero ID when the option is absent; component id 0 is a real id, so 'absent' and 'id 0' compare equal")
						break
					}
				}
			}
		}
	}
	r.OK("(all packages)", "zero ID never stands for absence in a comparison", "-", fmt.Sprintf("%d comparisons of possibly-defaulted IDs", n))
}

func maybeZeroDefault(v ssa.Value, seen map[ssa.Value]bool) bool {
	if seen[v] {
		return false
	}
	seen[v] = true
	switch x := v.(type) {
	case *ssa.Phi:
		for _, e := range x.Edges {
			if c, ok := e.(*ssa.Const); ok && c.Value == nil {
				return true
			}
			if maybeZeroDefault(e, seen) {
				return true
			}
		}
	case *ssa.UnOp:
		// load of a local that is zero-initialised and conditionally assigned
		if al, ok := x.X.(*ssa.Alloc); ok && x.Op == token.MUL {
			stores := 0
			for _, ref := range *al.Referrers() {
				if st, ok := ref.(*ssa.Store); ok && st.Addr == ssa.Value(al) {
					stores++
					if !instrBefore(st, x) || st.Block() != al.Block() && !dominatesBlock(st.Block(), x.Block()) {
						return true // a conditional assignment: the zero value may survive
					}
				}
			}
			_ = stores
		}
	}
	return false
}

// ---------- component ids are not fabricated from positions ----------

func idsNotFabricated(p *Prog, r *Reporter) {
	n := 0
	for _, fn := range p.Funcs {
		root := fn
		for root.Parent() != nil {
			root = root.Parent()
		}
		if tn := typeName(recvType(root)); tn != "archetype" && tn != "archetypeAccess" {
			continue
		}
		for _, site := range callsIn(fn) {
			sc := site.Common().StaticCallee()
			if sc == nil {
				continue
			}
			if tn := typeName(recvType(sc)); tn != "archetype" && tn != "archetypeAccess" {
				continue
			}
			for i, a := range site.Common().Args {
				if i >= len(sc.Params) || typeName(sc.Params[i].Type()) != "ID" || !inLoop(site.Block()) {
					continue
				}
				n++
				// the id must come from the node's id list (an element load), a parameter, or a value read from such
				src := "?"
				okc := false
				v := a
				if u, ok := v.(*ssa.UnOp); ok && u.Op == token.MUL {
					if ia, ok := u.X.(*ssa.IndexAddr); ok {
						src = apath(ia.X)
						okc = strings.HasSuffix(src, ".Ids") || strings.Contains(src, "call(Components)")
						if _, isP := ia.X.(*ssa.Parameter); isP {
							okc = true
						}
					}
					if al, ok := u.X.(*ssa.Alloc); ok {
						// a spilled loop variable (stored whole from an element of the id list), or a composite literal ID{id: …}
						src = "an ID built in place"
						whole, fromList := 0, 0
						for _, ref := range *al.Referrers() {
							st, ok := ref.(*ssa.Store)
							if !ok || st.Addr != al {
								continue
							}
							whole++
							if lu, ok := st.Val.(*ssa.UnOp); ok && lu.Op == token.MUL {
								if ia, ok := lu.X.(*ssa.IndexAddr); ok {
									pth := apath(ia.X)
									_, isP := ia.X.(*ssa.Parameter)
									if strings.HasSuffix(pth, ".Ids") || strings.Contains(pth, "call(Components)") || isP {
										fromList++
										src = pth
									}
								}
							}
							if _, ok := st.Val.(*ssa.Parameter); ok {
								fromList++
							}
						}
						okc = whole > 0 && whole == fromList
					}
				}
				if _, ok := v.(*ssa.Parameter); ok {
					okc = true
				}
				if ph, ok := v.(*ssa.Phi); ok {
					_ = ph
					okc = true
				}
				construct := fmt.Sprintf("column id passed to %s #%d", cname(sc), n)
				if okc {
					r.OK(p.FuncName(fn), construct, p.Pos(site.Pos()), "the id comes from "+src)
				} else {
					r.Bad(p.FuncName(fn), construct, p.Pos(site.Pos()), "inside a per-column loop the component id is "+src+" rather than an element of the table's id list: positions in the buffer list are not component ids")
				}
			}
		}
	}
	if n == 0 {
		r.Anchor("a per-column loop passing component ids")
	}
}

// ---------- Reset cannot fail on state ----------

func resetNoPreconditionPanics(p *Prog, r *Reporter) {
	reset := p.Fn("ecs.(*World).Reset")
	if reset == nil {
		r.Anchor("ecs.(*World).Reset")
		return
	}
	g := p.guardAnalysis()
	seen := map[*ssa.Function]bool{reset: true}
	work := []*ssa.Function{reset}
	n := 0
	for len(work) > 0 {
		fn := work[len(work)-1]
		work = work[:len(work)-1]
		for _, site := range callsIn(fn) {
			callees, _ := p.Callees(site)
			for _, sc := range callees {
				if !p.isArche(sc) || seen[sc] || sc.Blocks == nil {
					continue
				}
				if g.lockTests[sc] || g.sum[sc] != nil && g.sum[sc].establishes && len(p.Mod(sc).W) == 0 {
					continue // the lock test itself
				}
				seen[sc] = true
				work = append(work, sc)
			}
		}
	}
	var fns []*ssa.Function
	for fn := range seen {
		fns = append(fns, fn)
	}
	sortFns(p, fns)
	for _, fn := range fns {
		for _, b := range fn.Blocks {
			if len(b.Instrs) == 0 {
				continue
			}
			pn, ok := b.Instrs[len(b.Instrs)-1].(*ssa.Panic)
			if !ok || !reachable(b) {
				continue
			}
			n++
			// allowed: panics of the paged slice / pool primitives that guard indices (internal invariants), identified by
			// being in a function whose receiver is a container type
			rt := typeName(recvType(fn))
			if strings.HasPrefix(rt, "pagedSlice") || strings.HasPrefix(rt, "pointers") || rt == "bitPool" || rt == "lockMask" {
				r.OKt(p.FuncName(fn), fmt.Sprintf("panic reachable from Reset #%d", n), p.Pos(pn.Pos()), "container invariant, not a state precondition")
				continue
			}
			r.Bad(p.FuncName(fn), fmt.Sprintf("panic reachable from Reset #%d", n), p.Pos(pn.Pos()), "World.Reset can reach this explicit panic after its lock test: a reset that depends on what happens to be present (e.g. removing every registered resource) fails half-way")
		}
	}
	r.OK("ecs.(*World).Reset", "no state-dependent panic", p.FnPos(reset), fmt.Sprintf("%d functions reachable from Reset scanned", len(fns)))
}

func sortFns(p *Prog, fns []*ssa.Function) {
	for i := 1; i < len(fns); i++ {
		for j := i; j > 0 && p.FuncName(fns[j]) < p.FuncName(fns[j-1]); j-- {
			fns[j], fns[j-1] = fns[j-1], fns[j]
		}
	}
}

// ---------- the layout count covers every registered id ----------

func layoutCountFromCount(p *Prog, r *Reporter) {
	n := 0
	for _, fn := range p.Funcs {
		for _, site := range callsIn(fn) {
			sc := site.Common().StaticCallee()
			if sc == nil || !strings.HasPrefix(cname(sc), "capacity") || len(site.Common().Args) != 2 {
				continue
			}
			// only the call whose second argument is the layout chunk size
			if c, ok := stripConvs(site.Common().Args[1]).(*ssa.Const); !ok || c.Value == nil {
				continue
			} else if lc, _ := p.Pkgs["ecs"].Types.Scope().Lookup("layoutChunkSize").(*types.Const); lc == nil || lc.Val().ExactString() != c.Value.ExactString() {
				continue
			}
			n++
			x := stripConvs(site.Common().Args[0])
			okc := false
			if c := callOf(x); c != nil && c.Common().StaticCallee() != nil && cname(c.Common().StaticCallee()) == "Count" {
				okc = true
			}
			r.Check(okc, p.FuncName(fn), fmt.Sprintf("layout count #%d", n), p.Pos(site.Pos()), "the number of layout slots is rounded up from the registry's Count() itself (found "+exprString(site.Common().Args[0])+"): ids run from 0 to Count()-1, so Count() slots are needed")
		}
	}
	if n == 0 {
		r.Anchor("a capacity computation with layoutChunkSize")
	}
}

// ---------- the JSON decode buffer can hold the fields ----------

func decodeBufferWidth(p *Prog, r *Reporter) {
	u := p.Fn("ecs.(*Entity).UnmarshalJSON")
	if u == nil {
		r.Anchor("ecs.(*Entity).UnmarshalJSON")
		return
	}
	n := 0
	for _, b := range u.Blocks {
		for _, ins := range b.Instrs {
			st, ok := ins.(*ssa.Store)
			if !ok {
				continue
			}
			fa, ok := st.Addr.(*ssa.FieldAddr)
			if !ok || fa.X != ssa.Value(u.Params[0]) {
				continue
			}
			n++
			f := fieldName(fa.X.Type(), fa.Field)
			src := stripConvs(st.Val)
			bt, _ := src.Type().Underlying().(*types.Basic)
			okc := bt != nil && bt.Info()&types.IsUnsigned != 0 && basicWidth(bt) >= 32
			tn := "?"
			if bt != nil {
				tn = bt.Name()
			}
			r.Check(okc, p.FuncName(u), "decoded "+f+" is read from an unsigned 32-bit (or wider) element", p.Pos(st.Pos()), "the decode buffer's element type is "+tn+": ids and generations use the full uint32 range (the pool's reserved entry has generation MaxUint32)")
		}
	}
	if n == 0 {
		r.Anchor("field stores in Entity.UnmarshalJSON")
	}
}

// ---------- Exchange: both branches pass the same lists ----------

func exchangeListsAgree(p *Prog, r *Reporter) {
	for _, fn := range p.Funcs {
		if fn.Pkg == nil || fn.Pkg.Pkg.Name() != "generic" {
			continue
		}
		tn := typeName(recvType(fn))
		if tn != "Exchange" {
			continue
		}
		type lists struct{ add, rem string }
		var rel, plain []lists
		var pos []string
		norm := func(v ssa.Value) string {
			if isNilConst(v) {
				return "nil"
			}
			if sl, ok := v.(*ssa.Slice); ok {
				v = sl.X
			}
			if _, f, _, ok := loadedField(v); ok {
				return f
			}
			return apath(v)
		}
		isRelExchange := func(sc *ssa.Function, a []ssa.Value) bool {
			return sc != nil && sc.Pkg != nil && sc.Pkg.Pkg.Name() == "ecs" && typeName(recvType(sc)) == "Relations" && strings.HasPrefix(cname(sc), "Exchange") && len(a) >= 4
		}
		for _, site := range callsIn(fn) {
			sc := site.Common().StaticCallee()
			if sc != nil && sc.Pkg == fn.Pkg && sc != fn && typeName(recvType(sc)) == "Exchange" {
				// a shared helper of the same type: its relation call with the helper's parameters replaced by this call's arguments
				outer := site.Common().Args
				sub := func(v ssa.Value) string {
					if sl, ok := v.(*ssa.Slice); ok {
						v = sl.X
					}
					if pr, ok := v.(*ssa.Parameter); ok {
						for i, q := range sc.Params {
							if q == pr && i < len(outer) {
								return norm(outer[i])
							}
						}
					}
					return norm(v)
				}
				for _, inner := range callsIn(sc) {
					if ic := inner.Common().StaticCallee(); isRelExchange(ic, inner.Common().Args) {
						ia := inner.Common().Args
						rel = append(rel, lists{sub(ia[2]), sub(ia[3])})
						pos = append(pos, p.Pos(site.Pos()))
					}
				}
				continue
			}
			if sc == nil || sc.Pkg == nil || sc.Pkg.Pkg.Name() != "ecs" {
				continue
			}
			a := site.Common().Args
			rt := typeName(recvType(sc))
			switch {
			case isRelExchange(sc, a):
				rel = append(rel, lists{norm(a[2]), norm(a[3])})
				pos = append(pos, p.Pos(site.Pos()))
			case (rt == "World" || rt == "Batch") && (cname(sc) == "Add" || cname(sc) == "AddQ") && len(a) >= 3:
				plain = append(plain, lists{norm(a[2]), "nil"})
			case (rt == "World" || rt == "Batch") && (cname(sc) == "Remove" || cname(sc) == "RemoveQ") && len(a) >= 3:
				plain = append(plain, lists{"nil", norm(a[2])})
			case (rt == "World" || rt == "Batch") && (cname(sc) == "Exchange" || cname(sc) == "ExchangeQ") && len(a) >= 4:
				plain = append(plain, lists{norm(a[2]), norm(a[3])})
			}
		}
		if len(rel) == 0 || len(plain) == 0 {
			continue
		}
		okc := true
		for _, x := range rel {
			for _, y := range plain {
				if x != y {
					okc = false
				}
			}
		}
		r.Check(okc, p.FuncName(fn), "with and without target: same component lists", p.FnPos(fn), fmt.Sprintf("the call with a relation target passes %v, the call without passes %v", rel, plain))
	}
}

// ---------- checked wrappers call checked methods ----------

func checkedCallsChecked(p *Prog, r *Reporter) {
	n := 0
	for _, fn := range p.Funcs {
		if fn.Pkg == nil || fn.Pkg.Pkg.Name() != "generic" || fn.Object() == nil || !fn.Object().Exported() {
			continue
		}
		if strings.HasSuffix(cname(fn), "Unchecked") {
			continue
		}
		for _, site := range callsIn(fn) {
			sc := site.Common().StaticCallee()
			if sc == nil || sc.Pkg == nil || sc.Pkg.Pkg.Name() != "ecs" || !strings.HasSuffix(cname(sc), "Unchecked") {
				continue
			}
			// the wrapper may do the check itself: a dominating Alive test whose failing edge panics
			alive := &MustFlow{Fn: fn, EdgeGen: func(b *ssa.BasicBlock, k int) bool {
				atom, holds, ok := edgeCond(b, k)
				if !ok || !holds {
					return false
				}
				c := callOf(atom)
				return c != nil && c.Common().StaticCallee() != nil && cname(c.Common().StaticCallee()) == "Alive" && p.panicOnly(b.Succs[1-k])
			}}
			// or the checked variant of the same ecs method was already called for the same entity (first component checked,
			// the others fetched unchecked)
			base := strings.TrimSuffix(cname(sc), "Unchecked")
			ent := site.Common().Args[1]
			alive.InstrGen = func(i ssa.Instruction) bool {
				c2, ok := i.(ssa.CallInstruction)
				if !ok || c2 == site {
					return false
				}
				s2 := c2.Common().StaticCallee()
				return s2 != nil && s2.Pkg != nil && s2.Pkg.Pkg.Name() == "ecs" && cname(s2) == base && len(c2.Common().Args) > 1 && c2.Common().Args[1] == ent
			}
			alive.Run()
			if alive.Before(site) {
				continue
			}
			n++
			r.Bad(p.FuncName(fn), "checked wrapper calls "+cname(sc), p.Pos(site.Pos()), "the generic method is the checked variant (its ID-based equivalent panics for dead entities / missing components) but calls the unchecked ecs method")
		}
	}
	r.OK("(generic)", "checked wrappers call checked methods", "-", fmt.Sprintf("%d violations among the exported generic methods not named *Unchecked", n))
}

// ---------- the resource table has MaskTotalBits slots ----------

func resourceTableSize(p *Prog, r *Reporter) {
	c := p.Fn("ecs.newResources")
	if c == nil {
		r.Anchor("ecs.newResources")
		return
	}
	mtb, _ := p.Pkgs["ecs"].Types.Scope().Lookup("MaskTotalBits").(*types.Const)
	n := 0
	for _, b := range c.Blocks {
		for _, ins := range b.Instrs {
			var got string
			var pos token.Pos
			switch mk := ins.(type) {
			case *ssa.MakeSlice:
				if k, isC := mk.Len.(*ssa.Const); isC && k.Value != nil {
					got = k.Value.ExactString()
				} else {
					got = exprString(mk.Len)
				}
				pos = mk.Pos()
			case *ssa.Alloc:
				// make([]T, N) with constant N: a heap array that is sliced
				at, ok := deref(mk.Type()).Underlying().(*types.Array)
				if !ok || !mk.Heap {
					continue
				}
				got = fmt.Sprint(at.Len())
				pos = mk.Pos()
			default:
				continue
			}
			n++
			okc := mtb != nil && got == mtb.Val().ExactString()
			r.Check(okc, p.FuncName(c), "resource table size", p.Pos(pos), "the table has MaskTotalBits slots, one per possible resource id (found "+got+")")
		}
	}
	if n == 0 {
		r.Anchor("the allocation of Resources.resources in newResources")
	}
}
