package main

// Rules added in / after the fifth round.

import (
	"fmt"
	"go/constant"
	"go/token"
	"go/types"
	"strings"

	"golang.org/x/tools/go/ssa"
)

// narrowCounterBounds: what a narrow unsigned counter field can count up to, as a constant of package ecs (or a
// literal). Confirmed by reading: every recycled lock bit was issued before, and at most MaskTotalBits are issued
// (guard in bitPool.getNew); a chunk of an idMap has idMapChunkSize slots.
var narrowCounterBounds = map[string]string{
	"bitPool.available": "MaskTotalBits",
	"bitPool.length":    "MaskTotalBits",
	"idMap.chunkUsed":   "idMapChunkSize",
}

// narrowCounters: every field (or element of a field) of type uint8/uint16 that is incremented somewhere in package
// ecs has a listed bound, and the bound fits the type in this build.
func narrowCounters(p *Prog, r *Reporter) {
	pk := p.Pkgs["ecs"]
	seen := map[string]bool{}
	for _, fn := range p.Funcs {
		if fn.Pkg == nil || fn.Pkg.Pkg.Name() != "ecs" || len(fn.TypeArgs()) > 0 {
			continue
		}
		for _, b := range fn.Blocks {
			for _, ins := range b.Instrs {
				st, ok := ins.(*ssa.Store)
				if !ok {
					continue
				}
				bo, ok := st.Val.(*ssa.BinOp)
				if !ok || bo.Op != token.ADD {
					continue
				}
				c, isC := constInt64(bo.Y)
				if !isC || c <= 0 {
					continue
				}
				// x = x + c  with x loaded from the stored address
				ld, ok := bo.X.(*ssa.UnOp)
				if !ok || ld.Op != token.MUL || apath(ld.X) != apath(st.Addr) {
					continue
				}
				bt, ok := bo.Type().Underlying().(*types.Basic)
				if !ok || !(bt.Kind() == types.Uint8 || bt.Kind() == types.Uint16) {
					continue
				}
				// owner.field
				addr := st.Addr
				if ia, ok := addr.(*ssa.IndexAddr); ok {
					addr = ia.X
					if u, ok := addr.(*ssa.UnOp); ok {
						addr = u.X
					}
				}
				fa, ok := addr.(*ssa.FieldAddr)
				if !ok {
					continue
				}
				owner := typeName(fa.X.Type())
				if i := strings.Index(owner, "["); i > 0 {
					owner = owner[:i]
				}
				key := owner + "." + fieldName(fa.X.Type(), fa.Field)
				if seen[key] {
					continue
				}
				seen[key] = true
				max := int64(255)
				if bt.Kind() == types.Uint16 {
					max = 65535
				}
				construct := "narrow counter " + key
				bn, listed := narrowCounterBounds[key]
				if !listed {
					r.Und(p.FuncName(fn), construct, p.Pos(st.Pos()), fmt.Sprintf("a %s field is incremented but no bound for it is listed in the checker (narrowCounterBounds): it may wrap", bt.Name()))
					continue
				}
				bc, _ := pk.Types.Scope().Lookup(bn).(*types.Const)
				if bc == nil {
					r.Anchor("ecs." + bn)
					continue
				}
				bv, _ := constant.Int64Val(bc.Val())
				if bv <= max {
					r.OK(p.FuncName(fn), construct, p.Pos(st.Pos()), fmt.Sprintf("counts at most %s = %d, which fits %s", bn, bv, bt.Name()))
				} else {
					r.Bad(p.FuncName(fn), construct, p.Pos(st.Pos()), fmt.Sprintf("the field can count up to %s = %d but is a %s (max %d): at the limit it wraps to 0 (for the lock-bit pool: after %d simultaneously open queries were all closed, no lock bit is available any more and every new query panics)", bn, bv, bt.Name(), max, bv))
				}
			}
		}
	}
}
