package main

import (
	"golang.org/x/tools/go/ssa"
)

// MustFlow is a forward must-analysis of one boolean fact over a function's SSA blocks.
//
//	EdgeGen(b, k): the fact is established on the edge from b to b.Succs[k]
//	InstrGen(ins): the fact holds after ins (if it returns normally)
//	InstrKill(ins): the fact no longer holds after ins
//
// Merge: the fact holds at a block entry iff it holds on every incoming edge.
type MustFlow struct {
	Fn        *ssa.Function
	EdgeGen   func(b *ssa.BasicBlock, k int) bool
	InstrGen  func(ins ssa.Instruction) bool
	InstrKill func(ins ssa.Instruction) bool
	Entry     bool // fact at function entry

	in map[*ssa.BasicBlock]bool
}

func (m *MustFlow) Run() {
	fn := m.Fn
	m.in = map[*ssa.BasicBlock]bool{}
	if len(fn.Blocks) == 0 {
		return
	}
	for _, b := range fn.Blocks {
		m.in[b] = true
	}
	m.in[fn.Blocks[0]] = m.Entry
	changed := true
	for changed {
		changed = false
		for _, b := range fn.Blocks {
			if b == fn.Blocks[0] {
				continue
			}
			if b == fn.Recover {
				if m.in[b] {
					m.in[b] = false
					changed = true
				}
				continue
			}
			v := true
			np := 0
			for _, pr := range b.Preds {
				if theProg != nil && theProg.info(pr.Parent()).cutAt[pr] >= 0 {
					continue // pr ends in a call that never returns: its out-edges are dead
				}
				if !reachable(pr) {
					continue
				}
				out := m.out(pr)
				for k, s := range pr.Succs {
					if s != b {
						continue
					}
					np++
					e := out
					if !e && m.EdgeGen != nil && m.EdgeGen(pr, k) {
						e = true
					}
					if !e {
						v = false
					}
				}
			}
			if np == 0 {
				v = true // unreachable
			}
			if m.in[b] != v {
				m.in[b] = v
				changed = true
			}
		}
	}
}

func (m *MustFlow) out(b *ssa.BasicBlock) bool {
	s := m.in[b]
	for _, ins := range b.Instrs {
		s = m.step(s, ins)
	}
	return s
}

func (m *MustFlow) step(s bool, ins ssa.Instruction) bool {
	if m.InstrKill != nil && m.InstrKill(ins) {
		s = false
	}
	if m.InstrGen != nil && m.InstrGen(ins) {
		s = true
	}
	return s
}

// Before reports the fact just before instruction ins.
func (m *MustFlow) Before(ins ssa.Instruction) bool {
	b := ins.Block()
	s := m.in[b]
	cut := -1
	if theProg != nil {
		cut = theProg.info(b.Parent()).cutAt[b]
	}
	for k, i := range b.Instrs {
		if i == ins {
			return s
		}
		if k == cut {
			return true // everything after a call that never returns is unreachable: the fact holds vacuously
		}
		s = m.step(s, i)
	}
	return s
}

// In reports the fact at block entry.
func (m *MustFlow) In(b *ssa.BasicBlock) bool { return m.in[b] }

// AtAllReturns reports whether the fact holds before every Return (false if there is no Return).
func (m *MustFlow) AtAllReturns() bool {
	n := 0
	for _, b := range m.Fn.Blocks {
		if len(b.Instrs) == 0 {
			continue
		}
		if r, ok := b.Instrs[len(b.Instrs)-1].(*ssa.Return); ok {
			if !reachable(b) {
				continue
			}
			n++
			if !m.Before(r) {
				return false
			}
		}
	}
	return n > 0
}

func reachable(b *ssa.BasicBlock) bool {
	return b.Index == 0 || len(b.Preds) > 0
}

// edgeTrue reports whether on edge (b → Succs[k]) the condition atom `match` holds with the wanted polarity.
// match is called with the atom of b's If condition.
func edgeCond(b *ssa.BasicBlock, k int) (atom ssa.Value, holds bool, ok bool) {
	a, trueSucc, isIf := ifCond(b)
	if !isIf {
		return nil, false, false
	}
	return a, k == trueSucc, true
}
