package main

import (
	"fmt"
	"go/ast"
	"go/token"
	"go/types"
	"os"
	"sort"
	"strings"

	"golang.org/x/tools/go/callgraph"
	"golang.org/x/tools/go/callgraph/cha"
	"golang.org/x/tools/go/callgraph/vta"
	"golang.org/x/tools/go/packages"
	"golang.org/x/tools/go/ssa"
	"golang.org/x/tools/go/ssa/ssautil"
)

const modPath = "github.com/mlange-42/arche"

// Config is one build configuration of the library.
type Config struct {
	Tags   string // comma separated
	GOARCH string
}

func (c Config) String() string {
	t := c.Tags
	if t == "" {
		t = "-"
	}
	return "tags=" + t + ",goarch=" + c.GOARCH
}

// Prog is the loaded, type-checked and SSA-built library for one configuration.
type Prog struct {
	Cfg    Config
	Repo   string
	Fset   *token.FileSet
	Pkgs   map[string]*packages.Package // by short name: ecs, event, stats, filter, generic, listener
	SSA    *ssa.Program
	SSAPkg map[string]*ssa.Package
	Funcs  []*ssa.Function          // all functions of arche packages (with bodies), sorted by name
	ByName map[string]*ssa.Function // "ecs.(*World).Add", "ecs.capacity", ... (first instantiation for generics by full name)
	CG     *callgraph.Graph
	sites  map[ssa.CallInstruction][]*ssa.Function
	inSet map[*ssa.Function]bool
	// memo
	modMemo map[*ssa.Function]*ModSet
}

func repoDir() string {
	if d := os.Getenv("ARCHE_REPO"); d != "" {
		return d
	}
	return "/repo"
}

// theProg is the program of this process (one configuration per process).
var theProg *Prog

// Load loads the six library packages for the configuration.
func Load(cfg Config) (*Prog, error) {
	p, err := load(cfg)
	if err == nil {
		theProg = p
	}
	return p, err
}

func load(cfg Config) (*Prog, error) {
	repo := repoDir()
	env := append(os.Environ(),
		"GOFLAGS=-mod=mod", "GOPROXY=off", "GOSUMDB=off", "GOTOOLCHAIN=local", "GOWORK=off",
		"CGO_ENABLED=0",
	)
	if cfg.GOARCH != "" {
		env = append(env, "GOARCH="+cfg.GOARCH)
	}
	pc := &packages.Config{
		Mode:  packages.LoadAllSyntax,
		Dir:   repo,
		Env:   env,
		Tests: false,
	}
	if cfg.Tags != "" {
		pc.BuildFlags = []string{"-tags=" + cfg.Tags}
	}
	initial, err := packages.Load(pc, "./ecs/...", "./filter/...", "./generic/...", "./listener/...")
	if err != nil {
		return nil, err
	}
	if len(initial) == 0 {
		return nil, fmt.Errorf("no packages loaded from %s", repo)
	}
	var errs []string
	packages.Visit(initial, nil, func(p *packages.Package) {
		for _, e := range p.Errors {
			errs = append(errs, e.Error())
		}
	})
	if len(errs) > 0 {
		return nil, fmt.Errorf("load/type errors: %s", strings.Join(errs, "; "))
	}
	p := &Prog{Cfg: cfg, Repo: repo, Pkgs: map[string]*packages.Package{}, SSAPkg: map[string]*ssa.Package{},
		ByName: map[string]*ssa.Function{}, sites: map[ssa.CallInstruction][]*ssa.Function{}, modMemo: map[*ssa.Function]*ModSet{}}
	for _, ip := range initial {
		if !strings.HasPrefix(ip.PkgPath, modPath) {
			continue
		}
		p.Pkgs[ip.Name] = ip
		p.Fset = ip.Fset
	}
	for _, want := range []string{"ecs", "event", "stats", "filter", "generic", "listener"} {
		if p.Pkgs[want] == nil {
			return nil, fmt.Errorf("package %s not loaded", want)
		}
	}
	prog, ssapkgs := ssautil.AllPackages(initial, ssa.InstantiateGenerics)
	prog.Build()
	p.SSA = prog
	for i, ip := range initial {
		if ssapkgs[i] != nil && strings.HasPrefix(ip.PkgPath, modPath) {
			p.SSAPkg[ip.Name] = ssapkgs[i]
		}
	}
	all := ssautil.AllFunctions(prog)
	// methods of generic named types are not in any instantiated method set: add their generic bodies
	for _, ip := range initial {
		if !strings.HasPrefix(ip.PkgPath, modPath) {
			continue
		}
		sc := ip.Types.Scope()
		for _, n := range sc.Names() {
			tn, ok := sc.Lookup(n).(*types.TypeName)
			if !ok {
				continue
			}
			named, ok := tn.Type().(*types.Named)
			if !ok || named.TypeParams().Len() == 0 {
				continue
			}
			for i := 0; i < named.NumMethods(); i++ {
				if f := prog.FuncValue(named.Method(i)); f != nil {
					all[f] = true
				}
			}
		}
	}
	for fn := range all {
		if fn.Pkg == nil && fn.Origin() == nil {
			// wrappers, bound methods: keep only those of arche
		}
		if !p.isArche(fn) || fn.Blocks == nil {
			continue
		}
		p.Funcs = append(p.Funcs, fn)
	}
	sort.Slice(p.Funcs, func(i, j int) bool { return p.Funcs[i].String() < p.Funcs[j].String() })
	p.inSet = map[*ssa.Function]bool{}
	for _, fn := range p.Funcs {
		p.inSet[fn] = true
	}
	for _, fn := range p.Funcs {
		n := p.FuncName(fn)
		if _, ok := p.ByName[n]; !ok {
			p.ByName[n] = fn
		}
	}
	p.CG = vta.CallGraph(all, cha.CallGraph(prog))
	for _, n := range p.CG.Nodes {
		for _, e := range n.Out {
			if e.Site == nil || e.Callee == nil || e.Callee.Func == nil {
				continue
			}
			p.sites[e.Site] = append(p.sites[e.Site], e.Callee.Func)
		}
	}
	return p, nil
}

func (p *Prog) isArche(fn *ssa.Function) bool {
	if fn == nil {
		return false
	}
	if fn.Pkg != nil {
		return strings.HasPrefix(fn.Pkg.Pkg.Path(), modPath)
	}
	if o := fn.Origin(); o != nil && o.Pkg != nil {
		return strings.HasPrefix(o.Pkg.Pkg.Path(), modPath)
	}
	if fn.Parent() != nil {
		return p.isArche(fn.Parent())
	}
	// synthetic wrappers
	if fn.Synthetic != "" && fn.Signature.Recv() != nil {
		if n := namedOf(fn.Signature.Recv().Type()); n != nil && n.Obj().Pkg() != nil {
			return strings.HasPrefix(n.Obj().Pkg().Path(), modPath)
		}
	}
	return false
}

// FuncName gives a short stable name: "ecs.(*World).Add", "ecs.subscribes".
func (p *Prog) FuncName(fn *ssa.Function) string {
	s := fn.String()
	s = strings.ReplaceAll(s, modPath+"/ecs/event", "event")
	s = strings.ReplaceAll(s, modPath+"/ecs/stats", "stats")
	s = strings.ReplaceAll(s, modPath+"/", "")
	// "(*ecs.World).Add" → "ecs.(*World).Add"
	if strings.HasPrefix(s, "(") {
		star := ""
		rest := s[1:]
		if strings.HasPrefix(rest, "*") {
			star = "*"
			rest = rest[1:]
		}
		if i := strings.IndexByte(rest, '.'); i > 0 && !strings.ContainsAny(rest[:i], "[]()") {
			s = rest[:i] + ".(" + star + rest[i+1:]
		}
	}
	return s
}

// Fn returns the function with the given short name, or nil.
func (p *Prog) Fn(name string) *ssa.Function { return p.ByName[name] }

// Pos renders a position relative to the repo root.
func (p *Prog) Pos(pos token.Pos) string {
	if !pos.IsValid() {
		return "-"
	}
	ps := p.Fset.Position(pos)
	f := strings.TrimPrefix(ps.Filename, p.Repo+"/")
	return fmt.Sprintf("%s:%d", f, ps.Line)
}

func (p *Prog) FnPos(fn *ssa.Function) string {
	if fn == nil {
		return "-"
	}
	if fn.Pos().IsValid() {
		return p.Pos(fn.Pos())
	}
	if fn.Origin() != nil {
		return p.Pos(fn.Origin().Pos())
	}
	return "-"
}

// Callees returns the possible arche callees of a call site (static or via VTA),
// and whether the call crosses the user boundary (ecs.Listener / ecs.Filter interface).
func (p *Prog) Callees(site ssa.CallInstruction) (fns []*ssa.Function, boundary bool) {
	c := site.Common()
	if c.IsInvoke() {
		if n := namedOf(c.Value.Type()); n != nil && n.Obj().Pkg() != nil && n.Obj().Pkg().Path() == modPath+"/ecs" {
			if n.Obj().Name() == "Listener" || n.Obj().Name() == "Filter" {
				return nil, true
			}
		}
	}
	if sc := c.StaticCallee(); sc != nil {
		return []*ssa.Function{p.canon(sc)}, false
	}
	out := p.sites[site]
	sort.Slice(out, func(i, j int) bool { return out[i].String() < out[j].String() })
	return out, false
}

// ---- type anchors ----

// Named looks up a named type "ecs.World".
func (p *Prog) Named(q string) *types.Named {
	parts := strings.SplitN(q, ".", 2)
	pk := p.Pkgs[parts[0]]
	if pk == nil {
		return nil
	}
	o := pk.Types.Scope().Lookup(parts[1])
	if o == nil {
		return nil
	}
	tn, ok := o.(*types.TypeName)
	if !ok {
		return nil
	}
	n, _ := tn.Type().(*types.Named)
	return n
}

// Field looks up a struct field object "ecs.World.entities".
func (p *Prog) Field(q string) *types.Var {
	i := strings.LastIndex(q, ".")
	n := p.Named(q[:i])
	if n == nil {
		return nil
	}
	st, ok := n.Underlying().(*types.Struct)
	if !ok {
		return nil
	}
	for k := 0; k < st.NumFields(); k++ {
		if st.Field(k).Name() == q[i+1:] {
			return st.Field(k)
		}
	}
	return nil
}

func namedOf(t types.Type) *types.Named {
	for {
		switch x := t.(type) {
		case *types.Pointer:
			t = x.Elem()
		case *types.Named:
			return x
		case *types.Alias:
			t = types.Unalias(x)
		default:
			return nil
		}
	}
}

// typeName gives "World" / "pagedSlice" (generic origin name) for a type, through pointers.
func typeName(t types.Type) string {
	n := namedOf(t)
	if n == nil {
		return ""
	}
	return n.Obj().Name()
}

func isNamed(t types.Type, pkgSuffix, name string) bool {
	n := namedOf(t)
	if n == nil || n.Obj().Pkg() == nil {
		return false
	}
	return n.Obj().Name() == name && strings.HasSuffix(n.Obj().Pkg().Path(), pkgSuffix)
}

// FuncDecl finds the AST declaration of a function or method: pkg "ecs", recv "World" (or ""), name.
func (p *Prog) FuncDecl(pkg, recv, name string) *ast.FuncDecl {
	pk := p.Pkgs[pkg]
	if pk == nil {
		return nil
	}
	for _, f := range pk.Syntax {
		for _, d := range f.Decls {
			fd, ok := d.(*ast.FuncDecl)
			if !ok || fd.Name.Name != name {
				continue
			}
			r := ""
			if fd.Recv != nil && len(fd.Recv.List) > 0 {
				r = recvTypeName(fd.Recv.List[0].Type)
			}
			if r == recv {
				return fd
			}
		}
	}
	return nil
}

func recvTypeName(e ast.Expr) string {
	switch x := e.(type) {
	case *ast.StarExpr:
		return recvTypeName(x.X)
	case *ast.Ident:
		return x.Name
	case *ast.IndexExpr:
		return recvTypeName(x.X)
	case *ast.IndexListExpr:
		return recvTypeName(x.X)
	case *ast.ParenExpr:
		return recvTypeName(x.X)
	}
	return ""
}

// canon maps an instantiation that is not part of the analysed set (a generic body calling another
// generic function with its own type parameters) to its generic origin, which is.
func (p *Prog) canon(fn *ssa.Function) *ssa.Function {
	if fn == nil {
		return nil
	}
	if o := fn.Origin(); o != nil {
		if _, ok := p.inSet[fn]; !ok {
			if _, ok2 := p.inSet[o]; ok2 {
				return o
			}
		}
	}
	return fn
}
