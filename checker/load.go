package main

import (
	"fmt"
	"go/ast"
	"go/token"
	"go/types"
	"os"
	"sort"
	"strings"

	"golang.org/x/tools/go/callgraph"
	"golang.org/x/tools/go/callgraph/cha"
	"golang.org/x/tools/go/callgraph/vta"
	"golang.org/x/tools/go/packages"
	"golang.org/x/tools/go/ssa"
	"golang.org/x/tools/go/ssa/ssautil"
)

const modPath = "github.com/mlange-42/arche"

// Config is one build configuration of the library.
type Config struct {
	Tags   string // comma separated
	GOARCH string
}

func (c Config) String() string {
	t := c.Tags
	if t == "" {
		t = "-"
	}
	return "tags=" + t + ",goarch=" + c.GOARCH
}

// Prog is the loaded, type-checked and SSA-built library for one configuration.
type Prog struct {
	hoistMemo map[*ssa.Function][]int
	al        *alignment
	rawByName map[string]*ssa.Function
	Cfg    Config
	Repo   string
	Fset   *token.FileSet
	Pkgs   map[string]*packages.Package // by short name: ecs, event, stats, filter, generic, listener
	SSA    *ssa.Program
	SSAPkg map[string]*ssa.Package
	Funcs  []*ssa.Function          // all functions of arche packages (with bodies), sorted by name
	ByName map[string]*ssa.Function // "ecs.(*World).Add", "ecs.capacity", ... (first instantiation for generics by full name)
	CG     *callgraph.Graph
	sites  map[ssa.CallInstruction][]*ssa.Function
	inSet map[*ssa.Function]bool
	// memo
	modMemo map[*ssa.Function]*ModSet
}

func repoDir() string {
	if d := os.Getenv("ARCHE_REPO"); d != "" {
		return d
	}
	return "/repo"
}

// theProg is the program of this process (one configuration per process).
var theProg *Prog

// Load loads the six library packages for the configuration.
func Load(cfg Config) (*Prog, error) {
	p, err := load(cfg)
	if err == nil {
		theProg = p
	}
	return p, err
}

func load(cfg Config) (*Prog, error) {
	repo := repoDir()
	env := append(os.Environ(),
		"GOFLAGS=-mod=mod", "GOPROXY=off", "GOSUMDB=off", "GOTOOLCHAIN=local", "GOWORK=off",
		"CGO_ENABLED=0",
	)
	if cfg.GOARCH != "" {
		env = append(env, "GOARCH="+cfg.GOARCH)
	}
	pc := &packages.Config{
		Mode:  packages.LoadAllSyntax,
		Dir:   repo,
		Env:   env,
		Tests: false,
	}
	if cfg.Tags != "" {
		pc.BuildFlags = []string{"-tags=" + cfg.Tags}
	}
	initial, err := packages.Load(pc, "./ecs/...", "./filter/...", "./generic/...", "./listener/...")
	if err != nil {
		return nil, err
	}
	if len(initial) == 0 {
		return nil, fmt.Errorf("no packages loaded from %s", repo)
	}
	var errs []string
	packages.Visit(initial, nil, func(p *packages.Package) {
		for _, e := range p.Errors {
			errs = append(errs, e.Error())
		}
	})
	if len(errs) > 0 {
		return nil, fmt.Errorf("load/type errors: %s", strings.Join(errs, "; "))
	}
	p := &Prog{Cfg: cfg, Repo: repo, Pkgs: map[string]*packages.Package{}, SSAPkg: map[string]*ssa.Package{},
		ByName: map[string]*ssa.Function{}, sites: map[ssa.CallInstruction][]*ssa.Function{}, modMemo: map[*ssa.Function]*ModSet{}}
	for _, ip := range initial {
		if !strings.HasPrefix(ip.PkgPath, modPath) {
			continue
		}
		p.Pkgs[ip.Name] = ip
		p.Fset = ip.Fset
	}
	for _, want := range []string{"ecs", "event", "stats", "filter", "generic", "listener"} {
		if p.Pkgs[want] == nil {
			return nil, fmt.Errorf("package %s not loaded", want)
		}
	}
	prog, ssapkgs := ssautil.AllPackages(initial, ssa.InstantiateGenerics)
	prog.Build()
	p.SSA = prog
	for i, ip := range initial {
		if ssapkgs[i] != nil && strings.HasPrefix(ip.PkgPath, modPath) {
			p.SSAPkg[ip.Name] = ssapkgs[i]
		}
	}
	all := ssautil.AllFunctions(prog)
	// methods of generic named types are not in any instantiated method set: add their generic bodies
	for _, ip := range initial {
		if !strings.HasPrefix(ip.PkgPath, modPath) {
			continue
		}
		sc := ip.Types.Scope()
		for _, n := range sc.Names() {
			tn, ok := sc.Lookup(n).(*types.TypeName)
			if !ok {
				continue
			}
			named, ok := tn.Type().(*types.Named)
			if !ok || named.TypeParams().Len() == 0 {
				continue
			}
			for i := 0; i < named.NumMethods(); i++ {
				if f := prog.FuncValue(named.Method(i)); f != nil {
					all[f] = true
				}
			}
		}
	}
	for fn := range all {
		if fn.Pkg == nil && fn.Origin() == nil {
			// wrappers, bound methods: keep only those of arche
		}
		if !p.isArche(fn) || fn.Blocks == nil {
			continue
		}
		p.Funcs = append(p.Funcs, fn)
	}
	sort.Slice(p.Funcs, func(i, j int) bool { return p.Funcs[i].String() < p.Funcs[j].String() })
	p.inSet = map[*ssa.Function]bool{}
	for _, fn := range p.Funcs {
		p.inSet[fn] = true
	}
	p.rawByName = map[string]*ssa.Function{}
	for _, fn := range p.Funcs {
		n := p.rawFuncName(fn)
		if _, ok := p.rawByName[n]; !ok {
			p.rawByName[n] = fn
		}
	}
	theProg = p
	p.align()
	for _, fn := range p.Funcs {
		n := p.FuncName(fn)
		if _, ok := p.ByName[n]; !ok {
			p.ByName[n] = fn
		}
	}
	p.CG = vta.CallGraph(all, cha.CallGraph(prog))
	for _, n := range p.CG.Nodes {
		for _, e := range n.Out {
			if e.Site == nil || e.Callee == nil || e.Callee.Func == nil {
				continue
			}
			p.sites[e.Site] = append(p.sites[e.Site], e.Callee.Func)
		}
	}
	return p, nil
}

func (p *Prog) isArche(fn *ssa.Function) bool {
	if fn == nil {
		return false
	}
	if fn.Pkg != nil {
		return strings.HasPrefix(fn.Pkg.Pkg.Path(), modPath)
	}
	if o := fn.Origin(); o != nil && o.Pkg != nil {
		return strings.HasPrefix(o.Pkg.Pkg.Path(), modPath)
	}
	if fn.Parent() != nil {
		return p.isArche(fn.Parent())
	}
	// synthetic wrappers
	if fn.Synthetic != "" && fn.Signature.Recv() != nil {
		if n := namedOf(fn.Signature.Recv().Type()); n != nil && n.Obj().Pkg() != nil {
			return strings.HasPrefix(n.Obj().Pkg().Path(), modPath)
		}
	}
	return false
}

// FuncName gives a short stable name: "ecs.(*World).Add", "ecs.subscribes".
func (p *Prog) rawFuncName(fn *ssa.Function) string {
	s := fn.String()
	s = strings.ReplaceAll(s, modPath+"/ecs/event", "event")
	s = strings.ReplaceAll(s, modPath+"/ecs/stats", "stats")
	s = strings.ReplaceAll(s, modPath+"/", "")
	// "(*ecs.World).Add" → "ecs.(*World).Add"
	if strings.HasPrefix(s, "(") {
		star := ""
		rest := s[1:]
		if strings.HasPrefix(rest, "*") {
			star = "*"
			rest = rest[1:]
		}
		if i := strings.IndexByte(rest, '.'); i > 0 && !strings.ContainsAny(rest[:i], "[]()") {
			s = rest[:i] + ".(" + star + rest[i+1:]
		}
	}
	return s
}

// FuncName is the name rules and obligation keys use: the reference name if the function was aligned with a
// reference function under another name (schema.go), else its own.
func (p *Prog) FuncName(fn *ssa.Function) string {
	n := p.rawFuncName(fn)
	if p.al != nil {
		if r, ok := p.al.funcCurToRef[n]; ok {
			return r
		}
		// instantiations and closures of a renamed function
		if o := fn.Origin(); o != nil {
			if r, ok := p.al.funcCurToRef[p.rawFuncName(o)]; ok {
				_, on := funcOwner(p.rawFuncName(o))
				_, rn := funcOwner(r)
				return strings.Replace(n, "."+on, "."+rn, 1)
			}
		}
	}
	return n
}

// Fn returns the function with the given short name, or nil.
func (p *Prog) Fn(name string) *ssa.Function {
	if fn := p.ByName[name]; fn != nil {
		return fn
	}
	// a method turned into a function taking its receiver as the first parameter (or the reverse): same package,
	// same name, exactly one candidate whose first parameter / receiver has the named type
	if i := strings.Index(name, ".("); i > 0 {
		// "pkg.(*T).name" -> "pkg.name" with first parameter of type *T / T
		j := strings.Index(name[i:], ").")
		if j < 0 {
			return nil
		}
		pkg, tn, mn := name[:i], strings.Trim(name[i+2:i+j], "*"), name[i+j+2:]
		if fn := p.ByName[pkg+"."+mn]; fn != nil && len(fn.Params) > 0 && fn.Signature.Recv() == nil && typeName(fn.Params[0].Type()) == tn {
			return fn
		}
		return nil
	}
	// "pkg.name" -> the only method of that name in the package
	if i := strings.LastIndex(name, "."); i > 0 {
		var hit *ssa.Function
		k := 0
		for n, fn := range p.ByName {
			if strings.HasPrefix(n, name[:i]+".(") && strings.HasSuffix(n, ")."+name[i+1:]) {
				hit = fn
				k++
			}
		}
		if k == 1 {
			return hit
		}
	}
	return nil
}

// Pos renders a position relative to the repo root.
func (p *Prog) Pos(pos token.Pos) string {
	if !pos.IsValid() {
		return "-"
	}
	ps := p.Fset.Position(pos)
	f := strings.TrimPrefix(ps.Filename, p.Repo+"/")
	return fmt.Sprintf("%s:%d", f, ps.Line)
}

func (p *Prog) FnPos(fn *ssa.Function) string {
	if fn == nil {
		return "-"
	}
	if fn.Pos().IsValid() {
		return p.Pos(fn.Pos())
	}
	if fn.Origin() != nil {
		return p.Pos(fn.Origin().Pos())
	}
	return "-"
}

// Callees returns the possible arche callees of a call site (static or via VTA),
// and whether the call crosses the user boundary (ecs.Listener / ecs.Filter interface).
func (p *Prog) Callees(site ssa.CallInstruction) (fns []*ssa.Function, boundary bool) {
	c := site.Common()
	if c.IsInvoke() {
		if n := namedOf(c.Value.Type()); n != nil && n.Obj().Pkg() != nil && n.Obj().Pkg().Path() == modPath+"/ecs" {
			if n.Obj().Name() == "Listener" || n.Obj().Name() == "Filter" {
				return nil, true
			}
		}
	}
	if sc := c.StaticCallee(); sc != nil {
		fns := []*ssa.Function{p.canon(sc)}
		// a higher-order helper whose function parameters are only ever given closures / named functions: the calls of
		// those parameters are attributed to this call site (one level of context), not to every caller of the helper
		if hp := p.hoistableParams(p.canon(sc)); len(hp) > 0 {
			for _, i := range hp {
				if i < len(c.Args) {
					if f := closureFn(c.Args[i]); f != nil {
						fns = append(fns, f)
					}
				}
			}
		}
		return fns, false
	}
	// a call of the enclosing function's own function-typed parameter that is hoisted to the call sites (see above)
	if pr, ok := c.Value.(*ssa.Parameter); ok && site.Parent() != nil {
		for _, i := range p.hoistableParams(site.Parent()) {
			if paramIndex(pr) == i {
				return nil, false
			}
		}
	}
	out := p.sites[site]
	sort.Slice(out, func(i, j int) bool { return out[i].String() < out[j].String() })
	return out, false
}

// ---- type anchors ----

// Named looks up a named type "ecs.World".
func (p *Prog) Named(q string) *types.Named {
	parts := strings.SplitN(q, ".", 2)
	pk := p.Pkgs[parts[0]]
	if pk == nil {
		return nil
	}
	o := pk.Types.Scope().Lookup(parts[1])
	if o == nil {
		return nil
	}
	tn, ok := o.(*types.TypeName)
	if !ok {
		return nil
	}
	n, _ := tn.Type().(*types.Named)
	return n
}

// Field looks up a struct field object "ecs.World.entities".
func (p *Prog) Field(q string) *types.Var {
	i := strings.LastIndex(q, ".")
	n := p.Named(q[:i])
	if n == nil {
		return nil
	}
	st, ok := n.Underlying().(*types.Struct)
	if !ok {
		return nil
	}
	for k := 0; k < st.NumFields(); k++ {
		if fieldName(n, k) == q[i+1:] {
			return st.Field(k)
		}
	}
	return nil
}

func namedOf(t types.Type) *types.Named {
	for {
		switch x := t.(type) {
		case *types.Pointer:
			t = x.Elem()
		case *types.Named:
			return x
		case *types.Alias:
			t = types.Unalias(x)
		default:
			return nil
		}
	}
}

// typeName gives "World" / "pagedSlice" (generic origin name) for a type, through pointers.
func typeName(t types.Type) string {
	n := namedOf(t)
	if n == nil {
		return ""
	}
	return n.Obj().Name()
}

func isNamed(t types.Type, pkgSuffix, name string) bool {
	n := namedOf(t)
	if n == nil || n.Obj().Pkg() == nil {
		return false
	}
	return n.Obj().Name() == name && strings.HasSuffix(n.Obj().Pkg().Path(), pkgSuffix)
}

// FuncDecl finds the AST declaration of a function or method: pkg "ecs", recv "World" (or ""), name.
func (p *Prog) FuncDecl(pkg, recv, name string) *ast.FuncDecl {
	pk := p.Pkgs[pkg]
	if pk == nil {
		return nil
	}
	for _, f := range pk.Syntax {
		for _, d := range f.Decls {
			fd, ok := d.(*ast.FuncDecl)
			if !ok || fd.Name.Name != name {
				continue
			}
			r := ""
			if fd.Recv != nil && len(fd.Recv.List) > 0 {
				r = recvTypeName(fd.Recv.List[0].Type)
			}
			if r == recv {
				return fd
			}
		}
	}
	return nil
}

func recvTypeName(e ast.Expr) string {
	switch x := e.(type) {
	case *ast.StarExpr:
		return recvTypeName(x.X)
	case *ast.Ident:
		return x.Name
	case *ast.IndexExpr:
		return recvTypeName(x.X)
	case *ast.IndexListExpr:
		return recvTypeName(x.X)
	case *ast.ParenExpr:
		return recvTypeName(x.X)
	}
	return ""
}

// canon maps an instantiation that is not part of the analysed set (a generic body calling another
// generic function with its own type parameters) to its generic origin, which is.
func (p *Prog) canon(fn *ssa.Function) *ssa.Function {
	if fn == nil {
		return nil
	}
	if o := fn.Origin(); o != nil {
		if _, ok := p.inSet[fn]; !ok {
			if _, ok2 := p.inSet[o]; ok2 {
				return o
			}
		}
	}
	return fn
}

func closureFn(v ssa.Value) *ssa.Function {
	switch x := v.(type) {
	case *ssa.MakeClosure:
		if f, ok := x.Fn.(*ssa.Function); ok {
			return f
		}
	case *ssa.Function:
		return x
	case *ssa.ChangeType:
		return closureFn(x.X)
	}
	return nil
}

// hoistableParams: indices of function-typed parameters of fn that fn only calls (never stores or passes on), where
// every call site of fn in the library passes a closure or a named function for them.
func (p *Prog) hoistableParams(fn *ssa.Function) []int {
	if p.hoistMemo == nil {
		p.hoistMemo = map[*ssa.Function][]int{}
	}
	if v, ok := p.hoistMemo[fn]; ok {
		return v
	}
	p.hoistMemo[fn] = nil
	if fn == nil || fn.Blocks == nil || !p.isArche(fn) {
		return nil
	}
	var out []int
	for i, pr := range fn.Params {
		if _, ok := pr.Type().Underlying().(*types.Signature); !ok {
			continue
		}
		onlyCalled := true
		for _, ref := range *pr.Referrers() {
			ci, ok := ref.(ssa.CallInstruction)
			if !ok || ci.Common().Value != ssa.Value(pr) {
				onlyCalled = false
			}
		}
		if !onlyCalled {
			continue
		}
		nsites, all := 0, true
		for _, g := range p.Funcs {
			for _, b := range g.Blocks {
				for _, ins := range b.Instrs {
					cs, ok := ins.(ssa.CallInstruction)
					if !ok {
						continue
					}
					if sc := cs.Common().StaticCallee(); sc == nil || p.canon(sc) != fn {
						continue
					}
					nsites++
					if i >= len(cs.Common().Args) || closureFn(cs.Common().Args[i]) == nil {
						all = false
					}
				}
			}
		}
		if nsites > 0 && all {
			out = append(out, i)
		}
	}
	p.hoistMemo[fn] = out
	return out
}
