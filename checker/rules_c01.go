package main

import (
	"fmt"
	"go/token"
	"go/types"
	"sort"
	"strings"

	"golang.org/x/tools/go/ssa"
)

func init() {
	register(&Property{
		ID: "C01",
		Decides: "the duplicated move paths each perform the complete move protocol: after a swap-removal the swapped-in entity's index entry is fixed up for the same table and row (R1); every row allocated for an entity is recorded in the world's index with that table and that row, and bulk rows get their entity written (R2); every mover's copy loop ranges over the source table's id list, filters only by membership in the destination mask, and copies column id from the source row to the allocated row (R3); " +
			"shrinking zeroes vacated rows, so newly added components read as zero (R4 = C06.R3); raw pointers cached next to the typed buffers are refreshed whenever a buffer or the layout table is replaced, and growth copies old to new (R5); the layout table can hold all ids (R6 = C16.R1); per-column loops of a table visit every column (R7); growth copies whole slices (R8 = C02.R6).",
		NotDecided:  "that component values survive (byte counts, offsets itemSize*index, capacity arithmetic), the archetype-graph walk, and behaviour over histories: values are out of reach of a sound static argument here.",
		Assumptions: commonAssumptions,
		Rules: []Rule{
			{ID: "C01.R1", Floor: 3, Run: c01r1, Text: "swap fix-up: every call of archetype.Remove has its result branched on, and the true edge stores the removed row into World.entities[S.GetEntity(row).id].index with the same table S and row"},
			{ID: "C01.R2", Floor: 7, Run: c01r2, Text: "alloc ⇄ index: the row returned by Alloc(entity) (resp. the row passed to SetEntity(row, entity) after AllocN) is the row stored into World.entities[entity.id] together with the same table, on every path"},
			{ID: "C01.R3", Floor: 4, Run: c01r3, Text: "column-copy completeness: at every SetPointer(dstRow, id, src) in a mover: src is S.Get(srcRow, id) with the same id, the loop ranges over the source table's id list, the only admissible filter is mask.Get(id), and dstRow is the allocated row"},
			{ID: "C01.R4", Floor: 3, Run: c06r3, Text: "shrink ⇒ zero (= C06.R3)"},
			{ID: "C01.R5", Floor: 6, Run: c01r5, Text: "cached-pointer coherence: a store to entityBuffer is followed by entityPointer = that buffer's address; to buffers[i] by the layout pointer of the same column; to layouts by basePointer = &layouts[0]; growth copies old to new with reflect.Copy(new, old) for the entity buffer and every sized column"},
			{ID: "C01.R6", Floor: 2, Run: c16r1, Text: "layout capacity chain (= C16.R1)"},
			{ID: "C01.R7", Floor: 3, Run: c01r7, Text: "per-column loops visit every column: in methods of the table type, a loop over the node's id list is left only through its range condition (no break/return out of the loop body)"},
			{ID: "C01.R9", Floor: 2, Run: c01r9, Text: "graph edges are installed in symmetric pairs: every X.neighbors.Set(id, Y) in the destination finder has a partner Y.neighbors.Set(id, X) with the same id in the same block"},
			{ID: "C01.R8", Floor: 5, Run: c02r6, Text: "growth copies whole slices (= C02.R6)"},
			{ID: "C01.R10", Floor: 3, Run: divModPairs, Text: "two-level addressing tiles the index space: where one value is divided by a constant and reduced modulo a constant in the same function (idMap chunk/slot, bitSet and Mask word/bit, paged slices), the two constants are equal (mask = 2^k-1 for the shift/mask spelling)"},
			{ID: "C01.R11", Floor: 1, Run: setReturnsStorage, Text: "archetype methods that write a component and return an unsafe.Pointer return the pointer into column storage (derived from Get / layout.pointer), never the caller's source pointer"},
			{ID: "C01.R12", Floor: 3, Run: columnEffectsComplete, Text: "per-column effects are not skipped: in every loop of an archetype method whose body zeroes or copies column storage, each iteration performs the effect unless the column is known zero-sized (`itemSize == 0`); no other reason to skip a column"},
			{ID: "C01.R13", Floor: 2, Run: idsNotFabricated, Text: "component ids in per-column loops come from the table's id list (or a parameter), never from a position in the buffer list"},
			{ID: "C01.R14", Floor: 1, Run: layoutCountFromCount, Text: "the layout count covers every registered id (= C16.R12)"},
			{ID: "C01.R15", Floor: 2, Run: exchangeSettersReplace, Text: "generic Exchange setters replace (= C18.R17): Adds/Removes store a list that does not depend on the one stored before; an accumulating setter removes components the current configuration does not name"},
			{ID: "C01.R16", Floor: 3, Run: exchangeListsAgree, Text: "generic Exchange: with and without target the same add/remove lists (= C18.R15): Remove(entity, target) adds nothing"},
			{ID: "C01.R17", Floor: 20, Run: mapListsComplete, Text: "component lists of MapN are complete (= C18.R20): NewWith/Assign hand all N components to the core in both the target and the no-target branch"},
			{ID: "C01.R18", Floor: 1, Run: offsetsInPointerWidth, Text: "storage offsets are computed in pointer width: no unsafe.Add receives a 32-bit product size*index (it wraps at 4 GiB per column and distinct rows share storage)"},
			{ID: "C01.R19", Floor: 1, Run: exchangeBuilderFollowsConfig, Text: "Exchange keeps its builder in step with its configuration (= C18.R25): entities created through the builder carry the component list set last"},
		},
	})
}

func isArchMethod(site ssa.CallInstruction, name string) bool {
	sc := site.Common().StaticCallee()
	return sc != nil && cname(sc) == name && (typeName(recvType(sc)) == "archetype" || typeName(recvType(sc)) == "archetypeAccess")
}

// entitiesIndexStore: if st stores into World.entities[<id of E>](.field), returns E's cell path and the field ("" for whole struct).
func entitiesIndexStore(st *ssa.Store) (entCell ssa.Value, field string, ok bool) {
	addr := st.Addr
	if fa, isFA := addr.(*ssa.FieldAddr); isFA && typeName(fa.X.Type()) == "entityIndex" {
		field = fieldName(fa.X.Type(), fa.Field)
		addr = fa.X
	}
	ia, isIA := addr.(*ssa.IndexAddr)
	if !isIA {
		// through a local pointer variable: index := &w.entities[e.id]
		return nil, "", false
	}
	if _, f, _, okf := loadedField(ia.X); !okf || f != "entities" || typeName(fieldOwner(ia.X)) != "World" {
		return nil, "", false
	}
	c := idOf(ia.Index)
	if c == nil {
		return nil, "", false
	}
	return c, field, true
}

func c01r1(p *Prog, r *Reporter) {
	for _, fn := range p.Funcs {
		for _, site := range callsIn(fn) {
			if !isArchMethod(site, "Remove") {
				continue
			}
			call, ok := site.(*ssa.Call)
			if !ok {
				continue
			}
			name := p.FuncName(fn)
			table, row := apath(call.Common().Args[0]), apath(call.Common().Args[1])
			construct := "swap fix-up after " + table + ".Remove(" + row + ")"
			// result branched on
			var tb *ssa.BasicBlock
			for _, ref := range *call.Referrers() {
				if iff, ok := ref.(*ssa.If); ok {
					atom, trueSucc, _ := ifCond(iff.Block())
					if atom == ssa.Value(call) {
						tb = iff.Block().Succs[trueSucc]
					}
				}
			}
			if tb == nil {
				r.Bad(name, construct, p.Pos(call.Pos()), "the `swapped` result of the row removal is not branched on: the entity that was moved into the vacated row keeps a stale index")
				continue
			}
			// in tb: e := S.GetEntity(row); w.entities[e.id].index = row
			okc, why := false, "the true edge does not store the row into World.entities[S.GetEntity(row).id].index"
			for _, ins := range tb.Instrs {
				st, ok := ins.(*ssa.Store)
				if !ok {
					continue
				}
				cell, field, ok := entitiesIndexStore(st)
				if !ok || field != "index" {
					continue
				}
				// cell = entity obtained by GetEntity(S, row)
				var ge *ssa.Call
				if a, isA := cell.(*ssa.Alloc); isA {
					for _, ref := range *a.Referrers() {
						if s2, ok := ref.(*ssa.Store); ok && s2.Addr == ssa.Value(a) {
							ge = callOf(s2.Val)
						}
					}
				} else {
					ge = callOf(cell)
				}
				if ge == nil || !isArchMethod(ge, "GetEntity") {
					why = "the fixed-up entity is not obtained by GetEntity"
					continue
				}
				geTable := strings.TrimSuffix(apath(ge.Common().Args[0]), ".archetypeAccess")
				if geTable != table {
					why = "the swapped entity is read from " + geTable + ", the removal was on " + table
					continue
				}
				if apath(ge.Common().Args[1]) != row {
					why = "the swapped entity is read at row " + apath(ge.Common().Args[1]) + ", the removal was at " + row
					continue
				}
				if apath(st.Val) != row {
					why = "the index is set to " + apath(st.Val) + ", not to the vacated row " + row
					continue
				}
				// the row is compared by access path; when it is re-read through the entity index, nothing may write the
				// index between the removal and the fix-up
				if readsEntityIndex(call.Common().Args[1]) {
					clobber := ""
					for _, b2 := range fn.Blocks {
						for _, i2 := range b2.Instrs {
							s2, ok := i2.(*ssa.Store)
							if !ok || s2 == st || !writesEntityIndex(s2) {
								continue
							}
							if instrBefore(call, s2) && instrBefore(s2, st) {
								clobber = p.Pos(s2.Pos())
							}
						}
					}
					if clobber != "" {
						why = "the entity index is written at " + clobber + ", between the removal and the fix-up that re-reads the vacated row through it: the fix-up may use the new row"
						continue
					}
				}
				okc = true
			}
			if okc {
				r.OK(name, construct, p.Pos(call.Pos()), "on the swapped edge, World.entities[S.GetEntity(row).id].index = row for the same table and row")
			} else {
				r.Bad(name, construct, p.Pos(call.Pos()), why)
			}
		}
	}
}

func c01r2(p *Prog, r *Reporter) {
	for _, fn := range p.Funcs {
		name := p.FuncName(fn)
		n := 0
		for _, site := range callsIn(fn) {
			var table, rowV, ent ssa.Value
			kind := ""
			switch {
			case isArchMethod(site, "Alloc"):
				call, ok := site.(*ssa.Call)
				if !ok {
					continue
				}
				table, rowV, ent, kind = call.Common().Args[0], call, call.Common().Args[1], "Alloc"
			case isArchMethod(site, "SetEntity"):
				table, rowV, ent, kind = site.Common().Args[0], site.Common().Args[1], site.Common().Args[2], "SetEntity"
			default:
				continue
			}
			n++
			construct := fmt.Sprintf("%s #%d on %s", kind, n, apath(table))
			entCell := originOf(ent)
			// find stores into World.entities[ent.id]
			var rowOK, archOK, found bool
			why := ""
			checkVal := func(field string, v ssa.Value) {
				switch field {
				case "index":
					found = true
					if v == rowV || apath(v) == apath(rowV) && apath(v) != "·" {
						rowOK = true
					} else {
						why = "index is set to " + apath(v) + ", the row is " + apath(rowV)
					}
				case "arch":
					if apath(v) == apath(table) {
						archOK = true
					} else {
						why = "arch is set to " + apath(v) + ", the row was allocated in " + apath(table)
					}
				}
			}
			scan := func(sfn *ssa.Function, entCell ssa.Value, tr func(ssa.Value) ssa.Value) {
				for _, b := range sfn.Blocks {
					for _, ins := range b.Instrs {
						st, ok := ins.(*ssa.Store)
						if !ok {
							continue
						}
						// (a) direct: w.entities[e.id] = entityIndex{arch, index}  or  w.entities[e.id].f = v
						if cell, field, ok := entitiesIndexStore(st); ok && sameCell(cell, entCell) {
							if field == "" {
								// whole struct from a local literal: look at the literal's field stores
								if ld, ok := st.Val.(*ssa.UnOp); ok {
									if a, ok := ld.X.(*ssa.Alloc); ok {
										for _, ref := range *a.Referrers() {
											if fa, ok := ref.(*ssa.FieldAddr); ok {
												for _, r2 := range *fa.Referrers() {
													if s2, ok := r2.(*ssa.Store); ok {
														checkVal(fieldName(fa.X.Type(), fa.Field), tr(s2.Val))
													}
												}
											}
										}
									}
								}
							} else {
								checkVal(field, tr(st.Val))
							}
							continue
						}
						// (b) through a pointer: index := &w.entities[e.id]; index.f = v
						if fa, ok := st.Addr.(*ssa.FieldAddr); ok && typeName(fa.X.Type()) == "entityIndex" {
							if ia, ok := fa.X.(*ssa.IndexAddr); ok {
								if c := idOf(ia.Index); c != nil && sameCell(c, entCell) {
									checkVal(fieldName(fa.X.Type(), fa.Field), tr(st.Val))
								}
							}
						}
					}
				}
			}
			scan(fn, entCell, func(v ssa.Value) ssa.Value { return v })
			if !found {
				// the index entry is written by an unexported helper that receives the entity, the table and the row
				for _, s2 := range callsIn(fn) {
					g := s2.Common().StaticCallee()
					if g == nil || !p.isArche(g) || g.Blocks == nil || g == fn || g.Object() == nil || g.Object().Exported() || len(g.Params) != len(s2.Common().Args) {
						continue
					}
					for k, pr := range g.Params {
						if !isEntityType(pr.Type()) || !sameCell(originOf(s2.Common().Args[k]), entCell) {
							continue
						}
						args := s2.Common().Args
						scan(g, originOf(pr), func(v ssa.Value) ssa.Value {
							if q, ok := v.(*ssa.Parameter); ok && q.Parent() == g {
								return args[paramIndex(q)]
							}
							return v
						})
					}
				}
			}
			switch {
			case !found:
				r.Bad(name, construct, p.Pos(site.Pos()), "a row is allocated for an entity but its index entry in World.entities is not written in this function")
			case rowOK && archOK:
				r.OK(name, construct, p.Pos(site.Pos()), "World.entities[entity.id] receives the same table and the allocated row")
			default:
				if why == "" {
					why = "table or row of the index entry could not be matched"
				}
				r.Bad(name, construct, p.Pos(site.Pos()), "the index entry does not point to the allocated row: "+why)
			}
		}
	}
}

func sameCell(a, b ssa.Value) bool {
	if a == b {
		return true
	}
	return originOf(a) == originOf(b) || apath(a) == apath(b) && apath(a) != "·"
}

func c01r3(p *Prog, r *Reporter) {
	for _, fn := range p.Funcs {
		n := 0
		for _, site := range callsIn(fn) {
			if !isArchMethod(site, "SetPointer") {
				continue
			}
			n++
			name := p.FuncName(fn)
			args := site.Common().Args // dst table, dstRow, id, src
			construct := fmt.Sprintf("column copy #%d into %s", n, apath(args[0]))
			var bad []string
			// src = S.Get(srcRow, id)
			get := callOf(args[3])
			if get == nil || !isArchMethod(get, "Get") {
				bad = append(bad, "the source pointer is not S.Get(row, id)")
			} else {
				if apath(get.Common().Args[2]) != apath(args[2]) {
					bad = append(bad, "the column read ("+apath(get.Common().Args[2])+") is not the column written ("+apath(args[2])+")")
				}
			}
			// the source row is the row of the entity being moved: the row passed to S.GetEntity (bulk) or to S.Remove (single)
			if get != nil && isArchMethod(get, "Get") {
				srcTable, srcRow := apath(get.Common().Args[0]), apath(get.Common().Args[1])
				rowOK := false
				for _, s2 := range callsIn(fn) {
					if (isArchMethod(s2, "GetEntity") || isArchMethod(s2, "Remove")) && len(s2.Common().Args) >= 2 {
						t2 := strings.TrimSuffix(apath(s2.Common().Args[0]), ".archetypeAccess")
						if t2 == strings.TrimSuffix(srcTable, ".archetypeAccess") && apath(s2.Common().Args[1]) == srcRow && srcRow != "·" {
							rowOK = true
						}
						// loop counters render as "·": compare the SSA values themselves
						if t2 == strings.TrimSuffix(srcTable, ".archetypeAccess") && s2.Common().Args[1] == get.Common().Args[1] {
							rowOK = true
						}
					}
				}
				if !rowOK {
					// the removal lives in an unexported helper that receives the source table and the row
					for _, s2 := range callsIn(fn) {
						g := s2.Common().StaticCallee()
						if g == nil || !p.isArche(g) || g.Blocks == nil || g.Object() == nil || g.Object().Exported() || len(g.Params) != len(s2.Common().Args) {
							continue
						}
						for _, s3 := range callsIn(g) {
							if !(isArchMethod(s3, "GetEntity") || isArchMethod(s3, "Remove")) || len(s3.Common().Args) < 2 {
								continue
							}
							pt, ok1 := s3.Common().Args[0].(*ssa.Parameter)
							pr, ok2 := s3.Common().Args[1].(*ssa.Parameter)
							if !ok1 || !ok2 || pt.Parent() != g || pr.Parent() != g {
								continue
							}
							t2 := strings.TrimSuffix(apath(s2.Common().Args[paramIndex(pt)]), ".archetypeAccess")
							if t2 == strings.TrimSuffix(srcTable, ".archetypeAccess") && apath(s2.Common().Args[paramIndex(pr)]) == srcRow && srcRow != "·" {
								rowOK = true
							}
						}
					}
				}
				if !rowOK {
					bad = append(bad, "the source row "+srcRow+" is not the row of the entity being moved (the row read by GetEntity / vacated by Remove on the source table)")
				}
			}
			// id comes from a range over S's id list (Components() of S, or S.node.Ids)
			idSrc := apath(args[2])
			idListOK := strings.Contains(idSrc, "call(Components)[") || strings.Contains(idSrc, ".Ids[")
			if !idListOK {
				// the id list is a parameter of a helper: at every call site it must be a table's id list
				if ld, ok := args[2].(*ssa.UnOp); ok {
					if ia, ok := ld.X.(*ssa.IndexAddr); ok {
						if pr, ok := ia.X.(*ssa.Parameter); ok && pr.Parent() == fn {
							nsites, all := 0, true
							for _, g := range p.Funcs {
								for _, cs := range callsIn(g) {
									if !isCallTo(cs, fn) {
										continue
									}
									nsites++
									a := apath(cs.Common().Args[paramIndex(pr)])
									if !strings.Contains(a, "call(Components)") && !strings.HasSuffix(a, ".Ids") {
										all = false
									}
								}
							}
							idListOK = nsites > 0 && all
						}
					}
				}
			}
			if !idListOK {
				bad = append(bad, "the column id does not range over the source table's id list: "+idSrc)
			}
			// admissible filter: the only conditional between loop header and the copy is mask.Get(id)
			b := site.Block()
			for d := b.Idom(); d != nil; d = d.Idom() {
				atom, _, isIf := ifCond(d)
				if !isIf || !inLoop(d) {
					continue
				}
				if bo, ok := atom.(*ssa.BinOp); ok && bo.Op == token.LSS {
					continue // loop condition
				}
				c := callOf(atom)
				if c != nil && c.Common().StaticCallee() != nil && cname(c.Common().StaticCallee()) == "Get" && typeName(recvType(c.Common().StaticCallee())) == "Mask" && apath(c.Common().Args[1]) == apath(args[2]) {
					continue
				}
				if !dominatesBlock(d, b) || !reaches(d, b) {
					continue
				}
				// a condition that belongs to an enclosing (outer) loop only
				if !sameInnermostLoop(d, b) {
					continue
				}
				bad = append(bad, "the copy is skipped under a condition other than membership of the id in the destination mask: "+apath(atom))
			}
			// destination row is the allocated row: result of Alloc, or the row passed to SetEntity
			rowOK := false
			for _, s2 := range callsIn(fn) {
				if isArchMethod(s2, "Alloc") {
					if c, ok := s2.(*ssa.Call); ok && ssa.Value(c) == args[1] && apath(c.Common().Args[0]) == apath(args[0]) {
						rowOK = true
					}
				}
				if isArchMethod(s2, "SetEntity") && s2.Common().Args[1] == args[1] && apath(s2.Common().Args[0]) == apath(args[0]) {
					rowOK = true
				}
			}
			if !rowOK {
				bad = append(bad, "the destination row "+apath(args[1])+" is not the row allocated in the destination table")
			}
			if len(bad) == 0 {
				r.OK(name, construct, p.Pos(site.Pos()), "copies column id from S.Get(srcRow, id) to the allocated row, for every id of the source table that is in the destination mask")
			} else {
				r.Bad(name, construct, p.Pos(site.Pos()), strings.Join(bad, "; "))
			}
		}
	}
}

func sameInnermostLoop(a, b *ssa.BasicBlock) bool {
	// a and b are on a common cycle
	return reaches(a, b) && reaches(b, a)
}

func c01r5(p *Prog, r *Reporter) {
	for _, fn := range p.Funcs {
		root := fn
		for root.Parent() != nil { // closures inside archetype methods
			root = root.Parent()
		}
		if typeName(recvType(root)) != "archetype" {
			continue
		}
		name := p.FuncName(fn)
		type w struct {
			st   *ssa.Store
			what string
		}
		var bufStores, ptrStores []w
		for _, b := range fn.Blocks {
			for _, ins := range b.Instrs {
				st, ok := ins.(*ssa.Store)
				if !ok {
					continue
				}
				t := apath(st.Addr)
				switch {
				case strings.HasSuffix(t, ".entityBuffer"):
					bufStores = append(bufStores, w{st, "entityBuffer"})
				case strings.Contains(t, ".buffers["):
					bufStores = append(bufStores, w{st, "buffers"})
				case strings.HasSuffix(t, ".layouts"):
					bufStores = append(bufStores, w{st, "layouts"})
				case strings.HasSuffix(t, ".entityPointer"):
					ptrStores = append(ptrStores, w{st, "entityBuffer"})
				case strings.HasSuffix(t, ".pointer"):
					ptrStores = append(ptrStores, w{st, "buffers"})
				case strings.HasSuffix(t, ".basePointer"):
					ptrStores = append(ptrStores, w{st, "layouts"})
				case strings.HasSuffix(t, ".archetypeAccess"):
					// whole access struct (Init): contains entityPointer and basePointer
					ptrStores = append(ptrStores, w{st, "entityBuffer"}, w{st, "layouts"})
				}
			}
		}
		for i, bs := range bufStores {
			okc := false
			for _, ps := range ptrStores {
				if ps.what != bs.what {
					continue
				}
				if allPathsFromPass(fn, bs.st, func(x ssa.Instruction) bool { return x == ssa.Instruction(ps.st) }) {
					okc = true
				}
				// layout literal stored as a whole (Init): layouts[id] = layout{pointer, size}
				if bs.what == "buffers" && ps.st.Block() == bs.st.Block() {
					okc = true
				}
			}
			if bs.what == "buffers" && !okc {
				// composite literal layout{...} stored into layouts[id] in the same block
				for _, ins := range bs.st.Block().Instrs {
					if s2, ok := ins.(*ssa.Store); ok && strings.Contains(apath(s2.Addr), ".layouts[") {
						okc = true
					}
				}
			}
			construct := fmt.Sprintf("replace %s #%d", bs.what, i+1)
			if okc {
				r.OK(name, construct, p.Pos(bs.st.Pos()), "followed on every path by the refresh of the raw pointer cached for it")
			} else {
				r.Bad(name, construct, p.Pos(bs.st.Pos()), "a buffer (or the layout table) is replaced without refreshing the raw pointer cached next to it: reads and writes would keep using the old storage")
			}
		}
		// growth copies old → new, per replaced buffer, in extend and the archetype methods it calls:
		// reflect.Copy(dst, src) with src loaded before the store that replaces the buffer, and dst the field re-read after it or the stored value
		if growthFamily(p)[fn] {
			for i, bs := range bufStores {
				if bs.what == "layouts" {
					continue
				}
				found := false
				for _, site := range callsIn(fn) {
					sc := site.Common().StaticCallee()
					if sc == nil || sc.Pkg == nil || sc.Pkg.Pkg.Path() != "reflect" || cname(sc) != "Copy" {
						continue
					}
					dst, src := site.Common().Args[0], site.Common().Args[1]
					dp := apath(dst)
					dstIsField := strings.Contains(dp, "entityBuffer") || strings.Contains(dp, ".buffers[")
					si, ok1 := src.(ssa.Instruction)
					di, ok2 := dst.(ssa.Instruction)
					if !ok1 || !ok2 || !instrBefore(si, bs.st) || !sameStorage(apath(src), apath(bs.st.Addr)) {
						continue
					}
					if dstIsField && instrBefore(bs.st, di) || bs.st.Val == dst {
						found = true
					}
				}
				construct := fmt.Sprintf("growth copies old %s #%d", bs.what, i+1)
				if found {
					r.OK(name, construct, p.Pos(bs.st.Pos()), "reflect.Copy(new, old) with the old buffer read before and the new one after the replacement")
				} else {
					r.Bad(name, construct, p.Pos(bs.st.Pos()), "the buffer is replaced while growing, but its old contents are not copied into the new one (reflect.Copy(new, old) with old read before the replacement): existing rows would be lost")
				}
			}
		}
	}
	// growing must replace both the entity buffer and the columns
	if ext := p.Fn("ecs.(*archetype).extend"); ext != nil {
		kinds := map[string]bool{}
		for fn := range growthFamily(p) {
			for _, b := range fn.Blocks {
				for _, ins := range b.Instrs {
					if st, ok := ins.(*ssa.Store); ok {
						t := apath(st.Addr)
						if strings.HasSuffix(t, ".entityBuffer") {
							kinds["entityBuffer"] = true
						}
						if strings.Contains(t, ".buffers[") {
							kinds["buffers"] = true
						}
					}
				}
			}
		}
		r.Check(kinds["entityBuffer"] && kinds["buffers"], p.FuncName(ext), "growth replaces entity buffer and columns", p.FnPos(ext), "extend (with the methods it calls) re-allocates both the entity buffer and the component columns")
	} else {
		r.Anchor("ecs.(*archetype).extend")
	}
}

// growthFamily: archetype.extend and the archetype methods it calls (transitively).
func growthFamily(p *Prog) map[*ssa.Function]bool {
	out := map[*ssa.Function]bool{}
	ext := p.Fn("ecs.(*archetype).extend")
	if ext == nil {
		return out
	}
	out[ext] = true
	for changed := true; changed; {
		changed = false
		for fn := range out {
			for _, site := range callsIn(fn) {
				callees, _ := p.Callees(site)
				for _, sc := range callees {
					root := sc
					for root.Parent() != nil {
						root = root.Parent()
					}
					if typeName(recvType(root)) == "archetype" && !out[sc] {
						out[sc] = true
						changed = true
					}
				}
			}
		}
	}
	return out
}

// instrBefore: a is executed before b on every path reaching b (same block: earlier; else a's block dominates b's).
func instrBefore(a, b ssa.Instruction) bool {
	if a.Block() == b.Block() {
		for _, i := range a.Block().Instrs {
			if i == a {
				return true
			}
			if i == b {
				return false
			}
		}
	}
	return dominatesBlock(a.Block(), b.Block())
}

func sameStorage(a, b string) bool {
	norm := func(s string) string {
		if i := strings.Index(s, ".buffers["); i >= 0 {
			return s[:i] + ".buffers[]"
		}
		return s
	}
	return norm(a) == norm(b)
}

func c01r7(p *Prog, r *Reporter) {
	for _, fn := range p.Funcs {
		if typeName(recvType(fn)) != "archetype" {
			continue
		}
		name := p.FuncName(fn)
		// loops whose induction variable indexes node.Ids
		heads := map[*ssa.BasicBlock]bool{}
		for _, b := range fn.Blocks {
			for _, ins := range b.Instrs {
				ia, ok := ins.(*ssa.IndexAddr)
				if !ok || !strings.HasSuffix(apath(ia.X), ".Ids") {
					continue
				}
				// header: the block with the loop condition dominating b and on a cycle with it
				for d := b; d != nil; d = d.Idom() {
					if _, _, isIf := ifCond(d); isIf && reaches(b, d) && d != b || d == b && isLoopHeader(d) {
						if isLoopHeader(d) {
							heads[d] = true
							break
						}
					}
				}
			}
		}
		var hs []*ssa.BasicBlock
		for h := range heads {
			hs = append(hs, h)
		}
		sort.Slice(hs, func(i, j int) bool { return hs[i].Index < hs[j].Index })
		for i, h := range hs {
			// body = blocks dominated by h that reach h
			bad := ""
			for _, x := range fn.Blocks {
				if x == h || !dominatesBlock(h, x) || !reaches(x, h) {
					continue
				}
				for _, s := range x.Succs {
					if !(dominatesBlock(h, s) && reaches(s, h)) && s != h {
						bad = "the loop body leaves the loop at " + p.Pos(posOf(x.Instrs[len(x.Instrs)-1])) + " (break or return): later columns are skipped"
					}
				}
			}
			construct := fmt.Sprintf("loop #%d over the table's column ids", i+1)
			if bad == "" {
				r.OK(name, construct, p.Pos(posOf(h.Instrs[len(h.Instrs)-1])), "left only through its range condition: every column is visited")
			} else {
				r.Bad(name, construct, p.Pos(posOf(h.Instrs[len(h.Instrs)-1])), bad)
			}
		}
	}
}

func isLoopHeader(b *ssa.BasicBlock) bool {
	for _, pr := range b.Preds {
		if dominatesBlock(b, pr) {
			return true
		}
	}
	return false
}

func c01r9(p *Prog, r *Reporter) {
	for _, fn := range p.Funcs {
		type edge struct {
			site     ssa.CallInstruction
			from, to string
			id       string
		}
		var edges []edge
		for _, site := range callsIn(fn) {
			sc := site.Common().StaticCallee()
			if sc == nil || !strings.HasPrefix(cname(sc), "Set") || !strings.HasPrefix(typeName(recvType(sc)), "idMap") {
				continue
			}
			recv := apath(site.Common().Args[0])
			if !strings.HasSuffix(recv, ".neighbors") {
				continue
			}
			edges = append(edges, edge{site, strings.TrimSuffix(strings.TrimSuffix(recv, ".neighbors"), ".nodeData"), apath(site.Common().Args[2]), apath(site.Common().Args[1])})
		}
		for i, e := range edges {
			ok := false
			for j, f := range edges {
				if i != j && f.site.Block() == e.site.Block() && f.id == e.id && f.from == e.to && f.to == e.from {
					ok = true
				}
			}
			r.Check(ok, p.FuncName(fn), fmt.Sprintf("graph edge #%d %s -[%s]-> %s", i+1, e.from, e.id, e.to), p.Pos(e.site.Pos()),
				"has the reverse edge with the same id in the same block (adding and removing a component are inverse walks)")
		}
	}
}

// readsEntityIndex: v is a load of a field of an entityIndex reached through a pointer (an element of World.entities).
func readsEntityIndex(v ssa.Value) bool {
	u, ok := v.(*ssa.UnOp)
	if !ok || u.Op != token.MUL {
		return false
	}
	fa, ok := u.X.(*ssa.FieldAddr)
	return ok && typeName(fa.X.Type()) == "entityIndex"
}

// writesEntityIndex: the store writes an element of World.entities (a whole entry or one of its fields).
func writesEntityIndex(st *ssa.Store) bool {
	addr := st.Addr
	if fa, ok := addr.(*ssa.FieldAddr); ok && typeName(fa.X.Type()) == "entityIndex" {
		return true
	}
	if ia, ok := addr.(*ssa.IndexAddr); ok {
		if _, f, _, ok := loadedField(ia.X); ok && f == "entities" {
			if sl, ok := ia.X.Type().Underlying().(*types.Slice); ok && typeName(sl.Elem()) == "entityIndex" {
				return true
			}
		}
	}
	return false
}
