package main

import (
	"fmt"
	"go/token"
	"go/types"
	"os"
	"path/filepath"
	"sort"
	"strings"

	"golang.org/x/tools/go/packages"
	"golang.org/x/tools/go/ssa"
	"golang.org/x/tools/go/ssa/ssautil"
)

func init() {
	register(&Property{
		ID:          "C13",
		Decides:     "a single-goroutine Go program is deterministic unless it observes map iteration order, scheduling, clocks/randomness/OS state, or address-derived values; for every function of the six library packages: no range over a map whose body is order-sensitive (R1), no goroutines, channels, select, finalizers, clocks, random sources, OS state, sync.Pool or maphash (R2), no pointer converted to an integer and no pointer formatted (R3). A fixture with known-bad and known-good examples is analysed on every run.",
		NotDecided:  "that the (deterministic) algorithms produce the documented results; memory safety (a read past an array would be nondeterministic) — assumed.",
		Assumptions: append([]string{"memory safety of the unsafe accesses (C01/C16 rules cover the capacity chain only)", "reflect and fmt are deterministic for the values passed (types, integers, strings)"}, commonAssumptions...),
		Rules: []Rule{
			{ID: "C13.R1", Floor: 1, Run: c13r1, Text: "no order-dependent map iteration: a range over a map is allowed only if the loop body is order-insensitive by form (only delete, commutative accumulation into locals, keyed writes into another map, or collecting keys that are sorted before use); the same for callbacks handed to package maps (DeleteFunc …), and maps.Keys/Values/All only as the direct argument of a sorting collector"},
			{ID: "C13.R2", Floor: 1, Run: c13r2, Text: "no nondeterminism sources: go statements, channel operations, select, runtime.SetFinalizer, time, math/rand, crypto/rand, os, sync.Pool, hash/maphash callees (resolved callees, not names)"},
			{ID: "C13.R3", Floor: 1, Run: c13r3, Text: "no address-derived values: no conversion unsafe.Pointer → uintptr, no pointer/map/chan/func value passed to a fmt formatting function"},
			{ID: "C13.R4", Floor: 1, Run: c16r7, Text: "layout extension covers every table of every node, active or not (= C16.R7): a skipped table reads past its layout array, which makes results depend on heap contents"},
			{ID: "C13.R5", Floor: 2, Run: c17r4, Text: "loaded state is copied, not adopted (= C17.R4): two worlds loaded from one dump share no storage"},
			{ID: "C13.R6", Floor: 5, Run: c19r1, Text: "no mutable package-level state (= C19.R1): a result must not depend on what other worlds in the process did"},
			{ID: "C13.R7", Floor: 2, Run: typeArgPassedThrough, Text: "type registration goes through the world's registration path (= C16.R10), which extends every table's layouts: a skipped extension makes results depend on heap contents"},
			{ID: "C13.R8", Floor: 1, Run: layoutCountFromCount, Text: "the layout count is rounded up from the registry's count (= C16.R12)"},
			{ID: "C13.R9", Floor: 1, Run: compileKeyedByWorld, Text: "the compilation of a generic filter is keyed by world (= C18.R23): the same operations on two fresh worlds give the same results, whatever was done before"},
			{ID: "C13.FX", Floor: 1, Run: c13fixture, Text: "fixture control: on checker/testdata/fixture the three rules report exactly the functions named bad* for them and none named ok*"},
			{ID: "C13.R10", Floor: 8, Run: c14r1, Text: "component arguments escape (= C14.R1): a value read back never depends on stack reuse"},
		},
	})
	register(&Property{
		ID:          "C19",
		Decides:     "all state hangs off World: every package-level variable of the six packages has an immutable type (basic, string, reflect.Type) or is a never-executed escape sink, and is written only by its initialiser (R1); the library starts no goroutines and uses no channels, sync or atomic (R2); it calls no standard-library function with process-global mutable state (R3); a world never adopts caller-owned slices as its own storage (R4). A fixture with known-bad examples is analysed on every run.",
		NotDecided:  "data races themselves (no schedule is explored); isolation when callers share Listener/Filter/component pointers between worlds (their responsibility).",
		Assumptions: append([]string{"package reflect is safe for concurrent use", "callers do not share listeners, filters or component pointers between worlds"}, commonAssumptions...),
		Rules: []Rule{
			{ID: "C19.R1", Floor: 5, Run: c19r1, Text: "package-level state is immutable: each package-level variable has an immutable type and no function other than a package initialiser writes it (mod-sets with global roots); a write guarded by a package-level boolean that is itself never written is dead (escape-sink idiom)"},
			{ID: "C19.R2", Floor: 1, Run: c19r2, Text: "no background activity: no go statement, no channel operation, no select, no callee in sync or sync/atomic"},
			{ID: "C19.R3", Floor: 1, Run: c13r2, Text: "no process-global mutable state in callees (= C13.R2 ban list: math/rand globals, os, time, …)"},
			{ID: "C19.R4", Floor: 2, Run: c17r4, Text: "no adoption of caller-owned storage (= C17.R4): slices installed into the world by LoadEntities are freshly allocated"},
			{ID: "C19.R5", Floor: 2, Run: paramSlicesNotGrown, Text: "caller-owned slices that the library appends to are copied first (= C12 rule): two objects built from one slice never write into each other"},
			{ID: "C19.R6", Floor: 3, Run: noWritesThroughResources, Text: "resource objects are only stored and handed out: no method of Resources calls a reflect mutator or stores through a resource pointer"},
			{ID: "C19.R7", Floor: 10, Run: callerSlicesNotMutated, Text: "caller-owned slices are only read: no exported function assigns an element of, sorts, reverses, compacts or copies into a slice parameter"},
			{ID: "C19.R8", Floor: 1, Run: compileKeyedByWorld, Text: "the compilation of a generic filter is keyed by world (= C18.R23): using a filter on one world does not change what it selects on another"},
			{ID: "C19.R9", Floor: 10, Run: compiledFiltersFresh, Text: "handed-out filters do not point into re-compiled state (= C18.R24): using a generic filter on a second world does not change the selection of a query open on the first"},
			{ID: "C19.FX", Floor: 1, Run: c19fixture, Text: "fixture control: on checker/testdata/fixture R1/R2 report exactly the bad* functions for them"},
			{ID: "C19.R10", Floor: 1, Run: compileRecomputes, Text: "a compiled generic filter carries nothing over from the world it was compiled for before (= C18.R27)"},
		},
	})
}

type finding struct {
	fn   *ssa.Function
	pos  token.Pos
	what string
	why  string
}

// ---------- scanners (work on any function) ----------

func isMapType(t types.Type) bool { _, ok := t.Underlying().(*types.Map); return ok }

// scanMapRanges: R1 findings in fn; also returns the number of map ranges seen.
func scanMapRanges(fn *ssa.Function, modOf func(ssa.CallInstruction) bool) (bad []finding, n int) {
	for _, b := range fn.Blocks {
		for _, ins := range b.Instrs {
			rg, ok := ins.(*ssa.Range)
			if !ok || !isMapType(rg.X.Type()) {
				continue
			}
			n++
			// loop body: blocks reachable from the Next's block that can reach it again
			var next *ssa.Next
			for _, ref := range *rg.Referrers() {
				if nx, ok := ref.(*ssa.Next); ok {
					next = nx
				}
			}
			if next == nil {
				continue
			}
			head := next.Block()
			body := map[*ssa.BasicBlock]bool{}
			for _, x := range fn.Blocks {
				if x != head && reaches(head, x) && reaches(x, head) {
					body[x] = true
				}
			}
			body[head] = true
			why := orderSensitive(fn, body, modOf)
			if why != "" {
				bad = append(bad, finding{fn, rg.Pos(), "range over " + apath(rg.X), "the loop body is order-sensitive: it " + why})
			}
		}
	}
	return
}

// orderSensitive: why the given blocks of fn (a loop body, or a whole callback run once per map entry) depend on the
// order in which they are executed; "" if they do not, by form.
func orderSensitive(fn *ssa.Function, body map[*ssa.BasicBlock]bool, modOf func(ssa.CallInstruction) bool) string {
	why := ""
	var appended []ssa.Value
	for x := range body {
		for _, i2 := range x.Instrs {
			switch y := i2.(type) {
			case *ssa.Store:
				if a, ok := y.Addr.(*ssa.Alloc); ok && !a.Heap {
					continue // local accumulation
				}
				if _, isAlloc := y.Addr.(*ssa.Alloc); !isAlloc {
					if _, _, fresh, ok := addrPath(y.Addr, 0); ok && fresh {
						continue // element of a local temporary (e.g. the varargs array of append)
					}
				}
				if _, ok := y.Addr.(*ssa.Alloc); ok {
					// heap local (escaping variable): accept commutative updates only
					if bo, ok := y.Val.(*ssa.BinOp); ok && (bo.Op == token.ADD || bo.Op == token.OR || bo.Op == token.AND || bo.Op == token.XOR || bo.Op == token.MUL) {
						continue
					}
					if c := callOf(y.Val); c != nil {
						if bi, ok := c.Call.Value.(*ssa.Builtin); ok && bi.Name() == "append" {
							appended = append(appended, y.Addr)
							continue
						}
					}
				}
				why = "stores to " + apath(y.Addr) + " inside the loop"
			case *ssa.MapUpdate:
				// keyed write: fine
			case *ssa.Call:
				if bi, ok := y.Call.Value.(*ssa.Builtin); ok {
					switch bi.Name() {
					case "delete", "len", "cap":
						continue
					case "append":
						// result must go to a local that is sorted later; tracked through the Store/Phi
						appended = append(appended, y)
						continue
					}
					why = "calls builtin " + bi.Name()
					continue
				}
				if modOf != nil && !modOf(y) {
					continue // pure callee
				}
				why = "calls " + calleeShort(y) + ", which has side effects, once per map entry"
			case *ssa.Send, *ssa.Go, *ssa.Defer:
				why = "has an ordered side effect"
			}
		}
	}
	if why == "" && len(appended) > 0 {
		// collect-then-sort: some call into package sort / slices.Sort after the loop in this function
		sorted := false
		for _, site := range callsIn(fn) {
			if sc := site.Common().StaticCallee(); sc != nil && sc.Pkg != nil && (sc.Pkg.Pkg.Path() == "sort" || sc.Pkg.Pkg.Path() == "slices") && !body[site.Block()] {
				sorted = true
			}
		}
		if !sorted {
			why = "appends to a slice in map order and never sorts it"
		}
	}
	return why
}

// pkgPathOf: import path of the package a (possibly instantiated) function was declared in.
func pkgPathOf(fn *ssa.Function) string {
	if fn == nil {
		return ""
	}
	if o := fn.Origin(); o != nil {
		fn = o
	}
	if fn.Pkg != nil {
		return fn.Pkg.Pkg.Path()
	}
	if ob := fn.Object(); ob != nil && ob.Pkg() != nil {
		return ob.Pkg().Path()
	}
	return ""
}

// scanMapsPkg: calls into the standard packages maps (and iter-based helpers) visit a map in hash order as well: a
// callback run once per entry must be order-insensitive by the same criterion as a range body; an iterator over a map
// (maps.Keys/Values/All) must be consumed by a sorting collector.
func scanMapsPkg(fn *ssa.Function, modOf func(ssa.CallInstruction) bool) (bad []finding, n int) {
	for _, site := range callsIn(fn) {
		sc := site.Common().StaticCallee()
		if sc == nil || pkgPathOf(sc) != "maps" {
			continue
		}
		hasMap := false
		for _, a := range site.Common().Args {
			if isMapType(a.Type()) {
				hasMap = true
			}
		}
		if !hasMap {
			continue
		}
		n++
		name := sc.Name()
		if o := sc.Origin(); o != nil {
			name = o.Name()
		}
		switch name {
		case "Keys", "Values", "All":
			// an iterator in hash order: accepted only as the direct argument of slices.Sorted / SortedFunc / SortedStableFunc
			sortedUse := true
			v, isV := site.(ssa.Value)
			if !isV || v.Referrers() == nil {
				sortedUse = false
			} else {
				for _, ref := range *v.Referrers() {
					c, ok := ref.(ssa.CallInstruction)
					if !ok {
						sortedUse = false
						continue
					}
					cc := c.Common().StaticCallee()
					cn := ""
					if cc != nil {
						cn = cc.Name()
						if o := cc.Origin(); o != nil {
							cn = o.Name()
						}
					}
					if cc == nil || pkgPathOf(cc) != "slices" || !strings.HasPrefix(cn, "Sorted") {
						sortedUse = false
					}
				}
			}
			if !sortedUse {
				bad = append(bad, finding{fn, site.Pos(), "maps." + name, "iterates a map in hash order and the sequence is not handed directly to a sorting collector"})
			}
		case "Clone", "Copy", "Equal", "EqualFunc", "Insert", "Collect":
			// keyed results: the order of visiting does not show
		default:
			// DeleteFunc and anything else taking a callback: the callback runs once per entry in hash order
			for _, a := range site.Common().Args {
				cf := closureFn(a)
				if cf == nil {
					if _, isFunc := a.Type().Underlying().(*types.Signature); isFunc {
						bad = append(bad, finding{fn, site.Pos(), "maps." + name, "passes a function value that cannot be resolved to a map visitor in hash order"})
					}
					continue
				}
				all := map[*ssa.BasicBlock]bool{}
				for _, b := range cf.Blocks {
					all[b] = true
				}
				if why := orderSensitive(cf, all, modOf); why != "" {
					bad = append(bad, finding{fn, site.Pos(), "maps." + name + " callback", "the callback runs once per map entry in hash order and is order-sensitive: it " + why})
				}
			}
		}
	}
	return
}

var bannedPkgs = map[string]string{
	"time": "clock", "math/rand": "random source", "math/rand/v2": "random source", "crypto/rand": "random source",
	"os": "OS state", "hash/maphash": "per-process hash seed", "os/signal": "OS state", "syscall": "OS state",
}

func scanSources(fn *ssa.Function) (bad []finding) {
	for _, b := range fn.Blocks {
		for _, ins := range b.Instrs {
			switch x := ins.(type) {
			case *ssa.Go:
				bad = append(bad, finding{fn, x.Pos(), "go statement", "starts a goroutine"})
			case *ssa.Send:
				bad = append(bad, finding{fn, x.Pos(), "channel send", "channel operation"})
			case *ssa.Select:
				bad = append(bad, finding{fn, x.Pos(), "select", "select statement"})
			case *ssa.MakeChan:
				bad = append(bad, finding{fn, x.Pos(), "make(chan)", "channel creation"})
			case *ssa.UnOp:
				if x.Op == token.ARROW {
					bad = append(bad, finding{fn, x.Pos(), "channel receive", "channel operation"})
				}
			}
			site, ok := ins.(ssa.CallInstruction)
			if !ok {
				continue
			}
			sc := site.Common().StaticCallee()
			if sc == nil || sc.Pkg == nil {
				continue
			}
			path := sc.Pkg.Pkg.Path()
			if kind, banned := bannedPkgs[path]; banned {
				bad = append(bad, finding{fn, site.Pos(), "call " + path + "." + cname(sc), kind})
			}
			if path == "runtime" && cname(sc) == "SetFinalizer" {
				bad = append(bad, finding{fn, site.Pos(), "call runtime.SetFinalizer", "finalizers run at GC-dependent times"})
			}
			if path == "sync" && typeName(recvType(sc)) == "Pool" {
				bad = append(bad, finding{fn, site.Pos(), "call sync.Pool." + cname(sc), "GC-dependent cache"})
			}
		}
	}
	return
}

func scanAddresses(fn *ssa.Function) (bad []finding) {
	for _, b := range fn.Blocks {
		for _, ins := range b.Instrs {
			if cv, ok := ins.(*ssa.Convert); ok {
				if bt, ok := cv.X.Type().Underlying().(*types.Basic); ok && bt.Kind() == types.UnsafePointer {
					if rt, ok := cv.Type().Underlying().(*types.Basic); ok && rt.Kind() == types.Uintptr {
						bad = append(bad, finding{fn, cv.Pos(), "uintptr(" + apath(cv.X) + ")", "an address becomes an integer"})
					}
				}
			}
			site, ok := ins.(ssa.CallInstruction)
			if !ok {
				continue
			}
			sc := site.Common().StaticCallee()
			if sc == nil || sc.Pkg == nil || sc.Pkg.Pkg.Path() != "fmt" {
				continue
			}
			// variadic args are stored into a local array of interfaces: find MakeInterface values stored there
			for _, a := range site.Common().Args {
				sl, ok := a.(*ssa.Slice)
				if !ok {
					continue
				}
				al, ok := sl.X.(*ssa.Alloc)
				if !ok {
					continue
				}
				for _, ref := range *al.Referrers() {
					ia, ok := ref.(*ssa.IndexAddr)
					if !ok {
						continue
					}
					for _, r2 := range *ia.Referrers() {
						st, ok := r2.(*ssa.Store)
						if !ok {
							continue
						}
						mi, ok := st.Val.(*ssa.MakeInterface)
						if !ok {
							continue
						}
						switch t := mi.X.Type().Underlying().(type) {
						case *types.Pointer, *types.Map, *types.Chan, *types.Signature:
							_ = t
							bad = append(bad, finding{fn, site.Pos(), "format " + apath(mi.X), "a " + mi.X.Type().String() + " is formatted: its address is printed"})
						case *types.Basic:
							if t.Kind() == types.UnsafePointer || t.Kind() == types.Uintptr {
								bad = append(bad, finding{fn, site.Pos(), "format " + apath(mi.X), "an address is formatted"})
							}
						}
					}
				}
			}
		}
	}
	return
}

func report(p *Prog, r *Reporter, bad []finding, scanned int, what string) {
	for _, f := range bad {
		r.Bad(p.FuncName(f.fn), f.what, p.Pos(f.pos), f.why)
	}
	if len(bad) == 0 {
		r.OK("all library functions", what, "-", fmt.Sprintf("%d functions scanned, no finding", scanned))
	}
}

func c13r1(p *Prog, r *Reporter) {
	var bad []finding
	n := 0
	for _, fn := range p.Funcs {
		mod := func(c ssa.CallInstruction) bool { return len(p.SiteMod(c).W) > 0 }
		b, k := scanMapRanges(fn, mod)
		bad = append(bad, b...)
		n += k
		b, k = scanMapsPkg(fn, mod)
		bad = append(bad, b...)
		n += k
	}
	for _, f := range bad {
		r.Bad(p.FuncName(f.fn), f.what, p.Pos(f.pos), f.why)
	}
	if len(bad) == 0 {
		r.OK("all library functions", "map iteration", "-", fmt.Sprintf("%d functions scanned, %d ranges over maps, none order-sensitive", len(p.Funcs), n))
	}
}

func c13r2(p *Prog, r *Reporter) {
	var bad []finding
	for _, fn := range p.Funcs {
		bad = append(bad, scanSources(fn)...)
	}
	report(p, r, bad, len(p.Funcs), "nondeterminism sources")
}

func c13r3(p *Prog, r *Reporter) {
	var bad []finding
	for _, fn := range p.Funcs {
		bad = append(bad, scanAddresses(fn)...)
	}
	report(p, r, bad, len(p.Funcs), "address-derived values")
}

// ---------- fixture ----------

type fixtureProg struct {
	funcs []*ssa.Function
	pkg   *ssa.Package
	fset  *token.FileSet
}

var fixtureMemo *fixtureProg
var fixtureErr error

func fixtureDir() string {
	if d := os.Getenv("ARCHECHECK_FIXTURE"); d != "" {
		return d
	}
	exe, _ := os.Executable()
	return filepath.Join(filepath.Dir(filepath.Dir(exe)), "checker", "testdata", "fixture")
}

func loadFixture() (*fixtureProg, error) {
	if fixtureMemo != nil || fixtureErr != nil {
		return fixtureMemo, fixtureErr
	}
	dir := fixtureDir()
	pc := &packages.Config{Mode: packages.LoadAllSyntax, Dir: dir,
		Env: append(os.Environ(), "GOFLAGS=-mod=mod", "GOPROXY=off", "GOSUMDB=off", "GOTOOLCHAIN=local", "GOWORK=off", "CGO_ENABLED=0")}
	pkgs, err := packages.Load(pc, ".")
	if err != nil || len(pkgs) != 1 || len(pkgs[0].Errors) > 0 {
		fixtureErr = fmt.Errorf("fixture does not load from %s: %v %v", dir, err, pkgs)
		return nil, fixtureErr
	}
	prog, sp := ssautil.AllPackages(pkgs, ssa.InstantiateGenerics)
	prog.Build()
	fp := &fixtureProg{pkg: sp[0], fset: pkgs[0].Fset}
	for _, m := range sp[0].Members {
		if f, ok := m.(*ssa.Function); ok && f.Blocks != nil && f.Synthetic == "" {
			fp.funcs = append(fp.funcs, f)
		}
	}
	sort.Slice(fp.funcs, func(i, j int) bool { return fp.funcs[i].Name() < fp.funcs[j].Name() })
	fixtureMemo = fp
	return fp, nil
}

func fixtureCheck(r *Reporter, rule string, flagged map[string]bool, expectBad []string, fp *fixtureProg) {
	want := map[string]bool{}
	for _, n := range expectBad {
		want[n] = true
	}
	for _, f := range fp.funcs {
		n := f.Name()
		if want[n] && !flagged[n] {
			r.Bad("fixture."+n, rule+" control", "checker/testdata/fixture/fixture.go", "the rule is blind: it does not report the known-bad fixture function")
		} else if !want[n] && flagged[n] {
			r.Bad("fixture."+n, rule+" control", "checker/testdata/fixture/fixture.go", "the rule over-reports: it flags a known-good fixture function")
		}
	}
	r.OK("fixture", rule+" control", "checker/testdata/fixture/fixture.go", fmt.Sprintf("reports exactly %v among %d fixture functions", expectBad, len(fp.funcs)))
}

func c13fixture(p *Prog, r *Reporter) {
	fp, err := loadFixture()
	if err != nil {
		r.Bad("fixture", "load", "-", err.Error())
		return
	}
	f1, f2, f3 := map[string]bool{}, map[string]bool{}, map[string]bool{}
	impure := func(c ssa.CallInstruction) bool {
		sc := c.Common().StaticCallee()
		if sc == nil || sc.Blocks == nil {
			return true
		}
		for _, b := range sc.Blocks {
			for _, ins := range b.Instrs {
				if st, ok := ins.(*ssa.Store); ok {
					if _, local := st.Addr.(*ssa.Alloc); !local {
						return true
					}
				}
			}
		}
		return false
	}
	for _, fn := range fp.funcs {
		b, _ := scanMapRanges(fn, impure)
		b2, _ := scanMapsPkg(fn, impure)
		if b = append(b, b2...); len(b) > 0 {
			f1[cname(fn)] = true
			if os.Getenv("ARCHECHECK_DEBUG") != "" {
				fmt.Fprintln(os.Stderr, "fixture R1:", cname(fn), b[0].why)
			}
		}
		if len(scanSources(fn)) > 0 {
			f2[cname(fn)] = true
		}
		if len(scanAddresses(fn)) > 0 {
			f3[cname(fn)] = true
		}
	}
	fixtureCheck(r, "R1", f1, []string{"badRangeAppend", "badRangeCall", "badMapsDeleteFunc"}, fp)
	fixtureCheck(r, "R2", f2, []string{"badClock", "badRandom", "badGo", "badChan"}, fp)
	fixtureCheck(r, "R3", f3, []string{"badAddrOrder", "badPrintPointer"}, fp)
}

// ---------- C19 ----------

func immutableGlobalType(t types.Type) bool {
	switch x := t.Underlying().(type) {
	case *types.Basic:
		return x.Kind() != types.UnsafePointer
	case *types.Interface:
		// reflect.Type only
		if n, ok := t.(*types.Named); ok && n.Obj().Pkg() != nil && n.Obj().Pkg().Path() == "reflect" && n.Obj().Name() == "Type" {
			return true
		}
	}
	return false
}

type globalWrite struct {
	fn   *ssa.Function
	ins  ssa.Instruction
	path string
}

func scanGlobalWrites(funcs []*ssa.Function) []globalWrite {
	var out []globalWrite
	for _, fn := range funcs {
		for _, b := range fn.Blocks {
			for _, ins := range b.Instrs {
				for _, w := range directWrites(ins) {
					if strings.HasPrefix(w.Path, "global:") {
						out = append(out, globalWrite{fn, ins, w.Path})
					}
				}
			}
		}
	}
	return out
}

// deadSinkWrite: the write is in a block dominated by the true edge of a test of a package-level boolean that no function writes.
func deadSinkWrite(w globalWrite, all []globalWrite) bool {
	mf := &MustFlow{Fn: w.fn, EdgeGen: func(b *ssa.BasicBlock, k int) bool {
		atom, holds, ok := edgeCond(b, k)
		if !ok || !holds {
			return false
		}
		u, ok := atom.(*ssa.UnOp)
		if !ok || u.Op != token.MUL {
			return false
		}
		pa, _, _, ok := addrPath(u.X, 0)
		if !ok || !strings.HasPrefix(pa, "global:") {
			return false
		}
		for _, o := range all {
			if o.path == pa || strings.HasPrefix(o.path, pa+".") || strings.HasPrefix(pa, o.path+".") {
				return false // the guard itself has a writer
			}
		}
		return true
	}}
	mf.Run()
	return mf.Before(w.ins)
}

func c19r1(p *Prog, r *Reporter) {
	// types of package-level variables
	var pkgs []string
	for n := range p.SSAPkg {
		pkgs = append(pkgs, n)
	}
	sort.Strings(pkgs)
	writes := scanGlobalWrites(p.Funcs)
	for _, pn := range pkgs {
		sp := p.SSAPkg[pn]
		var names []string
		for n, m := range sp.Members {
			if _, ok := m.(*ssa.Global); ok && !strings.HasPrefix(n, "init$") {
				names = append(names, n)
			}
		}
		sort.Strings(names)
		for _, n := range names {
			g := sp.Members[n].(*ssa.Global)
			t := g.Type().(*types.Pointer).Elem()
			name := pn + "." + n
			written := false
			for _, w := range writes {
				if (w.path == "global:"+n || strings.HasPrefix(w.path, "global:"+n+".") || strings.HasPrefix(w.path, "global:"+n+"[")) && w.fn.Pkg == sp {
					written = true
				}
			}
			if immutableGlobalType(t) {
				r.OKt(name, "package-level variable type", p.Pos(g.Pos()), "immutable type "+t.String())
			} else if allWritesDead(n, sp, writes) && !readOutsideGuard(p, g) {
				r.OK(name, "package-level variable type", p.Pos(g.Pos()), "mutable type "+t.String()+", but it is a never-executed sink: its only writes are guarded by a package-level boolean that nothing writes")
			} else {
				r.Bad(name, "package-level variable type", p.Pos(g.Pos()), "a package-level variable of mutable type "+t.String()+" is shared by all worlds")
			}
			_ = written
		}
	}
	for _, w := range writes {
		name := p.FuncName(w.fn)
		if cname(w.fn) == "init" || strings.HasPrefix(cname(w.fn), "init#") || w.fn.Synthetic == "package initializer" {
			continue
		}
		if deadSinkWrite(w, writes) {
			r.OK(name, "write "+w.path, p.Pos(posOf(w.ins)), "dead write: guarded by a package-level boolean that no function writes (escape-analysis sink idiom)")
		} else {
			r.Bad(name, "write "+w.path, p.Pos(posOf(w.ins)), "a package-level variable is written after initialisation: worlds are no longer isolated")
		}
	}
}

func allWritesDead(n string, sp *ssa.Package, writes []globalWrite) bool {
	any := false
	for _, w := range writes {
		if w.fn.Pkg != sp {
			continue
		}
		if w.path == "global:"+n || strings.HasPrefix(w.path, "global:"+n+".") {
			if w.fn.Synthetic == "package initializer" {
				return false
			}
			any = true
			if !deadSinkWrite(w, writes) {
				return false
			}
		}
	}
	return any
}

// readOutsideGuard: the global's mutable part is read somewhere other than as the guard (conservative: any load of a non-bool field).
func readOutsideGuard(p *Prog, g *ssa.Global) bool {
	for _, fn := range p.Funcs {
		for _, b := range fn.Blocks {
			for _, ins := range b.Instrs {
				u, ok := ins.(*ssa.UnOp)
				if !ok || u.Op != token.MUL {
					continue
				}
				root := u.X
				for {
					if fa, ok := root.(*ssa.FieldAddr); ok {
						root = fa.X
						continue
					}
					break
				}
				if root != ssa.Value(g) {
					continue
				}
				if bt, ok := u.Type().Underlying().(*types.Basic); ok && bt.Kind() == types.Bool {
					continue
				}
				return true
			}
		}
	}
	return false
}

func scanConcurrency(fn *ssa.Function) (bad []finding) {
	for _, f := range scanSources(fn) {
		if strings.HasPrefix(f.what, "go ") || strings.Contains(f.what, "chan") || f.what == "select" {
			bad = append(bad, f)
		}
	}
	for _, site := range callsIn(fn) {
		if sc := site.Common().StaticCallee(); sc != nil && sc.Pkg != nil {
			if pth := sc.Pkg.Pkg.Path(); pth == "sync" || pth == "sync/atomic" {
				bad = append(bad, finding{fn, site.Pos(), "call " + pth + "." + cname(sc), "synchronisation primitive: shared state between goroutines"})
			}
		}
	}
	return
}

func c19r2(p *Prog, r *Reporter) {
	var bad []finding
	for _, fn := range p.Funcs {
		bad = append(bad, scanConcurrency(fn)...)
	}
	report(p, r, bad, len(p.Funcs), "background activity")
}

func c19fixture(p *Prog, r *Reporter) {
	fp, err := loadFixture()
	if err != nil {
		r.Bad("fixture", "load", "-", err.Error())
		return
	}
	writes := scanGlobalWrites(fp.funcs)
	f1, f2 := map[string]bool{}, map[string]bool{}
	for _, w := range writes {
		if !deadSinkWrite(w, writes) {
			f1[cname(w.fn)] = true
		}
	}
	for _, fn := range fp.funcs {
		if len(scanConcurrency(fn)) > 0 {
			f2[cname(fn)] = true
		}
	}
	fixtureCheck(r, "R1", f1, []string{"badGlobalWrite", "badGlobalScratch"}, fp)
	fixtureCheck(r, "R2", f2, []string{"badGo", "badChan"}, fp)
}
